"""C15 — JSON output is always valid, schema-conformant and self-consistent (partial: serde_json's writer is assumed)."""
import json
import os
import re
import struct
import sys

import vlib
from runner import PropBase
from vlib import Rng

from props import c14 as c14mod
from props import c15_schema

sys.path.insert(0, os.path.join(os.path.dirname(os.path.dirname(os.path.abspath(__file__))), "translate"))
import c15_schema as doc_schema      # noqa: E402  the translator's parser of json-schema.md (same tree the Coq DOC_SCHEMA is printed from)

U32 = (1 << 32) - 1
U64 = (1 << 64) - 1
SCHEMA_MD = os.path.join(vlib.REPO, "minidump-processor/json-schema.md")

HOSTILE = [
    "plain", 'quo"te', "back\\slash", "ctl\x01\x1f\x7f", "tab\tnew\nline\r", "nonbmp\U0001F600\U0001D11E", "lossy\ue123\ue124end",
    "sep\u2028\u00e9\u0000z", "", "dir/sub\\leaf.dll", "<script>&amp;'", "\\u0041\\n", "x" * 300, "\"", "\\", "/", "\ue123\ue124",
    "C:\\Program Files\\app\\mod.dll", "/usr/lib/libc.so.6", "trailing/", "\x08\x0c", "\ufffd\ufffe",
]
SYM_HOSTILE = [s for s in HOSTILE if "\n" not in s and "\r" not in s and "\x00" not in s and s.strip() == s and s] + ["a b  c", "f(int, char*)"]


# amd64 encodings planted at the exception's ip: (hex, note)
INSTRUCTIONS = [
    ("8b00", "mov eax,[rax] read"), ("488b4308", "mov rax,[rbx+8] read"), ("8a0424", "mov al,[rsp] read"),
    ("8b0510000000", "mov eax,[rip+0x10] read"), ("8b048b", "mov eax,[rbx+rcx*4] read"), ("483908", "cmp [rax],rcx read"),
    ("3b03", "cmp eax,[rbx] read"), ("8908", "mov [rax],ecx write"), ("48894df8", "mov [rbp-8],rcx write"),
    ("c60001", "mov byte [rax],1 write"), ("48890424", "mov [rsp],rax write"),
    ("0108", "add [rax],ecx rmw"), ("48832801", "sub qword [rax],1 rmw"), ("ff00", "inc dword [rax] rmw"),
    ("ff4b10", "dec dword [rbx+0x10] rmw"), ("f0480fb10b", "lock cmpxchg [rbx],rcx rmw"), ("48314308", "xor [rbx+8],rax rmw"),
    ("4801d8", "add rax,rbx reg"), ("4889c8", "mov rax,rcx reg"), ("ff10", "call [rax]"), ("ff20", "jmp [rax]"),
    ("ffd0", "call rax"), ("ffe0", "jmp rax"), ("e800010000", "call rel32"), ("eb10", "jmp rel8"), ("c3", "ret"), ("50", "push rax"),
    ("58", "pop rax"), ("ff30", "push [rax]"), ("8f00", "pop [rax]"), ("f7f1", "div ecx"), ("48f738", "idiv qword [rax]"),
    ("f4", "hlt priv"), ("fa", "cli priv"), ("0f01d0", "xgetbv"), ("90", "nop"), ("cc", "int3"), ("0f0b", "ud2"),
    ("a4", "movsb"), ("48a5", "movsq"), ("f3a4", "rep movsb"), ("0fb600", "movzx eax,byte [rax]"), ("0f1000", "movups xmm0,[rax]"),
    ("ffff", "undecodable"), ("06", "invalid in 64-bit"), ("48", "truncated"), ("0f", "truncated 2"), ("c5", "truncated vex"),
]
PROTS = [1, 2, 4, 0x20, 0x40, 0x104, 0x10, 8, 0]
# text of the MozSoftErrors stream: what minidump-writer emits (an array of objects), hostile member names / values inside such objects
# (incl. members called like Address members of the report), and what a damaged dump may hold instead: other JSON shapes, not JSON at all
SOFT_TEXTS = [
    '[{"ListKindMissing": {"kind": "Threads"}}]', '[]', '[{"a": [1, 2.5, null, "x\\"y"]}, {"b": {}}]',
    '[{"InitErrors": [{"StopProcessFailed": {"Stop": "EPERM"}}]}, {"SuspendThreadsErrors": [{"PtraceAttachError": [1234, "EPERM"]}]}]',
    '[{"address": "zz", "offset": 7, "registers": {"rip": "0x1"}, "soft_errors": {"base_addr": "0X10"}}]',
    '[{"k\\u0001\\"q\\\\": "\\ud83d\\ude00 \\u00e9\\n", "n": [-1, 0, 18446744073709551615, -9223372036854775808, true, false]}, {}]',
    '[{"dup": 1, "dup": 2, "z": {"y": {"x": [[], [[]], {}]}}}]', ' [ { "ws" : [ 1 , 2 ] } ] ',
    '7', '-1', '"s"', 'null', 'true', '{"a": 1}', '{}', '["x", 3]', '[{"a": 1}, "x"]', '[[{"a": 1}]]', '[null]', '[{"a": 1}, null]', '[1.5]',
    'not json', '[{"a": 1}', '', '[{"a": 1}] trailing',
]


def hx(s):
    b = s.encode("utf-8")
    return b.hex() if b else "-"


def basename(s):
    i = max(s.rfind("/"), s.rfind("\\"))
    return s if i < 0 else s[i + 1:]


def lossy(s):
    return s.replace("\ue123\ue124", "\ufffdA")


def strict_loads(data):
    def no_const(x):
        raise ValueError("non-standard constant " + x)

    def pairs(p):
        d = {}
        for k, v in p:
            if k in d:
                raise ValueError("duplicate key %r" % k)
            d[k] = v
        return d
    return json.loads(data, parse_constant=no_const, object_pairs_hook=pairs)


def strict_loads_dups(data):
    def no_const(x):
        raise ValueError("non-standard constant " + x)
    return json.loads(data, parse_constant=no_const)


def addr_ok(v, width32):
    if not isinstance(v, str):
        return False
    if width32:
        return bool(re.match(r"^0x[0-9a-f]{8}$", v) or re.match(r"^0x[1-9a-f][0-9a-f]{8,15}$", v))
    return bool(re.match(r"^0x[0-9a-f]{16}$", v))


IP_REGISTER = {"x86": "eip", "amd64": "rip", "arm": "pc", "arm64": "pc", "ppc": "srr0", "ppc64": "srr0", "sparc": "pc", "mips": "pc", "mips64": "pc"}
HEXSTR = re.compile(r"^0x[0-9a-f]{1,16}$")


def doc_conforms(t, v, path="$"):
    """Python twin of Gallina [conforms] over the tree translate/c15_schema.py parses out of json-schema.md; returns None | str.
    (floats are accepted for <f32> here: the real document has `confidence`, the model's does not)"""
    if v is None:
        return None
    k = t[0]
    if k == "leaf":
        n = t[1]
        ok = {"string": isinstance(v, str), "bool": isinstance(v, bool), "hexstring": isinstance(v, str) and bool(HEXSTR.match(v)),
              "u32": isinstance(v, int) and not isinstance(v, bool) and 0 <= v < (1 << 32),
              "u64": isinstance(v, int) and not isinstance(v, bool) and 0 <= v < (1 << 64),
              "f32": isinstance(v, (int, float)) and not isinstance(v, bool), "object": isinstance(v, dict)}[n]
        return None if ok else "%s: expected <%s>, got %r" % (path, n, v)
    if k == "enum":
        if isinstance(v, str) and v in t[1]:
            return None
        if t[2] is not None and doc_conforms(t[2], v, path) is None:
            return None
        return "%s: %r is not one of the documented values %s" % (path, v, "|".join(t[1]))
    if k == "arr":
        if not isinstance(v, list):
            return "%s: expected an array" % path
        for i, x in enumerate(v):
            e = doc_conforms(t[1], x, "%s[%d]" % (path, i))
            if e:
                return e
        return None
    if k == "map":
        if not isinstance(v, dict):
            return "%s: expected an object" % path
        for kk, x in v.items():
            e = doc_conforms(t[1], x, "%s.%s" % (path, kk))
            if e:
                return e
        return None
    if k == "obj":
        if not isinstance(v, dict):
            return "%s: expected an object" % path
        d = dict(t[1])
        for kk, x in v.items():
            if kk not in d:
                return "%s: member %r is not documented in json-schema.md" % (path, kk)
            e = doc_conforms(d[kk], x, "%s.%s" % (path, kk))
            if e:
                return e
        return None
    return "%s: internal: schema node %r" % (path, k)


class C15(PropBase):
    pid = "C15"
    coq_dirs = ["Base", "C08", "C19", "C15"]
    translators = ["c15_enums.py", "bitflip_consts.py", "c19_check.py", "c15_schema.py", "c15_keys.py", "c15_fmt.py", "c15_regs.py"]
    bins = ["c15"]
    has_model_driver = False        # two-stage: the model renders from the facts the harness prints (see extra)
    impl_mem_gb = 6
    rule = ("a case is a C14 dump description plus hostile thread / module / unloaded-module names (quotes, backslashes, control "
            "characters, NUL, non-BMP, lone surrogates decoded lossily, path separators, 300 characters, equal basenames in different directories) and "
            "breakpad symbol files with hostile function / file names for some modules, frames placed inside FUNC / PUBLIC records; every CPU incl. "
            "ppc / sparc / mips / unknown, every OS; threads and crashing threads without frames; amd64 instruction bytes / registers / memory info at the "
            "crash ip; Linux / macOS extra streams; and state overrides (section ST) the harness applies to the ProcessState after process_minidump: assertion, "
            "cert_info, symbol_stats incl. extra debug info, another requesting thread, trusts prewalked / cfi_scan, last_error_value, mac_crash_info, "
            "Limit::Error, pid, extra inlines. The harness calls the real print_json(pretty=false/true). Non-trivial = the report has a crashing_thread copy "
            "or a frame with a function; distinct = distinct case lines")
    trusted_base = [
        "Coq 8.16.1 kernel (vm_compute in the finite checks c15_enumerations / c15_source_keys_documented / c15_format_pinned / c15_register_tables / c15_confidence_text / c15_widening_flocq / *_rejects and the "
        "non-vacuity Examples); standard library DecimalN (N.to_uint / N.of_uint round trip), Permutation, Sorted, QArith; Flocq (binary32 arithmetic of C19's confidence model, b32_of_bits, binary_normalize: "
        "c15_confidence_text / c15_b32_decode / c15_widening_flocq depend on the classical-reals axioms of the standard library through Flocq)",
        "hand-written model C15/Model.v of print_json, json_registers and Address Display: the WHOLE document (soft_errors included since round 5); the member "
        "possible_bit_flips[].confidence is a binary32 and is modelled as TEXT outside the integer-only JSON type (C15/Float.v: render_f32 = widening to binary64, shortest decimal that reads back, ryu's layout - "
        "compared with the number print_json wrote for every reported bit flip; the compared view of the document is the real output minus that member); C15/Pretty.v models serde_json's PrettyFormatter (two-space indent). Tied to the code by comparing the model's compact AND pretty "
        "renderings byte for byte with the real output on every case and both build profiles (pretty: with print_json's own bytes whenever nothing had to be removed from "
        "the view, else with serde_json::to_string_pretty of the view)",
        "serde_json's writer is ASSUMED to emit what [serialise] / [pretty] emit; checked on every case, and the model's own parsers (parse, parse_ws) must accept the real documents",
        "extraction ExtrOcamlBasic; ocaml/c15/main.ml (facts reader; bytes <-> code points go through the extracted Gallina UTF-8 codec of c15_utf8); harness/src/bin/c15.rs + c14.rs (dump synthesis, facts printer: "
        "string-valued members such as debug ids, versions, crash reasons are read through the same public accessors print_json calls and passed through; the state's soft_errors value is passed as its compact text)",
        "translate/c15_schema.py: a parser of the ```rust,ignore block of json-schema.md (objects, arrays, alternatives, leaf types, the register map notation; the "
        "abbreviated crashing_thread listing must be contained in threads[] and is replaced by it) - aborts on anything else; translate/c15_keys.py: regexes over "
        "print_json's json! keys, map[..] / insert(..) calls and the serde-derived bit-flip structs; translate/c15_fmt.py: regexes over impl Display for Address, From<Address> for String, "
        "json_hex, set_print_context and impl Serialize for Limit; translate/c15_regs.py: regexes over the CpuContext impls of minidump/src/context.rs (type Register, const REGISTERS), "
        "format_register and json_registers; translate/c15_enums.py as before",
        "props/c15_schema.py (hand transcription) and the Python twin of [conforms] over the translated tree must agree on every report; Python's json module is the "
        "oracle's independent JSON parser",
    ]
    assumptions = [
        "partial: serde_json's byte-level writer and pretty printer are assumed (modelled by serialise / pretty, compared byte for byte, not verified); so is ryu's shortest-decimal writer for the confidence "
        "(modelled by render_f32, compared on every reported bit flip, judged by conf_text_ok on every real text; the judgement's rounding interval is exact rational arithmetic - c15_confidence_interval - and its "
        "widening agrees with Flocq's binary_normalize - c15_widening_flocq -, but it is not connected to a formal IEEE-754 decimal reader)",
        "wf_state and state_scalar (hypotheses of c15_report_valid / c15_schema_conformance / c15_address_widths) are executable predicates; the run evaluates them on every real state and "
        "reports a state outside them (only Os::Unknown, finding F-C15a, is a recorded exception); wf_state's arithmetic clauses are the C08 / C11 / C14 conclusions",
        "string contents the model passes through (debug_id, code_id, version, crash reason, last_error_value texts, instruction text) are not modelled beyond being strings of scalar values",
    ]
    manifest = {
        "text": "partial: serde_json's writer is assumed (modelled by Gallina serialisers for the compact and the pretty form that the run compares byte for byte with the real output of the whole "
                "document on every case; the binary32 confidence as text, per reported bit flip). Theorems (Coq, all values / all process states, both build profiles): "
                "c15_report_valid - for every well-formed state whose strings are Unicode scalar values print_json produces a report without trap that conforms to DOC_SCHEMA (the schema tree "
                "translate/c15_schema.py regenerates from json-schema.md on every run: member names documented and unique, documented types or null, documented enumeration strings, hex strings 0x + 1..16 "
                "lower-case digits), and BOTH renderings (compact, pretty) are valid UTF-8 (strict decoder) and are accepted by an RFC 8259 parser with insignificant whitespace, denoting exactly the report; "
                "c15_serialise_parse / c15_pretty_parse / c15_utf8 / c15_pretty_utf8 / c15_schema_conformance are its parts, stated for every JSON value; c15_soft_errors - the free-form soft-errors stream "
                "is reported only as an array of objects, for every stream content (finding F-C15d fixed in /repo); c15_address_widths + c15_register_tables - every Address-valued member is padded to the state's "
                "pointer width, register names never collide with Address members (register files regenerated from context.rs); c15_address_denotes / c15_address_injective / c15_modules_denote - the digits denote "
                "the FULL 64-bit value for every pointer width (32-bit: minimum padding, never truncation); c15_format_semantics / c15_format_pinned - address_str and the proc_limits values are exactly what the "
                "format strings / serializer arms translate/c15_fmt.py reads off the source write; c15_proc_limits - limits sorted by name, a permutation of the table, numeric limits are JSON numbers for every u64; "
                "c15_consistent / c15_offsets_checker - Gallina checkers of the self-consistency clauses on a JSON value alone (thread_count / frame_count / frame numbers / missing_symbols / the crashing_thread copy = "
                "indexed thread + threads_index + registers in frame 0 only / num_records; module_offset = offset - base_addr of a module of that name, on the decoded numbers) hold of every well-formed state's report; "
                "c15_keys_sorted (every object of the report strictly sorted by member name, as a BTreeMap writes it); c15_basename (rfind + slice, separators read off utils.rs); c15_parse_ws_extends; "
                "c15_function_offsets - function_offset = offset - function base on the decoded numbers of the document, the base taken from the state's frame (judgement [fn_offsets_ok], every well-formed state); "
                "c15_confidence_text - for EVERY bit-flip details value (C19's exact Flocq model of confidence()) the text rendered for the binary32 confidence is an RFC 8259 number that lies in the round-to-nearest-even "
                "interval of the widened value (reads back as exactly that binary32), lies within [0,1] and has no shorter equivalent (finite check over the 80 classes of details, extended by C19's clamp lemma); "
                "c15_confidence_judgement / c15_confidence_interval / c15_b32_decode / c15_widening_flocq say what that judgement means (rational inequalities; decoder = Flocq's b32_of_bits for every pattern); "
                "c15_counts / c15_frame_numbers / c15_offsets / c15_modules_mirror / c15_crashing_thread_copy; finite checks over regenerated tables: c15_enumerations, c15_source_keys_documented. The Gallina "
                "checkers [conforms DOC_SCHEMA], [widths], [consistent], [offsets_ok], [fn_offsets_ok], [conf_text_ok], [keys_sorted], [parse_ws] and the hypotheses [wf_state], [state_scalar], [regs_from_table], [frames_in_modules], [keys_hyp] are also evaluated on every real "
                "output / state of the run. Generated states cover "
                "every optional member, malformed soft-errors streams and 32-bit platforms with addresses >= 2^32 (coverage counts in the evidence).",
        "note": "Trusted: Coq kernel + DecimalN; hand-written model (correspondence-checked byte for byte against print_json's compact and pretty output); serde_json writer assumed; schema translator + hand "
                "transcription cross-checked. Not exhibited by the model: serde_json's byte-level writer (incl. ryu), the text of pass-through strings.",
    }

    def setup(self):
        vlib.ocaml_build(self.pid)

    # ------------------------------------------------------------------ generation
    def gen_case(self, rng, dist, base):
        c = base.make_case(rng, {})
        if rng.chance(1, 3):
            c.arch, c.trunc, c.bits32 = 9, False, False
        # 32-bit platforms with values of 2^32 and more in Address members: a module that ends exactly at 0x1_0000_0000 (end_addr needs
        # 9 digits), a module / unloaded module record with a 64-bit base
        if c.arch in c14mod.ARCH_W32 and c.mods and rng.chance(1, 4):
            i = rng.below(len(c.mods))
            s = c.mods[i][1] if 0 < c.mods[i][1] <= 0x10000000 else 0x10000
            nb = rng.choice([(1 << 32) - s, (1 << 32) - s, (1 << 32), 0x1234_5678_9abc_0000])
            if all(j == i or b + sz <= nb or nb + s <= b for j, (b, sz) in enumerate(c.mods)):
                c.mods[i] = (nb, s)
                dist["module_at_or_above_2^32_on_32bit"] = dist.get("module_at_or_above_2^32_on_32bit", 0) + 1
        good = [i for i, (b, s) in enumerate(c.mods) if s != 0 and b + s <= U64 and s >= 0x1000]
        symmods = [i for i in good if rng.chance(1, 2)]
        # place frames inside symbolised modules
        for t in c.threads + ([c.exc] if c.exc else []):
            if good and rng.chance(1, 2):
                i = rng.choice(good)
                b, s = c.mods[i]
                off = rng.choice([0x100, 0x101, 0x2ff, 0x300, 0x1000, 0x1004, 0x50, 0xfff, 0x10a])
                if off < s:
                    ip = b + off
                    t["ip"] = ip & U32 if c.trunc else ip
        tail = self.gen_instruction_tail(rng, c, dist)
        tn = [rng.choice(HOSTILE) for _ in range(rng.choice([0, 1, 2, 3]))]
        mn = []
        for i in range(len(c.mods)):
            if rng.chance(2, 3):
                mn.append(rng.choice(HOSTILE) + (".m%d" % i))
            else:
                mn.append("/lib/m%02d.so" % i)
        for i in range(1, len(mn)):
            if rng.chance(1, 8):       # two modules with the same basename in different directories share symbol stats / cert info
                mn[i] = "/other/dir%d/" % i + basename(mn[rng.below(i)])
        un = [rng.choice(HOSTILE) if rng.chance(1, 2) else "u%02d" % (i % 3) for i in range(len(c.unl))]
        syms = []
        for i in symmods:
            fn, fl, pub = rng.choice(SYM_HOSTILE), rng.choice(SYM_HOSTILE), rng.choice(SYM_HOSTILE)
            text = "MODULE Linux x86 000000000000000000000000000000000 m\nFILE 0 %s\n" % fl
            if rng.chance(1, 3):
                text += "INLINE_ORIGIN 0 %s\n" % rng.choice(SYM_HOSTILE)
                text += "FUNC 100 200 0 %s\nINLINE 0 7 0 0 100 10\n100 10 42 0\n110 1f0 43 0\n" % fn
            else:
                text += "FUNC 100 200 0 %s\n100 10 42 0\n110 1f0 4294967295 0\n" % fn
            text += "PUBLIC 1000 0 %s\n" % pub
            if rng.chance(1, 2):       # call frame info so that frames recovered with trust "cfi" occur
                if c.arch in (0, 10):
                    text += "STACK CFI INIT 100 200 .cfa: $esp 4 + .ra: .cfa 4 - ^\n"
                elif c.arch == 9:
                    text += "STACK CFI INIT 100 200 .cfa: $rsp 8 + .ra: .cfa 8 - ^\n"
                elif c.arch == 12:
                    text += "STACK CFI INIT 100 200 .cfa: sp 16 + .ra: .cfa -8 + ^\n"
            syms.append((i, text))
        line = base.format_case(c)
        line += " X TN %d %s MN %d %s UN %d %s SYM %d %s" % (
            len(tn), " ".join(hx(s) for s in tn), len(mn), " ".join(hx(s) for s in mn), len(un), " ".join(hx(s) for s in un),
            len(syms), " ".join("%d %s" % (i, hx(t)) for i, t in syms))
        line += " " + tail
        st = self.gen_state_overrides(rng, c, mn, un, dist)
        if st:
            line += " ST %d %s" % (len(st), " ".join(st))
        dist["with_symbols"] = dist.get("with_symbols", 0) + bool(syms)
        dist["width_%s" % ("32" if c.arch in c14mod.ARCH_W32 else "64" if c.arch in (9, 12, 0x8002, 0x8003, 0x8004) else "unknown")] = \
            dist.get("width_%s" % ("32" if c.arch in c14mod.ARCH_W32 else "64" if c.arch in (9, 12, 0x8002, 0x8003, 0x8004) else "unknown"), 0) + 1
        return " ".join(line.split())

    def gen_state_overrides(self, rng, c, mn, un, dist):
        """directives the harness applies to the ProcessState after process_minidump: members no dump stream of the generator
        reaches (assertion, cert info, symbol statistics incl. extra debug info / url / corrupt, mac crash info, Limit::Error,
        last_error_value, trusts prewalked / cfi_scan, another requesting thread, extra inlines)"""
        if not rng.chance(3, 5):
            return []
        st = []
        hs = lambda: hx(rng.choice(HOSTILE))
        modnames = [basename(lossy(n)) for n in mn] + [lossy(n) for n in un] + ["nosuch.dll"]
        if rng.chance(1, 3):
            st.append("assert " + hs())
        for _ in range(rng.choice([0, 0, 1, 2])):
            st.append("cert %s %s" % (hx(rng.choice(modnames)), hs()))
        for _ in range(rng.choice([0, 0, 1, 2])):
            extra = rng.chance(1, 2)
            st.append("stat %s %s %d %d %s %s" % (
                hx(rng.choice(modnames)), rng.choice(["-", hs(), hx("https://symbols.example/x.sym?a=\"b\"")]), rng.below(2), rng.below(2),
                (rng.choice([hx("C:\\dbg\\x.pdb"), hx("/usr/lib/debug/l\u00e9.so"), hs()]) if extra else "-"),
                (rng.choice(["5A9832E5287241C1838ED98914E9B7FF1", "000000000000000000000000000000000", "FFFFFFFFFFFFFFFFFFFFFFFFFFFFFFFFffffffff", "-"]) if extra else "-")))
        nt = len(c.threads)
        if nt and rng.chance(1, 4):
            st.append("req %s" % rng.choice(["-"] + [str(i) for i in range(nt)]))
        for _ in range(rng.choice([0, 0, 1, 3])):
            if nt:
                st.append("trust %d %d %d" % (rng.below(nt), rng.below(4), rng.range(1, 6)))
        if c.mods and rng.chance(1, 3):
            # the VS_FIXEDFILEINFO of a module: right / wrong signature and struct version, extreme version words
            w32 = lambda: rng.choice([0, 1, 0xffff, 0x10000, 0x00010002, U32, rng.below(1 << 32)])
            st.append("ver %d %d %d %d %d %d %d" % (rng.below(len(c.mods)), rng.choice([0xfeef04bd, 0xfeef04bd, 0xfeef04bd, 0, 0xfeef04be]),
                                                  rng.choice([0x10000, 0x10000, 0x10000, 0, 0x10001]), w32(), w32(), w32(), w32()))
        if nt and rng.chance(1, 4):
            # frame 0 of a thread (mostly the requesting one) keeps only some of its general-purpose registers valid
            st.append("valid %d %d" % (rng.below(nt), rng.choice([0, 1, 5, 0x88, 0xff, 0x12, rng.below(256)])))
        if nt and rng.chance(1, 3):
            st.append("lasterr %d %d" % (rng.below(nt), rng.choice([0, 5, 0xC0000005, 1450, U32, 0x80070057, 87])))
        if rng.chance(1, 6):
            n = rng.range(1, 2)
            recs = []
            for _ in range(n):
                recs.append("%d %d %d %s %s %s %s %s" % (rng.choice([0, 1, U64, 1 << 32]), rng.choice([0, 2]), rng.choice([0, U64, 7]),
                                                         hs(), hs(), rng.choice(["-", hs()]), hs(), rng.choice(["-", hs()])))
            st.append("mac %d %s" % (n, " ".join(recs)))
        for _ in range(rng.choice([0, 0, 0, 1, 3])):
            lv = lambda: rng.choice(["e", "u", "0", str(U64), str(rng.below(1 << 40))])
            st.append("limit %s %s %s %s" % (hx(rng.choice(["Max open files", "Max \u00e9", "A", "a", "Max cpu time", rng.choice(HOSTILE)])), lv(), lv(), hs()))
        if rng.chance(1, 8):
            st.append("pid %s" % rng.choice(["-", "0", str(U32), "4242"]))
        if nt and rng.chance(1, 3):
            # one to three inline frames pushed onto ONE frame (mostly frame 0, which exists whenever the thread has frames): their order is observable
            t_, f_ = rng.below(nt), rng.choice([0, 0, 0, 1, 2])
            for _ in range(rng.choice([1, 2, 2, 3])):
                st.append("inl %d %d %s %s %s" % (t_, f_, hs(), rng.choice(["-", hs()]), rng.choice(["-", "0", str(U32), "17"])))
        if rng.chance(1, 10):
            st.append("nobootargs")
        if nt and rng.chance(1, 16):
            # deep thread (runaway recursion; the walker has no frame limit): a crashing or non-crashing thread with exactly n frames, n around
            # the powers of two a reporting cap would pick; frame_count = len(frames), frame = position and the crashing_thread copy judge it
            st.append("deep %d %d" % (rng.below(nt), rng.choice([0, 1, 255, 256, 257, 1023, 1024, 1025, 1025, 1100, 4096])))
        for d in st:
            dist["st_" + d.split()[0]] = dist.get("st_" + d.split()[0], 0) + 1
        return st

    def gen_instruction_tail(self, rng, c, dist):
        """amd64 crash with instruction bytes at the exception ip, registers, memory info; Linux extras"""
        ins, regs, minfo = "-", [], []
        osc = c14mod.os_class(c.platform)
        if c.arch == 9 and c.threads and rng.chance(4, 5):
            A = rng.choice([0x00007f0012345678, rng.below(1 << 47) & ~7, 0x10, 0x1008, 0, 0x0000800000001230, 0xffff7fffffffe000,
                            U64, 0x00007ffff7dd1000 ^ (1 << rng.below(47)), 0x00007ffff7dd1008])
            hexs, note = rng.choice(INSTRUCTIONS)
            ins = hexs
            pois = [0xe5e5e5e5e5e5e5e5, 0x2b2b2b2b2b2b2b2b, 0, 1, U64]
            regs = [rng.choice([A, (A + rng.range(-64, 64)) & U64, rng.below(1 << 64), rng.choice(pois)]) for _ in range(16)]
            regs[0] = A if rng.chance(3, 4) else regs[0]                       # [rax]
            regs[3] = (A - rng.choice([8, 0x10, 0])) & U64 if rng.chance(3, 4) else regs[3]   # [rbx+8] / [rbx+0x10] / [rbx]
            regs[5] = (A + 8) & U64 if rng.chance(1, 2) else regs[5]           # [rbp-8]
            regs[1] = rng.choice([0, 1, 2, regs[1]])
            ip = 0x00007ff700001000 + 16 * rng.below(64)
            e = c.exc or dict(tid=0, code=0, flags=0, np=0, i0=0, i1=0, i2=0, addr=0, ck=1, ip=0, sp=0)
            e["ck"] = 1 if rng.chance(9, 10) else e["ck"]
            e["ip"] = ip
            e["sp"] = (c.mems[0][0] + 8 * rng.below(4)) if c.mems and rng.chance(1, 2) else rng.choice([A, 0x7ffd0000, rng.below(1 << 47) & ~7])
            e["tid"] = rng.choice(c.threads)["id"] if rng.chance(4, 5) else e["tid"]
            addr = A if rng.chance(2, 3) else rng.choice([0, U64, ip, rng.below(1 << 47)])
            if osc == c14mod.OS_WIN:
                k = rng.below(8)
                if k <= 3:
                    e["code"], e["np"], e["i0"], e["i1"] = 0xC0000005, rng.choice([2, 2, 2, 1, 0]), rng.choice([0, 1, 8, 0, 1, 3]), addr
                elif k == 4:
                    e["code"] = 0xC0000094
                elif k == 5:
                    e["code"] = 0xC0000096
                elif k == 6:
                    e["code"] = 0xC00000FD
                e["addr"] = ip if rng.chance(1, 2) else addr
            elif osc == c14mod.OS_LINUX:
                e["code"], e["flags"] = rng.choice([(11, 1), (11, 2), (11, 0x80), (7, 0x80), (8, 1), (4, 5), (7, 2), (5, 1), (11, 0)])
                e["addr"] = 0 if e["flags"] == 0x80 and rng.chance(2, 3) else addr
            elif osc == c14mod.OS_MAC:
                e["code"], e["flags"] = rng.choice([(1, 13), (1, 1), (1, 2), (3, 1), (2, 1), (6, 1)])
                e["addr"] = 0 if e["flags"] == 13 and rng.chance(2, 3) else addr
            else:
                e["addr"] = addr
            c.exc = e
            page = A & ~0xfff & U64
            st = rng.below(5)
            if st <= 2 and page + 0x2000 <= U64:
                minfo.append((page, 0x1000, rng.choice(PROTS)))
                if rng.chance(2, 3):
                    minfo.append((page + 0x1000, 0x1000, rng.choice([4, 2, 0x20, 1])))
                if rng.chance(1, 3) and page >= 0x1000:
                    minfo.append((page - 0x1000, 0x1000, rng.choice([4, 2, 1])))
            if st >= 2:
                f = (A ^ (1 << rng.below(47))) & ~0xfff & U64
                if f + 0x1000 <= U64 and all(f + 0x1000 <= b or b + sz <= f for (b, sz, _) in minfo):
                    minfo.append((f, 0x1000, rng.choice([4, 2, 0x20])))
            dist["instruction_" + note.split()[-1]] = dist.get("instruction_" + note.split()[-1], 0) + 1
        cpuinfo = lsb = "-"
        if osc == c14mod.OS_LINUX and rng.chance(1, 2):
            cpuinfo = hx("processor\t: 0\nvendor_id\t: GenuineIntel\nmicrocode\t: %s\n" % rng.choice(["0x1a", "0xffffffffffffffff", "0x0", "zz", "26"]))
            lsb = hx("DISTRIB_ID=%s\nDISTRIB_RELEASE=\"22.04\"\nDISTRIB_CODENAME=%s\nDISTRIB_DESCRIPTION=\"%s\"\n" % (
                rng.choice(["Ubuntu", "de\\b\"ian"]), rng.choice(["jammy", "x\ty"]), rng.choice([s for s in HOSTILE if "\n" not in s and "\r" not in s and "\x00" not in s])))
        limits = soft = maps = "-"
        if osc == c14mod.OS_LINUX and rng.chance(1, 2):
            rows = [("Max cpu time", "unlimited", "unlimited", "seconds"), ("Max open files", "1024", "1048576", "files"),
                    ("Max nice priority", "0", "0", ""), ("Max stack size", "8388608", "unlimited", "bytes"), ("Max weird", "x", "18446744073709551615", "q\"uote")]
            text = "Limit                     Soft Limit           Hard Limit           Units     \n"
            for (n, a, b, u) in rows[:rng.range(1, len(rows))]:
                text += "%-26s%-21s%-21s%-10s\n" % (n, a, b, u)
            limits = hx(text)
            if not minfo:
                maps = hx("10000000-10001000 r-xp 00000000 08:01 1234 /bin/x\n7f0000000000-7f0000002000 rw-p 00000000 00:00 0 [stack]\n")
        if rng.chance(1, 4):
            soft = hx(rng.choice(SOFT_TEXTS))
            dist["soft_errors_stream"] = dist.get("soft_errors_stream", 0) + 1
        # a hand-made amd64 frame record so that a caller recovered through the frame pointer (trust "frame_pointer") occurs:
        # rsp = base, rbp = base+16, [rbp] = saved rbp, [rbp+8] = return address inside the anchor module
        raw = []
        if regs and c.exc and rng.chance(1, 3):
            base = 0x20000000 + 0x1000 * rng.below(4)
            mem = bytearray(64)
            mem[16:24] = (base + 48).to_bytes(8, "little")
            mem[24:32] = (0x70000200 + 16 * rng.below(8)).to_bytes(8, "little")
            raw.append((base, bytes(mem).hex()))
            c.exc["sp"] = base
            regs[5] = base + 16
        handles = []
        if rng.chance(1, 5):
            for i in range(rng.range(1, 3)):
                handles.append((rng.choice([4, 0x1f4, U32, U64, 1 << 40]), hx(rng.choice(["File", "Section", "Event"] + SYM_HOSTILE[:4])),
                                hx(rng.choice(HOSTILE[:8] + ["\\Device\\HarddiskVolume3\\x"]) or "x")))
        bootargs = "-"
        if osc == c14mod.OS_MAC and rng.chance(1, 2):
            bootargs = hx(rng.choice(["-v keepsyms=1", 'amfi="x" \\ y', "\U0001F600 debug=0x144"]))
        dist["frame_pointer_records"] = dist.get("frame_pointer_records", 0) + bool(raw)
        return "INS %s REGS %d %s MINFO %d %s CPUINFO %s LSB %s LIMITS %s SOFT %s MAPS %s RAW %d %s HANDLES %d %s BOOTARGS %s" % (
            ins, len(regs), " ".join(map(str, regs)), len(minfo), " ".join("%d %d %d" % m for m in minfo), cpuinfo, lsb, limits, soft, maps,
            len(raw), " ".join("%d %s" % r for r in raw), len(handles), " ".join("%d %s %s" % h for h in handles), bootargs)

    def gen_cases(self, tier, seed):
        rng = Rng(seed * 7919 + 15)
        base = c14mod.PROP
        dist = {}
        n = 1000 if tier == "quick" else 8000
        return [self.gen_case(rng, dist, base) for _ in range(n)], dist, False

    # ------------------------------------------------------------------ oracle
    @staticmethod
    def conf_texts(compact_text):
        """the number literals (as written) of crash_info.possible_bit_flips[].confidence, by position in the document (not by a text search:
        a soft-errors object or a hostile name may contain the word)"""
        class Lit(str):
            pass
        try:
            d = json.loads(compact_text, parse_float=Lit, parse_int=Lit, parse_constant=Lit)
        except ValueError:
            return []
        ci = d.get("crash_info") if isinstance(d, dict) else None
        fl = (ci.get("possible_bit_flips") if isinstance(ci, dict) else None) or []
        out = []
        for f in fl if isinstance(fl, list) else []:
            c = f.get("confidence") if isinstance(f, dict) else None
            out.append("null" if c is None else str(c) if isinstance(c, Lit) else "?")
        return out

    def split(self, ans):
        parts = ans.split("\t")
        if len(parts) != 6 or not parts[0].startswith("F ") or not parts[1].startswith("V ") or not parts[2].startswith("J ") \
                or not parts[3].startswith("P ") or not parts[4].startswith("C") or not parts[5].startswith("Q "):
            return None
        return parts[0][2:], parts[1][2:], parts[2][2:], parts[3][2:], parts[4][2:], parts[5][2:]

    def oracle(self, case, ans, profile):
        if ans.startswith("P;;"):
            return "processing or print_json panicked: " + ans[3:200]
        sp = self.split(ans)
        if sp is None:
            return "unparseable harness answer " + ans[:80]
        _facts, _view, jhex, phex, confbits, _qhex = sp
        compact_text = None
        docs = []
        for label, h in (("compact", jhex), ("pretty", phex)):
            raw = bytes.fromhex(h) if h != "-" else b""
            try:
                text = raw.decode("utf-8", "strict")
            except UnicodeDecodeError as e:
                return "%s output is not valid UTF-8: %s" % (label, e)
            try:
                docs.append(strict_loads(text))
            except ValueError as e:
                return "%s output is not valid JSON: %s" % (label, e)
            if label == "compact":
                compact_text = text
            if label == "compact" and re.search(r"[\x00-\x1f]", text):
                return "compact output contains a raw control character"
        doc = docs[0]
        if profile == self.profiles[0]:
            self.count_keys(doc, "$")
        if docs[0] != docs[1]:
            return "compact and pretty output differ as JSON values"
        deferred = None
        e = c15_schema.check(doc)
        # the same judgement through the tree translate/c15_schema.py parses out of json-schema.md on this very run (the tree
        # DOC_SCHEMA of the Coq theorem is printed from): the hand transcription and the document must agree on every report
        e2 = doc_conforms(self.doc_tree(), doc)
        if (e is None) != (e2 is None):
            return "schema: the hand transcription says %r, json-schema.md (translated) says %r" % (e, e2)
        if e and ".system_info.os:" in e:      # F-C15a must not hide anything else
            deferred = "schema: " + e
            d2 = dict(doc, system_info=dict(doc["system_info"], os="Linux"))
            e = c15_schema.check(d2)
        if e:
            return "schema: " + e
        base, ext = case.split(" X ", 1)
        c = c14mod.parse_case(base)
        width32 = c.arch in c14mod.ARCH_W32
        # counts / positions
        threads = doc.get("threads")
        if doc.get("thread_count") != len(threads):
            return "thread_count %r but %d threads" % (doc.get("thread_count"), len(threads))
        if len(threads) != len(c.threads):
            return "%d threads in the report, %d in the dump" % (len(threads), len(c.threads))
        mods = doc.get("modules")
        for ti, t in enumerate(threads):
            if t.get("frame_count") != len(t["frames"]):
                return "threads[%d].frame_count %r but %d frames" % (ti, t.get("frame_count"), len(t["frames"]))
            if t.get("thread_id") != c.threads[ti]["id"]:
                return "threads[%d].thread_id %r, dump says %d" % (ti, t.get("thread_id"), c.threads[ti]["id"])
            for fi, f in enumerate(t["frames"]):
                if f.get("frame") != fi:
                    return "threads[%d].frames[%d].frame = %r" % (ti, fi, f.get("frame"))
                if f.get("missing_symbols") != (f.get("function") is None):
                    return "threads[%d].frames[%d].missing_symbols inconsistent with function" % (ti, fi)
                off = int(f["offset"], 16)
                if f.get("module") is not None:
                    cands = [m for m in mods if m["filename"] == f["module"] and int(m["base_addr"], 16) <= off < int(m["end_addr"], 16)]
                    if not cands:
                        return "threads[%d].frames[%d]: no module named %r covers offset %s" % (ti, fi, f["module"], f["offset"])
                    if f.get("module_offset") is None or all(int(f["module_offset"], 16) != off - int(m["base_addr"], 16) for m in cands):
                        return "threads[%d].frames[%d]: module_offset %r is not offset %s minus the module base %s" % (
                            ti, fi, f.get("module_offset"), f["offset"], [m["base_addr"] for m in cands])
                    if f.get("function_offset") is not None:
                        rel = int(f["module_offset"], 16)
                        fo = int(f["function_offset"], 16)
                        want = rel - 0x100 if 0x100 <= rel < 0x300 else rel - 0x1000 if rel >= 0x1000 else None
                        if want is None or fo != want:
                            return "threads[%d].frames[%d]: function_offset %s for module offset %#x (FUNC at 0x100+0x200, PUBLIC at 0x1000)" % (
                                ti, fi, f["function_offset"], rel)
                elif f.get("module_offset") is not None or f.get("function_offset") is not None:
                    return "threads[%d].frames[%d]: offsets without a module" % (ti, fi)
        # crashing thread copy
        ci = doc.get("crash_info") or {}
        idx = ci.get("crashing_thread")
        ct = doc.get("crashing_thread")
        if idx is not None:
            if not (0 <= idx < len(threads)):
                return "crash_info.crashing_thread %r out of range" % idx
            if threads[idx]["frames"]:
                if ct is None:
                    return "no crashing_thread copy although thread %d has frames" % idx
                if ct.get("threads_index") != idx:
                    return "crashing_thread.threads_index %r, crash_info.crashing_thread %r" % (ct.get("threads_index"), idx)
                src = threads[idx]
                for k in src:
                    if k == "frames":
                        continue
                    if ct.get(k, "<absent>") != src[k]:
                        return "crashing_thread.%s = %r differs from threads[%d].%s = %r" % (k, ct.get(k), idx, k, src[k])
                if set(ct) - set(src) != {"threads_index"}:
                    return "crashing_thread has extra keys %s" % sorted(set(ct) - set(src) - {"threads_index"})
                if len(ct["frames"]) != len(src["frames"]):
                    return "crashing_thread has %d frames, threads[%d] has %d" % (len(ct["frames"]), idx, len(src["frames"]))
                for fi, (a, b) in enumerate(zip(ct["frames"], src["frames"])):
                    a2 = dict(a)
                    regs = a2.pop("registers", None)
                    if a2 != b:
                        return "crashing_thread.frames[%d] differs from threads[%d].frames[%d] on shared keys" % (fi, idx, fi)
                    if (fi == 0) != (regs is not None):
                        return "crashing_thread.frames[%d]: registers %s" % (fi, "missing" if fi == 0 else "unexpected")
                    if regs is not None and any(not re.match(r"^0x([0-9a-f]{8}|[0-9a-f]{16})$", v) for v in regs.values()):
                        return "crashing_thread.frames[0].registers: malformed value"
                    # json_registers lists the VALID general-purpose registers: when the state marks only the registers of a mask valid
                    # (directive `valid`, indices below 8) the copy has exactly that many (every modelled register file has >= 8 registers)
                    if regs is not None:
                        masks = [int(a_[1]) for d_, a_ in self.st_directives(ext) if d_ == "valid" and int(a_[0]) == idx]
                        if masks:
                            want_n = bin(masks[-1] & 0xff).count("1")
                            arch = (doc.get("system_info") or {}).get("cpu_arch")
                            if (len(regs) != want_n) if arch in ("x86", "amd64", "arm", "arm64") else (len(regs) > want_n):
                                return "crashing_thread.frames[0].registers lists %d registers, the context marks %d valid" % (len(regs), want_n)
                            self.__dict__["_validchecks"] = self.__dict__.get("_validchecks", 0) + 1
                    # "the indexed thread plus ITS registers": frame 0 is the context frame, so the instruction-pointer register of the
                    # copy must be frame 0's offset (registers of another frame / thread would differ)
                    if regs is not None and a.get("trust") == "context":
                        ipn = IP_REGISTER.get((doc.get("system_info") or {}).get("cpu_arch"))
                        if ipn in regs and int(regs[ipn], 16) != int(a["offset"], 16):
                            return "crashing_thread.frames[0].registers.%s = %s but the frame's offset is %s" % (ipn, regs[ipn], a["offset"])
                        self.__dict__["_ipchecks"] = self.__dict__.get("_ipchecks", 0) + (ipn in regs)
            elif ct is not None:
                return "crashing_thread copy although thread %d has no frames" % idx
        elif ct is not None:
            return "crashing_thread copy without crash_info.crashing_thread"
        # modules mirror the module list of the dump (reader drops unusable image sizes)
        toks = ext.split()
        p = 1
        k = int(toks[p]); p += 1 + k
        assert toks[p] == "MN"
        m = int(toks[p + 1]); mn = toks[p + 2:p + 2 + m]; p += 2 + m
        assert toks[p] == "UN"
        u = int(toks[p + 1]); un = toks[p + 2:p + 2 + u]
        dec = lambda h: "" if h == "-" else bytes.fromhex(h).decode("utf-8")
        names = [dec(mn[i]) if i < len(mn) else "/lib/m%02d.so" % i for i in range(len(c.mods))]
        want = [(b, b + s, basename(lossy(names[i]))) for i, (b, s) in enumerate(c.mods) if s != 0 and b + s <= U64]
        MARK = "\ue123\ue124"
        if any(MARK in names[i] for i, (b, s) in enumerate(c.mods) if s != 0 and b + s <= U64):
            want = []      # a name that is not valid UTF-16 makes the reader give up on the whole list (C01/C02 territory)
        got = [(int(x["base_addr"], 16), int(x["end_addr"], 16), x["filename"]) for x in mods]
        if got != want:
            return "modules array does not mirror the module list: %r vs %r" % (got[:3], want[:3])
        unames = [dec(un[i]) if i < len(un) else "u%02d" % c.unl[i][2] for i in range(len(c.unl))]
        uok = all(s != 0 and b + s <= U64 for (b, s, _) in c.unl)
        wantu = [(b, b + s, lossy(unames[i])) for i, (b, s, _) in enumerate(c.unl)] if uok else []
        if any(MARK in n for n in unames):
            wantu = []
        gotu = [(int(x["base_addr"], 16), int(x["end_addr"], 16), x["filename"]) for x in doc.get("unloaded_modules")]
        if gotu != wantu:
            return "unloaded_modules array does not mirror the unloaded module list"
        # address widths
        def addrs(d):
            yield "crash_info.address", ci.get("address")
            for i, x in enumerate(mods):
                yield "modules[%d].base_addr" % i, x["base_addr"]
                yield "modules[%d].end_addr" % i, x["end_addr"]
            for i, x in enumerate(doc.get("unloaded_modules")):
                yield "unloaded_modules[%d].base_addr" % i, x["base_addr"]
                yield "unloaded_modules[%d].end_addr" % i, x["end_addr"]
            for key in ("address", "offset"):
                yield "crash_info.adjusted_address." + key, (ci.get("adjusted_address") or {}).get(key)
            for i, x in enumerate(ci.get("memory_accesses") or []):
                yield "crash_info.memory_accesses[%d].address" % i, x.get("address")
            yield "crash_info.instruction_pointer_update.address", (ci.get("instruction_pointer_update") or {}).get("address")
            for i, x in enumerate(ci.get("possible_bit_flips") or []):
                yield "crash_info.possible_bit_flips[%d].address" % i, x.get("address")
            for i, x in enumerate((doc.get("mac_crash_info") or {}).get("records") or []):
                for key in ("thread", "dialog_mode", "abort_cause"):
                    yield "mac_crash_info.records[%d].%s" % (i, key), x.get(key)
            for ti, t in enumerate(threads + ([ct] if ct else [])):
                for fi, f in enumerate(t["frames"]):
                    for key in ("offset", "module_offset", "function_offset"):
                        yield "threads[%d].frames[%d].%s" % (ti, fi, key), f.get(key)
                    for um in f.get("unloaded_modules") or []:
                        for o in um["offsets"]:
                            yield "threads[%d].frames[%d].unloaded_modules.offsets" % (ti, fi), o
        wide = 0
        for where, v in addrs(doc):
            wide += bool(width32 and isinstance(v, str) and len(v) > 10)
            if v is not None and not addr_ok(v, width32):
                return "%s = %r is not padded to the platform's pointer width (%s)" % (where, v, "32-bit" if width32 else "64-bit/unknown")
        if profile == self.profiles[0]:
            w32 = self.__dict__.setdefault("_wide32", {"reports_32bit": 0, "reports_32bit_with_address_above_2^32": 0, "addresses_above_2^32": 0})
            w32["reports_32bit"] += bool(width32)
            w32["reports_32bit_with_address_above_2^32"] += bool(wide)
            w32["addresses_above_2^32"] += wide
        # possible_bit_flips[].confidence: the printed decimal must denote exactly the binary32 value (f32::to_bits from the
        # ProcessState), lie in [0,1], and be a shortest round-tripping decimal (what serde_json's ryu writer promises)
        flips = ci.get("possible_bit_flips") or []
        want_bits = [x for x in confbits.split(",") if x]
        texts = self.conf_texts(compact_text)
        if len(flips) != len(want_bits) or len(texts) != len(flips):
            return "possible_bit_flips: %d entries, %d confidences in the state, %d printed" % (len(flips), len(want_bits), len(texts))
        for i, (t, wb) in enumerate(zip(texts, want_bits)):
            if (t == "null") != (wb == "-"):
                return "possible_bit_flips[%d].confidence %s but the state has %s" % (i, t, wb)
            if t == "null":
                continue
            if not re.fullmatch(r"-?(0|[1-9][0-9]*)(\.[0-9]+)?([eE][+-]?[0-9]+)?", t):
                return "possible_bit_flips[%d].confidence %r is not a JSON number" % (i, t)
            bits = struct.unpack("<I", struct.pack("<f", float(t)))[0]
            if bits != int(wb):
                return "possible_bit_flips[%d].confidence prints %s = f32 bits %#x, the state holds %#x" % (i, t, bits, int(wb))
            if not (0.0 <= float(t) <= 1.0):
                return "possible_bit_flips[%d].confidence %s outside [0,1]" % (i, t)
            # print_json goes through serde_json::Value, which widens the f32 to f64: the text is the shortest decimal of
            # the WIDENED value (e.g. 0.3687499761581421), so it must equal that double exactly and be as short as repr()
            wide = struct.unpack("<f", struct.pack("<I", bits))[0]
            if float(t) != wide:
                return "possible_bit_flips[%d].confidence %s is not exactly the binary32 value %r" % (i, t, wide)
            nd = lambda x: len(re.sub(r"[^0-9]", "", re.split(r"[eE]", x)[0]).strip("0")) or 1
            if nd(t) > nd(repr(wide)):
                return "possible_bit_flips[%d].confidence %s is longer than the shortest round-tripping decimal %r" % (i, t, wide)
        if doc.get("pid") is not None and not isinstance(doc.get("pid"), int):
            return "pid not an integer"
        e = self.oracle_new_members(doc, ext)
        if e:
            return e
        return deferred

    def doc_tree(self):
        t = self.__dict__.get("_doc_tree")
        if t is None:
            t = self._doc_tree = doc_schema.parse_schema(open(SCHEMA_MD).read())
        return t

    def st_directives(self, ext):
        if " ST " not in " " + ext:
            return []
        toks = ext.split(" ST ", 1)[1].split()
        ar = {"assert": 1, "cert": 2, "stat": 6, "req": 1, "trust": 3, "lasterr": 2, "limit": 4, "pid": 1, "inl": 5, "nobootargs": 0, "valid": 2, "ver": 7, "deep": 2}
        out, i = [], 1
        while i < len(toks):
            d = toks[i]
            if d == "mac":
                n = int(toks[i + 1])
                out.append((d, toks[i + 2:i + 2 + 8 * n]))
                i += 2 + 8 * n
            else:
                out.append((d, toks[i + 1:i + 1 + ar[d]]))
                i += 1 + ar[d]
        return out

    def oracle_new_members(self, doc, ext):
        """self-consistency of the members round 4 brought into the model, judged on the real output alone"""
        dec = lambda h: "" if h == "-" else bytes.fromhex(h).decode("utf-8")
        st = self.st_directives(ext)
        certs = {}
        for d, a in st:
            if d == "cert":
                certs[dec(a[0])] = dec(a[1])
        if doc.get("modules_contains_cert_info") != bool(certs):
            return "modules_contains_cert_info = %r but the state has %d certificate entries" % (doc.get("modules_contains_cert_info"), len(certs))
        for i, m in enumerate(doc.get("modules") or []):
            if m.get("cert_subject") != certs.get(m.get("filename")):
                return "modules[%d].cert_subject = %r, cert_info[%r] = %r" % (i, m.get("cert_subject"), m.get("filename"), certs.get(m.get("filename")))
            if m.get("missing_symbols") and m.get("loaded_symbols"):
                return "modules[%d]: missing_symbols and loaded_symbols both true" % i
        for i, m in enumerate(doc.get("unloaded_modules") or []):
            if m.get("cert_subject") != certs.get(m.get("filename")):
                return "unloaded_modules[%d].cert_subject = %r, cert_info[%r] = %r" % (i, m.get("cert_subject"), m.get("filename"), certs.get(m.get("filename")))
        same = {}
        for m in doc.get("modules") or []:
            key = tuple(m.get(k) for k in ("loaded_symbols", "missing_symbols", "corrupt_symbols", "symbol_url", "cert_subject"))
            if same.setdefault(m.get("filename"), key) != key:
                return "two modules named %r carry different symbol statistics / certificate" % m.get("filename")
        mc = doc.get("mac_crash_info")
        if mc is not None and mc.get("num_records") != len(mc.get("records") or []):
            return "mac_crash_info.num_records = %r but %d records" % (mc.get("num_records"), len(mc.get("records") or []))
        macs = [a for d, a in st if d == "mac"]
        if macs:
            a = macs[-1]
            recs = (mc or {}).get("records") or []
            if len(recs) != len(a) // 8:
                return "mac_crash_info has %d records, the state %d" % (len(recs), len(a) // 8)
            for i, r in enumerate(recs):
                f = a[8 * i:8 * i + 8]
                for j, key in enumerate(("thread", "dialog_mode", "abort_cause")):
                    want = int(f[j]) or None
                    got = r.get(key)
                    if (got is None) != (want is None) or (got is not None and int(got, 16) != want):
                        return "mac_crash_info.records[%d].%s = %r, the record holds %r" % (i, key, got, want)
                for j, key in enumerate(("module", "message", "signature_string", "backtrace", "message2")):
                    want = dec(f[3 + j]) or None
                    if r.get(key) != want:
                        return "mac_crash_info.records[%d].%s = %r, the record holds %r" % (i, key, r.get(key), want)
        xt = ext.split()
        if "HANDLES" in xt:
            hi = xt.index("HANDLES")
            nh = int(xt[hi + 1])
            # a name that is not valid UTF-16 (the marker pair becomes a lone surrogate) is dropped by the reader (C01/C02 territory)
            nm = lambda h: "" if "\ue123\ue124" in dec(h) else dec(h)
            wanth = [(int(xt[hi + 2 + 3 * i]), nm(xt[hi + 3 + 3 * i]), nm(xt[hi + 4 + 3 * i])) for i in range(nh)]
            goth = [(h.get("handle"), h.get("type_name") or "", h.get("object_name") or "") for h in doc.get("handles") or []]
            if goth != wanth:
                return "handles does not mirror the handle data stream: %r vs %r" % (goth[:3], wanth[:3])
        pl = doc.get("proc_limits")
        if pl is not None:
            names = [x.get("name") for x in pl.get("limits") or []]
            if names != sorted(names, key=lambda s: s.encode("utf-8")) or len(set(names)) != len(names):
                return "proc_limits.limits is not sorted by name without repetition: %r" % names[:6]
        # soft_errors: null or an array of objects (the documented type), and exactly the stream's JSON value when that has the
        # documented shape (Python's json as the independent reader; duplicate member names: the last one wins in both)
        se = doc.get("soft_errors")
        if se is not None and not (isinstance(se, list) and all(isinstance(x, dict) for x in se)):
            return "soft_errors = %r is not an array of objects (json-schema.md: [ <object> ])" % (se,)
        if "SOFT" in xt:
            sh = xt[xt.index("SOFT") + 1]
            try:
                want_se = strict_loads_dups(dec(sh)) if sh != "-" else None
            except ValueError:
                want_se = None
            if not (isinstance(want_se, list) and all(isinstance(x, dict) for x in want_se)):
                want_se = None
            if se != want_se:
                return "soft_errors = %r, the dump's soft-errors stream holds %r" % (se, dec(sh)[:200])
        want_assert = [dec(a[0]) for d, a in st if d == "assert"]
        if (doc.get("crash_info") or {}).get("assertion") != (want_assert[-1] if want_assert else None):
            return "crash_info.assertion = %r, the state's assertion is %r" % ((doc.get("crash_info") or {}).get("assertion"), want_assert[-1:] or None)
        # inline frames keep the order of the state (innermost first, as the symbolizer pushed them): an inline frame the state got
        # LAST (directive `inl`) is the last element of that frame's "inlines"; with several directives for one frame, in directive order
        pushed = {}
        for d, a in st:
            if d == "inl":
                pushed.setdefault((int(a[0]), int(a[1])), []).append((dec(a[2]), None if a[3] == "-" else dec(a[3]), None if a[4] == "-" else int(a[4])))
        self.__dict__["_multi_inl"] = self.__dict__.get("_multi_inl", 0) + sum(
            1 for t in doc.get("threads") or [] for f in t.get("frames") or [] if len(f.get("inlines") or []) >= 2)
        deep_threads = {int(a[0]) for d, a in st if d == "deep"}
        for (ti, fi), want in pushed.items():
            if ti in deep_threads:
                continue          # the thread's frames were truncated / repeated afterwards (directive `deep`)
            ths = doc.get("threads") or []
            if ti >= len(ths) or fi >= len(ths[ti].get("frames") or []):
                continue
            inl = ths[ti]["frames"][fi].get("inlines") or []
            got = [(x.get("function"), x.get("file"), x.get("line")) for x in inl[-len(want):]]
            if got != want:
                return "threads[%d].frames[%d].inlines ends with %r, the state's innermost-first list ends with %r" % (ti, fi, got, want)
        # modules[].version (VS_FIXEDFILEINFO as Win32 documents it: HIWORD.LOWORD of dwFileVersionMS / LS; ELF-style words elsewhere; only
        # when dwSignature = 0xFEEF04BD and dwStrucVersion = 0x00010000) for the module whose version_info directive `ver` set
        vers = {}
        for d, a in st:
            if d == "ver":
                vers[int(a[0])] = [int(t) for t in a[1:7]]
        dm = doc.get("modules") or []
        for i, (sg, sv, fhi, flo, phi, plo) in vers.items():
            if i >= len(dm):
                continue
            if sg != 0xFEEF04BD or sv != 0x10000:
                want_v = None
            elif (doc.get("system_info") or {}).get("os") in ("Windows NT", "Mac OS X", "iOS"):
                want_v = "%d.%d.%d.%d" % (fhi >> 16, fhi & 0xffff, flo >> 16, flo & 0xffff)
            else:
                want_v = "%d.%d.%d.%d" % (fhi, flo, phi, plo)
            if dm[i].get("version") != want_v:
                return "modules[%d].version = %r, its VS_FIXEDFILEINFO (%#x, %#x, %#x, %#x, %#x, %#x) reads %r" % (i, dm[i].get("version"), sg, sv, fhi, flo, phi, plo, want_v)
        # lsb_release: each member is the value of its own key of the dump's lsb-release text (quotes removed)
        if "LSB" in xt and xt[xt.index("LSB") + 1] != "-" and doc.get("lsb_release") is not None:
            kv = {}
            for ln in dec(xt[xt.index("LSB") + 1]).split("\n"):
                if "=" in ln:
                    k_, v_ = ln.split("=", 1)
                    kv[k_.strip(" ")] = v_
            unq = lambda t: t[1:-1] if t is not None and len(t) >= 2 and t[0] == t[-1] == '"' else t
            for key, src in (("id", "DISTRIB_ID"), ("release", "DISTRIB_RELEASE"), ("codename", "DISTRIB_CODENAME"), ("description", "DISTRIB_DESCRIPTION")):
                got = doc["lsb_release"].get(key)
                if src in kv and got is not None and unq(got) != unq(kv[src]) and got.strip(" \t") != unq(kv[src].strip(" \t")):
                    return "lsb_release.%s = %r, the dump's lsb-release text has %s=%s" % (key, got, src, kv[src])
        return None

    # how many reports had each (optional) member present and non-null / non-empty — makes generator gaps visible
    def count_keys(self, v, path):
        cov = self.__dict__.setdefault("_cov", {})
        if isinstance(v, dict):
            for k, x in v.items():
                pk = path + "." + (k if not path.endswith(".registers") else "*")
                if x is None or x == [] or x == {}:
                    cov.setdefault(pk, 0)
                    continue
                cov[pk] = cov.get(pk, 0) + 1
                self.count_keys(x, pk)
        elif isinstance(v, list):
            seen = set()
            for x in v:
                if isinstance(x, (dict, list)):
                    sub = {}
                    old, self._cov = self._cov, sub
                    self.count_keys(x, path + "[]")
                    self._cov = old
                    for k2, n in sub.items():
                        old.setdefault(k2, 0)
                        if n and k2 not in seen:
                            seen.add(k2)
                            old[k2] += 1
                elif isinstance(x, str) and ("crash_inconsistencies" in path):
                    k2 = path + "=" + x
                    if k2 not in seen:
                        seen.add(k2)
                        cov[k2] = cov.get(k2, 0) + 1
        elif isinstance(v, str) and path.rsplit(".", 1)[-1] in ("access_type", "trust", "kind", "cpu_arch", "os"):
            k2 = path + "=" + (v if not v.startswith("0x") else "<hex>")
            cov[k2] = cov.get(k2, 0) + 1

    def nontrivial(self, case, ans):
        return '"crashing_thread":{' in ans.split("\t")[1] or '"missing_symbols":false' in ans.split("\t")[1] if "\t" in ans else False

    # ------------------------------------------------------------------ correspondence (two-stage)
    def extra(self, ctx):
        out = []
        missing = c15_schema.documented(open(SCHEMA_MD).read())
        if missing:
            out.append({"case": None, "profile": "-", "found_input": False,
                        "what": "json-schema.md does not document names the implementation emits: %s" % ", ".join(missing)})
        exe = vlib.ocaml_build(self.pid)
        compared = mism = conf_compared = 0
        wfs = {}
        pretty_whole = {}
        for prof, answers in ctx["impl"].items():
            lines, idx, rtext_of = [], [], {}
            for i, a in enumerate(answers):
                if not a or a.startswith("P;;"):
                    continue
                sp = self.split(a)
                if sp is None:
                    continue
                try:
                    rtexts = self.conf_texts(bytes.fromhex(sp[2]).decode("utf-8")) if sp[2] != "-" else []
                except (ValueError, UnicodeDecodeError):
                    rtexts = []
                hb = [x for x in sp[4].split(",") if x]
                confs = ",".join("%s:%s" % (b_, t_) for b_, t_ in zip(hb, rtexts) if b_ != "-" and t_ != "null") or "-"
                lines.append("%s %s\t%s\t%s\t%s" % ("D" if prof == "debug" else "R", sp[0], sp[1], sp[5], confs))
                rtext_of[len(idx)] = ",".join(rtexts)
                idx.append(i)
            # the extracted UTF-8 codec / serialiser recurse once per code point of a document: give the driver a large stack
            res, dead = vlib.run_lines(["bash", "-c", "ulimit -s 2000000 2>/dev/null || ulimit -s unlimited 2>/dev/null; exec " + exe],
                                       lines, timeout=(1800 if ctx.get("tier") == "quick" else 3300), mem_gb=8)
            if dead:
                raise vlib.CheckFailure("c15 model driver died at %s" % (dead[0],))
            for n_, (i, line, r) in enumerate(zip(idx, lines, res)):
                compared += 1
                view = line.split("\t")[1]
                mview, ok, mconf, wf, rconf, rwid, mpretty, pok, rcons, roff, rsort, mtexts, cok, rfoff = ((r or "").split("\t") + [""] * 14)[:14]
                conf_compared += len([x for x in rtext_of.get(n_, "").split(",") if x])
                spi = self.split(answers[i])
                # the pretty bytes the model must reproduce: print_json(pretty = true)'s own bytes whenever the view is the whole
                # document (nothing removed), else the harness's to_string_pretty of the view
                whole = bytes.fromhex(spi[2]) == view.encode("utf-8") if spi[2] != "-" else False
                want_pretty = spi[3] if whole else spi[5]
                pretty_whole[whole] = pretty_whole.get(whole, 0) + 1
                wfs[wf] = wfs.get(wf, 0) + 1
                os_unknown = " SYS 8 " in line.split("\t", 1)[0]
                what = None
                hconf = self.split(answers[i])[4]
                if mconf != hconf:
                    what = ("correspondence: confidence of the reported bit flips — the exact binary32 model (C19) computes bits [%s] from the "
                            "details the report prints, the state holds [%s]" % (mconf, hconf))
                elif mtexts != rtext_of.get(n_, ""):
                    what = ("correspondence: confidence text — the model renders the binary32 confidences of the bit flips as [%s] (render_f32: widened to binary64, "
                            "shortest decimal that reads back, ryu's layout; theorem c15_confidence_text), print_json wrote [%s]" % (mtexts, rtext_of.get(n_, "")))
                elif cok != "1":
                    what = ("confidence: the Gallina judgement [conf_text_ok] (theorem c15_confidence_text: an RFC 8259 number that reads back as exactly the binary32 value "
                            "of the state, within [0,1], no shorter decimal reads back) rejects a confidence print_json wrote: %s" % line.rsplit("\t", 1)[1][:200])
                elif ok == "1" and rcons != "1":
                    what = ("self-consistency: the Gallina checker [consistent] (theorem c15_consistent: counts, frame numbers, missing_symbols, the crashing_thread "
                            "copy = the indexed thread + threads_index + registers in frame 0 only, num_records) rejects the real print_json document")
                elif ok == "1" and roff != "1":
                    what = ("module offsets: the Gallina checker [offsets_ok] (theorem c15_offsets_checker: a frame that names a module has module_offset = offset - base_addr "
                            "of a module of that name in the modules array, as numbers) rejects the real print_json document")
                elif ok == "1" and rfoff != "1":
                    what = ("function offsets: the Gallina judgement [fn_offsets_ok] (theorem c15_function_offsets: a frame whose function base is fb has fb <= offset and "
                            "function_offset = offset - fb as numbers, no function base => no function_offset; threads and frames in step with the state) rejects the real print_json document")
                elif mview != view:
                    what = "correspondence: the model's rendering of the modelled fields differs from print_json's"
                elif mpretty != want_pretty:
                    what = ("correspondence (pretty): the model's pretty rendering [pretty] differs from the bytes print_json(pretty = true) wrote"
                            if whole else "correspondence (pretty): the model's pretty rendering [pretty] differs from serde_json::to_string_pretty of the view")
                elif pok != "1":
                    what = ("the whitespace-tolerant RFC 8259 parser [parse_ws] (theorem c15_pretty_parse) does not accept the real pretty output, or reads "
                            "another value from it than from the compact output")
                elif ok != "1":
                    what = "correspondence: the model's parser does not accept / reproduce the real view"
                elif ok == "1" and rsort != "1":
                    what = ("member order: the Gallina checker [keys_sorted] (theorem c15_keys_sorted) finds an object of the real print_json document whose member names "
                            "are not in strictly increasing order (serde_json's Map is a BTreeMap)")
                elif wf == "K":
                    what = "hypothesis [keys_hyp] of theorem c15_keys_sorted does not hold on this real process state (register names / soft_errors objects not sorted)"
                elif wf == "M":
                    what = ("a frame's module is not a member of the state's module list (same basename and base): hypothesis [frames_in_modules] of theorem "
                            "c15_offsets_checker does not hold on this real process state")
                elif wf == "R":
                    what = ("the registers of the requesting thread's frame 0 are not taken from the register file of its raw context kind "
                            "(REGISTER_TABLES regenerated from minidump/src/context.rs; hypothesis of c15_register_tables): unknown name or digit count")
                elif wf != "1" and not os_unknown:
                    what = ("the hypotheses [wf_state] of theorem c15_schema_conformance do not hold on this real process state "
                            "(only Os::Unknown, finding F-C15a, is a recorded exception)")
                elif wf == "1" and rwid != "1":
                    what = ("address width: the Gallina walker [widths] (theorem c15_address_widths) finds an Address-valued member of the real "
                            "print_json document that is not padded to the platform's pointer width")
                elif wf == "1" and rconf != "1":
                    what = ("schema: the Gallina checker [conforms DOC_SCHEMA] (schema regenerated from json-schema.md) rejects the real "
                            "print_json document although the state satisfies wf_state")
                if what:
                    mism += 1
                    if len(out) < 6:
                        j = 0
                        while j < min(len(mview), len(view)) and mview[j] == view[j]:
                            j += 1
                        out.append({"case": ctx["cases"][i], "profile": prof, "found_input": True, "what": what,
                                    "model": mview[max(0, j - 80):j + 120], "impl": view[max(0, j - 80):j + 120]})
        ctx["info"]["member_coverage_reports_with_member_present"] = dict(sorted(self.__dict__.get("_cov", {}).items()))
        ctx["info"]["crashing_thread_partially_valid_register_checks"] = self.__dict__.get("_validchecks", 0)
        ctx["info"]["frames_with_two_or_more_inlines"] = self.__dict__.get("_multi_inl", 0)
        ctx["info"]["crashing_thread_ip_register_equals_offset_checks"] = self.__dict__.get("_ipchecks", 0)
        ctx["info"]["address_display_32bit_platforms"] = self.__dict__.get("_wide32", {})
        ctx["info"]["traces_validated_against_impl"] = compared
        ctx["info"]["correspondence_mismatches"] = mism
        ctx["info"]["confidence_texts_compared_with_render_f32"] = conf_compared
        ctx["info"]["pretty_compared_with_print_json_bytes"] = pretty_whole.get(True, 0)
        ctx["info"]["pretty_compared_with_to_string_pretty_of_view"] = pretty_whole.get(False, 0)
        ctx["info"]["states_satisfying_wf_state"] = wfs.get("1", 0)
        ctx["info"]["states_outside_wf_state_os_unknown"] = wfs.get("0", 0)
        return out


PROP = C15()
