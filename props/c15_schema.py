"""Hand transcription of /repo/minidump-processor/json-schema.md (section "Schema") as a plain-Python checker.

Every field may be null or absent ("The Most Important Rule Of This Schema"); unknown keys are reported,
because the document is the list of field names.  `check(doc) -> None | str` (first non-conformance)."""
import re

HEX_RE = re.compile(r"^0x[0-9a-f]{1,16}$")


def U32(v, path):
    if isinstance(v, bool) or not isinstance(v, int) or not (0 <= v < (1 << 32)):
        return "%s: expected <u32>, got %r" % (path, v)


def U64(v, path):
    if isinstance(v, bool) or not isinstance(v, int) or not (0 <= v < (1 << 64)):
        return "%s: expected unsigned integer, got %r" % (path, v)


def F32(v, path):
    if isinstance(v, bool) or not isinstance(v, (int, float)):
        return "%s: expected <f32>, got %r" % (path, v)


def BOOL(v, path):
    if not isinstance(v, bool):
        return "%s: expected <bool>, got %r" % (path, v)


def STR(v, path):
    if not isinstance(v, str):
        return "%s: expected <string>, got %r" % (path, v)


def HEX(v, path):
    if not isinstance(v, str) or not HEX_RE.match(v):
        return "%s: expected <hexstring>, got %r" % (path, v)


def ANY(v, path):
    return None


def ENUM(*names, also=None):
    def f(v, path):
        if isinstance(v, str) and v in names:
            return None
        if also is not None and also(v, path) is None:
            return None
        return "%s: %r is not one of the documented values %s" % (path, v, "|".join(names))
    return f


def ARR(item):
    def f(v, path):
        if not isinstance(v, list):
            return "%s: expected <array>, got %r" % (path, type(v).__name__)
        for i, x in enumerate(v):
            if x is None:
                continue
            e = item(x, "%s[%d]" % (path, i))
            if e:
                return e
    return f


def OBJ(fields, any_key=None):
    def f(v, path):
        if not isinstance(v, dict):
            return "%s: expected <object>, got %r" % (path, type(v).__name__)
        for k, x in v.items():
            if k in fields:
                t = fields[k]
            elif any_key is not None:
                t = any_key
            else:
                return "%s: field %r is not in the documented schema" % (path, k)
            if x is None:
                continue
            e = t(x, "%s.%s" % (path, k))
            if e:
                return e
    return f


TRUST = ENUM("context", "cfi", "frame_pointer", "scan", "cfi_scan", "prewalked", "none")

FRAME = OBJ({
    "frame": U32,
    "trust": TRUST,
    "registers": OBJ({}, any_key=HEX),
    "offset": HEX,
    "module": STR,
    "module_offset": HEX,
    "unloaded_modules": ARR(OBJ({"module": STR, "offsets": ARR(HEX)})),
    "inlines": ARR(OBJ({"function": STR, "file": STR, "line": U32})),
    "function": STR,
    "function_offset": HEX,
    "file": STR,
    "line": U32,
    "missing_symbols": BOOL,
})

THREAD_FIELDS = {
    "thread_name": STR,
    "thread_id": U32,
    "last_error_value": STR,
    "frame_count": U32,
    "frames": ARR(FRAME),
}
THREAD = OBJ(THREAD_FIELDS)
CRASHING_THREAD = OBJ(dict(THREAD_FIELDS, threads_index=U32))

LIMIT = ENUM("unlimited", "err", also=U64)

TOP = OBJ({
    "status": STR,
    "pid": U32,
    "crash_info": OBJ({
        "type": STR,
        "address": HEX,
        "adjusted_address": OBJ({"kind": STR, "address": HEX, "offset": HEX}),
        "instruction": STR,
        "memory_accesses": ARR(OBJ({"address": HEX, "size": U32, "is_likely_guard_page": BOOL,
                                    "access_type": ENUM("read", "write", "readwrite")})),
        "instruction_pointer_update": OBJ({"address": HEX, "is_likely_guard_page": BOOL}),
        "possible_bit_flips": ARR(OBJ({
            "address": HEX,
            "details": OBJ({"was_non_canonical": BOOL, "is_null": BOOL, "was_low": BOOL, "poison_registers": BOOL,
                            "nearby_registers": U32}),
            "confidence": F32,
            "source_register": STR})),
        "crash_inconsistencies": ARR(ENUM("int_div_by_zero_not_possible", "priv_instruction_crash_without_priv_instruction",
                                          "non_canonical_address_falsely_reported", "access_violation_when_access_allowed",
                                          "crashing_access_not_found_in_memory_accesses")),
        "crashing_thread": U32,
        "assertion": STR,
    }),
    "system_info": OBJ({
        "os": ENUM("Windows NT", "Mac OS X", "iOS", "Linux", "Solaris", "Android", "PS3", "NaCl", also=HEX),
        "os_ver": STR,
        "cpu_arch": ENUM("x86", "amd64", "ppc", "ppc64", "sparc", "arm", "arm64", "mips", "mips64", "unknown"),
        "cpu_info": STR,
        "cpu_count": U32,
        "cpu_microcode_version": HEX,
    }),
    "linux_memory_map_count": U32,
    "thread_count": U32,
    "threads": ARR(THREAD),
    "crashing_thread": CRASHING_THREAD,
    "main_module": U32,
    "modules_contains_cert_info": BOOL,
    "modules": ARR(OBJ({
        "base_addr": HEX, "end_addr": HEX, "debug_file": STR, "debug_id": STR, "filename": STR, "code_id": STR,
        "version": STR, "cert_subject": STR, "missing_symbols": BOOL, "loaded_symbols": BOOL, "corrupt_symbols": BOOL,
        "symbol_url": STR})),
    "unloaded_modules": ARR(OBJ({"base_addr": HEX, "end_addr": HEX, "code_id": STR, "filename": STR, "cert_subject": STR})),
    "handles": ARR(OBJ({"handle": U64, "type_name": STR, "object_name": STR})),
    "lsb_release": OBJ({"id": STR, "release": STR, "codename": STR, "description": STR}),
    "proc_limits": OBJ({"limits": ARR(OBJ({"name": STR, "soft": LIMIT, "hard": LIMIT, "unit": STR}))}),
    "mac_crash_info": OBJ({"num_records": U32, "records": ARR(OBJ({
        "thread": HEX, "dialog_mode": HEX, "abort_cause": HEX, "module": STR, "message": STR, "signature_string": STR,
        "backtrace": STR, "message2": STR}))}),
    "mac_boot_args": STR,
    "soft_errors": ARR(OBJ({}, any_key=ANY)),
})

# names the transcription accepts although the pinned json-schema.md did not list them before the
# documentation fix that accompanies this check (see design/C15.md)
DOC_ADDITIONS = {"proc_limits", "mips", "mips64", "cfi_scan", "prewalked", "none"}


def check(doc):
    return TOP(doc, "$")


def documented(schema_md_text):
    """Names from DOC_ADDITIONS that the document at hand does not mention (regression guard for the doc)."""
    return sorted(n for n in DOC_ADDITIONS if ('"%s"' % n) not in schema_md_text)
