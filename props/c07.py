"""C07 — STACK WIN records evaluate exactly as documented (program strings and FPO)."""
import itertools
import re

from runner import PropBase
from vlib import Rng
from props import c06 as C6

U32 = (1 << 32) - 1
M32 = 1 << 32
U64 = (1 << 64) - 1
MODBASE = 0x40000000
SIX = ["eip", "esp", "ebp", "ebx", "esi", "edi"]
ALPHABET = ["+", "-", "*", "/", "%", "@", "^", "=", "$T0", "$eip", "$esp", "$ebp", ".cbLocals", ".raSearch", ".undef", "4", "=4"]
INT_RE = re.compile(r"^[+-]?[0-9]+$")


# ----------------------------------------------------------------------------- reference semantics
# (from the module documentation of walker.rs, "STACK WIN"; independent of coq/C07/Model.v)
class Undoc(Exception):
    """the program uses something the documentation leaves open"""


def win_tokens(prog):
    out = []
    for t in re.split(r"[ \t\n\x0c\r]+", prog):       # split_ascii_whitespace
        if t == "":
            continue
        if t.startswith("=") and len(t) > 1:
            out += ["=", t[1:]]
        else:
            out.append(t)
    return out


def frame_size(rec, gcps):
    fs = rec["locals"] + rec["saved"] + gcps
    return fs if fs <= U32 else None


def ref_framedata(rec, callee, mem, gcps):
    """-> dict of the six outputs that are defined, or None (evaluation fails)"""
    if "esp" not in callee or "ebp" not in callee:
        return None
    esp, ebp = callee["esp"] & U32, callee["ebp"] & U32
    fs = frame_size(rec, gcps)
    if fs is None:
        return None
    prog = rec["rest"]
    ss = ebp + 4 if "@" in prog else esp + fs
    if ss > U32:
        return None
    v = {"$esp": esp, "$ebp": ebp, ".cbParams": rec["params"], ".cbCalleeParams": gcps, ".cbSavedRegs": rec["saved"],
         ".cbLocals": rec["locals"], ".raSearch": ss, ".raSearchStart": ss}
    if "ebx" in callee:
        v["$ebx"] = callee["ebx"] & U32
    st = []

    def as_int(x):
        if isinstance(x, int):
            return x
        if x is None:           # .undef
            return None
        return v.get(x)
    for t in win_tokens(prog):
        if t in ("+", "-", "*", "/", "%", "@"):
            if len(st) < 2:
                return None
            r, l = as_int(st.pop()), as_int(st.pop())
            if r is None or l is None:
                return None
            if t == "+":
                x = (l + r) % M32
            elif t == "-":
                x = (l - r) % M32
            elif t == "*":
                x = (l * r) % M32
            elif t == "/":
                if r == 0:
                    return None
                x = l // r
            elif t == "%":
                if r == 0:
                    return None
                x = l % r
            else:
                if r == 0 or r & (r - 1):
                    return None
                x = l - l % r
            st.append(x)
        elif t == "=":
            if len(st) < 2:
                return None
            r, l = st.pop(), st.pop()
            if not isinstance(l, str):
                return None
            if r is None:
                v.pop(l, None)
            else:
                x = as_int(r)
                if x is None:
                    return None
                v[l] = x
        elif t == "^":
            if not st:
                return None
            p = as_int(st.pop())
            if p is None:
                return None
            x = mem(p)
            if x is None:
                return None
            st.append(x & U32)
        elif t == ".undef":
            st.append(None)
        elif t[0] in "$.":
            st.append(t)
        elif INT_RE.match(t):
            n = int(t)
            if not (-(1 << 63) <= n < (1 << 63)):
                return None         # "limited to i64 precision": not a constant, and not a variable either
            st.append(n % M32)
        else:
            raise Undoc()           # docs call a bare name a variable; the evaluator rejects it
    return {n: v["$" + n] for n in SIX if "$" + n in v}


def ref_fpo(rec, callee, mem, gcps, hasgc):
    """-> dict of caller registers, or None"""
    fs = frame_size(rec, gcps)
    if fs is None or "esp" not in callee:
        return None
    esp = callee["esp"]
    a = esp + fs
    if a > U64:
        return None
    eip = mem(a)
    if eip is None:
        return None
    if not hasgc:
        if "eip" not in callee:
            return None
        if eip == callee["eip"]:
            a += 4
            eip = mem(a) if a <= U64 else None
            if eip is None:
                return None
    out = {"eip": eip, "esp": a + 4}
    if rec["rest"] == "1":
        b = esp + gcps + rec["saved"] - 8
        if b < 0 or b > U64 or mem(b) is None:
            return None
        out["ebp"] = mem(b)
    else:
        if "ebx" in callee:
            out["ebx"] = callee["ebx"]
        if "ebp" not in callee:
            return None
        out["ebp"] = callee["ebp"]
    if any(x > U32 for x in out.values()):
        return None          # a 32-bit walker cannot take the value
    return out


def mk_range(a, s):
    if s == 0 or a + s > U64:
        return None
    return (a, a + s - 1)


def ref_table(recs):
    """insert_win_stack_info + into_rangemap_safe, as documented in parser.rs comments"""
    vec = []
    for r in recs:
        mr = mk_range(r["addr"], r["size"])
        if mr is None:
            continue
        if vec:
            lr, li = vec[-1]
            if lr[0] <= mr[1] and mr[0] <= lr[1]:
                if r["addr"] > li["addr"]:
                    li = dict(li, size=(r["addr"] - li["addr"]) & U32)
                    vec[-1] = (mk_range(li["addr"], li["size"]), li)
                elif lr != mr:
                    continue
        vec.append((mr, r))
    vec.sort(key=lambda e: e[0])
    out = []
    for rg, val in vec:
        if out:
            lr, lv = out[-1]
            if rg[0] <= lr[1] and val != lv:
                continue
            if rg[0] <= min(lr[1] + 1, U64) and val == lv:
                out[-1] = ((lr[0], max(lr[1], rg[1])), lv)
                continue
        out.append((rg, val))
    return out


def table_get(tbl, addr):
    for rg, val in tbl:
        if rg[0] <= addr <= rg[1]:
            return val
    return None


def parse_recs(fields):
    fd, fpo, cfi = [], [], None
    for r in fields:
        p = r.split(" ")
        if p[0] == "W":
            rest = " ".join(p[11:])
            rec = dict(ty=p[1], addr=int(p[2]), size=int(p[3]), prolog=int(p[4]), epilog=int(p[5]), params=int(p[6]),
                       saved=int(p[7]), locals=int(p[8]), maxstack=int(p[9]), hasprog=p[10], rest=rest)
            really = p[1] == "4"
            if really != (p[10] == "1"):
                continue
            if not really:
                rec["rest"] = "1" if rest == "1" else "0"
            if p[1] == "4":
                fd.append(rec)
            elif p[1] == "0":
                fpo.append(rec)
        else:
            cfi = (int(p[1]), int(p[2]), " ".join(p[3:]))
    return fd, fpo, cfi


def select_ascending(recs, addr):
    """c07_table_ascending, written independently of ref_table: in a list of records with strictly increasing addresses
    (each with a memory range) the record answering `addr` is the LAST one starting at or before it, provided it reaches
    the address as written; its effective end is the next record's start.  -> (applicable, record or None)"""
    if not recs or any(mk_range(r["addr"], r["size"]) is None for r in recs):
        return False, None
    if any(recs[k]["addr"] >= recs[k + 1]["addr"] for k in range(len(recs) - 1)):
        return False, None
    cand = [r for r in recs if r["addr"] <= addr]
    if not cand:
        return True, None
    r = cand[-1]
    return True, (r if addr < r["addr"] + r["size"] else None)


class RefDisagree(Exception):
    pass


def lookup_rec(recs, addr):
    rec = table_get(ref_table(recs), addr)
    ok, want = select_ascending(recs, addr)
    if ok:
        # same record up to the (clipped) size
        a = None if rec is None else dict(rec, size=0)
        b = None if want is None else dict(want, size=0)
        if a != b:
            raise RefDisagree("address-sorted STACK WIN records: the table reference picks %r, c07_table_ascending's rule %r" % (rec, want))
    return rec


def ref_win(fd, fpo, addr, callee, mem, gcps, hasgc):
    """-> ('win', regs) | ('fail', None) | ('none', None)"""
    rec = lookup_rec(fd, addr)
    if rec is not None:
        r = ref_framedata(rec, callee, mem, gcps)
        return ("win", r) if r is not None else ("fail", None)
    rec = lookup_rec(fpo, addr)
    if rec is not None:
        r = ref_fpo(rec, callee, mem, gcps, hasgc)
        return ("win", r) if r is not None else ("fail", None)
    return ("none", None)


class C07(PropBase):
    pid = "C07"
    coq_dirs = ["Base", "Gen", "C06", "C07", "C08", "C09", "C11"]
    translators = ["c07_walker_args.py", "c07_win_eval.py", "c07_win_line.py", "c08_tables.py"]
    bins = ["c07"]
    rule = ("case = STACK WIN records (+ optionally one STACK CFI INIT record), lookup address, callee x86 registers, grand-callee "
            "parameter size, memory image; walked (A) by SymbolFile::walk_frame with a 32-bit mock FrameWalker, (B) by one x86 "
            "walk_stack step through the real CfiStackWalker from a context frame, or (F) by one x86 walk_stack step resumed from a "
            "frame LIST (parameter sizes of the frames under the callee, known or unknown), so that has_grand_callee / "
            "grand_callee_parameter_size are derived by the real walk_stack + CfiStackWalker::from_ctx_and_args. Exhaustive: every "
            "program of length <= 4 over the 17-token WIN alphabet; size fields {0,1,4,2^31,2^32-1}^3 x grand-callee size x esp in "
            "{0,4,7,8,mid,2^32-4} for frame-data and FPO (x allocates_base_pointer x has-grand-callee); random longer programs; random "
            "overlapping/duplicate/inconsistent record sets; statement-sequence programs x callee validity sets for (B); for (F) 14 frame "
            "lists x FPO / frame-data records x (return slot holds the callee's own eip: direct recursion / does not) x callee sp "
            "outside the stack x lookup at eip-1; (G) WHOLE x86 walk_stack from a context frame over generated stacks (1-5 activations of 1-3 "
            "functions, each with an FPO record with/without base pointer or a frame-data record with the .raSearch program, with/without FUNC "
            "record, recursion, image cut short, outermost return address below 4096): the leading call-frame-info frames are compared with "
            "the model's win_walk and judged by a frame-by-frame reference; operator grid (every binary operator on every ordered pair of a 12-value pool, literal and through variables); "
            "address-sorted record lists of one kind (2-5 records, lengths to the function end / short / overshooting, optionally a record of the other kind) probed at every boundary. "
            "Every case is evaluated by the hand-written model, the text-route model and the model compiled from the source on this run. Non-trivial = the walk succeeded / produced a frame. distinct = distinct case lines")
    trusted_base = [
        "Coq 8.16.1 kernel (vm_compute only in Examples / witness lemmas)",
        "model C07/Model.v written by hand from walker.rs (eval_win_expr, FPO), parser.rs (record acceptance on parsed fields, insert_win_stack_info), mod.rs walk_frame; reuses C06/Model.v and C08/Model.v; tied to the code by the correspondence run AND (round 5) proved equal, function by function, to the Gallina compiled from walker.rs (c07_source_is_model)",
        "translate/c07_win_line.py extracts stack_win_line's post-nom part (bytes, strings, comparison operators, field mapping, type arms) and the order / kind of the nom combinators from parser.rs into Gen/C07WinLine.v; the skeleton around them is pinned",
        "translate/c07_win_eval.py: a small Rust-subset parser + CPS code generator (lets, assignments, `?`, if / if let / match on string literals, method table with u32/u64/bool/Option/WinVal/&str typing) compiles win_frame_size, clear_stack_win_caller_registers, eval_win_expr (prologue, every arm of `match token`, output_regs) and walk_with_stack_win_fpo into Gen/C07WinEval.v; it pins the tokenizer closure, the output loop, walk_with_stack_win_framedata and SymbolFile::walk_frame's record preference textually and aborts on anything it does not understand. Trusted: the meaning it gives each Rust construct (wrapping_* = mod 2^w, checked_* = option, `-` = trapping subtraction, wrapping_div/rem = panic on 0, `as u32` = mod 2^32, HashMap insert/remove/get = association list with replace semantics)",
        "CfiStackWalker::from_ctx_and_args: the has_grand_callee / grand_callee_parameter_size field expressions are regenerated from minidump-unwind/src/lib.rs by translate/c07_walker_args.py (Gen/C07WalkerArgs.v; the rest of the constructor, walk_stack's grand-callee statement and the FrameWalker getters are pinned textually); the translator's small Option-chain language is trusted",
        "byte-level text route (C09/Grammar.v line parsers, hand-written from nom) proved equal to the record route for files without STACK CFI records (c07_text_route_agrees_parsed: from the lines of the file; the run-length normal form of program strings is proved as a parser invariant) and run side by side on every case; the harness's hex printing of the fields is test glue",
        "x86::get_caller_by_cfi post-processing mirrored in C06/Driver.v post_real (owned by C05); C07/Walker.v fpo_walk is walk_stack's loop restricted to FPO records (abp = false) on the abstract 32-bit walker",
        "STACK WIN tables: C07/Proofs23.v maps a StackInfoWin to C08's (address, size, tag) record with tag = index of the first record of the file with the same remaining fields; C08/WinProofs.v (the lemmas behind c08_win_*) and C08/Tie.v + Gen/C08Tables.v (translate/c08_tables.py, owned by C08) are imported through it",
        "extraction: ExtrOcamlBasic only; ocaml/zconv.ml + ocaml/c07/main.ml glue; harness/src/bin/c07.rs + harness/src/cfi_common.rs",
    ]
    manifest = {
        "text": "Theorems (Coq, all size fields over u32, all program texts as byte strings, all walkers): STACK WIN evaluation never panics "
                "(frame-size sum, FPO address arithmetic, '@', '=tok' slicing, the overlap-repair unwrap); through the real CfiStackWalker only "
                "the six registers a record sets (+FPO's documented ebp/ebx pass-through) are valid in the caller — stated with the known finding "
                "F-C07a as an explicit hypothesis and refuted without it; program-string constants, assignment, .undef and 32-bit wrap characterised. "
                "Round 4: has_grand_callee / grand_callee_parameter_size are derived from the call stack by a model of walk_stack + "
                "CfiStackWalker::from_ctx_and_args whose field expressions are translated from the source (c07_walker_args: has a grand-callee = "
                "is not the context frame, parameter size = the grand-callee's when known else 0); the FPO leftover-return-address skip can only "
                "touch the context frame (c07_fpo_no_skip_above_context); every well-formed all-FPO x86 stack of ANY depth — functions with or "
                "without FUNC records, direct recursion from one call site — is walked to exactly its generated chain (c07_fpo_recovers_chain, c07_fpo_recovers_chain_bp for both allocates_base_pointer kinds, "
                "c07_fpo_recursion_chain; induction on the activations); the byte-level text route (C09 grammar -> finish -> tables) equals the "
                "record route the theorems are about (c07_text_tables_agree, c07_text_route_agrees_parsed: walk_frame_text = walk_frame on the parsed "
                "records for every file without STACK CFI records; the normal form of parsed strings is a proved parser invariant). "
                "Round 5: the evaluator is compiled from walker.rs on every run (translate/c07_win_eval.py -> Gen/C07WinEval.v: win_frame_size, the cleared names, "
                "eval_win_expr's prologue / every `match token` arm / output registers, walk_with_stack_win_fpo statement by statement) and proved equal to the "
                "hand-written model for all arguments (c07_source_is_model); refinement of the documented semantics, the exact output set, the FPO formulae and "
                "panic-freedom of the whole walk_frame are stated for the compiled functions (c07_src_refines_spec, c07_src_mock_exact, c07_src_fpo_formulae, "
                "c07_src_walk_frame_total), so an edited formula / guard / operator / constant / register list changes the Gallina the theorems are checked against. "
                "Also round 5: the caller state after a STACK WIN walk through the real x86 CfiStackWalker characterised EXACTLY, validity set and values, with no hypothesis "
                "about F-C07a (c07_real_framedata_exact, c07_real_fpo_exact: valid = defined by the record, or forwarded callee-saved register — the known class); which record "
                "walk_frame uses and when STACK CFI is consulted (c07_record_preference); stack_win_line extracted from parser.rs (field order and kinds, type / has_program "
                "consistency, rest == \"1\", field mapping) equals the record constructor and C09's byte-level recogniser (c07_line_source); the two usual MSVC frame-data programs "
                "evaluated symbolically for all environments (c07_standard_programs); every well-formed x86 stack of any depth through any mix of FPO and frame-data (.raSearch "
                "program) records is walked to exactly its chain (c07_win_recovers_chain). "
                "Whole walks through all three kinds of record in one stack: c07_win_recovers_chain_bp; through standard ebp frames: c07_ebp_recovers_chain; one step of these walks is SymbolFile::walk_frame (c07_walk_step_is_walk_frame); win_walk is compared with the real walk_stack on generated stacks (front-end G). "
                "Only the token sequence and the presence of '@' in the program text matter: c07_program_text_dependence. "
                "Round 5, second pass: the correspondence driver evaluates every case with the hand-written model AND with the model compiled from walker.rs / mod.rs on that run "
                "(run_*7_src; a case on which they differ is reported), proved to be the same function of the case line (c07_driver_source_agrees); the exact extent of the known "
                "finding F-C07a for every callee validity set: caller validity = what the record sets + W, W = ([ebp, ebx, edi, esi] valid in the callee) minus what the record sets, "
                "values unchanged, W empty iff outside the known class (c07_forwarded_set_exact, c07_forwarded_set_exact_fpo register by register, c07_forwarded_set_formula; the oracle "
                "reports any valid register outside that set as a fresh violation); which record walk_frame sees when several records cover an address: C08's STACK WIN table theorems "
                "imported for full StackInfoWin records through an equality-preserving tag map (c07_table_lookup_sound: always a record of the file, same address and other fields, never "
                "longer than written, containing the address; c07_table_sorted_disjoint; c07_table_isolated_complete), composed with the record preference "
                "(c07_walk_frame_by_file_record: a frame-data record of the file covering the address evaluated as written, else such an FPO record, else STACK CFI alone), tied to the "
                "source through C08's translator (c07_table_is_source_table: the table is the one built by insert_win_stack_info / into_rangemap_safe as regenerated from parser.rs), and "
                "completely characterised for address-sorted files (c07_table_ascending: every record ends where it says or just before the next one starts, nothing dropped, lookup by containment). "
                "Model tied to the code by exhaustive programs to length 4, extreme size fields, overlapping record sets, through a mock FrameWalker, "
                "through x86 walk_stack from a context frame and from frame lists, debug and release; an independent Python reference judges "
                "every implementation answer.",
        "note": "Trusted: Coq kernel; hand-written model (correspondence-checked and proved equal to the compiled source); the two translators (Option-chain language for from_ctx_and_args; Rust-subset compiler for walker.rs); extraction + glue. "
                "c07_fpo_recovers_chain(_bp) are about whole walks through FPO records (both allocates_base_pointer kinds) on the abstract 32-bit walker (round 5: c07_win_recovers_chain adds frame-data records with the .raSearch program; other programs and "
                "mixes with STACK CFI in whole walks are covered by the run: C04's STACK WIN stacks). Known finding F-C07a (implicit forwarding of "
                "ebp/ebx/esi/edi through STACK WIN frames) is pinned by minidump-stackwalk snapshots and reported as KNOWN-FINDING. No axioms.",
    }
    assumptions = ["bare (non-$, non-.) names are rejected by the evaluator although the STACK WIN docs list `<alphanumeric>` among the values (documentation matter, see design/C07.md); treated as undocumented by the oracle",
                   "the mock walker's log of clear_caller_register calls is compared model-vs-code only (not judged by the oracle)",
                   "front-end F places the frames under the callee into CallStack::frames by hand (public fields); only their parameter_size is read by the step under test"]

    def canon_model(self, case, ans):
        return "P;;" if ans.startswith("P;;") else ans

    def canon_impl(self, case, ans, profile):
        return "P;;" if ans.startswith("P;;") else ans

    # ------------------------------------------------------------------ generators
    def gen_cases(self, tier, seed):
        rng = Rng(seed)
        cases = []
        dist = {"exhaustive_programs": 0, "size_field_cases": 0, "random_programs": 0, "record_sets": 0, "real_walker": 0,
                "by_kind": {"A": 0, "B": 0}}
        ESP = 0x80000000
        memA = (b"\x00\x10\x00\x40" + bytes(range(1, 61))).hex()

        def addA(lookup, gcps, hasgc, regs, mb, mh, recs):
            cases.append("|".join(["A", str(lookup), str(gcps), "1" if hasgc else "0", regs, str(mb), mh] + recs))
            dist["by_kind"]["A"] += 1

        def W(ty, addr, size, params, saved, locs, hasprog, rest, pro=0, epi=0, mx=0):
            return "W %s %d %d %d %d %d %d %d %d %s %s" % (ty, addr, size, pro, epi, params, saved, locs, mx, hasprog, rest)

        envs = [("esp=%d,ebp=%d,ebx=9,eip=77" % (ESP, ESP + 16), ESP, memA, 4),
                ("esp=%d,ebp=%d,eip=1073745920" % (M32 - 40, M32 - 8), M32 - 40, memA[:80], 0)]
        L = 4
        k = 0
        for n in range(0, L + 1):
            for c in itertools.product(ALPHABET, repeat=n):
                regs, mb, mh, gcps = envs[k % 2]
                k += 1
                addA(100, gcps, True, regs, mb, mh, [W("4", 100, 16, 8, 4, 12, "1", " ".join(c))])
                dist["exhaustive_programs"] += 1
        # junk / bare-name tokens next to every token class (length <= 3, at least one junk token)
        for n in range(1, 4):
            for c in itertools.product(ALPHABET + ["junk", "T0", ".raSearchStart"], repeat=n):
                if "junk" not in c and "T0" not in c and ".raSearchStart" not in c:
                    continue
                regs, mb, mh, gcps = envs[k % 2]
                k += 1
                addA(100, gcps, True, regs, mb, mh, [W("4", 100, 16, 8, 4, 12, "1", " ".join(c))])
                dist["exhaustive_programs"] += 1
        if tier == "thorough":
            sub = ["+", "-", "@", "^", "=", "$T0", "$eip", "$esp", ".raSearch", ".undef", "4"]
            for c in itertools.product(sub, repeat=5):
                if rng.chance(1, 2):
                    continue
                regs, mb, mh, gcps = envs[k % 2]
                k += 1
                addA(100, gcps, True, regs, mb, mh, [W("4", 100, 16, 8, 4, 12, "1", " ".join(c))])
                dist["exhaustive_programs"] += 1
        # extreme size fields
        pool = [0, 1, 4, 1 << 31, U32]
        esps = [0, 4, 7, 8, ESP, M32 - 4]
        progs = ["$eip .raSearch ^ = $esp .raSearch 4 + =", "$T0 .cbParams .cbSavedRegs + .cbLocals + = $eip $T0 =",
                 "$eip $ebp 4 @ ^ =", "$eip .raSearch = $esp .raSearchStart = $T0 $ebp 4 @ =",
                 "$eip .raSearchStart = $esp .raSearch = $edi .cbCalleeParams ="]
        for (pa, sv, lo) in itertools.product(pool, repeat=3):
            for gcps in [0, 4, U32]:
                for esp in esps:
                    mb = max(0, esp - 8)
                    regs = "esp=%d,ebp=%d,ebx=3,eip=%d" % (esp, (esp + 8) & U32, 0x40001000)
                    pr = progs[(pa // 3 + sv + lo // 5 + gcps + esp) % 5]
                    addA(100, gcps, True, regs, mb, memA, [W("4", 100, 16, pa, sv, lo, "1", pr)])
                    abp = "1" if (pa + sv + esp) % 2 else "0"
                    hasgc = (lo + gcps + esp) % 3 == 0
                    addA(100, gcps, hasgc, regs, mb, memA, [W("0", 100, 16, pa, sv, lo, "0", abp)])
                    dist["size_field_cases"] += 2
        # FPO grid with small sizes (so that reads succeed), incl. the leftover-return-address skip
        for sv, lo, gcps in itertools.product([0, 4, 8, 12], [0, 4, 8], [0, 4]):
            for abp in ("0", "1", "2"):
                for hasgc in (False, True):
                    for regs in ("esp=%d,ebp=55,ebx=9,eip=1073745920" % ESP, "esp=%d,ebp=55,eip=77" % ESP,
                                 "esp=%d,eip=1073745920" % ESP, "esp=%d,ebp=55" % ESP, "ebp=55,eip=77",
                                 "esp=%d,ebp=55,ebx=4294967296,eip=5" % (ESP + 4)):
                        addA(100, gcps, hasgc, regs, ESP, memA, [W("0", 100, 16, 8, sv, lo, "0", abp)])
                        dist["size_field_cases"] += 1
        # FPO cross product: allocates_base_pointer x has-grand-callee x (word at esp+frame_size == / != callee eip) x
        # (every read readable / image cut short / image starting at esp) x small size fields x esp pool.  Every
        # 32-bit word of the image is distinct, so each branch's reads are distinguishable in the answer.
        def words(base, n, mark=None):
            b = bytearray()
            for j in range(n):
                b += ((0x40002000 + 0x10 * j) & U32).to_bytes(4, "little")
            return bytes(b)
        for esp in (ESP, 64, M32 - 64):
            for sv, lo, gcps in itertools.product([0, 4, 8, 12], [0, 4, 8], [0, 4, 8]):
                fs = sv + lo + gcps
                for below, nwords in ((16, 24), (0, 24), (16, (16 + fs) // 4 + 1), (8, (8 + fs) // 4 + 2)):
                    mb = esp - below
                    img = words(mb, nwords)
                    w_at = esp + fs - mb
                    slot_word = int.from_bytes(img[w_at:w_at + 4], "little") if w_at + 4 <= len(img) else 5
                    for eq in (True, False):
                        ceip = slot_word if eq else 77
                        for abp in ("0", "1"):
                            for hasgc in (False, True):
                                for extra in ("ebp=55,ebx=9", "ebp=55", "ebx=9"):
                                    if extra != "ebp=55,ebx=9" and not (below == 16 and nwords == 24):
                                        continue
                                    regs = "esp=%d,%s,eip=%d" % (esp, extra, ceip)
                                    addA(100, gcps, hasgc, regs, mb, img.hex(), [W("0", 100, 16, 8, sv, lo, "0", abp)])
                                    dist["fpo_cross"] = dist.get("fpo_cross", 0) + 1
        # the leftover-return-address skip is exactly ONE word: runs of 2..4 consecutive words equal to the callee's own eip
        # above the frame (the documented caller eip is then the callee's eip again), the run followed by other words or
        # reaching the very end of the memory image (the documented result still exists: only one more word is read)
        ce = 0x40001234
        for sv, lo, gcps in itertools.product([0, 4, 8], [0, 4], [0, 4]):
            fs = sv + lo + gcps
            for run in (2, 3, 4):
                for cut in (False, True):
                    img = bytearray(words(ESP - 16, 24))
                    start = 16 + fs
                    for j in range(run):
                        img[start + 4 * j:start + 4 * j + 4] = ce.to_bytes(4, "little")
                    if cut:
                        img = img[:start + 4 * run]
                    for abp in ("0", "1"):
                        for hasgc in (False, True):
                            addA(100, gcps, hasgc, "esp=%d,ebp=55,ebx=9,eip=%d" % (ESP, ce), ESP - 16, bytes(img).hex(),
                                 [W("0", 100, 16, 8, sv, lo, "0", abp)])
                            dist["fpo_skip_runs"] = dist.get("fpo_skip_runs", 0) + 1
        # 64-bit callee registers on the mock walker: esp + frame_size (+4, + the ebp slot) must not wrap around u64 into the
        # memory image based at 0 (the documented result is a clean failure); frame data sees esp / ebp truncated to 32 bits
        img0 = words(0, 24).hex()
        for esp in (U64 - 3, U64 - 7, U64 - 11, U64 - 15, (1 << 63), M32, M32 + 8):
            for sv, lo, gcps in ((0, 0, 0), (4, 0, 0), (4, 4, 4), (8, 8, 0), (0, 12, 4)):
                for abp in ("0", "1"):
                    for hasgc in (False, True):
                        regs = "esp=%d,ebp=%d,ebx=9,eip=%d" % (esp, 55, 0x40002000 + 0x10 * ((sv + lo + gcps) // 4))
                        addA(100, gcps, hasgc, regs, 0, img0, [W("0", 100, 16, 8, sv, lo, "0", abp)])
                        dist["wide_regs"] = dist.get("wide_regs", 0) + 1
                regs = "esp=%d,ebp=%d,ebx=%d,eip=77" % (esp, U64 - 11, M32 + 5)
                addA(100, gcps, True, regs, 0, img0, [W("4", 100, 16, 8, sv, lo, "1", "$eip .raSearch ^ = $esp .raSearch 4 + = $esi $ebx =")])
                addA(100, gcps, True, regs, 0, img0, [W("4", 100, 16, 8, sv, lo, "1", "$eip $ebp 4 @ ^ = $esp .raSearchStart =")])
                dist["wide_regs"] += 2
        # the `@` rule is a property of the program TEXT ("whether the program includes an `@`"): an align operator glued to a
        # preceding `=` (`=@`, the same program as `= @` by the `=tok` rule), a `$`/`.` name that merely contains the character,
        # alone and combined, before and after statements whose result depends on .raSearch / .raSearchStart, with
        # $ebp + 4 != $esp + frame_size and every word of the image distinct
        carriers = ["$T@ 1 =", "$T1 $esp 16 $T0 1 =@ =", ".x@y 2 =", "$T1 5 =@", "$T1 $esp 16 @ =", "$T1 $esp =16 $T2 $T1 =4 =@ ="]
        bases = ["$eip .raSearch ^ = $esp .raSearch 4 + =", "$eip .raSearchStart ^ = $esp .raSearchStart 4 + =",
                 "$eip .raSearch = $esp .raSearchStart =", "$T0 .raSearch = $eip $T0 ^ = $esp $T0 4 + = $ebp $T0 4 - ^ ="]
        imgw = words(ESP - 16, 24).hex()
        for ca in carriers:
            for ba in bases:
                for prog in (ca + " " + ba, ba + " " + ca, ba + "  " + ca.replace(" ", "\t")):
                    for sv, lo, gcps in ((0, 0, 0), (4, 0, 0), (4, 12, 4), (8, 4, 4), (0, 8, 0)):
                        regs = "esp=%d,ebp=%d,ebx=9,eip=77" % (ESP, ESP + 16 + 4 * (sv // 4))
                        addA(100, gcps, True, regs, ESP - 16, imgw, [W("4", 100, 16, 8, sv, lo, "1", prog)])
                        dist["at_rule_text"] = dist.get("at_rule_text", 0) + 1
        # random longer programs
        stmts = ["$T0 $ebp =", "$eip $T0 4 + ^ =", "$ebp $T0 ^ =", "$esp $T0 8 + =", "$T0 .raSearchStart =", "$eip $T0 ^ =",
                 "$esp $T0 4 + =", "$ebx $T2 4 - ^ =", "$T2 $esp .cbSavedRegs + =", "$esi .undef =", "$edi 7 =", "$ebp .undef =",
                 "$T0 $esp 16 @ =", "$eip .undef =", "$T1 $T0 $T0 * =", "$eax 5 =", "$esp $esp 4294967295 + =", "$edi -2147483648 =",
                 "$T0 2147483648 =", "$esi 4294967295 =", "$edi 4294967296 1 + =", "$esi -2147483649 =", "$edi 9223372036854775807 =",
                 "$esi 9223372036854775808 =", "$edi -9223372036854775808 =", "T0 5 =", "$esi .raSearch =", "$edi .raSearchStart =", "$esi .raSearchStart .raSearch - =", "$T0 =4", "$eip =$T0", "= =", "$T3 1 0 / =", "$T3 7 0 % =", "$T3 7 3 @ =", "$esi $nosuch =",
                 "$T@ 1 =", "$T1 $esp 16 $T0 1 =@ =", ".x@y 2 ="]
        nrand = 5000 if tier == "quick" else 50000
        for _ in range(nrand):
            n = rng.range(1, 7)
            prog = " ".join(rng.choice(stmts) for _i in range(n))
            if rng.chance(1, 5):
                t = prog.split(" ")
                t[rng.below(len(t))] = rng.choice(ALPHABET)
                prog = " ".join(t)
            regs, mb, mh, gcps = envs[rng.below(2)]
            addA(100, gcps, rng.chance(1, 2), regs, mb, mh, [W("4", 100, 16, 8, rng.choice([0, 4, 8]), rng.choice([0, 4, 12]), "1", prog)])
            dist["random_programs"] += 1
        # operator grid (second pass of round 5; mutation "operands of `/` swapped" produced no failing input: the pool above
        # only divides by zero): every binary operator on every ordered pair of a value pool — literals, and the same
        # values reached through variables — with the result assigned to an output, so that operand order, wrap-around,
        # the zero / power-of-two guards and unsigned (not signed) division are all observable
        vals = [0, 1, 3, 4, 7, 16, 1000, 12345678, 1 << 31, (1 << 31) + 5, U32 - 1, U32]
        for op in ("+", "-", "*", "/", "%", "@"):
            for l in vals:
                for r in vals:
                    regs, mb, mh, gcps = envs[(l + r) % 2]
                    prog = "$edi %d %d %s =" % (l, r, op) if (l + r) % 3 else "$T1 %d = $T2 %d = $esi $T1 $T2 %s =" % (l, r, op)
                    addA(100, gcps, True, regs, mb, mh, [W("4", 100, 16, 8, 4, 0, "1", prog)])
                    dist["operator_grid"] = dist.get("operator_grid", 0) + 1
        # callee register files WITHOUT $ebp (and, separately, without $esp) x programs that do not read the missing register
        # (seeded C07-9: "$ebp only needed by the programs that read it"): walker.rs docs — a program errors out when the
        # callee's $ebp or $esp is unknown, whatever it reads.  No randomness used here.
        no_ebp_progs = ["$T0 .raSearch = $eip $T0 ^ = $esp $T0 4 + =", "$eip .raSearch ^ = $esp .raSearch 4 + =",
                        "$eip .raSearchStart ^ = $esp .raSearchStart 4 + = $ebx $ebx =", "$eip 4096 = $esp 9 =",
                        "$eip $esp ^ = $esp $esp 4 + =", "$eip $esp .cbLocals + .cbSavedRegs + ^ = $esp $esp 8 + = $esi 7 =", "", "$edi .undef ="]
        no_esp_progs = ["$eip 4096 = $esp 9 =", "$eip $ebp 4 + ^ = $esp $ebp 8 + =", "$T0 $ebp = $eip $T0 4 + ^ = $ebp $T0 ^ = $esp $T0 8 + =",
                        "$eip $ebp 16 @ ^ = $esp $ebp 8 + =", "", "$esi 7 ="]
        for hasgc in (False, True):
            for sv, lo, gcps in ((0, 0, 0), (4, 0, 0), (4, 8, 4)):
                for regs in ("esp=%d,ebx=9,eip=77" % ESP, "esp=%d,eip=1073745920" % ESP, "esp=%d" % ESP, "esp=%d,ebx=9,esi=5,edi=6,eip=77" % ESP):
                    for prog in no_ebp_progs:
                        addA(100, gcps, hasgc, regs, ESP - 16, imgw, [W("4", 100, 16, 8, sv, lo, "1", prog)])
                        dist["missing_ebp_or_esp"] = dist.get("missing_ebp_or_esp", 0) + 1
                for regs in ("ebp=%d,ebx=9,eip=77" % (ESP + 16), "ebp=%d" % (ESP + 16), "ebp=%d,ebx=9,esi=5,edi=6,eip=1073745920" % (ESP + 16)):
                    for prog in no_esp_progs:
                        addA(100, gcps, hasgc, regs, ESP - 16, imgw, [W("4", 100, 16, 8, sv, lo, "1", prog)])
                        dist["missing_ebp_or_esp"] = dist.get("missing_ebp_or_esp", 0) + 1
        # record sets: overlaps, duplicates, inconsistent type / has_program, CFI fallback
        nrs = 5000 if tier == "quick" else 40000
        gp = ["$eip .raSearch ^ = $esp .raSearch 4 + =", "$eip 4096 = $esp 9 =", "$eip .undef 1 + =", "$eip $esp ^ = $esp $esp 4 + = $ebx 1 ="]
        for _ in range(nrs):
            recs = []
            for _i in range(rng.range(1, 4)):
                addr = rng.choice([90, 96, 100, 100, 101, 104, 110])
                size = rng.choice([0, 1, 4, 10, 16, 30])
                ty = rng.choice(["4", "4", "0", "0", "1", "f"])
                hp = rng.choice(["1", "0"]) if rng.chance(1, 5) else ("1" if ty == "4" else "0")
                rest = rng.choice(gp) if hp == "1" else rng.choice(["0", "1", "1", "2"])
                recs.append(W(ty, addr, size, 8, 4, rng.choice([0, 4]), hp, rest))
            if rng.chance(1, 3):
                recs.insert(rng.below(len(recs) + 1), "C %d %d %s" % (rng.choice([90, 100]), rng.choice([16, 30]),
                            rng.choice([".cfa: $esp 4 + .ra: .cfa 4 - ^", ".cfa: 16 .ra: 8 $ebx: 3 $esi: .undef", ".cfa: 16"])))
            regs, mb, mh, gcps = envs[0]
            addA(rng.choice([95, 100, 101, 104, 109, 115]), gcps, rng.chance(1, 2), regs, mb, mh, recs)
            dist["record_sets"] += 1
        # address-sorted record lists (c07_table_ascending; parser.rs: "each line has an accurate starting point, but the length
        # just covers the entire function"): 2-5 records of one kind with strictly increasing addresses, lengths reaching the
        # function end / stopping short (a gap) / overshooting, optionally a record of the OTHER kind over the whole function;
        # every record evaluates to a different result, so the oracle sees which one was selected
        nst = 60 if tier == "quick" else 600
        for k in range(nst):
            n = rng.range(2, 6)
            kind = "4" if k % 2 == 0 else "0"
            starts = [100]
            for _i in range(n - 1):
                starts.append(starts[-1] + rng.choice([1, 2, 3, 4, 10]))
            fend = starts[-1] + rng.choice([1, 4, 8])
            recs = []
            for j, a in enumerate(starts):
                size = rng.choice([fend - a, fend - a, fend - a, 1, 2, fend - a + 7, (starts[j + 1] - a) if j + 1 < n else 3])
                if kind == "4":
                    recs.append(W("4", a, size, 8, 4, 0, "1", "$eip %d = $esp %d =" % (5000 + j, 6000 + j)))
                else:
                    recs.append(W("0", a, size, 8, 4 * (j % 4), 4 * (j // 4), "0", "0"))
            if rng.chance(1, 3):
                other = (W("0", 100, fend - 100 + 4, 8, 28, 0, "0", "0") if kind == "4"
                         else W("4", 100 + rng.choice([0, 2]), rng.choice([3, fend - 100]), 8, 0, 0, "1", "$eip 7777 = $esp 8888 ="))
                recs.insert(rng.below(len(recs) + 1), other)
            regs, mb, mh, gcps = ("esp=%d,ebp=%d,ebx=9,eip=77" % (ESP, ESP + 16), ESP - 16, imgw, 4)
            probes = sorted(set([99, fend - 1, fend, fend + 6, fend + 7] + starts + [a + 1 for a in starts] + [a - 1 for a in starts[1:]]))
            for x in probes:
                addA(x, gcps, True, regs, mb, mh, recs)
                dist["ascending_record_lists"] = dist.get("ascending_record_lists", 0) + 1
        # front-end (b): x86 walk_stack
        stackB = (b"\x00\x10\x00\x40" + b"\x00\x20\x00\x40" + bytes(range(1, 57))).hex()
        bst = ["$eip $esp ^ =", "$esp $esp 4 + =", "$ebp .undef =", "$ebx $esp 8 + ^ =", "$esi 7 =", "$edi $T0 =", "$T0 5 =",
               "$eax 1 =", "$ebp $ebp =", "$eip .raSearch ^ = $esp .raSearch 4 + ="]
        ctxs = ["eip=%d,esp=%d,ebp=%d,ebx=11,esi=12,edi=13,eax=14" % (MODBASE + 100, ESP, ESP + 32)]
        valids = ["all", "eip,esp,ebp", "eip,esp,ebp,ebx,esi", "eip,ebp"]
        LB = 3 if tier == "quick" else 4
        for n in range(0, LB + 1):
            for c in itertools.product(bst, repeat=n):
                if n == 4 and not rng.chance(1, 10):
                    continue
                valid = valids[0] if rng.chance(1, 2) else rng.choice(valids)
                cases.append("|".join(["B", ctxs[0], valid, str(ESP), stackB, W("4", 100, 16, 8, 0, 0, "1", " ".join(c))]))
                dist["by_kind"]["B"] += 1
                dist["real_walker"] += 1
        for sv, lo in itertools.product([0, 4, 8], [0, 4]):
            for abp in ("0", "1"):
                for valid in valids:
                    cases.append("|".join(["B", ctxs[0], valid, str(ESP), stackB, W("0", 100, 16, 8, sv, lo, "0", abp)]))
                    dist["by_kind"]["B"] += 1
                    dist["real_walker"] += 1
                    # image based below esp, distinct words, the word at esp+frame_size holds the callee's own eip
                    img = bytearray(words(ESP - 16, 24))
                    off = 16 + sv + lo
                    img[off:off + 4] = (MODBASE + 100).to_bytes(4, "little")
                    cases.append("|".join(["B", ctxs[0], valid, str(ESP - 16), bytes(img).hex(), W("0", 100, 16, 8, sv, lo, "0", abp)]))
                    dist["by_kind"]["B"] += 1
                    dist["real_walker"] += 1
        # the same through the real walker: validity sets without ebp (frame-data programs that never read $ebp must still fail),
        # without esp, and FPO records for comparison
        for valid in ("eip,esp", "eip,esp,ebx,esi,edi", "esp", "eip,ebp,ebx", "eip,ebx,esi,edi"):
            for prog in ("$T0 .raSearch = $eip $T0 ^ = $esp $T0 4 + =", "$eip .raSearch ^ = $esp .raSearch 4 + =", "$eip $esp ^ = $esp $esp 4 + =",
                         "$eip $esp ^ = $esp $esp 4 + = $ebx 1 =", "$eip $ebp 4 + ^ = $esp $ebp 8 + =", "$eip $esp ^ = $esp $esp 4 + = $ebp .undef ="):
                for sv in (0, 4):
                    cases.append("|".join(["B", ctxs[0], valid, str(ESP), stackB, W("4", 100, 16, 8, sv, 0, "1", prog)]))
                    dist["by_kind"]["B"] += 1
                    dist["real_walker"] += 1
        # the `@` rule through the real walker: glued `=@` / a name containing `@`, with .raSearch-dependent statements
        for ca in ("$T@ 1 =", "$T1 $esp 16 $T0 1 =@ =", ".x@y 2 ="):
            for ba in ("$eip .raSearch ^ = $esp .raSearch 4 + =", "$eip .raSearchStart ^ = $esp .raSearchStart 4 + ="):
                for prog in (ca + " " + ba, ba + " " + ca):
                    for sv in (0, 4):
                        cases.append("|".join(["B", ctxs[0], valids[0], str(ESP), stackB, W("4", 100, 16, 8, sv, 0, "1", prog)]))
                        dist["by_kind"]["B"] += 1
                        dist["real_walker"] += 1
        # runs of the callee's eip above the frame, through the real walker from a context frame (exactly one word is skipped)
        for sv, lo in itertools.product([0, 4, 8], [0, 4]):
            for run in (2, 3):
                for cut in (False, True):
                    img = bytearray(words(ESP - 16, 24))
                    start = 16 + sv + lo
                    for j in range(run):
                        img[start + 4 * j:start + 4 * j + 4] = (MODBASE + 100).to_bytes(4, "little")
                    if cut:
                        img = img[:start + 4 * run]
                    for abp in ("0", "1"):
                        cases.append("|".join(["B", ctxs[0], valids[0], str(ESP - 16), bytes(img).hex(), W("0", 100, 16, 8, sv, lo, "0", abp)]))
                        dist["by_kind"]["B"] += 1
                        dist["real_walker"] += 1
        # front-end (f): the same step resumed from a frame LIST, so that has_grand_callee / grand_callee_parameter_size
        # are derived by the real walk_stack + CfiStackWalker::from_ctx_and_args.  `below` = parameter sizes of the frames
        # under the callee ("-" = the frame's code has no FUNC/PUBLIC record), "." = the callee is the context frame.
        belows = [".", "-", "0", "4", "8", "-,-", "4,-", "-,4", "8,4", "4,8", "-,-,-", "4,4,-", "-,8,0", "12,-,-,4"]
        if tier == "thorough":
            belows += ["12", "16", "4294967295", "2147483648,-", "-,4294967292", "0,-", "-,0", "8,-,4,-", "-,-,-,-,-,8", "4,8,12,16,0"]
        ceip = MODBASE + 105
        ctxF = "eip=%d,esp=%d,ebp=%d,ebx=11,esi=12,edi=13,eax=14" % (ceip, ESP, ESP + 32)
        fd_progs = ["$T0 .raSearchStart = $eip $T0 ^ = $esp $T0 4 + =",
                    "$eip .raSearch ^ = $esp .raSearch 4 + = $ebx .cbCalleeParams =",
                    "$eip $esp .cbCalleeParams + .cbSavedRegs + .cbLocals + ^ = $esp $esp .cbCalleeParams + 4 + ="]
        nF = 0
        for below in belows:
            bl = [] if below == "." else below.split(",")
            gcps = 0 if not bl or bl[-1] == "-" else int(bl[-1])
            for sv, lo in itertools.product([0, 4, 8], [0, 4]):
                fs = sv + lo + gcps
                for eq in (True, False):
                    img = bytearray(words(ESP - 16, 32))
                    if eq:
                        # direct recursion from one call site: the return address slot holds the callee's own eip, and so
                        # does the slot one word up (the next activation's return address)
                        for off in (16 + fs,):
                            img[off:off + 4] = ceip.to_bytes(4, "little")
                    for abp in ("0", "1"):
                        for valid in (valids[0], valids[1]):
                            if valid != valids[0] and not (sv == 4 and lo == 4):
                                continue
                            cases.append("|".join(["F", below, ctxF, valid, str(ESP - 16), bytes(img).hex(),
                                                   W("0", 100, 16, 8, sv, lo, "0", abp)]))
                            nF += 1
                    # the slot computed with ANOTHER frame's parameter size holds a look-alike return address
                    if not eq:
                        for pr in fd_progs:
                            cases.append("|".join(["F", below, ctxF, valids[0], str(ESP - 16), bytes(img).hex(),
                                                   W("4", 100, 16, 8, sv, lo, "1", pr)]))
                            nF += 1
            if below in (".", "-", "4", "-,-"):
                for sv, run, cut in itertools.product([0, 4], [2, 3], [False, True]):
                    img = bytearray(words(ESP - 16, 32))
                    start = 16 + sv + gcps
                    for j in range(run):
                        img[start + 4 * j:start + 4 * j + 4] = ceip.to_bytes(4, "little")
                    if cut:
                        img = img[:start + 4 * run]
                    cases.append("|".join(["F", below, ctxF, valids[0], str(ESP - 16), bytes(img).hex(), W("0", 100, 16, 8, sv, 0, "0", "0")]))
                    nF += 1
            # stack pointer of the callee outside the stack memory: only the context frame may still be unwound
            img = words(ESP + 64, 16)
            cases.append("|".join(["F", below, ctxF, valids[0], str(ESP + 64), img.hex(), W("0", 100, 16, 8, 0, 0, "0", "0")]))
            cases.append("|".join(["F", below, ctxF, valids[0], str(ESP + 64), img.hex(),
                                   W("4", 100, 16, 8, 0, 0, "1", "$eip %d ^ = $esp %d =" % (ESP + 64, ESP + 72))]))
            nF += 2
            # lookup address: every frame but the context frame is looked up at eip - 1 (record covers [100, 105))
            img = bytearray(words(ESP - 16, 32))
            cases.append("|".join(["F", below, ctxF, valids[0], str(ESP - 16), bytes(img).hex(), W("0", 100, 5, 8, 0, 4, "0", "0"),
                                   W("0", 105, 8, 8, 4, 4, "0", "0")]))
            nF += 1
        dist["by_kind"]["F"] = nF
        dist["frame_list_walker"] = nF
        # front-end (g): WHOLE x86 walks from a context frame through generated stacks whose functions carry an FPO record
        # (with / without base pointer) or a frame-data record (the .raSearch program or the standard ebp frame), with / without FUNC record
        # (parameter size), any recursion; frame layout [arguments for the callee][locals][saved registers][return address].
        # Variants: the image cut short somewhere, the outermost return address below 4096.
        RA_PROG = "$T0 .raSearch = $eip $T0 ^ = $esp $T0 4 + ="
        EBP_PROG = "$T0 $ebp = $eip $T0 4 + ^ = $ebp $T0 ^ = $esp $T0 8 + ="     # the module docs' standard ebp frame
        nG = 700 if tier == "quick" else 7000
        for gi in range(nG):
            nf = rng.range(1, 4)
            funs = []
            for k in range(nf):
                kind = rng.choice(["fpo0", "fpo1", "fd", "fd", "fdebp"])
                sv = rng.choice([8, 12]) if kind == "fpo1" else rng.choice([0, 4, 8, 12])
                funs.append(dict(kind=kind, sv=sv, lo=rng.choice([0, 4, 8]), ps=rng.choice([None, 0, 4, 8]), base=0x1000 * (k + 1)))
            depth = rng.range(1, 6)
            acts = [rng.below(nf) for _d in range(depth)]
            img = bytearray(words(ESP, 128))
            esp, gcps = ESP, 0
            eip0 = MODBASE + funs[acts[0]]["base"] + 0x10
            slots = []          # per activation: where the caller's ebp is read from (None = ebp is passed through)
            for j, fi in enumerate(acts):
                fn = funs[fi]
                F = fn["lo"] + fn["sv"] + gcps
                if j + 1 < depth:
                    # 1 in 5: the call is the caller's last instruction, so the return address is one past its function / record
                    ra = MODBASE + funs[acts[j + 1]]["base"] + (256 if rng.chance(1, 5) else 0x20 + 4 * j)
                else:
                    ra = 100 if rng.chance(1, 6) else MODBASE + 0xF010
                if fn["kind"] == "fdebp":
                    # [args for the callee][locals][saved registers][saved ebp <- $ebp][return address]
                    slots.append(("ebp", esp + F))
                    off = esp + F + 4 - ESP
                    img[off:off + 4] = ra.to_bytes(4, "little")
                    esp, gcps = esp + F + 8, (fn["ps"] or 0)
                    continue
                off = esp + F - ESP
                img[off:off + 4] = ra.to_bytes(4, "little")
                slots.append(("slot", esp + gcps + fn["sv"] - 8) if fn["kind"] == "fpo1" else None)
                esp, gcps = esp + F + 4, (fn["ps"] or 0)
            # the chain of ebp values, from the outermost frame inwards: E = the ebp register while activation j is the callee
            E = 0x80000100
            for j in range(depth - 1, -1, -1):
                if slots[j] is None:
                    continue                       # passed through: the callee's ebp is the caller's
                so = slots[j][1] - ESP
                img[so:so + 4] = E.to_bytes(4, "little")
                E = slots[j][1] if slots[j][0] == "ebp" else 0x80000300 + 16 * j
            if rng.chance(1, 4):
                img = img[:4 * rng.range(1, (esp - ESP) // 4 + 2)]
            recs = []
            for fn in funs:
                if fn["kind"] in ("fd", "fdebp"):
                    recs.append(W("4", fn["base"], 256, fn["ps"] or 0, fn["sv"], fn["lo"], "1", RA_PROG if fn["kind"] == "fd" else EBP_PROG))
                else:
                    recs.append(W("0", fn["base"], 256, fn["ps"] or 0, fn["sv"], fn["lo"], "0", "1" if fn["kind"] == "fpo1" else "0"))
            fl = ";".join("%d 256 %d" % (fn["base"], fn["ps"]) for fn in funs if fn["ps"] is not None) or "-"
            cases.append("|".join(["G", "eip=%d,esp=%d,ebp=%d,ebx=3,esi=5,edi=6" % (eip0, ESP, E), str(ESP), bytes(img).hex(), fl] + recs))
        dist["by_kind"]["G"] = nG
        dist["whole_walks"] = nG
        return cases, dist, True

    # ------------------------------------------------------------------ oracle
    def oracle(self, case, ans, profile):
        if ans.startswith("P;;"):
            return "STACK WIN evaluation panicked: " + ans[3:200]
        if ans == "E":
            return "the generated symbol file was rejected by the parser"
        f = case.split("|")
        try:
            if f[0] == "A":
                return self.oracle_mock(f, ans)
            if f[0] == "G":
                return self.oracle_walk(f, ans)
            if f[0] == "F":
                return self.oracle_real(f[1:], ans, [] if f[1] == "." else f[1].split(","))
            return self.oracle_real(f, ans)
        except Undoc:
            return None
        except RefDisagree as e:
            return "oracle self-check failed (two independent references of the record table disagree): %s" % e

    def oracle_mock(self, f, ans):
        lookup, gcps, hasgc = int(f[1]), int(f[2]), f[3] == "1"
        callee = C6.parse_regs(f[4])
        mem = C6.mem_reader(4, int(f[5]), bytes.fromhex(f[6]) if f[6] != "-" else b"")
        fd, fpo, cfi = parse_recs(f[7:])
        # c07_walk_frame_by_file_record, independent of any reference of the table ALGORITHM: a STACK WIN success (no STACK CFI
        # record in the file) is the evaluation, as written, of some record of the file whose written range covers the address
        if cfi is None and ans.startswith("S|") and len(fd) + len(fpo) > 1:
            outs = []
            undoc = False
            for r in fd + fpo:
                rg = mk_range(r["addr"], r["size"])
                if rg is None or not (rg[0] <= lookup <= rg[1]):
                    continue
                try:
                    o = ref_framedata(r, callee, mem, gcps) if r["ty"] == "4" else ref_fpo(r, callee, mem, gcps, hasgc)
                except Undoc:
                    undoc = True
                    continue
                if o is not None:
                    outs.append("S|cfa=-|ra=-|regs=%s|" % ",".join("%s=%d" % kv for kv in sorted(o.items())))
            if not undoc and not any(ans.startswith(w) for w in outs):
                return ("STACK WIN success that is not the evaluation of any record of the file covering the address "
                        "(c07_walk_frame_by_file_record): got %s, candidates %s" % (ans[:200], outs[:4]))
        kind, regs = ref_win(fd, fpo, lookup, callee, mem, gcps, hasgc)
        if kind == "win":
            want = "S|cfa=-|ra=-|regs=%s|" % ",".join("%s=%d" % kv for kv in sorted(regs.items()))
            if not ans.startswith(want):
                return "STACK WIN result differs from the documented semantics: got %s, documented %scleared=*" % (ans[:300], want)
            got = [kv.split("=")[0] for kv in ans.split("|")[3][5:].split(",") if kv]
            if any(n not in SIX for n in got):
                return "STACK WIN reported a register outside the six outputs: %s" % ans[:300]
            return None
        # no STACK WIN record / evaluation failed: STACK CFI is tried next (judged under C06); only the verdict is checked here
        if cfi is None:
            return None if ans == "N" else "no applicable STACK WIN/CFI record evaluates, but walk_frame returned %s" % ans[:200]
        rules = C6.ref_rules(cfi[0], cfi[1], cfi[2], [], lookup)
        ok = False
        if rules is not None and ".cfa" in rules and ".ra" in rules and not C6.undocumented(cfi[2]):
            cfa = C6.ref_eval(rules[".cfa"], callee.get, mem, None)
            ra = C6.ref_eval(rules[".ra"], callee.get, mem, cfa) if cfa is not None else None
            ok = cfa is not None and ra is not None and cfa <= U32 and ra <= U32
            if ok and not ans.startswith("S|cfa=%d|ra=%d|" % (cfa, ra)):
                return "STACK WIN failed, STACK CFI fallback differs: got %s, documented cfa=%d ra=%d" % (ans[:200], cfa, ra)
        if not ok and ans != "N":
            return "neither STACK WIN nor STACK CFI evaluates, but walk_frame returned %s" % ans[:200]
        return None

    def oracle_real(self, f, ans, below=()):
        """below = StackFrame::parameter_size ("-" = unknown) of the frames under the callee, innermost first.
        Documented (walker.rs FrameWalker docs / STACK WIN docs): a frame has a grand-callee iff it is not the context
        frame; .cbCalleeParams is the grand-callee's parameter size when known, else 0."""
        hasgc = len(below) > 0
        gcps = int(below[-1]) if hasgc and below[-1] != "-" else 0
        ctx = C6.parse_regs(f[1])
        validset = None if f[2] == "all" else (set() if f[2] == "-" else set(f[2].split(",")))
        mem = C6.mem_reader(4, int(f[3]), bytes.fromhex(f[4]) if f[4] != "-" else b"")
        fd, fpo, cfi = parse_recs(f[5:])
        if cfi is not None:
            return None
        ip, sp = ctx.get("eip", 0), ctx.get("esp", 0)
        callee = {k: v for k, v in ctx.items() if validset is None or k in validset}
        for r in C6.ARCH["x86"]["regs"]:
            if validset is None:
                callee.setdefault(r, 0)
        want = "N"
        look = ip - 1 if hasgc else ip       # callers are looked up inside the call instruction
        sp_ok = (not hasgc) or (int(f[3]) <= sp < int(f[3]) + (len(f[4]) // 2 if f[4] != "-" else 0))
        if (validset is None or "esp" in validset) and sp_ok and MODBASE <= look < MODBASE + 0x10000:
            kind, regs = ref_win(fd, fpo, look - MODBASE, callee, mem, gcps, hasgc)
            if kind == "win" and regs.get("eip", ctx.get("eip", 0)) >= 4096 and regs.get("esp", ctx.get("esp", 0)) > sp:
                # eip/esp not set by the record keep the callee's value in the context but are not valid
                want = regs
        if want == "N":
            if ans == "N":
                return None
            return "no STACK WIN frame is documented for this case, but walk_stack produced %s" % ans[:300]
        if ans == "N":
            return "STACK WIN frame expected (%s) but walk_stack produced no CFI frame" % sorted(want.items())
        p = ans.split("|")
        got = dict((kv.split("=")[0], int(kv.split("=")[1])) for kv in p[2][5:].split(",") if kv)
        for n, v in want.items():
            if got.get(n) != v:
                return "STACK WIN register %s differs: got %s, documented %d (%s)" % (n, got.get(n), v, ans[:300])
        extra = sorted(set(got) - set(want))
        # the exact extent of the known finding (c07_forwarded_set_exact / _fpo): W = ([ebp, ebx, edi, esi] ∩ valid in the callee)
        # minus what the record sets.  A register valid in the caller that is neither set by the record nor in W is a
        # different defect (its message does not match F-C07a's what_regex, so it is reported as a fresh violation).
        w_set = set(n for n in ("ebp", "ebx", "edi", "esi") if (validset is None or n in validset) and n not in want)
        if extra and not set(extra) <= w_set:
            return ("STACK WIN through CfiStackWalker: valid in the caller although neither set by the record nor a callee-saved "
                    "register that was valid in the callee (beyond the known forwarding, whose extent here is {%s}): %s"
                    % (",".join(sorted(w_set)), ",".join(sorted(set(extra) - w_set))))
        if extra:
            return ("STACK WIN through CfiStackWalker: registers implicitly forwarded (valid in the caller, not set by the record): "
                    + ",".join(extra))
        return None

    def oracle_walk(self, f, ans):
        """whole walk: the documented STACK WIN semantics applied frame after frame (walker.rs docs: a frame has a grand-callee iff
        it is not the context frame; callers are looked up inside the call instruction; x86: a caller frame needs eip >= 4096
        and a stack pointer above the callee's; frames the unwinder produced are unwound only while their sp is in the stack)"""
        ctx = C6.parse_regs(f[1])
        base, img = int(f[2]), (bytes.fromhex(f[3]) if f[3] != "-" else b"")
        mem = C6.mem_reader(4, base, img)
        funcs = [] if f[4] == "-" else [tuple(int(x) for x in fu.split(" ")) for fu in f[4].split(";")]
        fd, fpo, cfi = parse_recs(f[5:])
        if cfi is not None:
            return None
        callee = {k: ctx[k] for k in ("eip", "esp", "ebp", "ebx") if k in ctx}
        below, frames = [], []
        for _step in range(64):
            hasgc = len(below) > 0
            gcps = (below[-1] or 0) if hasgc else 0
            look = callee["eip"] - (1 if hasgc else 0) - MODBASE
            if hasgc and not (base <= callee["esp"] < base + len(img)):
                break
            if not (0 <= look < 0x10000):
                break
            kind, regs = ref_win(fd, fpo, look, callee, mem, gcps, hasgc)
            if kind != "win" or "eip" not in regs or "esp" not in regs or "ebp" not in regs:
                break
            if regs["eip"] < 4096 or regs["esp"] <= callee["esp"]:
                break
            frames.append((regs["eip"], regs["esp"], regs["ebp"]))
            ps = None
            for (fa, fs, fp) in funcs:
                if fa <= look < fa + fs:
                    ps = fp
                    break
            below.append(ps)
            nxt = {"eip": regs["eip"], "esp": regs["esp"], "ebp": regs["ebp"]}
            if "ebx" in regs:
                nxt["ebx"] = regs["ebx"]
            callee = nxt
        want = "W;" + ";".join("%d,%d,%d" % fr for fr in frames)
        if ans != want:
            return "whole STACK WIN walk differs from the documented frame-by-frame semantics: got %s, documented %s" % (ans[:300], want[:300])
        return None

    def nontrivial(self, case, ans):
        return ans.startswith("S") or (ans.startswith("W;") and len(ans) > 2)


PROP = C07()
