"""C19 — reported bit-flip candidates are genuine single-bit neighbours in mapped memory."""
import struct

from runner import PropBase
from vlib import Rng

U64 = (1 << 64) - 1
BR = {0: (0, 48), 1: (48, 64), 2: (0, 64)}
POISON = [0x2b, 0x2d, 0x2f, 0x49, 0x4b, 0x4d, 0x4f, 0x6b, 0x8b, 0x9b, 0x9f, 0xa5, 0xbb, 0xcc, 0xcd, 0xce, 0xdb, 0xe5]
INSTRS = ["-", "-", "-", "8a0424", "488b00", "ff20", "488b4308", "c3", "90", "ffff"]
# mov al,[rsp] / mov rax,[rax] / jmp [rax] / mov rax,[rbx+8] / ret / nop / (invalid) / no bytes: ids of the memory-operand registers
P_INSTR_REGS = {"8a0424": {7}, "488b00": {0}, "ff20": {0}, "488b4308": {3}, "c3": set(), "90": set(), "ffff": set(), "-": set()}


# ---- amd64 instruction encoder for Q cases (memory-operand forms; the decoder under test is yaxpeax) ----
HW2ID = {0: 0, 1: 2, 2: 1, 3: 3, 4: 7, 5: 6, 6: 4, 7: 5}
HW2ID.update({k: k for k in range(8, 16)})
ID2HW = {v: k for k, v in HW2ID.items()}
# (opcode byte, /digit or None = register field, is LEA)
Q_OPCODES = [(0x8b, None, 0), (0x8b, None, 0), (0x89, None, 0), (0x03, None, 0), (0x01, None, 0), (0x2b, None, 0),
             (0x3b, None, 0), (0x39, None, 0), (0x33, None, 0), (0x23, None, 0), (0x85, None, 0), (0x0b, None, 0),
             (0x8d, None, 1), (0xff, 0, 0), (0xff, 1, 0)]
ARCHES = [0, 10, 9, 3, 0x8002, 0x8001, 5, 12, 0x8003, 1, 0x8004, 6, 0xffff, 2, 8, 7, 4, 11, 13, 0x8005]
LIVE_ARCH = (9, 0x8002, 0x8004)


def s32(x):
    x &= 0xffffffff
    return x - (1 << 32) if x & 0x80000000 else x


def enc_instr(opc, digit, w, reg, form, base, index, scale_log, disp, force_disp32=False):
    """-> (bytes, (base id|-1, index id|-1, scale|-1, disp)); base/index are hardware numbers or None"""
    regf = digit if digit is not None else reg
    rex = 0x40 | (w << 3) | ((regf >> 3) << 2)
    tail = b""
    if form == "rip":
        modrm = (0 << 6) | ((regf & 7) << 3) | 5
        tail = (disp & 0xffffffff).to_bytes(4, "little")
        dec = (16, -1, -1, s32(disp))
    elif form in ("abs", "index_disp"):
        modrm = (0 << 6) | ((regf & 7) << 3) | 4
        if form == "abs":
            sib = (0 << 6) | (4 << 3) | 5
            dec = (-1, -1, -1, s32(disp))
        else:
            rex |= (index >> 3) << 1
            sib = (scale_log << 6) | ((index & 7) << 3) | 5
            dec = (-1, HW2ID[index], 1 << scale_log, s32(disp))
        tail = bytes([sib]) + (disp & 0xffffffff).to_bytes(4, "little")
    else:
        rex |= (base >> 3)
        need_sib = index is not None or (base & 7) == 4
        if force_disp32 or not (-128 <= disp <= 127):
            mod, db = 2, (disp & 0xffffffff).to_bytes(4, "little")
            disp = s32(disp)
        elif disp != 0 or (base & 7) == 5:
            mod, db = 1, (disp & 0xff).to_bytes(1, "little")
        else:
            mod, db = 0, b""
        if need_sib:
            modrm = (mod << 6) | ((regf & 7) << 3) | 4
            if index is not None:
                rex |= (index >> 3) << 1
                sib = (scale_log << 6) | ((index & 7) << 3) | (base & 7)
                dec = (HW2ID[base], HW2ID[index], 1 << scale_log, disp)
            else:
                sib = (0 << 6) | (4 << 3) | (base & 7)
                dec = (HW2ID[base], -1, -1, disp)
            tail = bytes([sib]) + db
        else:
            modrm = (mod << 6) | ((regf & 7) << 3) | (base & 7)
            dec = (HW2ID[base], -1, -1, disp)
            tail = db
    return bytes([rex, opc, modrm]) + tail, dec


def operand_value(ctx, dec):
    b, i, sc, d = dec
    a = ctx[b] if b >= 0 else 0
    if i >= 0:
        a = (a + ctx[i] * sc) & U64
    return (a + d) & U64


def s64(x):
    x &= U64
    return x - (1 << 64) if x >> 63 else x


SEG_PREFIXES = [0x26, 0x2e, 0x36, 0x3e, 0x64, 0x65]
# string instructions: opcode -> hardware numbers of the dereferenced registers in yaxpeax's operand order (7 = rdi, 6 = rsi)
STR_OPS = {0xa4: [7, 6], 0xa5: [7, 6], 0xaa: [7], 0xab: [7], 0xac: [6], 0xad: [6], 0xa6: [7, 6], 0xa7: [7, 6], 0xae: [7], 0xaf: [7]}
# legacy SSE: (mandatory prefix or None, opcode after 0F); the ModRM memory operand is the only memory operand
SSE_OPS = [(None, 0x28), (None, 0x29), (None, 0x10), (None, 0x11), (None, 0x2e), (None, 0x58), (None, 0x59), (None, 0x54), (None, 0x57),
           (0x66, 0x6f), (0x66, 0x7f), (0x66, 0xef), (0xf3, 0x6f), (0xf3, 0x7f), (0xf3, 0x7e), (0x66, 0x28), (0xf2, 0x10), (0xf3, 0x10)]
# VEX (map 0F): (pp, opcode, takes vvvv)
AVX_OPS = [(0, 0x28, 0), (0, 0x29, 0), (0, 0x10, 0), (0, 0x11, 0), (0, 0x58, 1), (0, 0x59, 1), (0, 0x54, 1), (0, 0x57, 1), (1, 0xef, 1),
           (1, 0x6f, 0), (2, 0x6f, 0), (1, 0x7f, 0), (2, 0x7f, 0), (1, 0xfe, 1), (1, 0xd4, 1)]
# other one-memory-operand instructions: (legacy prefix bytes, opcode bytes, /digit or None, immediate size, REX.W choice: 0 / 1 / None = either)
MISC_OPS = [(b"", b"\x0f\xb6", None, 0, None), (b"", b"\x0f\xb7", None, 0, None), (b"", b"\x0f\xbe", None, 0, None), (b"", b"\x0f\xbf", None, 0, None),
            (b"", b"\x0f\xaf", None, 0, None), (b"", b"\x0f\x44", None, 0, None), (b"", b"\x0f\x4c", None, 0, None), (b"", b"\x0f\x94", 0, 0, 0),
            (b"", b"\x0f\xa3", None, 0, None), (b"", b"\x0f\xab", None, 0, None), (b"", b"\x0f\xb1", None, 0, None), (b"", b"\x0f\xc1", None, 0, None),
            (b"", b"\x0f\x18", 1, 0, 0), (b"", b"\x0f\x1f", 0, 0, 0), (b"", b"\x87", None, 0, None), (b"", b"\x86", None, 0, 0),
            (b"", b"\x8a", None, 0, 0), (b"", b"\x88", None, 0, 0), (b"\x66", b"\x8b", None, 0, 0), (b"\x66", b"\x89", None, 0, 0),
            (b"", b"\xc7", 0, 4, None), (b"", b"\xc6", 0, 1, 0), (b"", b"\x83", 0, 1, None), (b"", b"\x83", 5, 1, None), (b"", b"\x83", 7, 1, None),
            (b"", b"\x83", 4, 1, None), (b"", b"\x81", 0, 4, None), (b"", b"\x81", 7, 4, None), (b"", b"\x80", 7, 1, 0), (b"", b"\x80", 1, 1, 0),
            (b"", b"\xf7", 0, 4, None), (b"", b"\xf7", 2, 0, None), (b"", b"\xf7", 3, 0, None), (b"", b"\xf7", 4, 0, None), (b"", b"\xf7", 6, 0, None),
            (b"", b"\xf7", 7, 0, None), (b"", b"\xf6", 6, 0, 0), (b"", b"\xc1", 4, 1, None), (b"", b"\xc1", 5, 1, None), (b"", b"\xd1", 7, 0, None),
            (b"", b"\xd3", 4, 0, None), (b"", b"\x63", None, 0, 1), (b"", b"\x69", None, 4, None), (b"", b"\x6b", None, 1, None),
            (b"", b"\xd9", 0, 0, 0), (b"", b"\xdd", 0, 0, 0), (b"", b"\x0f\xae", 0, 0, 0), (b"", b"\x0f\xc7", 1, 0, 1), (b"", b"\x0f\xc3", None, 0, None)]
# EVEX (map 0F): (pp, W, opcode, takes vvvv, broadcast allowed); full-vector tuple: disp8 is scaled by the vector length in bytes,
# or by the element size (4 / 8 by W) under embedded broadcast
EVEX_OPS = [(0, 0, 0x28, 0, 0), (0, 0, 0x29, 0, 0), (0, 0, 0x10, 0, 0), (0, 0, 0x11, 0, 0), (1, 0, 0x6f, 0, 0), (1, 1, 0x6f, 0, 0), (2, 0, 0x6f, 0, 0),
            (1, 0, 0x7f, 0, 0), (2, 0, 0x7f, 0, 0), (0, 0, 0x58, 1, 1), (0, 0, 0x59, 1, 1), (1, 1, 0x58, 1, 1), (1, 0, 0xfe, 1, 1), (1, 1, 0xd4, 1, 1),
            (1, 0, 0xef, 1, 1), (1, 1, 0xef, 1, 1)]
# lock-able read-modify-write forms: (opcode bytes, /digit or None, immediate size)
LOCK_OPS = [(b"\x01", None, 0), (b"\x29", None, 0), (b"\x31", None, 0), (b"\x21", None, 0), (b"\x09", None, 0), (b"\xff", 0, 0), (b"\xff", 1, 0),
            (b"\x0f\xb1", None, 0), (b"\x0f\xc1", None, 0), (b"\x87", None, 0), (b"\x83", 0, 1), (b"\xf7", 3, 0), (b"\xf7", 2, 0), (b"\x0f\xab", None, 0)]


def enc_general(rng, legacy, opbytes, digit, w, reg, form, base, index, scale_log, disp, imm=0, force_disp32=False, vex=None):
    """legacy prefixes + REX (or VEX) + opcode bytes + ModRM/SIB/disp + immediate; -> (bytes, decoded operand)"""
    e, dec = enc_instr(0, digit, w, reg, form, base, index, scale_log, disp, force_disp32)
    rex, tail = e[0], e[2:]
    immb = bytes(rng.below(256) for _ in range(imm))
    if vex is None:
        return legacy + bytes([rex]) + opbytes + tail + immb, dec
    pp, vvvv, l = vex
    r, x, b = (rex >> 2) & 1, (rex >> 1) & 1, rex & 1
    if x == 0 and b == 0 and rng.chance(1, 2):
        head = bytes([0xc5, ((r ^ 1) << 7) | ((vvvv ^ 15) << 3) | (l << 2) | pp])
    else:
        head = bytes([0xc4, ((r ^ 1) << 7) | ((x ^ 1) << 6) | ((b ^ 1) << 5) | 1, (0 << 7) | ((vvvv ^ 15) << 3) | (l << 2) | pp])
    return legacy + head + opbytes + tail + immb, dec


def region_range(kind, a, b):
    if kind == 0:
        if b == 0 or a + b > U64:
            return None
        return (a, a + b - 1)
    return None if a > b else (a, b)


def region_perm(kind, p):
    if kind == 0:
        return (p & 0x66 != 0, p & 0xcc != 0, p & 0xf0 != 0)
    return (p & 4 != 0, p & 2 != 0, p & 1 != 0)


def allowed(op, perm):
    return True if op == 0 else perm[op - 1]


def parse_flips(s):
    out = []
    if not s:
        return out
    for f in s.split(","):
        out.append([int(x) for x in f.split(":")])
    return out


class C19(PropBase):
    pid = "C19"
    coq_dirs = ["Base", "C08", "C19"]
    bins = ["c19"]
    translators = ["bitflip_consts.py", "c19_check.py", "c19_src.py"]
    rule = ("T cases call bitflip::try_bit_flips directly (address, source register, bit range, amd64 context or none, "
            "memory-info list or Linux maps with 0..64 regions of every permission mix, memory operation); P cases run "
            "process_minidump on a synthesized dump (x86/amd64/arm64 x Windows/Linux, exception code/parameters, optional "
            "planted instruction bytes); Q cases run process_minidump on a dump with any processor_architecture value "
            "(AMD64, PPC64, MIPS64, ARM64, ARM64_OLD, the 32-bit ones, unknown ones), exception code / si_code / parameters "
            "(incl. the general-protection-fault shapes), and an ENCODED amd64 instruction at rip (mov/add/sub/cmp/xor/and/or/"
            "test/inc/dec/lea/push/pop/call/jmp with every ModRM/SIB memory form incl. rip-relative, absolute, 32-bit addressing; "
            "call/jmp reg, ret / ret imm / retf / iret, jcc, call/jmp imm, nop; string instructions with rep/repne/0x66/REX.W, segment overrides, lock RMW forms, "
            "legacy SSE, VEX-encoded AVX, EVEX-encoded AVX-512 (compressed disp8, broadcast, write masks), 49 further one-memory-operand forms, mov moffs64, "
            "push imm, instructions with unrecorded implicit accesses) "
            "together with its decoded form for the model; scenarios: zero base "
            "register, zero index only, zero call target, accessed address in the non-canonical range one high bit from a "
            "mapped one, operand registers one bit from a region, power-of-two addresses. Addresses are one bit away from "
            "region addresses, near null, canonical boundary, random. "
            "Non-trivial = at least one flip reported; distinct = distinct case lines")
    trusted_base = [
        "Coq 8.16.1 kernel; vm_compute inside proofs (80 binary32 confidence classes)",
        "Flocq binary32 (b32_plus/b32_mult/b32_minus, mode_NE) as the semantics of Rust f32 +,*,-",
        "translate/bitflip_consts.py: f32 literals -> bit patterns via Python float/struct (double rounding not possible for the literals present), "
        "regexes over confidence(), BitRange::range, poison list; aborts on unrecognised shapes",
        "translate/c19_check.py: Cpu / PointerWidth / pointer_width / from_processor_architecture (+ numeric ProcessorArchitecture values), the gates and "
        "adjusted-address arms of check_for_bitflips (small expression grammar) inside a fixed skeleton of the body, from_crash_reason / "
        "is_possibly_allowed_for arms, NON_CANONICAL_RANGE, GPF constants, guard + index expression of the NEARBY_REGISTER lookup -> Gen/C19Check.v",
        "translate/c19_src.py: try_bit_flips, calculate_heuristics, try_detect_null_pointer_in_disguise, try_get_non_canonical_crash_address, the "
        "adjusted-address chain of get_exception_details, represents_general_protection_fault, MinidumpException::get_crash_address, "
        "MemoryAddressInfo::try_from_operand and the implicit stack accesses of op_analysis.rs, the permission predicates of MinidumpMemoryInfo (MemoryProtection "
        "flag sets -> masks) and MinidumpLinuxMapInfo, the number_parameters guard of the access-violation refinement COMPILED statement by statement in a small grammar "
        "(expression compiler, guard/item lists, match arms) -> Gen/C19Src.v; C19/Source.v is the reading of that grammar (how a guard / item / gate "
        "list is executed); aborts on Rust outside the grammar; textual pins that remain: the address list handed to the adjusted-address helpers, "
        "the statement skeletons of calculate_heuristics / try_from_operand, fragments of from_{windows,linux,mac}_exception",
        "hand-written models C19/Model.v (try_bit_flips, heuristics, confidence) and C19/Pipeline.v (adjusted address, GPF test, operand evaluation, "
        "implicit stack accesses, instruction-pointer update, register set order): proved EQUAL to the compiled source (c19_*_src_refines) and, through "
        "Driver.v executing the compiled form, compared with the code; the C08 range-table model for region lookup",
        "the amd64 decoder (yaxpeax) is not modelled: the theorems quantify over an arbitrary analysis result; for Q cases the generator's own encoder "
        "supplies the decoded form and the harness compares the resulting accesses / ip update / adjusted address / flips with the real analysis",
        "minidump-crate side (Pipeline.v crash_address / reason_of / os_class): Os / PlatformId / per-OS reason dispatch / error enums regenerated, "
        "get_crash_address compiled, the AV / SIGSEGV / SIGBUS / EXC_BAD_ACCESS refinements of from_{windows,linux,mac}_exception pinned textually; every other crash "
        "reason is one class (irrelevant to the GPF test and to the memory operation); validated by the Q correspondence",
        "extraction ExtrOcamlBasic only; ocaml/c19/main.ml; harness/src/bin/c19.rs (hook minidump_processor::verif_hooks)",
    ]
    assumptions = ["instruction decoding (yaxpeax) is not modelled: theorems hold for every analysis result; P cases with planted bytes and Q cases the generator "
                   "cannot decode are judged by the oracle alone (outside the generated decoded forms: XOP/3DNow!, VSIB gathers, opmask moves, far call/jmp through memory, "
                   "other x87 forms, invalid / truncated encodings)",
                   "contexts in generated dumps have all registers valid (theorems cover unreadable registers; 32-bit addressing exercises the unreadable-operand path)"]
    manifest = {
        "text": "Top-level theorem c19_the_property (raw records of the dump, arbitrary instruction analysis) states the property clause by clause; "
                "it is assembled from: each flip = examined value xor 2^j with j in the platform's bit range, "
                "result is null or inside a region (own range, via the C08 lookup-soundness theorem) permitting the access, nothing is "
                "reported when the examined value is accessible (also stated on the map itself for a region that intersects no other), and "
                "0 <= confidence <= 1 in exact binary32 for every details value with the table index in bounds for every count. Round 5: "
                "check_for_bitflips is REGENERATED from the source (gates, adjusted-address arms, address pass + nested register pass) and proved "
                "equal to the model; platform gating for every Cpu variant and every processor_architecture value (only AMD64/PPC64/MIPS64 can "
                "yield flips; ARM64 and ARM64_OLD never, at any address); the path exception record + ARBITRARY instruction analysis -> adjusted "
                "address -> both passes: a flagged (null pointer) address silences both passes, a non-canonical adjustment only on amd64 + GPF + "
                "accessed address in the non-canonical range and then bits 48..64; operand evaluation: flagged iff the base register reads 0; "
                "zero base register / zero call target => nothing reported; the whole property in plain arithmetic on MemoryInfoList / Linux-maps "
                "records; from the raw records (processor_architecture, platform_id, exception record): no flips unless AMD64/PPC64/MIPS64, "
                "bits 48..64 only for an AMD64 dump with one of the three GPF record shapes (never Android/iOS). Completeness: every qualifying "
                "neighbour of every examined value is reported. Round 5 (second pass): try_bit_flips, calculate_heuristics, the adjusted-address helpers, the GPF arms, "
                "get_crash_address and the operand evaluation / implicit accesses of op_analysis.rs are COMPILED from the source (no longer pinned); the compiled path is "
                "proved equal to the model (c19_*_src_refines), THE PROPERTY is stated for it (c19_the_property_src), and soundness / none-when-accessible / completeness "
                "are proved for ANY try_bit_flips body inside the translator's grammar under four checkable side conditions. "
                "Constants, tables, gates and clamps are regenerated from the source each run; the compiled model is compared with try_bit_flips (guarded "
                "hook) and with whole-dump processing incl. the analysis result for generated instructions; an independent oracle re-checks the "
                "property on the real output.",
        "note": "Trusted: Coq kernel (+VM); Flocq as f32 semantics (brings the standard library's real-number and classical axioms under c19_confidence_01 only); "
                "translators; hand-written models (correspondence-checked); the instruction decoder is an unconstrained input of the theorems.",
    }

    def gen_regions(self, rng, kind, centre):
        n = rng.choice([0, 1, 1, 2, 3, 5, 8, 16, 64]) if rng.chance(1, 6) else rng.range(0, 5)
        regs = []
        for _ in range(n):
            st = rng.below(6)
            if st == 0:
                a = rng.below(1 << 16) & ~0xfff
                size = rng.choice([0x1000, 0x2000, 8, 0x10000])
            elif st == 1:
                a = (centre ^ (1 << rng.below(64))) & ~0xfff & U64
                size = rng.choice([0x1000, 0x2000, 1 << 20])
            elif st == 2:
                a = rng.choice([0x00007ffffffff000, 0x0000800000000000, 0xffff800000000000, 0xfffffffffffff000, 0x7ffffffff000])
                size = rng.choice([0x1000, 0xfff, 0x1001])
            elif st == 3:
                a = centre & ~0xfff
                size = rng.choice([0x1000, 0x2000])
            else:
                a = rng.below(1 << 64)
                size = rng.below(1 << 24)
            if kind == 0:
                p = rng.choice([0, 1, 2, 4, 8, 0x10, 0x20, 0x40, 0x80, 0x104, 0x202, 0x404])
                if rng.chance(1, 8):
                    # any 32-bit protection value: several access bits at once, bits outside MemoryProtection (from_bits_truncate drops them)
                    p = rng.choice([rng.below(1 << 32), rng.below(1 << 12), 0xffffffff, 0xfffff800, 0x800 | rng.below(256)])
                regs.append((a, size, p))
            else:
                hi = min(U64, a + size - 1) if size else max(0, a - 1)
                regs.append((a, hi, rng.below(8)))
        return regs

    def gen_ctx(self, rng, centre):
        if rng.chance(1, 3):
            return None
        if rng.chance(1, 5):
            # a cluster of k registers within the "nearby" distance of one low-bit candidate
            cand = centre ^ (1 << rng.below(12))
            k = rng.range(0, 17)
            vals = [((cand + rng.range(-4096, 4096)) & U64) if i < k else rng.choice([0, 1, rng.below(1 << 64)]) for i in range(17)]
            return vals
        vals = []
        for _ in range(17):
            st = rng.below(6)
            if st == 0:
                b = rng.choice(POISON + [0, 0xff, 0x11])
                vals.append(int.from_bytes(bytes([b]) * 8, "little"))
            elif st == 1:
                vals.append((centre + rng.range(-5000, 5000)) & U64)
            elif st == 2:
                vals.append((centre ^ (1 << rng.below(64))) & U64)
            else:
                vals.append(rng.choice([0, 1, U64, rng.below(1 << 64), rng.below(1 << 20)]))
        return vals

    def fmt_regs(self, kind, regs):
        return "%d %d %s" % (kind, len(regs), " ".join("%d %d %d" % r for r in regs))

    def gen_q(self, rng, dist):
        """one Q case: whole process_minidump with a generated (encoded + decoded) instruction"""
        scen = rng.below(8)
        arch, os_ = 9, rng.below(2)
        kind = 0 if os_ == 0 else rng.below(2)
        ctx = [rng.choice([rng.below(1 << 47), rng.below(1 << 20), rng.below(1 << 64), 1 << rng.below(64)]) for _ in range(17)]
        ctx[16] = (rng.below(1 << 40) | 0x10000) & ~0xf
        ctx[7] = ((rng.below(1 << 46) | (1 << 46)) & ~0xf) if rng.chance(7, 8) else rng.choice([0, 8, 16])
        flags = 0
        if os_ == 0:
            code, nparams, info0 = rng.choice([0xC0000005, 0xC0000005, 0xC0000005, 0xC0000006, 0xC000001D]), rng.below(4), rng.choice([0, 1, 8, 2])
        else:
            code, nparams, info0 = rng.choice([11, 11, 7, 4]), 0, 0
            flags = rng.choice([0, 1, 2, 0x80, 0x80, 5, 0xfffffffa])
        cls = rng.choice(["mem"] * 8 + ["mem32", "callmem", "jmpmem", "pushmem", "popmem", "callreg", "jmpreg", "pushreg", "popreg",
                                        "ret", "jcc", "callimm", "jmpimm", "nop",
                                        "str", "str", "seg", "seg", "lock", "sse", "sse", "avx", "avx", "misc", "misc", "misc", "moffs", "pushimm", "noaccess", "evex", "evex"])
        if scen == 1:
            form = rng.choice(["base", "base_index"])
        elif scen == 2:
            form = rng.choice(["base_index", "index_disp"])
        else:
            form = rng.choice(["base", "base", "base_index", "base_index", "index_disp", "abs", "rip"])
        base = rng.below(16)
        index = rng.choice([x for x in range(16) if x != 4])
        scale_log = rng.below(4)
        disp = rng.choice([0, 8, 0x10, -8, 0x7f, -0x80, 0x100, 0x1000, -0x1000, 0x7fffffff, -0x80000000, rng.range(-70000, 70000)])
        if form in ("abs", "index_disp", "rip"):
            disp = rng.choice([disp, rng.below(1 << 31), -rng.below(1 << 31)])
        if form == "base":
            index = None
        lea, imp, ipk, ipv, ms, dec, reg = 0, 0, 0, 0, 1, None, rng.below(16)
        ops_all = None
        pad = bytes(rng.below(256) for _ in range(16))
        if cls in ("callmem", "jmpmem") and rng.chance(1, 2):
            form, disp = "rip", rng.range(0, 12)          # the target is read from the planted bytes
        if cls == "mem":
            opc, digit, lea = rng.choice(Q_OPCODES)
            w = 1 if opc == 0xff or rng.chance(3, 4) else 0
            enc, dec = enc_instr(opc, digit, w, reg, form, base, index, scale_log, disp, rng.chance(1, 5))
        elif cls == "mem32":
            # 32-bit addressing (0x67): the operand registers are ebx, r9d, ...: not readable from the amd64 context, so the
            # accesses are undetermined and the register pass skips them (ids >= 100 = no such register)
            if form in ("abs", "rip"):
                form = "base"
                index = None
            opc, digit, lea = rng.choice(Q_OPCODES)
            enc, d0 = enc_instr(opc, digit, 1, reg, form, base, index, scale_log, disp, rng.chance(1, 5))
            enc = bytes([0x67]) + enc
            dec32 = (d0[0] + 100 if d0[0] >= 0 else -1, d0[1] + 100 if d0[1] >= 0 else -1, d0[2], d0[3])
        elif cls in ("callmem", "jmpmem", "pushmem"):
            digit = {"callmem": 2, "jmpmem": 4, "pushmem": 6}[cls]
            enc, dec = enc_instr(0xff, digit, rng.below(2), 0, form, base, index, scale_log, disp, rng.chance(1, 5))
            imp = 0 if cls == "jmpmem" else 1
        elif cls == "popmem":
            enc, dec = enc_instr(0x8f, 0, rng.below(2), 0, form, base, index, scale_log, disp, rng.chance(1, 5))
            imp = 2
        elif cls == "str":
            # string instructions (movs/stos/lods/cmps/scas) with optional rep/repne, operand-size prefix, REX.W:
            # the implicit [rdi] / [rsi] operands are what yaxpeax hands to the analysis
            form = "strop"
            opc = rng.choice(sorted(STR_OPS))
            enc = rng.choice([b"", b"", b"\xf3", b"\xf2"]) + rng.choice([b"", b"", b"\x66"]) + rng.choice([b"", b"\x48"]) + bytes([opc])
            ops_all = [(HW2ID[h], -1, -1, 0) for h in STR_OPS[opc]]
            dec = ops_all[0]
        elif cls == "seg":
            # a segment-override prefix does not change the operand the analysis sees (the segment base is ignored)
            opc, digit, lea = rng.choice(Q_OPCODES)
            w = 1 if opc == 0xff or rng.chance(3, 4) else 0
            enc, dec = enc_general(rng, bytes([rng.choice(SEG_PREFIXES)]), bytes([opc]), digit, w, reg, form, base, index, scale_log, disp,
                                   0, rng.chance(1, 5))
        elif cls == "lock":
            ob, digit, imm = rng.choice(LOCK_OPS)
            enc, dec = enc_general(rng, b"\xf0", ob, digit, rng.below(2), reg, form, base, index, scale_log, disp, imm, rng.chance(1, 5))
        elif cls == "sse":
            pfx, o2 = rng.choice(SSE_OPS)
            legacy = (bytes([rng.choice(SEG_PREFIXES)]) if rng.chance(1, 8) else b"") + (bytes([pfx]) if pfx is not None else b"")
            enc, dec = enc_general(rng, legacy, bytes([0x0f, o2]), None, 0, reg, form, base, index, scale_log, disp, 0, rng.chance(1, 5))
        elif cls == "avx":
            pp, o2, usev = rng.choice(AVX_OPS)
            enc, dec = enc_general(rng, b"", bytes([o2]), None, 0, reg, form, base, index, scale_log, disp, 0, rng.chance(1, 5),
                                   vex=(pp, rng.below(16) if usev else 0, rng.below(2)))
        elif cls == "evex":
            # AVX-512: 62 P0 P1 P2 opcode modrm ..; a disp8 is compressed (scaled by the vector length, or the element size under broadcast)
            pp, w, o2, usev, bcast = rng.choice(EVEX_OPS)
            ll = rng.below(3)
            b = 1 if bcast and rng.chance(1, 3) else 0
            n = (8 if w else 4) if b else (16 << ll)
            f32_ = rng.chance(1, 5)
            e, d0 = enc_instr(0, None, 0, reg, form, base, index, scale_log, disp, f32_)
            rex, tail = e[0], e[2:]
            r, x, bb = (rex >> 2) & 1, (rex >> 1) & 1, rex & 1
            vvvv = rng.below(16) if usev else 0
            p0 = ((r ^ 1) << 7) | ((x ^ 1) << 6) | ((bb ^ 1) << 5) | (1 << 4) | 1
            p1 = (w << 7) | ((vvvv ^ 15) << 3) | (1 << 2) | pp
            aaa = rng.choice([0, 0, 1, 2])
            p2 = (ll << 5) | (b << 4) | (1 << 3) | aaa
            enc = bytes([0x62, p0, p1, p2, o2]) + tail
            disp8 = form in ("base", "base_index") and not f32_ and -128 <= disp <= 127 and (disp != 0 or (base & 7) == 5)
            dec = (d0[0], d0[1], d0[2], d0[3] * n) if disp8 else d0
            if o2 in (0x29, 0x11, 0x7f) and aaa and form != "abs":
                # a store under a write mask: yaxpeax hands out a *Masked memory operand variant (for every operand with a
                # register) that MemoryOperandInfo::try_from_operand does not know: no access and no register is recorded
                dec, form = None, None
        elif cls == "misc":
            legacy, ob, digit, imm, wsel = rng.choice(MISC_OPS)
            enc, dec = enc_general(rng, legacy, ob, digit, rng.below(2) if wsel is None else wsel, reg, form, base, index, scale_log, disp,
                                   imm, rng.chance(1, 5))
        elif cls == "moffs":
            # mov al/eax/rax <-> [64-bit absolute offset]
            form = "moffs"
            off = rng.choice([rng.below(1 << 64), rng.below(1 << 47), rng.below(1 << 16), 0, (1 << 47) | rng.below(1 << 20)])
            enc = rng.choice([b"", b"\x48"]) + bytes([rng.choice([0xa0, 0xa1, 0xa2, 0xa3])]) + off.to_bytes(8, "little")
            dec = (-1, -1, -1, s64(off))
        elif cls == "pushimm":
            # push imm8 / imm32: yaxpeax reports no memory size for it, so the analysis takes the "doesn't access memory" shortcut
            # (no implicit stack write is recorded, unlike push reg / push [mem])
            form = None
            enc, ms = rng.choice([bytes([0x6a, rng.below(256)]), bytes([0x68]) + bytes(rng.below(256) for _ in range(4))]), 0
        else:
            form = None
            rexb = bytes([0x41]) if reg >= 8 else b""
            if cls == "callreg":
                enc, imp, ipk, ipv = rexb + bytes([0xff, 0xd0 | (reg & 7)]), 1, 2, HW2ID[reg]
            elif cls == "jmpreg":
                enc, imp, ipk, ipv, ms = rexb + bytes([0xff, 0xe0 | (reg & 7)]), 0, 2, HW2ID[reg], 0
            elif cls == "pushreg":
                enc, imp = rexb + bytes([0x50 | (reg & 7)]), 1
            elif cls == "popreg":
                enc, imp = rexb + bytes([0x58 | (reg & 7)]), 2
            elif cls == "ret":
                # ret / ret imm16 / retf / retf imm16 read the return address at rsp; iretd / iretq: no access recorded, same ip rule
                enc, imp = rng.choice([(bytes([0xc3]), 2), (bytes([0xc3]), 2), (bytes([0xc2, rng.below(256), rng.below(256)]), 2), (bytes([0xcb]), 2),
                                       (bytes([0xca, rng.below(256), rng.below(256)]), 2), (bytes([0x48, 0xcf]), 0), (bytes([0xcf]), 0)])
                ipk = 4
            elif cls == "noaccess":
                # instructions whose (implicit) memory accesses the analysis does not record: leave, pushfq, popfq, xlat, enter,
                # int3, hlt, syscall, ud2, cpuid, mov reg,imm64
                enc, ms = rng.choice([b"\xc9", b"\x9c", b"\x9d", b"\xd7", b"\xc8\x10\x00\x00", b"\xcc", b"\xf4", b"\x0f\x05", b"\x0f\x0b",
                                      b"\x0f\xa2", b"\x48\xb8" + bytes(rng.below(256) for _ in range(8))]), 0
            elif cls == "jcc":
                enc, ipk, ms = bytes([0x70 | rng.below(16), rng.below(256)]), 1, 0
            elif cls == "callimm":
                enc, imp, ipk = bytes([0xe8]) + bytes(rng.below(256) for _ in range(4)), 1, 1
            elif cls == "jmpimm":
                enc, ipk, ms = bytes([0xeb, rng.below(256)]), 1, 0
            else:
                enc, ms = bytes([0x90]), 0
        regs = []
        tag = "random"
        bid = (HW2ID[base] if form in ("base", "base_index") else (16 if form == "rip" else (dec[0] if form == "strop" else None))) if dec else None
        iid = (HW2ID[index] if form in ("base_index", "index_disp") else None) if dec else None
        if scen == 0:
            # platform sweep: every processor_architecture value, power-of-two / region-adjacent crash addresses
            tag = "platform"
            arch = rng.choice(ARCHES)
            if rng.chance(1, 4):
                os_, kind, code, nparams, info0, flags = rng.choice([2, 3]), 0, rng.choice([1, 11, 6]), 0, 0, rng.choice([1, 2, 13])
        elif scen == 1 and (bid is not None and bid != 16 or cls in ("callreg", "jmpreg")):
            tag = "null_base" if dec else "null_target"
            if dec:
                ctx[bid] = 0
                if iid is not None and iid != bid:
                    ctx[iid] = rng.choice([0, 1, 8, rng.below(1 << 16), rng.below(1 << 47)])
            else:
                ctx[ipv] = 0
        elif scen == 2 and iid is not None:
            tag = "null_index_only"
            ctx[iid] = 0
            if bid is not None and bid != iid and bid != 16 and ctx[bid] == 0:
                ctx[bid] = rng.below(1 << 47) | 1
        elif scen in (3, 4):
            tag = "gpf"
            which = rng.below(7)
            if which < 3:
                os_, kind, code, nparams, info0, flags = rng.choice([0, 0, 6]), 0, 0xC0000005, rng.choice([2, 2, 2, 1, 3]), rng.choice([0, 0, 0, 1, 8]), 0
            elif which < 5:
                os_, kind = 1, rng.below(2)
                code, nparams, info0, flags = rng.choice([11, 7, 11, 7, 4]), 0, 0, rng.choice([0x80, 0x80, 0x80, 0, 1])
            elif which == 5:
                # macOS: EXC_BAD_ACCESS / EXC_I386_GPFLT (13), address 0
                os_, kind, code, nparams, info0, flags = 2, 0, rng.choice([1, 1, 1, 2]), 0, 0, rng.choice([13, 13, 13, 1, 2])
            else:
                # an OS without a GPF shape: Solaris; Android (Linux-style reasons); iOS (mac-style reasons)
                os_ = rng.choice([3, 4, 4, 5, 5])
                kind = 0
                if os_ == 4:
                    code, nparams, info0, flags = rng.choice([11, 7]), 0, 0, 0x80
                elif os_ == 5:
                    code, nparams, info0, flags = 1, 0, 0, 13
                else:
                    code, nparams, info0, flags = rng.choice([11, 1, 0xC0000005]), 2, 0, rng.choice([0x80, 13, 0])
            if rng.chance(1, 6):
                arch = rng.choice([0x8002, 0x8004, 12, 0])
        centre = operand_value(ctx, dec) if dec else (ctx[ipv] if ipk == 2 else ctx[7])
        # regions: one bit away from the operand address / from the operand registers / power-of-two addresses
        n = rng.range(0, 4)
        for _ in range(n):
            st = rng.below(6)
            if st == 0:
                a = 1 << rng.below(48)
            elif st == 1 and bid is not None:
                a = ctx[bid] ^ (1 << rng.below(64))
            elif st == 2 and iid is not None:
                a = ctx[iid] ^ (1 << rng.below(64))
            elif st == 3:
                a = centre ^ (1 << rng.below(64))
            elif st == 4:
                a = rng.below(1 << 16)
            else:
                a = rng.below(1 << 47)
            a &= U64
            size = rng.choice([0x1000, 0x2000, 64, 1 << 20])
            lo = a & ~0xf if size == 64 else a & ~0xfff
            if kind == 0:
                regs.append((lo, size, rng.choice([1, 2, 4, 0x20, 0x40, 0x10, 0x104])))
            else:
                regs.append((lo, min(U64, lo + size - 1), rng.below(8)))
        if tag == "gpf":
            # an accessed address in the non-canonical range, one high bit away from a mapped canonical address
            tgt = (rng.below(1 << 47) & ~0xfff) | rng.below(64)
            hi_bit = rng.range(48, 63) if rng.chance(5, 6) else rng.range(40, 47)
            want = tgt ^ (1 << hi_bit)
            if dec and bid is not None and bid != 16 and (iid is None or iid != bid):
                ctx[bid] = (ctx[bid] + want - operand_value(ctx, dec)) & U64
            elif dec and iid is not None and dec[2] == 1:
                ctx[iid] = (ctx[iid] + want - operand_value(ctx, dec)) & U64
            elif not dec and ipk == 2:
                ctx[ipv] = want
            elif not dec and imp:
                ctx[7] = want
            if kind == 0:
                regs.append((tgt & ~0xfff, 0x1000, rng.choice([2, 4, 0x20, 1])))
            else:
                regs.append((tgt & ~0xfff, (tgt & ~0xfff) + 0xfff, rng.below(8)))
        centre = operand_value(ctx, dec) if dec else (ctx[ipv] if ipk == 2 else ctx[7])
        # dump memory the analysis can read: the planted bytes at rip, the stack bytes at rsp
        planted = enc + pad
        stack = b""
        if cls == "ret" and rng.chance(3, 4):
            stack = rng.choice([bytes(8), (rng.below(1 << 47)).to_bytes(8, "little"), (rng.below(1 << 64)).to_bytes(8, "little")]) + bytes(8)
        mems = [(ctx[16], planted)] + ([(ctx[7], stack)] if stack else [])

        def read_u64(addr):
            for (lo, data) in mems:
                if lo <= addr and addr + 8 <= lo + len(data):
                    return int.from_bytes(data[addr - lo:addr - lo + 8], "little")
            return None
        overlap = stack and not (ctx[7] + len(stack) <= ctx[16] or ctx[16] + len(planted) <= ctx[7])
        if cls in ("callmem", "jmpmem"):
            v = read_u64(operand_value(ctx, dec))
            ipk, ipv = (3, v) if v is not None else (1, 0)
        elif cls == "ret":
            v = read_u64(ctx[7]) if stack else None
            ipk, ipv = (3, v) if v is not None else (1, 0)
        # crash address as the OS would report it
        if tag == "gpf":
            if os_ in (0, 6):
                info1, excaddr = rng.choice([U64, U64, U64, U64 - 1, 0]), ctx[16]
            elif os_ >= 3:
                info1, excaddr = U64, rng.choice([0, 0, U64])
            else:
                info1, excaddr = 0, rng.choice([0, 0, 0, 1, centre])
        elif tag == "platform":
            a = rng.choice([1 << rng.range(16, 47), 1 << rng.below(64), centre, rng.below(1 << 47)])
            if regs and rng.chance(1, 2):
                a = (regs[0][0] + rng.below(8)) ^ (1 << rng.below(48))
            info1, excaddr = a & U64, a & U64
        else:
            a = rng.choice([centre, centre, centre, rng.below(1 << 47), 0])
            info1, excaddr = a, (a if os_ == 1 else ctx[16])
        use_ctx = arch in (9, 12) and not (tag == "platform" and rng.chance(1, 3))
        stacks = stack.hex() if stack else "-"
        if not use_ctx:
            ctxs, instr, decs, stacks = "-", "-", "-", "-"
        elif arch != 9:
            ctxs, instr, decs = "A " + " ".join(map(str, ctx)), planted.hex(), "-"
        else:
            ctxs = "A " + " ".join(map(str, ctx))
            if rng.chance(1, 12):
                instr, decs, stacks = "-", "-", "-"
                tag += "_nobytes"
            else:
                instr = planted.hex()
                ops = ops_all if ops_all else ([dec] if dec else ([dec32] if cls == "mem32" else []))
                decs = "D %d %d %d %d %d %d%s" % (lea, ms, imp, ipk, ipv, len(ops), "".join(" %d %d %d %d" % o for o in ops))
                if overlap:
                    decs = "U"
        dist["Q_" + tag] = dist.get("Q_" + tag, 0) + 1
        dist["Qi_" + cls] = dist.get("Qi_" + cls, 0) + 1
        return "Q %d %d %d %d %d %d %d %d %s %s %s %s %s" % (arch, os_, code, flags, nparams, info0, info1, excaddr, ctxs, instr, stacks,
                                                             decs, self.fmt_regs(kind, regs))

    def gen_q_ppc64(self, rng, dist):
        """a PPC64 dump WITH an exception context (39 registers): a live non-amd64 platform — no instruction analysis, no
        register pass, BitRange::All, heuristics over the ppc64 register file"""
        os_ = rng.choice([1, 1, 2, 3])
        kind = rng.below(2) if os_ == 1 else 0
        code, flags = rng.choice([(11, 1), (11, 2), (7, 2), (11, 0x80), (1, 1), (4, 0)])
        regs = self.gen_regions(rng, kind, rng.below(1 << 47))
        if regs and rng.chance(3, 4):
            r = rng.choice(regs)
            cand = (r[0] + rng.below(64)) & U64
        else:
            cand = rng.choice([0, rng.below(1 << 47), 1 << rng.below(64)])
        a = (cand ^ (1 << rng.below(64))) & U64
        k = rng.range(0, 39)
        ctx = []
        for i in range(39):
            if i < k:
                ctx.append((cand + rng.range(-4096, 4096)) & U64)
            else:
                st = rng.below(4)
                if st == 0:
                    ctx.append(int.from_bytes(bytes([rng.choice(POISON + [0, 0xff, 0x11])]) * 8, "little"))
                else:
                    ctx.append(rng.choice([0, 1, U64, rng.below(1 << 64), rng.below(1 << 20)]))
        dist["Q_ppc64_ctx"] = dist.get("Q_ppc64_ctx", 0) + 1
        return "Q 32770 %d %d %d 0 0 %d %d W %s - - - %s" % (os_, code, flags, a, a, " ".join(map(str, ctx)), self.fmt_regs(kind, regs))

    def gen_q_ctx32(self, rng, dist):
        """a dump of a 32-bit architecture (x86, x86-on-win64, arm, mips, ppc, sparc) whose exception stream points at a readable thread
        context of that architecture (CONTEXT_MIPS / CONTEXT_SPARC keep u64 register fields); the crash address is one bit away from NULL
        or from a mapped region: no candidate may be reported for a 32-bit dump"""
        arch = rng.choice([0, 10, 5, 1, 1, 3, 0x8001, 0x8001])
        os_ = rng.choice([0, 1, 1, 2, 3, 4])
        kind = rng.below(2) if os_ == 1 else 0
        if os_ == 0:
            code, flags, nparams, info0 = 0xC0000005, 0, rng.choice([0, 2]), rng.choice([0, 1, 8])
        else:
            code, flags, nparams, info0 = rng.choice([(11, 1), (11, 2), (7, 2), (4, 0), (1, 1)]) + (0, 0)
        regs = []
        for _ in range(rng.range(1, 3)):
            lo = (rng.below(1 << 31) | 0x10000) & ~0xfff
            size = rng.choice([0x1000, 0x2000, 8, 1 << 16])
            if kind == 0:
                regs.append((lo, size, rng.choice([2, 4, 0x20, 0x40])))
            else:
                regs.append((lo, lo + size - 1, rng.choice([4, 6, 5, 7])))
        st = rng.below(3)
        if st == 0:
            a = 1 << rng.below(32)                                   # one bit away from NULL
        else:
            a = (regs[0][0] + rng.below(8)) ^ (1 << rng.below(32 if st == 1 else 64))
        a &= 0xffffffff if rng.chance(3, 4) else U64
        pc = rng.below(1 << 31) & ~3
        sp = (rng.below(1 << 31) | 0x1000) & ~7
        dist["Q_ctx32"] = dist.get("Q_ctx32", 0) + 1
        return "Q %d %d %d %d %d %d %d %d N %d %d - - - %s" % (arch, os_, code, flags, nparams, info0, a, a, pc, sp, self.fmt_regs(kind, regs))

    def gen_cases(self, tier, seed):
        rng = Rng(seed)
        cases = []
        dist = {"T": 0, "P": 0, "with_ctx": 0, "maps": 0, "planted_instr": 0}
        nt = 30000 if tier == "quick" else 300000
        np_ = 2500 if tier == "quick" else 20000
        for _ in range(nt):
            centre = rng.choice([rng.below(1 << 47), rng.below(1 << 20), rng.below(1 << 64), 1 << rng.below(64), 0,
                                 0x00007fffffffe000, 0xffff800000001000, 0x800000000000])
            kind = 1 if rng.chance(1, 3) else 0
            regs = self.gen_regions(rng, kind, centre)
            st = rng.below(5)
            if st == 0 and regs:
                r = rng.choice(regs)
                a = (r[0] + rng.below(16)) ^ (1 << rng.below(64))
            elif st == 1:
                a = 1 << rng.below(64)
            elif st == 2 and regs:
                a = rng.choice(regs)[0]
            else:
                a = centre
            a &= U64
            ctx = self.gen_ctx(rng, a)
            if regs and rng.chance(1, 6):
                # many registers near a candidate that will really be reported
                r = rng.choice(regs)
                cand = (r[0] + rng.below(64)) & U64
                a = cand ^ (1 << rng.below(64))
                k = rng.range(0, 17)
                ctx = [((cand + rng.range(-4096, 4096)) & U64) if i < k else rng.choice([0, 1, rng.below(1 << 64)]) for i in range(17)]
                dist["clustered"] = dist.get("clustered", 0) + 1
            reg = rng.range(-1, 16)
            br = rng.below(3)
            op = rng.below(4)
            ctxs = "-" if ctx is None else "A " + " ".join(map(str, ctx))
            if ctx is not None and rng.chance(1, 8):
                # an x86 context through the hook: register_size 4 (4-byte poison patterns), 10 "registers" incl. eflags
                x = []
                for v in ctx[:10]:
                    st = rng.below(4)
                    if st == 0:
                        x.append(int.from_bytes(bytes([rng.choice(POISON + [0, 0xff, 0x11])]) * 4, "little"))
                    elif st == 1:
                        x.append(int.from_bytes(bytes([rng.choice(POISON)]) * 2, "little"))
                    else:
                        x.append(v & 0xffffffff)
                ctxs = "X " + " ".join(map(str, x))
                dist["x86_ctx"] = dist.get("x86_ctx", 0) + 1
            elif ctx is not None and rng.chance(1, 8):
                # an arm64 context through the hook: 33 registers (counts above the 4-entry NEARBY_REGISTER table, up to 33)
                k = rng.range(0, 33)
                near = (a ^ (1 << rng.below(12))) & U64
                r = [((near + rng.range(-4096, 4096)) & U64) if i < k else ctx[i % 17] for i in range(33)]
                ctxs = "R " + " ".join(map(str, r))
                dist["arm64_ctx"] = dist.get("arm64_ctx", 0) + 1
            elif ctx is not None and rng.chance(1, 8):
                # only some registers valid (MinidumpContextValidity::Some): the others must not count
                ctxs = "V %d %s" % (rng.below(1 << 17), " ".join(map(str, ctx)))
                dist["partial_ctx"] = dist.get("partial_ctx", 0) + 1
            cases.append("T %d %d %d %s %s %d" % (a, reg, br, ctxs, self.fmt_regs(kind, regs), op))
            dist["T"] += 1
            dist["with_ctx"] += ctx is not None
            dist["maps"] += kind
        # seams and thresholds: every constant of the code under test at N-1, N, N+1
        #   LOW_ADDRESS_CUTOFF = 8192 (was_low, nearby-register gating), NEARBY_REGISTER_DISTANCE = 4096,
        #   bit 47/48 (canonical range), NEARBY_REGISTER table length 4, region ends at the address-space top
        for cut in (8191, 8192, 8193):
            for bit in (0, 1, 12, 13, 14, 47, 48, 63):
                for dd in (4095, 4096, 4097):
                    for k in (0, 1, 3, 4, 5):
                        cand = cut
                        a = cand ^ (1 << bit)
                        ctx = [(cand + dd) & U64 if i < k else 0 for i in range(17)]
                        regs = [(cand & ~0xfff, 0x2000, 4)]
                        cases.append("T %d -1 2 A %s %s 0" % (a, " ".join(map(str, ctx)), self.fmt_regs(0, regs)))
                        dist["T"] += 1
        for orig in (8191, 8192, 8193, 1 << 13, 1 << 14, 1 << 47, 1 << 48):   # null candidate, was_low boundary
            if orig & (orig - 1) == 0:
                for br in (0, 1, 2):
                    cases.append("T %d -1 %d - 0 0  0" % (orig, br))
                    dist["T"] += 1
        for top in (U64, U64 - 1, U64 - 0xfff):                                 # maps region ending at 2^64-1
            for bit in (0, 12, 63):
                cases.append("T %d -1 2 - %s 0" % (top ^ (1 << bit), self.fmt_regs(1, [(top & ~0xfff, U64, 7)])))
                dist["T"] += 1
        for _ in range(np_):
            cpu = rng.choice([0, 1, 1, 1, 2])
            os_ = rng.below(2)
            code = rng.choice([0xC0000005, 0xC0000005, 0xC0000006, 0xC000001D, 11, 0x80000003]) if os_ == 0 else rng.choice([11, 7, 4])
            nparams = rng.below(4)
            info0 = rng.choice([0, 1, 8, 2])
            centre = rng.choice([rng.below(1 << 47), rng.below(1 << 16), 0xffff800000001000, 1 << rng.below(64), 0x0000800000000010])
            kind = 0 if os_ == 0 else rng.below(2)
            regs = self.gen_regions(rng, kind, centre)
            if regs and rng.chance(1, 2):
                centre = (rng.choice(regs)[0] + rng.below(8)) ^ (1 << rng.below(64))
            centre &= U64
            info1 = centre if rng.chance(3, 4) else rng.below(1 << 64)
            excaddr = centre if rng.chance(1, 2) else rng.below(1 << 47)
            ctx = self.gen_ctx(rng, centre)
            instr = rng.choice(INSTRS) if ctx is not None else "-"
            if cpu == 1 and regs and rng.chance(1, 4):
                # register pass: the operand register of a planted instruction is one bit away from a region
                instr, ridx = rng.choice([("8a0424", 7), ("488b00", 0), ("488b4308", 3), ("ff20", 0)])
                if ctx is None:
                    ctx = [rng.below(1 << 47) for _ in range(17)]
                r = rng.choice(regs)
                ctx[ridx] = ((r[0] + rng.below(32)) ^ (1 << rng.below(48))) & U64
                ctx[16] = rng.below(1 << 40) | 0x10000       # rip somewhere unmapped by the map list
                os_, code, nparams, info0 = 0, 0xC0000005, 2, rng.choice([0, 1, 8])
                dist["register_pass"] = dist.get("register_pass", 0) + 1
            if cpu == 0:
                if ctx is not None:
                    ctx = [v & 0xffffffff for v in ctx]
            cases.append("P %d %d %d %d %d %d %d %s %s %s" % (cpu, os_, code, nparams, info0, info1, excaddr,
                                                           "-" if ctx is None else "A " + " ".join(map(str, ctx)),
                                                           instr, self.fmt_regs(kind, regs)))
            dist["P"] += 1
            dist["planted_instr"] += instr != "-"
        # instructions without a memory operand (no accesses, no registers): nop / mov rax,rbx
        for instr in ("90", "4889d8"):
            cases.append("Q 9 1 11 1 0 0 0 65536 A %s %s - D 0 0 0 0 0 0 0 1 0 4096 4" % (" ".join(["4096"] * 17), instr))
        for _ in range(14000 if tier == "quick" else 60000):
            cases.append(self.gen_q(rng, dist))
            dist["Q"] = dist.get("Q", 0) + 1
        for _ in range(600 if tier == "quick" else 6000):
            cases.append(self.gen_q_ppc64(rng, dist))
            dist["Q"] = dist.get("Q", 0) + 1
        for _ in range(600 if tier == "quick" else 6000):
            cases.append(self.gen_q_ctx32(rng, dist))
            dist["Q"] = dist.get("Q", 0) + 1
        return cases, dist, False

    def canon_impl(self, case, ans, profile):
        if ans.startswith("P;;"):
            return "P;;"
        if case.startswith("P"):
            ans = ans.split("#", 1)[1] if "#" in ans else ans
        return ans   # Q: adjusted#flips compared whole

    def canon_model(self, case, ans):
        return None if ans == "?" else ans

    # model cannot predict cases with planted instructions: compare only when it answered
    def oracle(self, case, ans, profile):
        if ans.startswith("P;;"):
            return "panic: " + ans[3:200]
        t = case.split()
        if t[0] == "T":
            a, reg, br = int(t[1]), int(t[2]), int(t[3])
            i = 4
            if t[i] == "-":
                i += 1
            elif t[i] == "X":
                i += 11
            elif t[i] == "R":
                i += 34
            elif t[i] == "V":
                i += 19
            else:
                i += 18
            kind, n = int(t[i]), int(t[i + 1])
            regs = [(int(t[i + 2 + 3 * k]), int(t[i + 3 + 3 * k]), int(t[i + 4 + 3 * k])) for k in range(n)]
            op = int(t[i + 2 + 3 * n])
            flips = parse_flips(ans)
            return self.judge(flips, {(-1 if reg < 0 else reg): a}, BR[br], kind, regs, op, reg_fixed=reg)
        if t[0] == "Q":
            return self.oracle_q(t, ans)
        # P
        cpu = int(t[1])
        pre, fl = ans.split("#", 1)
        address, adj, _reason = pre.split("/", 2)
        flips = parse_flips(fl)
        if cpu in (0, 2) and flips:
            return "bit flips reported for a 32-bit or ARM64 dump"
        if adj.startswith("null") and flips:
            return "bit flips reported although the access was recognised as null pointer plus offset"
        if not flips:
            return None
        i = 8
        ctx = None
        if t[i] == "-":
            i += 1
        else:
            ctx = [int(x) for x in t[i + 1:i + 18]]
            i += 18
        instr_regs = P_INSTR_REGS.get(t[i])     # base / index registers of the planted instruction's memory operands
        i += 1  # instr
        kind, n = int(t[i]), int(t[i + 1])
        regs = [(int(t[i + 2 + 3 * k]), int(t[i + 3 + 3 * k]), int(t[i + 4 + 3 * k])) for k in range(n)]
        os_, code, nparams, info0 = int(t[2]), int(t[3]), int(t[4]), int(t[5])
        op = 0
        if os_ == 0 and code == 0xC0000005 and nparams >= 1:
            op = {0: 1, 1: 2, 8: 3}.get(info0, 0)
        if adj.startswith("nc:"):
            examined = {-1: int(adj[3:])}
            br = (48, 64)
        else:
            examined = {-1: int(address)}
            br = (0, 48)
        if ctx:
            for k, v in enumerate(ctx):
                if instr_regs is None or k in instr_regs:
                    examined[k] = v
        return self.judge(flips, examined, br, kind, regs, op, reg_fixed=None)

    def oracle_q(self, t, ans):
        arch, os_, code, flags, nparams, info0, info1, excaddr = [int(x) for x in t[1:9]]
        adj, fl = ans.split("#")[:2]
        flips = parse_flips(fl)
        if arch not in LIVE_ARCH and flips:
            return "bit flips reported for processor_architecture %#x (32-bit, ARM64/ARM64_OLD or unknown)" % arch
        if adj.startswith("null") and flips:
            return "bit flips reported although the access was recognised as null pointer plus offset"
        if adj.startswith("nc:") and arch != 9:
            return "non-canonical adjustment on a non-amd64 dump"
        if not flips:
            return None
        i = 9
        ctx = None
        if t[i] == "-":
            i += 1
        elif t[i] == "W":
            i += 40        # ppc64 context: no register pass on this platform
        elif t[i] == "N":
            i += 3         # raw context of a 32-bit architecture (pc sp): nothing may be reported at all
        else:
            ctx = [int(x) for x in t[i + 1:i + 18]]
            i += 18
        i += 2  # instr, stack
        instr_regs = None
        if t[i] == "D":
            # the generator's own decoding of the instruction it encoded: only the base / index registers of its memory operands are
            # "crashing-instruction registers" (ids >= 100: 32-bit registers the amd64 context cannot read)
            nops = int(t[i + 6])
            instr_regs = set()
            for k in range(nops):
                for r in (int(t[i + 7 + 4 * k]), int(t[i + 8 + 4 * k])):
                    if 0 <= r < 100:
                        instr_regs.add(r)
            i += 7 + 4 * nops
        else:
            i += 1
        kind, n = int(t[i]), int(t[i + 1])
        regs = [(int(t[i + 2 + 3 * k]), int(t[i + 3 + 3 * k]), int(t[i + 4 + 3 * k])) for k in range(n)]
        op = 0
        if os_ in (0, 6) and code == 0xC0000005 and nparams >= 1:
            op = {0: 1, 1: 2, 8: 3}.get(info0, 0)
        address = info1 if (os_ in (0, 6) and code in (0xC0000005, 0xC0000006) and nparams >= 2) else excaddr
        if adj.startswith("nc:"):
            v = int(adj[3:])
            if not (0x0000800000000000 <= v <= 0xffff7fffffffffff):
                return "adjusted address %#x reported as non-canonical is canonical" % v
            examined = {-1: v}
            br = (48, 64)
        else:
            examined = {-1: address}
            br = (0, 48) if arch == 9 else (0, 64)
        if ctx:
            for k, v in enumerate(ctx):
                if instr_regs is None or k in instr_regs:
                    examined[k] = v
        return self.judge(flips, examined, br, kind, regs, op, reg_fixed=None)

    def judge(self, flips, examined, br, kind, regs, op, reg_fixed):
        ranges = [(region_range(kind, a, b), region_perm(kind, p)) for (a, b, p) in regs]
        for f in flips:
            addr, reg, nc, isnull, low, nearby, poison, conf = f
            if reg_fixed is not None and reg != (-1 if reg_fixed < 0 else reg_fixed):
                return "flip carries source register %d, expected %d" % (reg, reg_fixed)
            if reg not in examined:
                return "flip attributed to register %d, which is not a register of the crashing instruction" % reg
            a = examined[reg]
            d = a ^ addr
            if d == 0 or d & (d - 1) != 0:
                return "candidate %#x differs from the examined value %#x in %d bits" % (addr, a, bin(d).count("1"))
            j = d.bit_length() - 1
            if not (br[0] <= j < br[1]):
                return "flipped bit %d outside the platform's range %s" % (j, br)
            if addr != 0 and not any(r and r[0] <= addr <= r[1] and allowed(op, perm) for (r, perm) in ranges):
                return "candidate %#x is neither null nor inside a mapped region permitting the access" % addr
            # "accessible" is judged only where the map is unambiguous: the covering region intersects
            # no other region (C08 completeness then guarantees the lookup finds it)
            for k, (r, perm) in enumerate(ranges):
                if r and r[0] <= a <= r[1] and allowed(op, perm) and all(
                        k == m or r2 is None or r2[1] < r[0] or r[1] < r2[0] for m, (r2, _) in enumerate(ranges)):
                    return "flip reported although the examined address %#x is itself accessible" % a
            if conf < 0:
                return "confidence missing"
            c = struct.unpack("<f", struct.pack("<I", conf))[0]
            if not (0.0 <= c <= 1.0):
                return "confidence %r outside [0,1]" % c
            if bool(isnull) != (addr == 0):
                return "is_null flag inconsistent"
        return None

    def nontrivial(self, case, ans):
        if case.startswith("Q"):
            return len(ans.split("#")) > 1 and bool(ans.split("#")[1])
        body = ans.split("#", 1)[1] if case.startswith("P") and "#" in ans else ans
        return bool(body) and not body.startswith("P;;")


PROP = C19()
