"""C17 — symbol lookup paths derived from module names stay inside the symbol directories."""
import itertools

import vlib
from runner import PropBase
from vlib import Rng

SEPS = (0x2F, 0x5C)
FIELDS = ["breakpad_sym.cache_rel", "breakpad_sym.server_rel", "code_info", "extra_debuginfo.cache_rel",
          "extra_debuginfo.server_rel", "binary.cache_rel", "binary.server_rel", "moz(binary).server_rel"]


def hx(b):
    if isinstance(b, str):
        b = b.encode("utf-8")
    return b.hex() if b else "-"


def unhx(t):
    return b"" if t == "-" else bytes.fromhex(t)


def is_hex_text(b):
    return all(chr(c) in "0123456789abcdefABCDEF" for c in b)


def violations_of(rel):
    """The property's three conditions on one relative path (bytes); list of what is wrong."""
    bad = []
    if rel[:1] and rel[0] in SEPS:
        bad.append("starts with a separator")
    if len(rel) >= 2 and rel[1] == 0x3A and (65 <= rel[0] <= 90 or 97 <= rel[0] <= 122):
        bad.append("has a drive prefix")
    comps = rel.replace(b"\\", b"/").split(b"/")
    if b".." in comps:
        bad.append("has a `..` component")
    return bad


# ---------------------------------------------------------------------------------------------
# Hostile-name dictionaries.  A path builder is only as safe as its LAST transformation: whatever a
# maintainer adds around the leaf (trimming whitespace or markers, stripping or replacing extensions,
# percent-decoding, case folding, unicode normalisation) can turn a harmless-looking name into one
# of the cores below after the validation ran.  So every core is generated in every spelling that
# such a step could map onto it, wrapped (before / after / both, with and without padding) in every
# token such a step could remove: whitespace, known markers, extensions and the string literals of
# the lookup code itself.
CORE_SPELLINGS = {
    "..": ["..", "%2e%2e", "%2E%2E", "%2e%2E", "%2E%2e", "%2e.", "%2E.", ".%2e", ".%2E", "\uff0e\uff0e", "\u2025",
           ".\u200b.", ". .", ".\t.", "%252e%252e", "%252E%252E", "..\x00", ".\u0307."],
    "": ["", " ", "\t", "\u00a0", "\u3000", "%20", "%00", "\u200b"],
    "C:": ["C:", "c:", "C\uff1a", "\uff23:", "C%3A", "C%3a", "C:x", "z:\u00e9", "C\u200b:"],
    ".": [".", "%2e", "%2E", "\uff0e"],
    "/": ["%2f", "%2F", "%5c", "%5C", "\uff0f", "\u2215", "\uff3c", "%252f"],
}
EXACT = ["..", "", "C:"]                      # the cores themselves: full product below
WS = [" ", "  ", "    ", "\t", "\u00a0", "\u3000"]
MARKERS = [" (deleted)", "(deleted)", " [vdso]", ";1", " (copy)", "~", ".bak", ".", "..", "%20", "\x00"]
EXTS = [".pdb", ".PDB", ".Pdb", ".dll", ".DLL", ".sym", ".so", ".so.6", ".exe", ".dylib", ".dbg", ".pd_", ".dl_"]
DIRS = ["", "/d/", "C:\\x\\", "a\\b/", "\\\\?\\C:\\", "//srv/share/"]
# Characters whose Unicode case mappings produce ASCII letters or change length: a case fold applied AFTER the validation turns
# `<KELVIN SIGN>:x` into `k:x` (a drive prefix; to_lowercase), `<LONG S>:` / `<DOTLESS I>:` into `S:` / `I:` (to_uppercase); U+0130 lowers
# to `i` + U+0307, U+00DF / U+FB01 / U+0149 / U+1E9E change length.  Placed right before `:` at the start of a leaf and next to `.`.
CASE_MAPPED = ["\u212a", "\u017f", "\u0131", "\u0130", "\u00df", "\ufb01", "\u0149", "\u1e9e", "\u212b", "\u03a3"]
CASE_MAPPED_SHAPES = ["%s:", "%s:x.pdb", "%s:payload.pdb", "%s:\\x", "%s", "%s.", ".%s", ".%s.", "%s..", "..%s", "%s%s:", "x%s:", "%s.pdb", "%s.PDB",
                      "%s.dll", "%s: ", " %s:"]
# characters that are syntax to a URL parser, in every percent spelling
URL_PUNCT = ".:/\\?#%@"


def pct_spellings(ch):
    h = "%02x" % ord(ch)
    forms = {ch, "%" + h, "%" + h.upper(), "%" + h[0].upper() + h[1], "%" + h[0] + h[1].upper(), "%25" + h, "%25" + h.upper()}
    return sorted(forms)


def dot_segment_spellings():
    d = [".", "%2e", "%2E"]
    return d + [a + b for a in d for b in d]


def wrapped(core_spelling, wrappers, pads=("", " ")):
    out = []
    for w in wrappers:
        for pad in pads:
            if pad and (w[:1].isspace() or not w):
                continue
            out += [core_spelling + pad + w, w + pad + core_spelling]
        if len(w) <= 4:
            out.append(w + core_spelling + w)
    return out


class C17(PropBase):
    pid = "C17"
    translators = ["join_sites.py", "c17_lookup.py", "c17_flow.py"]
    coq_dirs = ["Base", "C17", "Gen"]
    bins = ["c17"]
    rule = ("cases = (code_file, debug_file, debug id text, code id text); strings exhaustive over the alphabet "
            "{a . / \\ : NUL e-acute} up to length 5 used as code_file and debug_file at once, up to length 4 paired with "
            "partner strings (ordinary, '..', '', drive-prefixed), plus random long strings with mixed separators, drive and UNC "
            "prefixes, plus the hostile-name dictionary (every core '..', '', 'C:', '.', encoded separators in every spelling x wrapper "
            "(whitespace, markers, extensions, the checkout's own string literals) x position x directory style x role; characters whose case mappings yield ASCII letters or change length (KELVIN SIGN, LONG S, dotless / dotted I, sharp s, ligatures) before ':' at the start of a leaf and next to '.'); url probe: every percent "
            "spelling of . : / \\ ? # % @, all dot-segment spellings, server-URL cases; raw references for Url::join (schemes x slash runs x authorities/paths, random); code-info redirects (prefix x server-supplied debug file x id x tail); ids nil / ordinary / maximal / PDB2.0 / absent, code ids with "
            "non-hex bytes; a case is non-trivial when at "
            "least one builder returned a path; distinct = distinct case lines")
    trusted_base = [
        "Coq 8.16.1 kernel (vm_compute in the refutation witnesses, the non-vacuity Examples and the by-computation obligations "
        "c17_join_sites_modelled / c17_src_consumers_known / c17_src_sinks_known / c17_src_flow_sites_agree / c17_src_flow_table)",
        "translate/c17_lookup.py: a small compiler (tokeniser, parser, type-directed lowering) from the Rust of leafname, safe_leafname, "
        "replace_or_add_extension, the four builders, moz_lookup, lookup (lib.rs), basename (minidump-common utils.rs) and the escape set of join_rel "
        "(http.rs; rest of that body pinned as text) to Gallina over C17/Prims.v — one hand-written definition per std operation (rsplit/split/rfind on "
        "ASCII patterns, Iterator::next/last, Option combinators, Vec pop/push/join, String::pop = one character, slices); the generated functions are "
        "proved equal to the hand-written model C17/Model.v (c17_src_tie) and are what the extracted driver runs against the real code",
        "translate/c17_flow.py (regex / bracket matching, no type information): join sites and file-system sinks of EVERY file of the breakpad-symbols "
        "crate with the provenance of roots, joined strings and sink paths followed through let-bindings, parameters (every call site in the crate) and "
        "the Ok(..) values of self.locate_file; unknown provenance is reported, not guessed; a callee census closes the vocabulary: in every file that "
        "mentions a path / file-system word every callee name (function path, method, macro) must be on the translator's reviewed list (else it aborts), "
        "every call anywhere in the crate of a callee that reaches the file system must be one of the derived sinks, a file-system function passed as a "
        "value aborts, in-place edits (.push/.pop/.set_file_name/...) outside the compiled builders are listed with the kind of their receiver "
        "(heuristic: declared types and binding expressions); `.into()` / `.parse()` are not on the list (a conversion into a PathBuf aborts) and a `let` declared with a path type is treated as a "
        "sink; still outside: calls through closures / function pointers / trait objects of other crates, macros that expand to file-system calls; "
        "translate/join_sites.py + C17/Consumers.v: the older textual pin of every .join( / join_rel( call",
        "Path::join modelled from std's PathBuf::push (unix exactly; windows for the cases that matter: drive / double-separator "
        "/ rooted arguments); the POSIX join is additionally executed for real on every produced path by the harness; Path::parent is not modelled; "
        "C17/UrlModel.v: the part of url 2.5.4's Url::join that applies to a reference against an http(s) base (trimming, "
        "scheme detection, relative/absolute/authority/query/fragment branches, PATH encode set, dot-segment spellings, pop/shorten), written by "
        "hand from parser.rs and validated against the real crate by the url probe (lookup cases + server-URL cases); C17/UrlFull.v: the whole "
        "dispatch of Url::join for a special non-file base (parse_scheme, parse_with_scheme incl. the same-scheme-is-relative rule, file / non-special "
        "schemes, authority after two or more slashes or backslashes, absolute paths), compared with the real url crate on ~21k raw references per build "
        "(c17 --url-join: scheme, userinfo, host, port and path of base.join(reference)); the authority TEXT is not interpreted (host parsing, IDNA, "
        "ports: a selected authority may still be rejected by the real parser); query, fragment not modelled",
        "str::to_lowercase / to_uppercase modelled as ASCII case mapping (compared with 'pdb'/'dll': the only non-ASCII char lowering to ASCII is U+212A -> k; "
        "code ids are hex text)",
        "C17/IdModel.v: DebugId parse / BreakpadFormat rendering and CodeId::new written by hand from debugid 0.8.0 (outside /repo, not translated), "
        "compared with the real crate on every case; the harness also observes that both ids render hex only",
        "extraction: ExtrOcamlBasic only; ocaml/zconv.ml + ocaml/c17/main.ml glue; harness/src/bin/c17.rs (lookup cases, url probe with a loopback "
        "listener, filesystem probe in two sandboxes per case)",
    ]
    manifest = {
        "text": "The Gallina model of the lookup code is COMPILED from the Rust source on every run (leafname, safe_leafname, replace_or_add_extension, "
                "breakpad_sym_lookup, code_info_breakpad_sym_lookup, extra_debuginfo_lookup, binary_lookup, moz_lookup, lookup, join_rel's escape set, basename) "
                "and proved equal to the hand-written model (c17_src_tie). Headline: c17_property / c17_property_code_info (everything below in one statement, no "
                "hypothesis on the identifiers). Theorems on the generated code, for all byte strings (either separator style, "
                "mixed and trailing separators, '.', '..', drive / UNC prefixes, NUL, non-ASCII), all DebugId values and all raw code ids (c17_ids_render_hex, "
                "c17_src_all_ids): every cache_rel/server_rel of every FileKind, the code-info path and the mozilla-CAB variant does not start with a separator, "
                "has no drive prefix and no `..` component (c17_src_relative, c17_src_code_info_contained, c17_src_moz; moz_lookup's unwrap never panics); "
                "joining it onto any root under POSIX or Windows Path::join rules (incl. verbatim roots) or by concatenation keeps the root a prefix, and through "
                "join_rel + WHATWG reference resolution (Url::join) it is requested below the base directory of every base path (c17_src_contained, "
                "c17_join_contained, c17_join_verbatim_contained, c17_url_join_contained; refuted without the encoding); for ALL byte strings, safe or not, the "
                "request never leaves the configured server's scheme and leaves its host exactly for a leading `//` (c17_url_resolve_all_strings, "
                "c17_url_resolve_exact on the full model of Url::join's dispatch, c17_url_resolve_contained, c17_url_models_agree); at the level of std::path components "
                "on unix the joined cache path and its parent directory (create_dir_all) keep the root's components in front (c17_path_join_components, "
                "c17_cache_paths_below_root; component model compared with the real std::path on every produced path). What is answered is pinned too "
                "(c17_src_available, c17_src_declines). Consumers, derived from the source by "
                "data flow: every .join( / join_rel( of SimpleSymbolSupplier / HttpSymbolSupplier joins a string that came out of a lookup builder onto a symbol "
                "dir / cache dir / server URL, and it stays below that root for every module and kind (c17_src_consumers_known, c17_src_consumers_contained); "
                "every file-system sink (fs::*, NamedTempFile, persist, SymbolFile::from_file, exists/is_file/...) receives a root or such a joined path "
                "(c17_src_sinks_known, c17_src_sinks_contained), over the whole crate: every call of a file-system callee in any file is one of these sinks "
                "(c17_src_sink_calls_covered; closed callee vocabulary enforced by the translator) and no path is edited in place outside the compiled builders "
                "(c17_src_no_path_edits). The server URL as configured is the root: HttpSymbolSupplier::new's appended '/' is pinned from the source and modelled "
                "(c17_src_server_url_normalised, c17_server_url_root: the request path EXTENDS the configured path; refuted without the '/'); a debug file "
                "name supplied by the server in a code-info redirect (Location header, parse_location) is covered like a name from the dump "
                "(c17_redirect_contained). The tree before the fixes is refuted (c17_relative_unfixed_refuted, c17_url_unencoded_refuted). "
                "Tie to the code: the extracted GENERATED model and the real code run on ~100k (code_file, debug_file, ids) cases in debug and release builds; "
                "url probe (every request of HttpSymbolSupplier against a loopback server predicted by the model, ~13.2k incl. ~600 code-info redirects with hostile "
                "Location headers), Url::join on ~21k raw references per build against the full dispatch model and filesystem probe (paths returned and "
                "files created by both suppliers predicted by the flow model, ~4.5k; two sandboxes per case) ; an independent oracle re-checks the three "
                "conditions, a real std::path join, request targets and sandbox containment on the implementation's answers.",
        "note": "Trusted: Coq kernel; the Rust-to-Gallina compiler and the std vocabulary C17/Prims.v (validated by the correspondence run on the generated "
                "model, not verified); the regex-based data-flow extraction of consumers and sinks (unknown provenance is reported; an unknown callee name in a "
                "path-handling file aborts the translator; calls through closures / other crates' traits are outside the guard); Path::join semantics from std's source (Windows rules cannot be executed here: model-only; Path::parent not modelled); "
                "hand-written model of url 2.5.4 reference resolution (all branches of the dispatch; host text uninterpreted) and of debugid's rendering, both compared with the real crates on every run; ASCII case "
                "mapping. No axioms.",
    }
    assumptions = ["module strings are valid UTF-8 (they are Rust `str`); bytes >= 128 are never separators",
                   "debug/code id text is hex-only: proved for the model of debugid's rendering (C17/IdModel.v, all values), observed on every case through "
                   "the real constructors; the older theorems keep it as a hypothesis",
                   "URL theorems: scheme, authority text and path (host syntax, query, fragment not modelled); base is an http/https/ws/wss/ftp URL that can be a base; strings are byte lists with elements 0..255"]

    # ------------------------------------------------------------------ cases
    def source_literals(self):
        """String literals of the lookup code itself (a fuzzing dictionary): whatever text the path builders compare
        against, strip or append is what a hostile module name should contain."""
        import os
        import re
        lits = []
        for f in ("breakpad-symbols/src/lib.rs", "breakpad-symbols/src/http.rs", "minidump-common/src/utils.rs"):
            try:
                src = open(os.path.join(vlib.REPO, f)).read()
            except OSError:
                continue
            src = src.split("#[cfg(test)]")[0]
            for m in re.finditer(r'"((?:[^"\\\n]|\\.){1,24})"', src):
                t = m.group(1)
                if "{" in t or "\\" in t:
                    continue
                if t not in lits:
                    lits.append(t)
            for m in re.finditer(r"'([^'\\])'", src):
                if m.group(1) not in lits:
                    lits.append(m.group(1))
        return lits[:200]

    def gen_cases(self, tier, seed):
        rng = Rng(seed)
        cases = []
        dist = {"exhaustive_same": 0, "exhaustive_paired": 0, "random": 0, "dictionary": 0}
        alpha = [b"a", b".", b"/", b"\\", b":", b"\x00", "\u00e9".encode()]
        ids = ["N", hx("0" * 33), hx("5A9832E5287241C1838ED98914E9B7FF1"), hx("ffffffffffffffffffffffffffffffffffffffff"),
               hx("5a9832e5287241c1838ed98914e9b7ffA0"), hx("3C0D21E41"), hx("000000000"), hx("3c0d21e4FFFFFFFF"),
               # round 5: the model parses the id to a VALUE and renders it, so non-canonical spellings are compared too
               hx("0000000000"), hx("5A9832E5287241C1838ED98914E9B7FF0001"), hx("0c0d21e400a0")]
        cids = ["N", "-", hx("5A9832e5"), hx("../..\\x:/G"), hx("f" * 64), hx("zz")]
        k = [0]

        def pick_ids():
            k[0] += 1
            # mostly present ids (so that paths are produced); absent ones regularly
            did = ids[k[0] % len(ids)] if k[0] % 11 == 0 else ids[1 + k[0] % (len(ids) - 1)]
            cid = cids[k[0] % len(cids)] if k[0] % 7 == 0 else cids[1 + (k[0] // 3) % (len(cids) - 1)]
            return did, cid

        maxlen = 5 if tier == "quick" else 6
        words = [b""]
        allw = [b""]
        for n in range(1, maxlen + 1):
            words = [w + a for w in words for a in alpha]
            allw += words
        for w in allw:
            did, cid = pick_ids()
            cases.append("%s %s %s %s" % (hx(w), hx(w), did, cid))
            dist["exhaustive_same"] += 1
        partners = [b"k.dll", b"..", b"", b"C:a"]
        lim = 7 ** 4 + 7 ** 3 + 7 ** 2 + 7 + 1 if tier == "quick" else 7 ** 5 + 7 ** 4 + 7 ** 3 + 7 ** 2 + 7 + 1
        for w in allw[:lim]:
            for p in partners:
                did, cid = pick_ids()
                cases.append("%s %s %s %s" % (hx(w), hx(p), did, cid))
                did, cid = pick_ids()
                cases.append("%s %s %s %s" % (hx(p), hx(w), did, cid))
                dist["exhaustive_paired"] += 2
            cases.append("%s N %s %s" % (hx(w), ids[2], cids[2]))
        # random long strings
        atoms = [b"a", b"B", b".", b"..", b"/", b"\\", b":", b"C:", b"\\\\", b"//", b"\\\\?\\", b"\\\\server\\share\\", b"c:\\",
                 b"Windows", b"kernel32", b".pdb", b".PDB", b".Pdb", b".dll", b".DLL", b".sym", b".so", b" ", b"\t", b"\x00", b"%2e",
                 "\u00e9".encode(), "\u212a".encode(), "\u0130".encode(), "\U0001f600".encode(), "\u212a:".encode(), "\u017f:".encode(), "\u0131:".encode(), b"pdb", b"dll", b"_", b"-", b"~", b"..."]
        nrand = 3000 if tier == "quick" else 60000
        # dictionary block (see CORE_SPELLINGS): core spelling x wrapper x position x directory style x role
        lits = [l for l in self.source_literals() if l]
        atoms += [l.encode() for l in lits if len(l) <= 12]
        wrappers = WS + MARKERS + EXTS + [l for l in lits if len(l) <= 24]
        rot = [0]

        def emit(leaf, full):
            dirs = DIRS if full else [DIRS[(rot[0] + i) % len(DIRS)] for i in (0, 3)]
            rot[0] += 1
            for d in dirs:
                w = (d + leaf).encode()
                roles = [(w, w), (b"k.dll", w), (w, b"t.pdb")] if full else [[(w, w), (b"k.dll", w), (w, b"t.pdb")][rot[0] % 3]]
                for cf, df in roles:
                    did, cid = pick_ids()
                    if did == "N":
                        did = ids[2]
                    cases.append("%s %s %s %s" % (hx(cf), hx(df), did, cid if cid != "N" else cids[2]))
                    dist["dictionary"] += 1

        for core, spellings in CORE_SPELLINGS.items():
            for sp in spellings:
                exact = sp in EXACT
                emit(sp, True)
                for leaf in wrapped(sp, wrappers, pads=("", " ", "  ") if exact else ("", " ")):
                    emit(leaf, exact and len(leaf) <= 40)
        for l in lits:                     # the literals on their own and doubled (strip-once vs strip-all)
            for leaf in (l, l + l, l + " " + l, l.upper(), l.lower()):
                emit(leaf, False)

        for ch in CASE_MAPPED:             # case-mapping characters before `:` at the start of a leaf and next to `.` (seeded C17-7)
            for shape in CASE_MAPPED_SHAPES:
                emit(shape.replace("%s", ch), True)

        def rstr():
            n = rng.range(0, 12) if rng.chance(3, 4) else rng.range(10, 60)
            return b"".join(rng.choice(atoms) for _ in range(n))

        hexd = "0123456789abcdefABCDEF"

        def rid():
            # a random debug id text DebugId::from_breakpad accepts: 8 (PDB 2.0) or 32 digits + an appendix of 1..8 digits,
            # any case, leading zeros allowed (the model parses it to a value and renders it like BreakpadFormat)
            k = 8 if rng.chance(1, 2) else 32
            return "".join(rng.choice(hexd) for _ in range(k + rng.range(1, 8)))

        for _ in range(nrand):
            cf, df = rstr(), rstr()
            did, cid = pick_ids()
            if did != "N" and rng.chance(1, 4):
                did = hx(rid())
            if rng.chance(1, 6):
                cid = hx(rstr())
            cases.append("%s %s %s %s" % (hx(cf), hx(df) if rng.chance(19, 20) else "N", did, cid))
            dist["random"] += 1
        cases = list(dict.fromkeys(cases))
        return cases, dist, True

    # ------------------------------------------------------------------ correspondence
    def canon_impl(self, case, ans, profile):
        if case.startswith(("B ", "J ", "R ")):
            return ""
        parts = ans.split("|")
        # the eight paths + the lookup(kind) flag + std::path's components of ROOT.join(rel) and of its parent
        return "|".join(parts[:2] + [x for x in parts[2:] if x.startswith("P")])

    def canon_model(self, case, ans):
        return "" if case.startswith(("B ", "J ", "R ")) else ans

    # ------------------------------------------------------------------ oracle (independent of the model)
    def oracle(self, case, ans, profile):
        if case.startswith(("B ", "J ", "R ")):
            return None                       # probe-only case (replay)
        if ans.startswith("P;;"):
            return "a lookup builder panicked: " + ans[3:200]
        parts = ans.split("|")
        fields = parts[0].split(";")
        if len(fields) != len(FIELDS) or len(parts) != 5:
            return "unparseable answer " + ans[:120]
        lflag, jflags, idtxt = parts[1], parts[2], parts[3]
        if not jflags.startswith("J") or len(jflags) != 1 + len(FIELDS):
            return "unparseable join flags " + jflags
        for name, f, j in zip(FIELDS, fields, jflags[1:]):
            if f == "N":
                continue
            if f == "P":
                return "%s: panicked (unwrap on an empty path)" % name
            rel = unhx(f)
            bad = violations_of(rel)
            if bad:
                return "%s = %r %s" % (name, rel.decode("utf-8", "replace"), " and ".join(bad))
            if j != "1":
                return "%s = %r: std::path::Path::new(root).join(rel) left the root or has a ParentDir component" % (
                    name, rel.decode("utf-8", "replace"))
        # create_dir_all(parent of root.join(rel)) and the file itself: root's components must stay in front, no `..` after them
        for name, f, obs in zip(FIELDS, fields, parts[4][1:].split(";")):
            if f in ("N", "P") or "cache_rel" not in name:
                continue
            for what, o in zip(("Path::new(root).join(rel)", "the parent of Path::new(root).join(rel)"), obs.split(":")):
                comps = [] if o == "-" else o.split(",")
                if o == "!" or "2e2e" in comps:
                    return "%s = %r: %s does not keep the root's components in front (or has a `..` component)" % (
                        name, unhx(f).decode("utf-8", "replace"), what)
        if lflag != "L1":
            return "lookup(module, kind) differs from the direct builder"
        a, b = idtxt[1:].split(",")
        if not is_hex_text(unhx(a)) or not is_hex_text(unhx(b)):
            return "an identifier rendered with non-hex characters: %r %r" % (unhx(a), unhx(b))
        return None

    # ------------------------------------------------------------------ end-to-end URL probe, predicted by the model
    IDENT = hx("5A9832E5287241C1838ED98914E9B7FF1")

    def url_leaves(self):
        """(leaf, dangerous) — dangerous leaves get the full directory x role x id product"""
        dots = dot_segment_spellings()
        out = [(d, True) for d in dots]
        for ch in URL_PUNCT:
            for f in pct_spellings(ch):
                out += [(f, True), (f + f, True), ("a" + f, False), (f + "a", False), ("a" + f + "b", False), (f + "." , False), ("." + f, False)]
        for core, spellings in CORE_SPELLINGS.items():
            out += [(sp, False) for sp in spellings]
        for d in dots:
            for f in pct_spellings("/") + pct_spellings("\\"):
                out += [(d + f, False), (f + d, False), (d + f + d, False)]
            for w in [" ", "\t", "\n", "\r", "\x00", "\x7f", "?", "#", ":", "@", ";", "%"]:
                out += [(d + w, False), (w + d, False)]
        out += [(x, False) for x in ["a.pdb", "http:x", "https:x.pdb", "ab:c.pdb", "javascript:x", "file:x", "x:/y", "1:x", "a?b", "a#b",
                                     "a b+c.pdb", "libstdc++.so.6", "\u00e9.pdb", "a;b=c", "&", "[", "]", "{", "|", "^", "`", "\"", "<", ">",
                                     "...", "%", "%2", "%2g", "%zz", "My%20App.pdb", "100%.pdb", "%41", "a%00b", "\x01.", "x ", " x"]]
        for l in self.source_literals():
            out += [(l, False), (".." + l, False), (l + "..", False), ("%2E%2E" + l, False), (l + "%2e", False)]
        seen, uniq = set(), []
        for leaf, dang in out:
            if "\ud800" <= leaf[:1] <= "\udfff" or not leaf:
                continue
            if leaf not in seen or dang:
                if leaf in seen:
                    uniq = [(l2, d2 or (l2 == leaf)) for l2, d2 in uniq]
                    continue
                seen.add(leaf)
                uniq.append((leaf, dang))
        return uniq

    def url_cases(self, seed):
        rng = Rng(seed + 17)
        ids = [self.IDENT, hx("0" * 33), hx("3C0D21E41")]
        cases = []
        rot = 0
        for leaf, dang in self.url_leaves():
            dirs = DIRS if dang else [DIRS[rot % len(DIRS)]]
            rot += 1
            for d in dirs:
                w = d + leaf
                variants = [("k.dll", w, self.IDENT), (w, w, ids[rot % 3]), (w, "N", "N")]
                if dang:
                    variants += [(w, "t.pdb", ids[1]), ("k.dll", w, ids[2])]
                for cf, df, did in variants:
                    cases.append("%s %s %s %s" % (hx(cf), "N" if df == "N" else hx(df), did, hx("5a")))
        atoms = ["a", ".", "%", "2", "e", "E", ":", "?", "#", "\t", " ", "\n", "\\"[0], "http", "x", "\u00e9", "+", "-",
                 "%2e", "%2E", "%2f", "%2F", "%5c", "%5C", "%25", ".."] + [l for l in self.source_literals() if len(l) <= 12]
        for _ in range(200):
            l = "".join(rng.choice(atoms) for _ in range(rng.range(1, 6)))
            cases.append("%s %s %s %s" % (hx("k.dll"), hx(l), self.IDENT, hx("5a")))
        # server URLs through the same parser: validates the model's path parser incl. every dot-segment spelling
        dots = dot_segment_spellings()
        bases = ["", "root", "root/", "a/b/c", "a/b/c/"]
        for d in dots:
            bases += [d, d + "/", "a/" + d, "a/" + d + "/", "a/b/" + d + "/c", "a/" + d + "/" + d, d + "/a", "a/b/" + d + "x", "a/x" + d + "/y",
                      "a\\" + d + "\\b", "a/b/" + d + "?q", "a/b/" + d + "#f", "a/b/" + d + "\t", "a/b/\t" + d, "a/b/ " + d]
            for e in dots:
                bases.append("a/b/" + d + "/" + e + "/z")
        batoms = ["a", "b", ".", "..", "%2e", "%2E", "/", "/", "\\"[0], "?", "#", "%", " ", "\t", "\n", "\u00e9", "{", "}", "\"", "<", ">",
                  "`", "^", "|", ":", "@", ";", "%25", "%2f", "+", "~", "'"]
        for _ in range(500):
            bases.append("".join(rng.choice(batoms) for _ in range(rng.range(1, 8))))
        for bsuf in dict.fromkeys(bases):
            cases.append("B %s" % hx(bsuf))
        # code-info redirects: the SERVER supplies the debug file name (Location: <prefix><debug file>/<debug id>/<tail>)
        ident = "5A9832E5287241C1838ED98914E9B7FF1"
        dfs = ["x.pdb", "..", ".", "", "C:", "C:x.pdb", "%2e%2e", "%2E%2E", ".%2e", "a\\..\\b.pdb", "..\\..\\w", "\\\\srv\\share\\x.pdb", "a b.pdb",
               "a?b", "a#b", "a:b", "http:", "@", "a%", "%", "x.PDB", "..pdb", "a.pdb.", "~", "a;b", "..\\", "C:\\", "a\\"]
        prefixes = ["", "/", "//", "/sym/", "../", "/a/../", "http://evil/", "/..//", "\\", "/%2e%2e/"]
        locs = []
        for pre in prefixes:
            for df in dfs:
                locs.append(pre + df + "/" + ident + "/x.sym")
        for i, df in enumerate(dfs):
            pre = prefixes[i % len(prefixes)]
            locs += [pre + df + "/zz/x.sym", pre + df + "//x.sym", pre + df + "/" + ident + "/", pre + df + "/" + ident + "/..",
                     pre + df + "/" + ident + "/a/b", pre + df + "/" + ident, df,
                     # backslashes are NOT separators of a Location (rsplit('/') only): in the tail, in the id part, before the name
                     pre + df + "/" + ident + "/a\\b.sym", pre + df + "/w\\" + ident + "/x.sym", pre + "v\\" + df + "/" + ident + "/x\\"]
        for _ in range(150):
            locs.append("".join(rng.choice(["/", "/", "..", ".", "a", "x.pdb", ident, "\\", "%2e", ":", "?", "#", " ", "C:", "zz"]) for _ in range(rng.range(1, 7))))
        for loc in dict.fromkeys(locs):
            if loc and loc == loc.strip() and all(32 <= ord(ch) < 127 for ch in loc):
                cases.append("R %s %s %s" % (hx("k.dll"), hx("5a"), hx(loc)))
        return list(dict.fromkeys(cases))

    # ------------------------------------------------------------------ Url::join on RAW references (all branches of the dispatch)
    def join_cases(self, seed, tier="quick"):
        """`J <base scheme> <base path> <reference>`: the real Url::join against C17/UrlFull.v url_resolve — scheme detection (case,
        TAB/LF inside, invalid characters), the base's own scheme with fewer than two slashes (relative), other special schemes, file,
        non-special schemes, authority (any mix of two or more slashes / backslashes, userinfo, port), absolute and relative paths,
        query / fragment, dot segments, leading / trailing controls."""
        rng = Rng(seed + 4242)
        schemes = ["http", "https", "HTTP", "hTtPs", "ws", "wss", "ftp", "file", "FILE", "ab", "a+b", "a-.1", "h\ttp", "ht\ntps", "1a", "a b",
                   "", "httpx", "x-http", "http:http", "javascript", "data", "mailto"]
        slashes = ["", "/", "//", "///", "\\", "\\\\", "/\\", "\\/", "/\t/", "\t//", "////"]
        rests = ["", "x", "e/x", "e", "e@f/x", "u:p@e/x", "e:81/x", "e:80/x", "../x", "..", "?q", "#f", "x/../y", "e\\x", "e?x/y", "e#x",
                 "@e/x", "e.f/x/./y/%2e%2e/z", "h.test/x", "E.F/x", "e /x", "e\tf/x", "[::1]/x", "1.2.3.4/x", "e:/x", ":81/x", "%65/x"]
        bases = [("http", "/"), ("http", "/r/"), ("https", "/r/"), ("http", "/a/b"), ("ws", "/a/b/c/"), ("ftp", "/r/i"), ("https", "/")]
        pads = ["", " ", "\t", "\n", "\x00", "\x1f ", "\u00a0"]
        refs = []
        for sc in schemes:
            for sl in slashes:
                for r in rests:
                    refs.append((sc + ":" if sc else "") + sl + r)
        for r in list(refs[::7]):
            refs.append(rng.choice(pads) + r + rng.choice(pads))
        atoms = ["h", "t", "p", "s", ":", "/", "/", "\\", "?", "#", ".", "..", "%2e", "%2E", "@", "\t", " ", "\n", "a", "e", "file", "http", "https",
                 "ws", "+", "-", "1", "[", "]", "\u00e9", "%", "x"]
        n_rand = 1500 if tier == "quick" else 20000
        for _ in range(n_rand):
            refs.append("".join(rng.choice(atoms) for _ in range(rng.range(1, 9))))
        cases = []
        for i, r in enumerate(dict.fromkeys(refs)):
            picks = bases if (tier != "quick" or i % 11 == 0) else [bases[i % len(bases)], bases[(i * 5 + 3) % len(bases)]]
            for sch, bp in dict.fromkeys(picks):
                cases.append("J %s %s %s" % (hx(sch), hx(bp), hx(r)))
        return cases

    SIMPLE_HOST = None

    def join_probe(self, ctx):
        import re
        if ctx.get("replay"):
            cases = [c for c in ctx["cases"] if c and c.startswith("J ")]
        else:
            cases = self.join_cases(ctx["seed"], ctx.get("tier", "quick"))
        if not cases:
            return []
        out = []
        try:
            model_exe = vlib.ocaml_build(self.pid)
            mans, mdead = vlib.run_lines([model_exe, "--join"], cases, timeout=300, mem_gb=8)
            if mdead:
                raise vlib.CheckFailure("c17 join model died at case %s" % cases[mdead[0][0]][:200])
        except vlib.CheckFailure as e:
            ctx["info"]["url_join_model"] = "unavailable: %s" % str(e)[-200:]
            return []
        simple = re.compile(r"^[a-z][a-z0-9-]*(\.[a-z][a-z0-9-]*)*$")
        kinds = {"S": 0, "A": 0, "O": 0}
        n_cmp = 0
        for prof in self.profiles:
            exe = ctx["exes"][("c17", prof)]
            ans, dead = vlib.run_lines([exe, "--url-join"], cases, timeout=300, mem_gb=8, shards=4)
            for idx, why in dead:
                out.append({"case": cases[idx], "profile": prof, "found_input": False,
                            "what": "url join correspondence: implementation child died or hung on this case (%s)" % why})
            for c, a, m in zip(cases, ans, mans):
                if a is None or m is None:
                    continue
                _, sch, bp, ref = c.split()
                sch, bp, ref = unhx(sch).decode(), unhx(bp).decode(), unhx(ref).decode("utf-8", "replace")
                mp = m.split("|")
                ip = a.split("|")
                n_cmp += 1
                kinds[mp[0]] = kinds.get(mp[0], 0) + 1
                bad = None
                dec = lambda t: unhx(t).decode("utf-8", "replace")
                if ip[0] == "OK":
                    isch, iuser, ihost, iport, ipath, ibase = dec(ip[1]), dec(ip[2]), dec(ip[3]), ip[4], dec(ip[5]), dec(ip[6])
                    if ibase != bp:
                        bad = "the base path parsed as %r, the generator meant %r" % (ibase, bp)
                if bad:
                    pass
                elif mp[0] == "S":
                    want = dec(mp[1])
                    if ip[0] != "OK":
                        bad = "the model keeps scheme and authority with path %r, Url::join answered %s" % (want, a[:80])
                    elif (isch, iuser, ihost, iport, ipath) != (sch, "", "h.test", "-", want):
                        bad = "the model keeps scheme and authority with path %r, Url::join gave %s://%s@%s:%s%s" % (want, isch, iuser, ihost, iport, ipath)
                elif mp[0] == "A":
                    wsch, auth = dec(mp[1]), dec(mp[2])
                    if ip[0] == "OK":
                        if isch != wsch:
                            bad = "the model selects scheme %r with authority %r, Url::join gave scheme %r" % (wsch, auth, isch)
                        elif simple.fullmatch(auth) and (ihost, iuser, iport) != (auth, "", "-"):
                            bad = "the model selects authority %r, Url::join gave %s@%s:%s" % (auth, iuser, ihost, iport)
                    elif simple.fullmatch(auth) and not auth.startswith("xn--"):
                        bad = "the model selects authority %r, Url::join answered %s" % (auth, a[:80])
                elif mp[0] == "O":
                    wsch = dec(mp[1])
                    if ip[0] == "OK" and isch != wsch:
                        bad = "the model selects the scheme %r, Url::join gave %r" % (wsch, isch)
                else:
                    bad = "unparseable model answer %r" % m[:80]
                if bad:
                    out.append({"case": c, "profile": prof, "found_input": False,
                                "what": "url join correspondence (reference %r on %s://h.test%s): %s" % (ref, sch, bp, bad)})
        ctx["info"]["url_join_cases_compared"] = n_cmp
        ctx["info"]["url_join_model_kinds"] = kinds
        return out

    # ------------------------------------------------------------------ end-to-end FILESYSTEM probe (consumers)
    ESC_NAMES = ["../outside/secret.bin", "../../outside/secret.bin", "../x", "../../x", "../../../x", "a/../../x", "a/../../../outside/secret.bin",
                 "./../x", "..//x", "../outside/secret.bin.pdb", "../x.pdb", "../x.sym", "../../x.dll", "@T@/outside/abs.pdb", "@T@/x", "@T@/root/x",
                 "@T@/outside/secret.bin", "/@T@/x", "//@T@/x", "sub/dir/file.pdb", "sub/../../x", "./a.pdb", "a.pdb", "..", ".", "",
                 "..\\..\\x", "..\\x", "C:\\..\\..\\x", "../x (deleted)", "../x ", " ../x", "../outside/", "@T@/outside/", "../cache/x",
                 "../tmp/x", "../symbols/../x", "@T@/root/cache/../../x"]

    def fs_cases(self, seed):
        """whole-name escapes and the hostile leaves, as code file and as debug file, for modules that have every id
        (so that all three FileKinds produce lookups)"""
        names = list(self.ESC_NAMES)
        for core, spellings in CORE_SPELLINGS.items():
            for sp in spellings:
                names += [d + sp for d in DIRS] + ["../" + sp, sp + "/../x", "../x/" + sp]
        for sp in EXACT:
            names += wrapped(sp, WS + MARKERS + EXTS[:4], pads=("", " "))
        for l in self.source_literals():
            names += ["../" + l, l + "/../../x", "../x" + l, "@T@/outside/" + l]
        cases = []
        for n in dict.fromkeys(names):
            if any("\ud800" <= ch <= "\udfff" for ch in n):
                continue
            for cf, df in (("k.dll", n), (n, "t.pdb"), (n, n)):
                cases.append("%s %s %s %s" % (hx(cf), hx(df), self.IDENT, hx("5a")))
        return list(dict.fromkeys(cases))

    def fs_probe(self, ctx):
        cases = self.fs_cases(ctx["seed"]) if not ctx.get("replay") else [c for c in ctx["cases"] if c and not c.startswith(("B ", "J ", "R "))]
        out = []
        stats = {"returned": 0, "created": 0}
        n_cmp = [0]
        n_expect, n_nothing = {}, {}
        mans = {}
        try:
            model_exe = vlib.ocaml_build(self.pid)
            ma, mdead = vlib.run_lines([model_exe, "--fs"], cases, timeout=300, mem_gb=8)
            if not mdead:
                mans = {c: a for c, a in zip(cases, ma) if a and a.startswith(("R:", "SKIP", "NOSITE"))}
        except Exception as e:                      # the model driver does not build: the oracle part still runs
            ctx["info"]["fs_probe_model"] = "unavailable: %s" % str(e)[:200]
        for prof in self.profiles:
            exe = ctx["exes"][("c17", prof)]
            ans, dead = vlib.run_lines([exe, "--fs-probe"], cases, timeout=300, mem_gb=8, shards=16)
            for idx, why in dead:
                out.append({"case": cases[idx], "profile": prof, "found_input": True,
                            "what": "fs probe: implementation child died or hung on this case (%s)" % why})
            for c, a in zip(cases, ans):
                if a is None:
                    continue
                f = a.split("|", 2)
                if a.startswith("P;;"):
                    out.append({"case": c, "profile": prof, "found_input": True, "what": "fs probe panicked: " + a[3:200]})
                elif f[0] != "F" or f[1] not in ("ok", "ESC"):
                    out.append({"case": c, "profile": prof, "found_input": True, "what": "fs probe: unparseable answer " + a[:100]})
                elif f[1] == "ESC":
                    out.append({"case": c, "profile": prof, "found_input": True, "what": "fs probe: " + f[2]})
                else:
                    g = f[2].split("|")
                    stats["returned"] += int(g[0])
                    stats["created"] += int(g[1])
                    m = mans.get(c) if mans else None
                    if m is not None and len(g) >= 5 and "405440" not in c:
                        # model vs code: what the flow model (Gen/C17Flow.v evaluated on the generated builders) says the
                        # consumers return / create for this module
                        want = m.split("|")
                        if want[0] != "SKIP":
                            n_cmp[0] += 1
                            got = [g[2], g[3], "C:" + ",".join(sorted(x for x in g[4][2:].split(",") if x))]
                            # A download can fail for reasons that have nothing to do with paths (the loopback request timing out on
                            # a loaded machine): a MISSING http result / cache file is tolerated per case (and counted: see below), a
                            # DIFFERENT one never is.  The simple supplier does no I/O but stat: compared exactly.
                            wr, gr = want[0][2:].split(","), got[0][2:].split(",")
                            wc, gc = set(x for x in want[2][2:].split(",") if x), set(x for x in got[2][2:].split(",") if x)
                            same = (got[1] == want[1] and len(wr) == len(gr) and all(a == b or a == "N" for a, b in zip(gr, wr)) and gc <= wc)
                            if len(g) >= 6 and g[5].startswith("D:"):
                                # second sandbox: locate_symbols ran first on an empty cache, so fetch_symbol_file did the caching of
                                # the symbol file — the files under the cache must be the same predicted set
                                gd = set(x for x in g[5][2:].split(",") if x)
                                got.append("D:" + ",".join(sorted(gd)))
                                same = same and gd <= wc
                            if wc:
                                n_expect[prof] = n_expect.get(prof, 0) + 1
                                if not gc:
                                    n_nothing[prof] = n_nothing.get(prof, 0) + 1
                            if not same:
                                out.append({"case": c, "profile": prof, "found_input": False,
                                            # (a constant 60-character head: the runner lists one violation per distinct head)
                                            "what": "fs correspondence: consumers differ from the flow model (Gen/C17Flow.v): predicted %s (returned by "
                                                    "HttpSymbolSupplier::locate_file per kind | by SimpleSymbolSupplier::locate_file on a populated directory | "
                                                    "files created under the cache), the code did %s" % ("|".join(want), "|".join(got))})
        ctx["info"]["fs_probe_cases"] = len(cases) * len(self.profiles)
        ctx["info"]["fs_probe_paths_returned"] = stats["returned"]
        ctx["info"]["fs_probe_files_created"] = stats["created"]
        ctx["info"]["fs_probe_predictions_compared"] = n_cmp[0]
        ctx["info"]["fs_probe_downloads_missing"] = sum(n_nothing.values())
        for prof in self.profiles:
            if n_expect.get(prof, 0) >= 50 and 2 * n_nothing.get(prof, 0) > n_expect[prof]:
                out.append({"case": cases[0], "profile": prof, "found_input": False,
                            "what": "fs correspondence: the flow model predicts cache files for %d cases, the HTTP supplier created none for %d of them"
                                    % (n_expect[prof], n_nothing[prof])})
        return out

    @staticmethod
    def _targets(field):
        return [unhx(r).decode("utf-8", "replace") for r in field.split(",")] if field else []

    def extra(self, ctx):
        """HttpSymbolSupplier (locate_symbols, locate_file Binary / ExtraDebugInfo) against a loopback server that records
        every request.  (1) oracle: every request arrives below the base URL's path, and a lookup path always produces a
        request; (2) correspondence: the Coq model (join_rel + the modelled part of Url::join) predicts every request path."""
        if ctx.get("replay"):
            cases = [c for c in ctx["cases"] if c and not c.startswith("J ")]
        else:
            cases = self.url_cases(ctx["seed"])
        out = []
        n_req = n_cmp = n_lost = 0
        try:
            model_exe = vlib.ocaml_build(self.pid)
            mans, mdead = vlib.run_lines([model_exe, "--url"], cases, timeout=300, mem_gb=8)
            if mdead:
                raise vlib.CheckFailure("c17 url model died at case %s" % cases[mdead[0][0]][:200])
        except vlib.CheckFailure as e:
            # the (generated) model driver does not build for this checkout — already reported by the runner as a broken
            # obligation; the probes still run with their oracles on the implementation alone
            mans = [None] * len(cases)
            ctx["info"]["url_probe_model"] = "unavailable: %s" % str(e)[-200:]
        for prof in self.profiles:
            exe = ctx["exes"][("c17", prof)]
            ans, dead = vlib.run_lines([exe, "--url-probe"], cases, timeout=300, mem_gb=8, shards=16)
            for idx, why in dead:
                out.append({"case": cases[idx], "profile": prof, "found_input": True,
                            "what": "url probe: implementation child died or hung on this case (%s)" % why})
            for c, a, m in zip(cases, ans, mans):
                if a is None:
                    continue
                if a.startswith("P;;"):
                    out.append({"case": c, "profile": prof, "found_input": True, "what": "url probe panicked: " + a[3:200]})
                    continue
                parts = a.split("|")
                base_case = parts[0] == "B"
                redirect_case = parts[0] == "R"
                rel = None if base_case or redirect_case or parts[1] == "N" else unhx(parts[1]).decode("utf-8", "replace")
                calls = [self._targets(f) for f in (parts[1:] if (base_case or redirect_case) else parts[2:])]
                if any(t == "" for call in calls for t in call):
                    # the listener accepted a connection that carried no request line (the client gave up before sending: seen once
                    # while a cargo build saturated the machine).  An HTTP request always has a non-empty target, so this is not an
                    # observation of the code; the case is counted, not judged.
                    n_lost += 1
                    continue
                n_req += sum(len(t) for t in calls)
                bad = None
                if base_case:
                    # a plainly spelled server URL (`http://host/root`, `.../a/b/c/`): the configured path is the root the property
                    # speaks of — every request must stay below it (HttpSymbolSupplier::new appends the missing '/')
                    suffix = unhx(c.split()[1]).decode("utf-8", "replace")
                    import re as _re
                    if _re.fullmatch(r"[a-z]+(/[a-z]+)*/?", suffix):           # fullmatch: `$` would accept a trailing newline
                        want_prefix = "/" + suffix.rstrip("/") + "/"
                        for t in [t for call in calls for t in call]:
                            if not t.startswith(want_prefix):
                                bad = "url probe: with the server URL http://<host>/%s a lookup path was requested as %r, outside the server root %s" % (suffix, t, want_prefix)
                                break
                if not base_case:
                    for t in [t for call in calls for t in call]:
                        path = t.split("?", 1)[0]
                        segs = [x.lower().replace("%2e", ".") for x in path.split("/")]
                        if not path.startswith("/root/") or ".." in segs:
                            if redirect_case:
                                bad = ("url probe: after a code-info redirect (Location: %r) a lookup path was requested as %r, outside the server root /root/"
                                       % (unhx(c.split()[3]).decode("utf-8", "replace"), t))
                            else:
                                bad = "url probe: a lookup path (breakpad_sym server_rel = %r) was requested as %r, outside the server root /root/" % (rel, t)
                            break
                    if bad is None and rel is not None and not calls[0]:
                        bad = ("url probe: server_rel %r produced no request to the configured server (the URL resolved elsewhere)" % rel)
                if bad:
                    out.append({"case": c, "profile": prof, "found_input": True, "what": bad})
                    continue
                # model vs url crate
                if m is None:
                    continue
                mparts = m.split("|")
                mcalls = [[("ELSEWHERE" if x in ("ELSEWHERE", "P") else unhx(x).decode("utf-8", "replace")) for x in f.split(",")] if f else []
                          for f in mparts[1:]]
                got = [[t.split("?", 1)[0] for t in call] for call in calls]
                want = [[x for x in call if x != "ELSEWHERE"] for call in mcalls]
                n_cmp += 1
                if got != want[:len(got)] or len(want) != len(got):
                    out.append({"case": c, "profile": prof, "found_input": False,
                                "what": "url correspondence: the model (join_rel + Url::join) predicts requests %r, the url crate made %r" % (want, got)})
        ctx["info"]["url_probe_cases"] = len(cases) * len(self.profiles)
        ctx["info"]["url_probe_requests_observed"] = n_req
        ctx["info"]["url_probe_predictions_compared"] = n_cmp
        ctx["info"]["url_probe_cases_without_request_line"] = n_lost
        if n_lost > max(20, len(cases) * len(self.profiles) // 50):
            out.append({"case": cases[0], "profile": self.profiles[0], "found_input": False,
                        "what": "url probe: %d of %d cases reached the listener without a request line — the probe observes nothing" % (n_lost, len(cases) * len(self.profiles))})
        out += self.join_probe(ctx)
        out += self.fs_probe(ctx)
        # failing inputs first (the runner prints the first few violations)
        return sorted(out, key=lambda v: 0 if v.get("found_input") else 1)

    def nontrivial(self, case, ans):
        return any(f not in ("N", "P") for f in ans.split("|", 1)[0].split(";"))


PROP = C17()
