"""C17 — symbol lookup paths derived from module names stay inside the symbol directories."""
import itertools

import vlib
from runner import PropBase
from vlib import Rng

SEPS = (0x2F, 0x5C)
FIELDS = ["breakpad_sym.cache_rel", "breakpad_sym.server_rel", "code_info", "extra_debuginfo.cache_rel",
          "extra_debuginfo.server_rel", "binary.cache_rel", "binary.server_rel", "moz(binary).server_rel"]


def hx(b):
    if isinstance(b, str):
        b = b.encode("utf-8")
    return b.hex() if b else "-"


def unhx(t):
    return b"" if t == "-" else bytes.fromhex(t)


def is_hex_text(b):
    return all(chr(c) in "0123456789abcdefABCDEF" for c in b)


def violations_of(rel):
    """The property's three conditions on one relative path (bytes); list of what is wrong."""
    bad = []
    if rel[:1] and rel[0] in SEPS:
        bad.append("starts with a separator")
    if len(rel) >= 2 and rel[1] == 0x3A and (65 <= rel[0] <= 90 or 97 <= rel[0] <= 122):
        bad.append("has a drive prefix")
    comps = rel.replace(b"\\", b"/").split(b"/")
    if b".." in comps:
        bad.append("has a `..` component")
    return bad


def _dot_leaves():
    dots = [".", "%2e", "%2E"]
    return ([a + b for a in dots for b in dots] + dots + [a + b + "x" for a in dots for b in dots][:4] +
            ["%2F", "%2f..", "..%2F", "..%5C", "%5C..", "%252e%252e", "%25", "%2", "%2g"])


class C17(PropBase):
    pid = "C17"
    translators = []
    coq_dirs = ["Base", "C17"]
    bins = ["c17"]
    rule = ("cases = (code_file, debug_file, debug id text, code id text); strings exhaustive over the alphabet "
            "{a . / \\ : NUL e-acute} up to length 5 used as code_file and debug_file at once, up to length 4 paired with "
            "partner strings (ordinary, '..', '', drive-prefixed), plus random long strings with mixed separators, drive and UNC "
            "prefixes; ids nil / ordinary / maximal / PDB2.0 / absent, code ids with non-hex bytes; a case is non-trivial when at "
            "least one builder returned a path; distinct = distinct case lines")
    trusted_base = [
        "Coq 8.16.1 kernel (vm_compute in the refutation witnesses and non-vacuity Examples only)",
        "model C17/Model.v written by hand from breakpad-symbols/src/lib.rs (leafname, safe_leafname, replace_or_add_extension, "
        "five builders, moz_lookup, lookup); tied to the code by the correspondence run on the public builders",
        "Path::join modelled from std's PathBuf::push (unix exactly; windows for the cases that matter: drive / double-separator "
        "/ rooted arguments); the POSIX join is additionally executed for real on every produced path by the harness; "
        "URL joining is modelled as concatenation; the real Url::join (behind http.rs join_rel) is only exercised end to end by the "
        "url probe (HttpSymbolSupplier::locate_symbols against a recording loopback server), see design/C17.md",
        "str::to_lowercase modelled as ASCII lowering when compared with 'pdb'/'dll' (the only non-ASCII char lowering to ASCII is U+212A -> k)",
        "ids: the theorems assume hex-only id text; the harness observes that DebugId::breakpad() and CodeId render hex only",
        "extraction: ExtrOcamlBasic only; ocaml/zconv.ml + ocaml/c17/main.ml glue; harness/src/bin/c17.rs",
    ]
    manifest = {
        "text": "Theorems (Coq, all byte strings, all hex-only ids, all three FileKinds + code-info + mozilla-CAB variants): every "
                "produced cache_rel/server_rel does not start with a separator, has no drive prefix and no `..` component "
                "(c17_relative, _code_info, _moz), moz_lookup's unwrap never panics, and joining such a path onto any root under "
                "POSIX or Windows Path::join rules or by URL concatenation keeps the root as a prefix (c17_join_contained). The tree "
                "before the fix is refuted (c17_relative_unfixed_refuted). Model tied to the code by running both on ~45k exhaustive "
                "and random (code_file, debug_file, ids) cases in debug and release builds; an independent oracle re-checks the three "
                "conditions and a real std::path join on the implementation's answers.",
        "note": "Trusted: Coq kernel; hand-written model of lib.rs (correspondence-checked, not verified); Path::join semantics from "
                "std's source (Windows rules cannot be executed here); URL joining proved for concatenation only — Url::join is exercised by an "
                "end-to-end probe, not modelled; ASCII lowering. No axioms.",
    }
    assumptions = ["module strings are valid UTF-8 (they are Rust `str`); bytes >= 128 are never separators",
                   "debug/code id text is hex-only (observed on every case through the real constructors, not proved about debugid)",
                   "Url::join (WHATWG reference resolution: schemes, percent-encoded dots, stripped tabs) and http.rs join_rel are not modelled in Coq; "
                   "they are exercised by the url probe on ~190 hostile/random names per build"]

    # ------------------------------------------------------------------ cases
    def source_literals(self):
        """String literals of the lookup code itself (a fuzzing dictionary): whatever text the path builders compare
        against, strip or append is what a hostile module name should contain."""
        import os
        import re
        lits = []
        for f in ("breakpad-symbols/src/lib.rs", "breakpad-symbols/src/http.rs", "minidump-common/src/utils.rs"):
            try:
                src = open(os.path.join(vlib.REPO, f)).read()
            except OSError:
                continue
            src = src.split("#[cfg(test)]")[0]
            for m in re.finditer(r'"((?:[^"\\\n]|\\.){1,24})"', src):
                t = m.group(1)
                if "{" in t or "\\" in t:
                    continue
                if t not in lits:
                    lits.append(t)
            for m in re.finditer(r"'([^'\\])'", src):
                if m.group(1) not in lits:
                    lits.append(m.group(1))
        return lits[:200]

    def gen_cases(self, tier, seed):
        rng = Rng(seed)
        cases = []
        dist = {"exhaustive_same": 0, "exhaustive_paired": 0, "random": 0, "dictionary": 0}
        alpha = [b"a", b".", b"/", b"\\", b":", b"\x00", "\u00e9".encode()]
        ids = ["N", hx("0" * 33), hx("5A9832E5287241C1838ED98914E9B7FF1"), hx("ffffffffffffffffffffffffffffffffffffffff"),
               hx("5a9832e5287241c1838ed98914e9b7ffA0"), hx("3C0D21E41"), hx("000000000"), hx("3c0d21e4FFFFFFFF")]
        cids = ["N", "-", hx("5A9832e5"), hx("../..\\x:/G"), hx("f" * 64), hx("zz")]
        k = [0]

        def pick_ids():
            k[0] += 1
            # mostly present ids (so that paths are produced); absent ones regularly
            did = ids[k[0] % len(ids)] if k[0] % 11 == 0 else ids[1 + k[0] % (len(ids) - 1)]
            cid = cids[k[0] % len(cids)] if k[0] % 7 == 0 else cids[1 + (k[0] // 3) % (len(cids) - 1)]
            return did, cid

        maxlen = 5 if tier == "quick" else 6
        words = [b""]
        allw = [b""]
        for n in range(1, maxlen + 1):
            words = [w + a for w in words for a in alpha]
            allw += words
        for w in allw:
            did, cid = pick_ids()
            cases.append("%s %s %s %s" % (hx(w), hx(w), did, cid))
            dist["exhaustive_same"] += 1
        partners = [b"k.dll", b"..", b"", b"C:a"]
        lim = 7 ** 4 + 7 ** 3 + 7 ** 2 + 7 + 1 if tier == "quick" else 7 ** 5 + 7 ** 4 + 7 ** 3 + 7 ** 2 + 7 + 1
        for w in allw[:lim]:
            for p in partners:
                did, cid = pick_ids()
                cases.append("%s %s %s %s" % (hx(w), hx(p), did, cid))
                did, cid = pick_ids()
                cases.append("%s %s %s %s" % (hx(p), hx(w), did, cid))
                dist["exhaustive_paired"] += 2
            cases.append("%s N %s %s" % (hx(w), ids[2], cids[2]))
        # random long strings
        atoms = [b"a", b"B", b".", b"..", b"/", b"\\", b":", b"C:", b"\\\\", b"//", b"\\\\?\\", b"\\\\server\\share\\", b"c:\\",
                 b"Windows", b"kernel32", b".pdb", b".PDB", b".Pdb", b".dll", b".DLL", b".sym", b".so", b" ", b"\t", b"\x00", b"%2e",
                 "\u00e9".encode(), "\u212a".encode(), "\u0130".encode(), "\U0001f600".encode(), b"pdb", b"dll", b"_", b"-", b"~", b"..."]
        nrand = 3000 if tier == "quick" else 60000
        # dictionary block: every source literal as / around the leaf, with each hostile decoration
        lits = [l.encode() for l in self.source_literals()]
        atoms += [l for l in lits if len(l) <= 12]
        decos = [b"", b"..", b".", b"/", b"\\", b"C:", b"a/", b"a/..", b"../", b"..\\", b" "]
        for l in lits:
            for d in decos:
                for w in (d + l, l + d, d + l + d):
                    did, cid = pick_ids()
                    cases.append("%s %s %s %s" % (hx(w), hx(w), did, cid))
                    cases.append("%s %s %s %s" % (hx(b"k.dll"), hx(w), ids[2], cids[2]))
                    dist["dictionary"] += 2

        def rstr():
            n = rng.range(0, 12) if rng.chance(3, 4) else rng.range(10, 60)
            return b"".join(rng.choice(atoms) for _ in range(n))

        for _ in range(nrand):
            cf, df = rstr(), rstr()
            did, cid = pick_ids()
            if rng.chance(1, 6):
                cid = hx(rstr())
            cases.append("%s %s %s %s" % (hx(cf), hx(df) if rng.chance(19, 20) else "N", did, cid))
            dist["random"] += 1
        return cases, dist, True

    # ------------------------------------------------------------------ correspondence
    def canon_impl(self, case, ans, profile):
        return ans.split("|", 1)[0]

    # ------------------------------------------------------------------ oracle (independent of the model)
    def oracle(self, case, ans, profile):
        if ans.startswith("P;;"):
            return "a lookup builder panicked: " + ans[3:200]
        parts = ans.split("|")
        fields = parts[0].split(";")
        if len(fields) != len(FIELDS) or len(parts) != 4:
            return "unparseable answer " + ans[:120]
        lflag, jflags, idtxt = parts[1], parts[2], parts[3]
        if not jflags.startswith("J") or len(jflags) != 1 + len(FIELDS):
            return "unparseable join flags " + jflags
        for name, f, j in zip(FIELDS, fields, jflags[1:]):
            if f == "N":
                continue
            if f == "P":
                return "%s: panicked (unwrap on an empty path)" % name
            rel = unhx(f)
            bad = violations_of(rel)
            if bad:
                return "%s = %r %s" % (name, rel.decode("utf-8", "replace"), " and ".join(bad))
            if j != "1":
                return "%s = %r: std::path::Path::new(root).join(rel) left the root or has a ParentDir component" % (
                    name, rel.decode("utf-8", "replace"))
        if lflag != "L1":
            return "lookup(module, kind) differs from the direct builder"
        a, b = idtxt[1:].split(",")
        if not is_hex_text(unhx(a)) or not is_hex_text(unhx(b)):
            return "an identifier rendered with non-hex characters: %r %r" % (unhx(a), unhx(b))
        return None

    # ------------------------------------------------------------------ end-to-end URL probe (not modelled)
    URL_LEAVES = ["a.pdb", "http:x", "https:x.pdb", "ab:c.pdb", "%2e%2e", ".%2e", "%2E%2e", "\t", " x", "x ", ".\t.", "\n..", ".\r.",
                  "a?b", "a#b", "a b+c.pdb", "libstdc++.so.6", "\u00e9.pdb", "javascript:x", "1:x", "a%2fb", "%5c", "\x7f", "\x01.", "..\t",
                  "file:x", "x:/y", "?", "#", "%", "~", "a;b=c", "@", "&", "[", "]", "{", "|", "^", "`", "\"", "<", ">", ".", "..."]

    URL_LEAVES = URL_LEAVES + _dot_leaves()

    def url_cases(self, seed):
        rng = Rng(seed + 17)
        ident = hx("5A9832E5287241C1838ED98914E9B7FF1")
        cases = ["%s %s %s %s" % (hx("k.dll"), hx(l), ident, hx("5a")) for l in self.URL_LEAVES]
        cases += ["%s N %s %s" % (hx(l), "N", hx("5a")) for l in self.URL_LEAVES[:25]]      # code-info lookup path
        atoms = ["a", ".", "%", "2", "e", "E", ":", "?", "#", "\t", " ", "\n", "\\"[0], "http", "x", "\u00e9", "+", "-",
                 "%2e", "%2E", "%2f", "%2F", "%5c", "%5C", "%25", ".."] + [l for l in self.source_literals() if len(l) <= 12]
        for l in self.source_literals():
            for form in (l, ".." + l, l + "..", "." + l, "%2E%2E" + l):
                cases.append("%s %s %s %s" % (hx("k.dll"), hx(form), ident, hx("5a")))
        for _ in range(160):
            l = "".join(rng.choice(atoms) for _ in range(rng.range(1, 6)))
            cases.append("%s %s %s %s" % (hx("k.dll"), hx(l), ident, hx("5a")))
        return cases

    def extra(self, ctx):
        """HttpSymbolSupplier::locate_symbols against a loopback server that records every request:
        whenever a lookup path exists, the request must arrive, below the base URL's path."""
        if ctx.get("replay"):
            cases = [c for c in ctx["cases"] if c]
        else:
            cases = self.url_cases(ctx["seed"])
        out = []
        n_req = 0
        for prof in self.profiles:
            exe = ctx["exes"][("c17", prof)]
            ans, dead = vlib.run_lines([exe, "--url-probe"], cases, timeout=300, mem_gb=8, shards=4)
            for idx, why in dead:
                out.append({"case": cases[idx], "profile": prof, "found_input": True,
                            "what": "url probe: implementation child died or hung on this case (%s)" % why})
            for c, a in zip(cases, ans):
                if a is None:
                    continue
                if a.startswith("P;;"):
                    out.append({"case": c, "profile": prof, "found_input": True, "what": "url probe panicked: " + a[3:200]})
                    continue
                _, rel, reqs = a.split("|")
                targets = [unhx(r).decode("utf-8", "replace") for r in reqs.split(",")] if reqs else []
                n_req += len(targets)
                for t in targets:
                    path = t.split("?", 1)[0]
                    segs = path.split("/")
                    if not path.startswith("/root/") or ".." in segs:
                        out.append({"case": c, "profile": prof, "found_input": True,
                                    "what": "url probe: server_rel %r was requested as %r, outside the server root /root/" % (
                                        unhx(rel).decode("utf-8", "replace") if rel != "N" else None, t)})
                if rel != "N" and not targets:
                    out.append({"case": c, "profile": prof, "found_input": True,
                                "what": "url probe: server_rel %r produced no request to the configured server (the URL resolved elsewhere)"
                                        % unhx(rel).decode("utf-8", "replace")})
        ctx["info"]["url_probe_cases"] = len(cases) * len(self.profiles)
        ctx["info"]["url_probe_requests_observed"] = n_req
        return out

    def nontrivial(self, case, ans):
        return any(f not in ("N", "P") for f in ans.split("|", 1)[0].split(";"))


PROP = C17()
