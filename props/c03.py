"""C03 — processing any dump with any symbols terminates, never panics, always renders (partial).

Theorem part: coq/C03 (site models).  Search part: D/F cases through the whole pipeline
(harness/src/bin/c03.rs), judged by the oracle below; the model answers "?" for them.
Case formats are documented in harness/src/bin/c03.rs and harness/src/dumpspec.rs."""
import os

from runner import PropBase
from vlib import Rng

U32 = (1 << 32) - 1
U64 = (1 << 64) - 1

CPUS = {
    #  name      bits ip-names            sp-names        fp-names         lr-names     $-prefix in CFI
    "x86": (32, ["eip"], ["esp"], ["ebp"], [], "$"),
    "amd64": (64, ["rip"], ["rsp"], ["rbp"], [], "$"),
    "arm": (32, ["pc", "r15"], ["sp", "r13"], ["fp", "r11", "r7"], ["lr", "r14"], ""),
    "arm64": (64, ["pc"], ["sp"], ["fp", "x29"], ["lr", "x30"], ""),
    "arm64old": (64, ["pc"], ["sp"], ["fp", "x29"], ["lr", "x30"], ""),
    "mips": (32, ["pc", "epc"], ["sp"], ["fp", "s8"], ["ra"], "$"),
    "mips64": (64, ["pc", "epc"], ["sp"], ["fp", "s8"], ["ra"], "$"),
    "ppc": (32, ["srr0"], ["r1"], [], ["lr"], ""),
    "ppc64": (64, ["srr0"], ["r1"], [], ["lr"], ""),
    "sparc": (64, ["pc"], ["g_r14"], ["g_r30"], [], ""),
    "unknown": (32, ["pc"], ["sp"], [], [], ""),
}
CPU_WEIGHTED = ["x86"] * 5 + ["amd64"] * 6 + ["arm"] * 3 + ["arm64"] * 4 + ["arm64old", "mips", "mips", "mips64", "ppc", "ppc64", "sparc", "unknown"]
OSES = ["win", "linux", "mac", "android", "ios", "win", "linux", "solaris", "ps3", "nacl", "12345"]
SAMPLES = ["test.dmp", "linux-mini.dmp", "simple-crashpad.dmp", "pipeline-inlines-macos-segv.dmp",
           "invalid-parameter.dmp", "invalid-range.dmp", "invalid-record-count.dmp", "full-dump.dmp"]
HOSTILE64 = [0, 1, 7, 8, 0xfff, 0x1000, U32 - 3, U32, U32 + 1, 1 << 47, (1 << 47) - 1, 1 << 63, U64 - 0x1000, U64 - 64, U64 - 8, U64 - 7, U64 - 1, U64]


def hx(b):
    return b.hex() if b else "-"


def le(v, n):
    return (v & ((1 << (8 * n)) - 1)).to_bytes(n, "little")


# ------------------------------------------------------------------ symbol text
def cfi_regs(cpu):
    bits, ips, sps, fps, lrs, pre = CPUS[cpu]
    sp = pre + (sps[-1] if cpu == "arm" else sps[0])
    fp = pre + (fps[-1] if fps and cpu in ("arm", "arm64", "arm64old") else (fps[0] if fps else "fp"))
    ra = pre + (lrs[0] if lrs else "ra")
    return sp, fp, ra


# ------------------------------------------------------------------ names (strings the code splits, trims, slices)
CALLEE_SAVED = {
    "x86": ["$ebx", "$esi", "$edi", "$ebp"],
    "amd64": ["$rbx", "$r12", "$r13", "$r14", "$r15", "$rbp"],
    "arm": ["r4", "r5", "r6", "r7", "r8", "r9", "r10", "r11"],
    "arm64": ["x19", "x20", "x21", "x22", "x23", "x24", "x25", "x26", "x27", "x28", "x29"],
    "arm64old": ["x19", "x20", "x21", "x22", "x23", "x24", "x25", "x26", "x27", "x28", "x29"],
    "mips": ["$s0", "$s1", "$s2", "$s3", "$s4", "$s5", "$s6", "$s7", "$gp", "$fp"],
    "mips64": ["$s0", "$s1", "$s2", "$s3", "$s4", "$s5", "$s6", "$s7", "$gp", "$fp"],
}
# 2-, 3-, 4-byte UTF-8, combining mark, NBSP and other Unicode white space, zero-width, BOM, RTL mark
NONASCII = ["é", " ", "ß", "İ", "日本", "€", "\U0001f600", "\U00010348", "é", "́",
            " ", " ", "　", "​", "﻿", "‏", "\u0085", " "]
SPLITTERS = ["(", ")", ",", "::", "<", ">", " ", "  ", "*", "&", "~", ":", "!", "[", "]", "`", "'", "\t", "/", "\\", ".", "+", "=", "@", "$"]
WORDS = ["const", "volatile", "const volatile", "int", "char*", "void", "unsigned long", "std::vector<int, std::allocator<int> >",
         "void (*)(int, char)", "operator()", "operator<", "operator<<", "operator,", "operator->", "`anonymous namespace'", "this",
         "Widget", "paint", "ns", "T", "...", "decltype(auto)", "<lambda(int)>", "{lambda()#1}", "[abi:cxx11]", "unlimited", "n/a"]
_LITS = None
_NAME_CAP = [None]     # deep-stack cases: thousands of frames each print their names; keep names short there


def source_literals():
    """String and char literals of the anchored processing code (a fuzzing dictionary, idea of props/c17.py): text
    the code compares with, splits on or appends is what a hostile name should contain."""
    global _LITS
    if _LITS is not None:
        return _LITS
    import re
    import vlib
    lits = []
    for f in ("minidump-processor/src/arg_recovery.rs", "minidump-processor/src/process_state.rs", "minidump-processor/src/processor.rs",
              "minidump-unwind/src/lib.rs", "breakpad-symbols/src/sym_file/mod.rs", "minidump-common/src/utils.rs"):
        try:
            src = open(os.path.join(vlib.REPO, f)).read()
        except OSError:
            continue
        src = src.split("#[cfg(test)]")[0]
        for m in re.finditer(r'"((?:[^"\\\n]|\\.){1,16})"', src):
            t = m.group(1)
            if "{" in t or "\\" in t or t in lits:
                continue
            lits.append(t)
        for m in re.finditer(r"'([^'\\])'", src):
            if m.group(1) not in lits:
                lits.append(m.group(1))
    _LITS = lits[:300]
    return _LITS


def gen_name(rng, kind="func"):
    out = _gen_name(rng, kind)
    return out[:_NAME_CAP[0]] if _NAME_CAP[0] else out


def _gen_name(rng, kind="func"):
    """A function / file / module / thread name. Structured C++-like names with argument lists, with non-ASCII text,
    nothing, very long runs and the splitting punctuation placed next to every structural character."""
    st = rng.below(10)
    if st == 0:
        return rng.choice(["", " ", "(", ")", "()", ")(", "((", "))", "(,)", ",", "::", "<>", "><", "a(", "a)", "(a", ")a", "a()b",
                           "f(int))", "f((int)", "f(a<b)", "f(a>b)", "f(<,>)", "f(,)", "f( )", "f( )", "::f()", "f()::", "a::b::c(d::e)"])
    if st == 1:
        return rng.choice(["x", "é", "(", ",", "<", "a::b(", "f(int, "]) * rng.choice([300, 2000, 5000])
    atoms = WORDS + SPLITTERS + NONASCII + [l for l in source_literals() if len(l) <= 12]
    if st == 2:
        return "".join(rng.choice(atoms) for _ in range(rng.range(1, 12)))
    # structured: [ns::]Class::method(args)suffix
    def ident():
        return rng.choice(["Widget", "paint", "f", "ns", "operator()", "operator<", "~X", "X<int, Y<char> >", "méthode", "日本", "\U0001f600", "x́"])
    def arg():
        return rng.choice(["int", "char*", "T<a, b>", "void (*)(int, char)", "", " ", " ", "é", "日本語 const&", "std::map<K, V<(1>2)> >",
                           "a b", "\U0001f600", "x" * 40, ")", "(", "<", ">", ", "])
    name = "::".join(ident() for _ in range(rng.choice([1, 1, 2, 3])))
    args = ", ".join(arg() for _ in range(rng.choice([0, 1, 2, 3, 8]))) if rng.chance(7, 8) else ",".join(arg() for _ in range(3))
    suffix = rng.choice(["", "", " const", " volatile", " const volatile", " const", "é", "éconst", "日", "\U0001f600x", "́", " ", " ", ")", "(", ") const",
                         "const", " &&", " [clone .cold]", " (.isra.0)", " const", "﻿", " const "])
    out = "%s(%s)%s" % (name, args, suffix)
    if rng.chance(1, 5):        # a non-ASCII character right before / after one structural character
        cs = [i for i, c in enumerate(out) if c in "(),:<> "]
        if cs:
            i = rng.choice(cs)
            ins = rng.choice(NONASCII)
            out = out[:i] + ins + out[i:] if rng.chance(1, 2) else out[:i + 1] + ins + out[i + 1:]
    if kind != "func":
        out = out.replace("\n", " ")
    return out.replace("\n", " ").replace("\r", " ")


def sp_fixed_rules(rng, cpu, K, K2):
    """STACK CFI rule families that keep the stack pointer where it is or advance it by less than a pointer, while
    still producing fresh return addresses (from a callee-saved register that the rules advance, a constant, or two
    functions returning into each other)."""
    bits = CPUS[cpu][0]
    w = bits // 8
    sp, fp, ra = cfi_regs(cpu)
    cs = rng.choice(CALLEE_SAVED.get(cpu, [fp]))
    cs2 = rng.choice(CALLEE_SAVED.get(cpu, [fp]))
    step = rng.choice([1, 2, 4, 4, 4, 8, 16])
    adv = rng.choice(["0 +", "0 +", "0 +", "", "1 +", "2 +", "%d +" % (w - 1), "0 -", "%d + %d -" % (w, w), "1 *", "%d @" % w])
    cfa = ".cfa: %s %s" % (sp, adv)
    return rng.choice([
        "%s .ra: %s %s: %s %d +" % (cfa, cs, cs, cs, step),
        "%s .ra: %s %d + %s: %s %d +" % (cfa, cs, step, cs, cs, step),
        "%s .ra: %s %s: %s %d + %s: %s" % (cfa, cs, cs, cs, step, sp, sp),
        "%s .ra: %s %s: %s %s: %s %d +" % (cfa, cs, cs, cs2, cs2, cs2, step),
        "%s .ra: %d" % (cfa, K),
        "%s .ra: %d %s: %s" % (cfa, K2, sp, sp),
        "%s .ra: %s" % (cfa, ra),
        "%s .ra: %s %s: %s %d +" % (cfa, ra, ra, ra, step),
        "%s .ra: .cfa ^" % cfa,
        "%s .ra: .cfa %d - ^ %s: %s %d +" % (cfa, w, cs, cs, step),
    ])


def gen_symbols(rng, cpu, size, targets, spfixed=False, base=0, cover=False):
    """A symbol file for a module of `size` bytes; `targets` are module-relative addresses that
    return addresses in the stacks point at."""
    bits, *_ = CPUS[cpu]
    w = bits // 8
    sp, fp, ra = cfi_regs(cpu)
    K = base + (rng.choice(targets) if targets else 0x100)      # an absolute return address inside the module
    lines = ["MODULE %s %s 000000000000000000000000000000000 m" % (rng.choice(["Linux", "windows", "mac"]), cpu)]
    if rng.chance(1, 8):
        lines[0] = rng.choice(["MODULE", "MODULE Linux", "", "MODULE a b c d e f", "MODULE Linux x86 zz"])
    lines.append("INFO CODE_ID ABCDEF")
    nfiles = rng.below(3)
    for i in range(nfiles):
        lines.append("FILE %d %s" % (i, "/src/f%d.c" % i if rng.chance(2, 3) else gen_name(rng, "file")))
    if rng.chance(1, 2):
        lines.append("INLINE_ORIGIN 0 %s" % ("inl0" if rng.chance(1, 2) else gen_name(rng)))
        lines.append("INLINE_ORIGIN 1 %s" % ("inl1" if rng.chance(1, 2) else gen_name(rng)))
    style = rng.below(2) if (spfixed or cover) else rng.below(6)
    funcs = []
    if style == 0:
        funcs = [(0, size)]
    elif style == 1:
        n = rng.range(1, 8)
        step = max(1, size // n)
        funcs = [(i * step, step) for i in range(n)]
    elif style == 2:
        funcs = [(max(0, t - rng.below(64)), rng.choice([1, 16, 64, 4096])) for t in targets[:6]]
    elif style == 3:      # overlapping / degenerate / huge
        funcs = [(0, 0), (0, U32), (rng.below(size + 1), rng.choice([0, 1, U32, U64])), (U64 - 15, 16), (U64, 1)]
    elif style == 4:
        funcs = [(rng.below(size + 1), rng.below(size + 1)) for _ in range(rng.range(1, 12))]
    for i, (a, s) in enumerate(funcs):
        lines.append("FUNC %s%x %x %x %s" % ("m " if rng.chance(1, 6) else "", a, s, rng.choice([0, 4, 8, U32]), "fn%d" % i if rng.chance(1, 3) else gen_name(rng)))
        if rng.chance(1, 2) and nfiles:
            for k in range(rng.range(1, 4)):
                lines.append("%x %x %d %d" % (a + k * 4, rng.choice([4, 1, 0, s]), rng.below(1000), rng.below(nfiles + 1)))
        if rng.chance(1, 4):
            lines.append("INLINE %d %d %d %d %x %x" % (rng.below(3), rng.below(100), rng.below(nfiles + 1), rng.below(3), a, rng.choice([s, 4, 0])))
            lines.append("INLINE 1 7 0 1 %x %x %x %x" % (a, max(1, s // 2), a + s // 2, s - s // 2))
    for i in range(rng.below(4)):
        lines.append("PUBLIC %x %x %s" % (rng.below(size + 1), rng.choice([0, 4]), "pub%d" % i if rng.chance(1, 2) else gen_name(rng)))
    # ---- STACK CFI
    normal = ".cfa: %s %d + .ra: .cfa %d - ^" % (sp, w * rng.choice([1, 2, 4]), w)
    hostile = [
        ".cfa: %s 0 + .ra: %d" % (sp, K),
        ".cfa: %s 1 + .ra: %d" % (sp, K),
        ".cfa: %s %d + .ra: %d" % (sp, w, K),
        ".cfa: %s %d - .ra: %d" % (sp, w, K),
        ".cfa: %s .ra: %d" % (sp, K),
        ".cfa: .cfa .ra: .ra",
        ".cfa: %s 4 + .ra: .cfa 0 / ^" % sp,
        ".cfa: 18446744073709551615 1 + .ra: %d" % K,
        ".cfa: %s 4 + 16 @ .ra: .cfa ^" % sp,
        ".cfa: %s ^ .ra: .cfa ^ %s: .cfa" % (sp, fp),
        ".cfa: %s %d + .ra: .cfa %d - ^ %s: .cfa %d - ^ %s: %s" % (sp, 2 * w, w, fp, 2 * w, sp, sp),
        ".cfa: %s %d + .ra: %s" % (sp, w, ra),
        ".cfa: %s 8 + .ra: .cfa 8 - ^ .ra: 5" % sp,
        ".cfa: " + " ".join(["1"] * 300 + ["+"] * 299) + " .ra: 7",
        ".cfa: %s .undef .ra: .undef" % sp,
        ".ra: %d" % K,
        ".cfa: $nosuch 4 + .ra: .cfa ^",
        ".cfa: %s 4 + .ra: .cfa 4 - ^ x29: 111 fp: 222 x30: 5 lr: 6" % sp,
    ]
    K2 = (base + rng.choice(targets)) if targets else base + 0x200
    hostile += [sp_fixed_rules(rng, cpu, K, K2) for _ in range(6)]
    if spfixed:
        # the whole module under one or two sp-fixed rules (two functions returning into each other)
        half = max(1, size // 2)
        if rng.chance(1, 2):
            lines.append("STACK CFI INIT 0 %x %s" % (size, sp_fixed_rules(rng, cpu, base + rng.below(size), base + rng.below(size))))
        else:
            lines.append("STACK CFI INIT 0 %x %s" % (half, sp_fixed_rules(rng, cpu, base + half + rng.below(half), base + half + 8)))
            lines.append("STACK CFI INIT %x %x %s" % (half, size - half, sp_fixed_rules(rng, cpu, base + rng.below(half), base + 8)))
    ncfi = rng.below(4) if not spfixed else rng.below(2)
    for _ in range(ncfi):
        a = rng.choice([0, rng.below(size + 1)] + [max(0, t - 8) for t in targets[:3]])
        s = rng.choice([size, size, 16, 64, 0, U32, U64])
        rule = normal if rng.chance(1, 3) else rng.choice(hostile)
        lines.append("STACK CFI INIT %x %x %s" % (a, s, rule))
        for k in range(rng.below(3)):
            lines.append("STACK CFI %x %s" % (a + rng.below(64), rng.choice(hostile + [normal, ".cfa: .cfa 16 +", "%s: .cfa 8 - ^" % fp])))
    # ---- STACK WIN
    if cpu == "x86" or rng.chance(1, 10):
        progs = [
            "$T0 $ebp = $eip $T0 4 + ^ = $ebp $T0 ^ = $esp $T0 8 + =",
            "$eip $esp ^ = $esp $esp 4 + =",
            "$eip %d = $esp $esp 1 + =" % K,
            "$eip %d = $esp $esp =" % K,
            "$T0 .raSearch = $eip $T0 ^ = $esp $T0 4 + =",
            "$T0 .raSearchStart = $eip $T0 ^ = $esp $T0 4 + = $ebp $T0 4 - ^ =",
            "$eip 1 0 / =",
            "$eip $eip = $esp $esp 4294967295 + =",
            "",
            "$T0 $T0 = = = =",
        ]
        for _ in range(rng.below(4)):
            ty = rng.choice([4, 4, 0, 0, 1, 3, 9])
            a = rng.choice([0, rng.below(size + 1)] + [max(0, t - 4) for t in targets[:3]])
            s = rng.choice([size, 16, 0, U32])
            vals = [rng.choice([0, 4, 8, 0x10, U32, U32 - 3, 0x7fffffff, 0x80000000]) for _ in range(6)]
            if ty == 4:
                lines.append("STACK WIN 4 %x %x %x %x %x %x %x %x 1 %s" % (a, s, *vals, rng.choice(progs)))
            else:
                lines.append("STACK WIN %x %x %x %x %x %x %x %x %x 0 %d" % (ty, a, s, *vals, rng.below(2)))
    if rng.chance(1, 10):
        vocab = ["FUNC", "STACK", "CFI", "INIT", "WIN", "PUBLIC", "FILE", "INLINE", "0", "1", "ffffffff", "ffffffffffffffff", ".cfa:", ".ra:", "$esp", "+", "^", "=", "m", "-1", "10000000000000000"]
        for _ in range(rng.range(1, 10)):
            lines.append(" ".join(rng.choice(vocab) for _ in range(rng.range(1, 10))))
    if rng.chance(1, 6):
        i = rng.below(len(lines) + 1)
        lines.insert(i, rng.choice(["", " ", "\r", "FUNC", "\t", "STACK CFI", "STACK WIN 4", "0 0 0", "FUNC 0 10 0", "PUBLIC m 0 0 x"]))
    text = "\n".join(lines) + ("\n" if rng.chance(7, 8) else "")
    b = text.encode()
    if rng.chance(1, 12):
        b = bytearray(b)
        for _ in range(rng.range(1, 4)):
            b[rng.below(len(b))] = rng.choice([0, 0xff, 0x80, 10, 13, 32, 0xc3])
        b = bytes(b)
    return b



HOSTILE_DEPTHS = [U32, U32, U32 - 1, 1 << 31, (1 << 31) - 1, 65536, 65535, 100000, 1000, 255, 7, 3, 2]


def gen_inline_symbols(rng, cpu, size, targets, base):
    """A symbol file whose FUNCs cover the whole module (every frame in it is really symbolicated) and carry hostile
    INLINE records: level-0 records covering the instructions, consecutive chains, depth gaps, huge nesting levels
    (up to 4294967295) that cover or do not cover the instruction, origins / call files with and without their
    INLINE_ORIGIN / FILE record, several ranges per record, empty and overflowing ranges, many records."""
    bits = CPUS[cpu][0]
    w = bits // 8
    sp, fp, ra = cfi_regs(cpu)
    lines = ["MODULE %s %s 000000000000000000000000000000000 m" % (rng.choice(["Linux", "windows", "mac"]), cpu)]
    nfiles = rng.below(3)
    for i in range(nfiles):
        lines.append("FILE %d /src/f%d.c" % (i, i))
    origins = [i for i in range(6) if rng.chance(2, 3)]
    for i in origins:
        lines.append("INLINE_ORIGIN %d %s" % (i, "inl%d" % i if rng.chance(3, 4) else gen_name(rng)[:200]))
    n = rng.choice([1, 1, 2, 4])
    step = max(1, size // n)
    for i in range(n):
        a, s_ = i * step, (step if i < n - 1 else size - i * step)
        lines.append("FUNC %x %x 0 %s" % (a, s_, "fn%d" % i if rng.chance(2, 3) else gen_name(rng)[:200]))
        if rng.chance(2, 3):
            lines.append("%x %x %d %d" % (a, s_, rng.below(1000), rng.below(nfiles + 1)))
        inside = [t for t in targets if a <= t < a + s_]
        def rng_pair(cover):
            if cover == 0:
                return "%x %x" % (a, s_)
            if cover == 1 and inside:
                t = rng.choice(inside)
                lo = max(a, t - rng.below(16))
                return "%x %x" % (lo, max(1, t - lo + 1 + rng.below(16)))
            if cover == 2:
                return "%x %x" % (a + rng.below(max(1, s_)), rng.choice([0, 1, 4, U32, U64]))
            return "%x %x" % (rng.choice([a + s_, a + s_ + 16, 0, U64 - 7]), rng.choice([1, 16]))
        def inline(depth, cover, nr=1):
            lines.append("INLINE %d %d %d %d %s" % (depth, rng.below(1000), rng.below(nfiles + 1), rng.below(6),
                                                    " ".join(rng_pair(cover) for _ in range(nr))))
        shape = rng.below(8)
        # level 0
        if shape != 0:
            inline(0, rng.choice([0, 0, 0, 1]), rng.choice([1, 1, 3]))
        # consecutive chain
        k = rng.choice([0, 0, 1, 2, 5, 40]) if shape != 7 else rng.choice([150, 400])
        for d in range(1, k + 1):
            inline(d, rng.choice([0, 0, 0, 1]))
        # hostile extras: gaps and huge levels, covering or not
        for _ in range(rng.choice([0, 1, 1, 2, 4])):
            inline(rng.choice(HOSTILE_DEPTHS + [k + 2, k + 3]), rng.choice([0, 0, 1, 2, 3, 3]), rng.choice([1, 1, 2]))
        if shape == 6:       # many records of one level
            d = rng.choice([0, 1, U32])
            for j in range(rng.choice([50, 300])):
                lines.append("INLINE %d %d 0 %d %x 1" % (d, j, rng.below(6), a + (j * 3) % max(1, s_)))
    normal = ".cfa: %s %d + .ra: .cfa %d - ^" % (sp, w * rng.choice([1, 2, 4]), w)
    if rng.chance(3, 4):
        lines.append("STACK CFI INIT 0 %x %s" % (size, normal))
    if cpu == "x86" and rng.chance(1, 2):
        lines.append("STACK WIN 4 0 %x 0 0 0 0 0 0 1 $eip $esp ^ = $esp $esp 4 + =" % size)
    if rng.chance(1, 6):     # reorder: the parser must cope with INLINE before its FUNC etc.
        i, j = rng.below(len(lines)), rng.below(len(lines))
        lines[i], lines[j] = lines[j], lines[i]
    return ("\n".join(lines) + "\n").encode()


# instruction encodings of every length class (1..15 bytes; amd64 and x86 decodings differ, both are bytes to the fetch)
LEN_INSTRS = ["c3", "50", "cc", "ff30", "6a00", "488b03", "0f0b90", "c20800", "ff7424f8", "488b4308", "e800000000",
              "488b8300000000"[:12], "488b8300100000", "4c8b04c5f8ffffff", "48c7430800000000", "48a10000000000000080",
              "48b80000000000000080"[:20], "6648a10000000000000080", "2e6648a10000000000000080", "2e2e6648a10000000000000080",
              "2e2e2e6648a10000000000000080", "2e2e2e2e6648a10000000000000080", "2e2e2e2e2e2e2e2e2e2e2e2e488b03",
              "2e2e2e2e2e2e2e2e2e2e2e2e2e488b03", "666666666666662e0f1f840000000000", "f0f0f0f0", "6767676767", "f3", "0f", "48"]


def straddle_regions(rng, M):
    """Memory regions and an instruction pointer for the exception context: the instruction pointer lies in the last
    1..15 bytes of a region; with / without a region that starts exactly where that region ends (0..20 bytes long),
    one byte later, or overlapping its tail; the instruction bytes (every length class) start at the instruction
    pointer and continue into the neighbour when it is there."""
    rbase = rng.choice([0x400000, 0x400000, 0x7000, 0x10000000, (M - 0xfff) & ~0xf, M - 40])
    rlen = rng.choice([1, 2, 3, 8, 15, 16, 17, 32, 64, 256])
    left = min(rlen, rng.range(1, 15))
    ip = rbase + rlen - left
    ins = bytes.fromhex(rng.choice(LEN_INSTRS))
    if rng.chance(1, 6):
        ins = bytes(rng.below(256) for _ in range(rng.range(1, 15)))
    stream = ins + bytes([0x90] * 40)
    first = bytes([0x90] * (rlen - left)) + stream[:left]
    regs = [(rbase, first)]
    k = rng.below(8)
    nb = rbase + rlen
    nlen = rng.choice([0, 1, 2, 3, 5, 8, 13, 14, 15, 16, 20])
    if k <= 3:            # directly adjacent
        regs.append((nb, stream[left:left + nlen]))
    elif k == 4:          # a gap of one byte
        regs.append((nb + 1, stream[left + 1:left + 1 + nlen]))
    elif k == 5:          # overlapping the tail
        regs.append((nb - 1, stream[left - 1:left - 1 + nlen]))
    elif k == 6:          # adjacent, and a third one behind it
        regs.append((nb, stream[left:left + nlen]))
        regs.append((nb + nlen, stream[left + nlen:left + nlen + rng.below(8)]))
    regs = [(b, d) for (b, d) in regs if b <= U64]
    if rng.chance(1, 3):
        regs.reverse()
    return ip, regs


# ------------------------------------------------------------------ dump pieces
def gen_stack(rng, cpu, base, size, rets, sp_hint):
    """stack bytes laced with return addresses (absolute) and in-stack frame pointers"""
    bits = CPUS[cpu][0]
    w = bits // 8
    n = size // w
    out = bytearray()
    style = rng.below(5)
    for i in range(n):
        a = base + i * w
        if style == 0:
            v = 0
        elif style == 1 and rets:       # every word a return address: the scanner finds a frame per word
            v = rng.choice(rets)
        elif style == 2:               # fp chain: [next fp][ret]
            v = (a + 2 * w * rng.range(1, 3)) if i % 2 == 0 else (rng.choice(rets) if rets else 0x1000)
        elif style == 3:
            v = rng.choice(rets + [a + w, a, a - w, 0, (1 << bits) - 1, base + size, base + size - w]) if rets else rng.below(1 << bits)
        else:
            v = rng.below(1 << bits) if rng.chance(1, 2) else (rng.choice(rets) if rets else 0)
        out += le(v, w)
    out += bytes(size - len(out))
    return bytes(out)


def regs_for(rng, cpu, ip, sp, fp, lr, cs=None):
    bits, ips, sps, fps, lrs, _ = CPUS[cpu]
    m = (1 << bits) - 1
    kv = []
    for n in ips:
        kv.append("%s=%d" % (n, ip & m))
    for n in sps:
        kv.append("%s=%d" % (n, sp & m))
    for n in fps:
        kv.append("%s=%d" % (n, fp & m))
    for n in lrs:
        kv.append("%s=%d" % (n, lr & m))
    for n in CALLEE_SAVED.get(cpu, []):
        n = n.lstrip("$")
        if n in ("ebp", "rbp", "r11", "r7", "x29", "fp") or rng.chance(1, 3):
            continue
        kv.append("%s=%d" % (n, (cs if cs is not None and rng.chance(4, 5) else rng.below(1 << bits)) & m))
    return ",".join(kv)


def maps_line(lo, hi, perms, name="/lib/x.so"):
    return "%x-%x %s 00000000 00:00 0 %s\n" % (lo, hi, perms, name)


def gen_limits(rng):
    head = rng.choice(["Limit                     Soft Limit           Hard Limit           Units     ",
                       "Limit  Soft Limit  Hard Limit  Units", "", "x"])
    pool = [
        "Max cpu time              unlimited            unlimited            seconds   ",
        "Max open files            1024                 4096                 files     ",
        "Max nice priority         0                    0                    ",
        "Max cpu time", "Max cpu time  5", "  ", "    ", " ", "a  b", "a  b  c", "a  b  c  d", "a  b  c  d  e  f",
        "a   b   c", "a    b    c    d", "  a  b  c", "a  b  c  ", "Max x  99999999999999999999  -1  u", "Max y  +5  +  z",
        "Max z  unlimited   unlimited  ", "\t\t", "a\t\tb\t\tc", "Max \xe9  1  2  \xff".encode("latin-1").decode("latin-1"),
        "dup  1  2  a", "dup  3  4  b", "0", "a  ", "  a",
    ]
    lines = [head] + [rng.choice(pool) for _ in range(rng.below(8))]
    if rng.chance(1, 5):
        lines = [rng.choice(pool) for _ in range(rng.below(3))]
    data = "\n".join(lines)
    if rng.chance(3, 4):
        data += "\n"
    return data.encode("latin-1")


INSTRS = ["ff30", "ff10", "8f00", "c3", "50", "e800000000", "58", "488b00", "488b03", "ff20", "ff28", "ff18", "cb", "c20800",
          "4889e5", "0f0b", "f4", "cc", "f3a4", "a4", "aa", "ac", "6a00", "ff7424f8", "41ff10", "ff2500000000", "ff1500000000",
          "48a10000000000000080", "a5", "0f2e00", "0f2800", "f7f1", "e8", "ff", "0f", "66", "4c8b04c5f8ffffff", "8b0425f8ffffff",
          "c9", "cf", "48cf", "ea", "9a", "c8100000", "0fa2", "0f05", "67ff30", "6650", "ff7500", "ff34c5f8ffffff", "ffd0", "ffe0"]


class Gen:
    def __init__(self, rng):
        self.rng = rng
        self.dist = {}

    def count(self, k):
        self.dist[k] = self.dist.get(k, 0) + 1

    def dump_case(self, theme=None):
        rng = self.rng
        cpu = rng.choice(CPU_WEIGHTED)
        os_ = rng.choice(OSES)
        theme = theme or rng.choice(["plain", "symbols", "symbols", "symbols", "limits", "guard", "instr", "top", "overlap", "modules", "exc", "deep", "spfixed", "spfixed", "args", "args", "inline", "inline", "straddle", "straddle"])
        if theme in ("guard", "instr"):
            cpu = "amd64"
            if theme == "guard":
                os_ = rng.choice(["linux", "android", "linux", "win"])
        if theme == "limits":
            os_ = rng.choice(["linux", "android"])
        if theme == "spfixed":
            cpu = rng.choice(["arm64", "arm64", "arm64old", "arm", "x86", "amd64", "mips", "mips64"])
        if theme == "args":
            cpu = "x86"
        if theme == "inline":
            cpu = rng.choice(["x86", "amd64", "amd64", "arm", "arm64", "arm64old", "mips", "mips64"])
        if theme == "straddle":
            cpu = rng.choice(["amd64", "amd64", "amd64", "x86", "x86", "arm64", "arm", "mips", "ppc", "sparc", "unknown"])
            os_ = rng.choice(["linux", "win", "linux", "win", "mac", "android"])
        bits = CPUS[cpu][0]
        w = bits // 8
        M = (1 << bits) - 1
        _NAME_CAP[0] = 120 if theme == "deep" else None
        # every option set on every CPU; the flags only x86 honours (recover_function_args) mostly on x86
        opt = rng.choice([0, 1, 2, 2, 3, 4, 5])
        if cpu == "x86" and (theme == "args" or rng.chance(1, 2)):
            opt = rng.choice([2, 4, 5])
        toks = ["D", "cpu=" + cpu, "os=" + os_, "opt=%d" % opt]
        if theme == "straddle" and rng.chance(1, 2) or (theme != "straddle" and rng.chance(1, 12)):
            toks.append("mem64=1")
            self.count("mem64")
        if opt >= 4 and rng.chance(1, 2):
            certs = ",".join('\\"%s\\":[\\"mod0.dll\\",\\"%s\\"]' % (rng.choice(["certA", "certB", "c"]) + str(i), rng.choice(["libm0.so", "same.so", "mod1"])) for i in range(rng.range(1, 4)))
            toks.append("evil=" + hx(rng.choice([('{"ModuleSignatureInfo":"{%s}","CPUMicrocodeVersion":"0x1f"}' % certs).encode(), b"{", b"[]", b'{"ModuleSignatureInfo":7}', b'{"ModuleSignatureInfo":{"c":["m"]}}', b"\xff"])))
        self.count("theme_" + theme)
        self.count("cpu_" + cpu)
        # ---- modules
        mods = []
        nmods = rng.choice([0, 1, 1, 2, 3, 5]) if theme != "modules" else rng.range(2, 8)
        if theme in ("spfixed", "args", "inline"):
            nmods = rng.choice([1, 1, 2])
        cursor = rng.choice([0x400000, 0x10000000, 0x7000, 0x7f0000000000 & M, M - 0x100000 + 1])
        for i in range(nmods):
            size = rng.choice([0x1000, 0x10000, 0x2000, 0x100])
            base = cursor
            cursor += size + rng.choice([0, 0x1000, 0x10000])
            if theme == "modules" or rng.chance(1, 10):
                k = rng.below(8)
                if k == 0:
                    size = 0
                elif k == 1 and mods:
                    base = mods[-1][0] + rng.below(max(1, mods[-1][1]))      # overlap
                elif k == 2:
                    base, size = U64 - rng.choice([0xfff, 0xffff, 0]), rng.choice([0x1000, 0x10000, 1, U32])
                elif k == 3:
                    size = U32
                elif k == 4 and mods:
                    base, size = mods[-1][0], mods[-1][1]                    # identical
                elif k == 5:
                    base = rng.choice(HOSTILE64)
            name = rng.choice(["/usr/lib/libm%d.so" % i, "C:\\w\\mod%d.dll" % i, "mod%d" % i, "/a/same.so", "/b/same.so", "", "..", "/", "m\u00e9%d" % i,
                               "/d/" + gen_name(rng, "module")[:200]])
            mods.append((base & U64, size & U32, name))
        good = [(b, s) for (b, s, _) in mods if s and b + s <= U64]
        rets = []
        for (b, s) in good:
            for _ in range(3):
                rets.append((b + rng.below(s)) & M)
        # ---- symbols
        nsym = 0
        if theme in ("symbols", "deep", "spfixed", "args", "inline") or rng.chance(1, 4):
            for i, (b, s, name) in enumerate(mods):
                if rng.chance(3, 4) or theme in ("spfixed", "args", "inline"):
                    targets = [r - b for r in rets if b <= r < b + max(s, 1)]
                    if theme == "inline" or (theme == "symbols" and rng.chance(1, 6)):
                        toks.append("S=" + hx(gen_inline_symbols(rng, cpu, max(s, 1), targets, b)))
                        self.count("inline_symbols")
                    else:
                        toks.append("S=" + hx(gen_symbols(rng, cpu, max(s, 1), targets, spfixed=(theme == "spfixed"), base=b, cover=(theme == "args"))))
                    mods[i] = (b, s, name, nsym)
                    nsym += 1
            self.count("with_symbols")
        for m in mods:
            toks.append("M=%d:%d:%s:%s" % (m[0], m[1], hx(m[2].encode()), m[3] if len(m) > 3 else "-"))
        for i in range(rng.below(3) if theme != "modules" else rng.below(5)):
            b, s = rng.choice(good) if good and rng.chance(1, 2) else (rng.choice(HOSTILE64 + [0x500000]), 0x1000)
            if rng.chance(1, 4):
                s = rng.choice([0, 1, U32])
            toks.append("U=%d:%d:%s" % (b & U64, s & U32, hx(rng.choice(["unl.dll", "/x/unl.so", "same.so", gen_name(rng, "module")[:300]]).encode())))
        # ---- threads
        nthreads = rng.choice([1, 1, 2, 3, 6]) if theme != "overlap" else rng.range(2, 5)
        if theme == "deep":
            nthreads = 1
        tids = []
        sbase0 = rng.choice([0x10000, 0x7ffd0000 & M, 0x1000, (M - 0xffff) & ~0xf])
        for t in range(nthreads):
            tid = rng.choice([t + 1, t + 1, 0, 0xffffffff, 7])
            tids.append(tid)
            size = rng.choice([0, 8, 64, 64, 256, 1024, 4096]) if theme != "deep" else rng.choice([4096, 16384, 65536])
            if theme in ("spfixed", "args", "inline"):
                size = rng.choice([64, 64, 256, 1024])
            base = sbase0 + t * 0x10000
            if theme == "overlap":
                base = sbase0 + t * rng.choice([0, 8, 32, 64])
            if theme == "top" or rng.chance(1, 25):
                size = rng.choice([64, 256, 4096])
                base = (M + 1 - size - rng.choice([0, 0, 1, 8, w])) & M
                if rng.chance(1, 3):
                    base = (U64 + 1 - size - rng.choice([0, 1, 8])) & U64       # beyond a 32-bit space too
            stack = gen_stack(rng, cpu, base, size, rets, 0)
            sp = rng.choice([base, base, base + rng.below(size + 1), base + w * rng.below(size // w + 1)])
            fp = rng.choice([sp, sp + w * rng.below(8), base + rng.below(size + 1), 0])
            ip = rng.choice(rets) if rets and rng.chance(3, 4) else rng.choice(HOSTILE64 + [0x400010])
            lr = rng.choice(rets) if rets and rng.chance(1, 2) else rng.choice([0, 1, M])
            if rng.chance(1, 6):
                sp = rng.choice(HOSTILE64 + [base - 1, base - w, base + size, base + size - 1, base + size - w])
            if rng.chance(1, 8):
                fp = rng.choice(HOSTILE64 + [base + size - w, base + size - 2 * w, base - w])
            if theme in ("spfixed", "args", "inline") and rets:
                ip = rng.choice(rets)
                sp = base + w * rng.below(max(1, size // w // 2))
            regs = regs_for(rng, cpu, ip, sp, fp, lr, cs=(rng.choice(rets) if rets else None))
            if rng.chance(1, 20) and theme not in ("spfixed", "args", "inline"):
                regs = "-"
            sspec = hx(stack) if any(stack) else ("z%d" % size if size else "-")
            toks.append("T=%d:%d:%s:%s" % (tid, base & U64, sspec, regs))
            if rng.chance(1, 5):
                toks.append("N=%d:%s" % (tid, hx(rng.choice(["main", "", "w\u00f6rker", "x" * 300, gen_name(rng, "thread")[:400]]).encode())))
        # ---- exception
        straddle = straddle_regions(rng, M) if theme == "straddle" or rng.chance(1, 10) else None
        if theme in ("exc", "guard", "instr", "straddle") or rng.chance(1, 2):
            tid = rng.choice(tids) if rng.chance(4, 5) else rng.choice([0x99, 0, 0xffffffff])
            code = rng.choice([0xC0000005, 0xC0000005, 0xC000001D, 0x80000003, 11, 7, 4, 8, 6, 0, 0xffffffff, 1, 0xC0000409, 0xC0000374, 0xdeadbeef])
            addr = rng.choice(rets) if rets and rng.chance(1, 2) else rng.choice(HOSTILE64)
            np_ = rng.choice([0, 1, 2, 3, 15, 15, 16, 0xffffffff])
            i0 = rng.choice([0, 1, 8, 2, U64])
            i1 = rng.choice(HOSTILE64)
            xregs = "-"
            if rng.chance(3, 4) or theme in ("guard", "instr", "straddle"):
                ip = 0x400000 if theme in ("guard", "instr") else (rng.choice(rets) if rets else 0x400000)
                sp = rng.choice([sbase0 + 8, sbase0] + HOSTILE64[:6]) if theme == "instr" else sbase0 + w * rng.below(8)
                if straddle:
                    ip = straddle[0]
                xregs = regs_for(rng, cpu, ip, sp, sp + w, 0)
                if cpu == "amd64":
                    ra = rng.choice(HOSTILE64 + [0x5000, sbase0 + 8])
                    xregs += ",rax=%d,rbx=%d,rcx=%d,rdx=%d,rsi=%d,rdi=%d,r8=%d" % (ra, rng.choice(HOSTILE64), rng.choice(HOSTILE64), 0, 0x5000, U64, ra)
            toks.append("X=%d:%d:%d:%d:%d:%d:%d:%s" % (tid, code, rng.choice([0, 1]), addr & U64, np_, i0, i1, xregs))
            if straddle and xregs != "-":
                for (b, d) in straddle[1]:
                    toks.append("R=%d:%s" % (b, hx(d)))
                self.count("straddle_ip")
            elif theme in ("guard", "instr") or (cpu == "amd64" and rng.chance(1, 3)):
                ins = rng.choice(INSTRS) if rng.chance(2, 3) else bytes(rng.below(256) for _ in range(rng.range(1, 8))).hex()
                toks.append("R=%d:%s" % (0x400000, ins))
                self.count("planted_instr")
        if rng.chance(1, 6):
            toks.append("B=%d:%d" % (rng.choice(tids + [0x77]), rng.choice(tids + [0x77])))
        # ---- memory map
        if theme == "guard" or rng.chance(1, 6):
            if os_ in ("linux", "android") and rng.chance(2, 3):
                text = ""
                pts = sorted(set(rng.choice(HOSTILE64 + [0x5000, 0x6000, 0x7000, 0x8000, U64 - 0x1fff, U64 - 0xfff]) for _ in range(rng.range(1, 6))))
                for lo in pts:
                    hi = min(U64, lo + rng.choice([0xfff, 0x1000, 0x7fff, 0x8000, 0]))
                    text += maps_line(lo, hi, rng.choice(["---p", "r--p", "rw-p", "r-xp", "---s"]))
                if rng.chance(1, 5):
                    text += rng.choice(["garbage\n", "1-0 ---p 0 0:0 0\n", "zz-1 r 0\n", "\n"])
                toks.append("maps=" + hx(text.encode()))
                self.count("maps")
            else:
                for _ in range(rng.range(1, 5)):
                    b = rng.choice(HOSTILE64 + [0x5000, 0x6000, 0x7000, U64 - 0xfff, U64 - 0x1fff])
                    toks.append("I=%d:%d:%d" % (b, rng.choice([0x1000, 0xfff, 0, U64 - b, U64 - b + 1 if b else 1, 0x8000]) & U64, rng.choice([0, 1, 2, 4, 0x20, 0x104])))
                self.count("meminfo")
        # ---- linux text streams
        if theme == "limits" or (os_ in ("linux", "android") and rng.chance(1, 4)):
            toks.append("limits=" + hx(gen_limits(rng)))
            self.count("limits")
        if os_ in ("linux", "android") and rng.chance(1, 4):
            toks.append("status=" + hx(rng.choice([b"Pid:\t42\nName:\tx\n", b"Pid: notanumber\n", b"Pid\n", b"\n\n:\n", b"Pid:\t99999999999999999999\n"])))
            toks.append("lsb=" + hx(rng.choice([b'DISTRIB_ID="x"\nDISTRIB_RELEASE=1\n', b"=\n==\n", b"ID\n", b'"=""\n'])))
            toks.append("cpuinfo=" + hx(rng.choice([b"microcode : 0x1e\n", b"microcode : 0x\n", b"microcode\n", b"microcode : 0xfffffffffffffffff\n"])))
            toks.append("environ=" + hx(b"A=1\0B\0=\0"))
        # ---- byte-level corruption of the finished dump
        if rng.chance(1, 6):
            muts = ["%d:%d" % (rng.below(1 << 20), rng.choice([0, 0xff, 1, 0x80, rng.below(256)])) for _ in range(rng.range(1, 6))]
            toks.append("mut=" + ",".join(muts))
            self.count("dump_mutated")
        if nsym and rng.chance(1, 8):
            toks.append("smut=%d:%d:%d" % (rng.below(nsym), rng.below(1 << 16), rng.below(256)))
        _NAME_CAP[0] = None
        return " ".join(toks)

    def bitflip_case(self):
        """D case, theme `bitflip` (round 5): a 64-bit dump whose crash address is unmapped but ONE flipped bit away from a
        mapped address (or from NULL), with 0..16 registers of the exception context planted within 0..4096(+) bytes of the
        corrected address, poison patterns in others — check_for_bitflips / calculate_heuristics / confidence (the
        NEARBY_REGISTER table) run on every such candidate; the crashing instruction's registers get the same treatment."""
        rng = self.rng
        cpu = rng.choice(["amd64"] * 6 + ["mips64", "ppc64", "sparc", "arm64", "arm64old"])
        os_ = rng.choice(["linux", "win", "mac", "android"])
        maxbit = 48 if cpu == "amd64" else 64
        base = rng.choice([0x80000, 0x10000000, 0x7f0000001000, 0x2000, 0x3000, 0x100000000, 0x7ffffffff000, 1 << 46])
        size = rng.choice([8, 0x1000, 0x1000, 0x10000, 0x100000])
        good = base + rng.below(size)
        bit = rng.below(maxbit)
        crash = good ^ (1 << bit)
        if rng.chance(1, 8):
            crash = 1 << rng.below(maxbit)          # one bit from NULL
            good = 0
        if rng.chance(1, 10):
            crash = (good ^ (1 << (48 + rng.below(16)))) & U64      # non-canonical on amd64
        regs_all = {"amd64": ["rax", "rbx", "rcx", "rdx", "rsi", "rdi", "rbp", "r8", "r9", "r10", "r11", "r12", "r13", "r14", "r15", "rsp"],
                    "mips64": ["s0", "s1", "s2", "s3", "s4", "s5", "s6", "s7", "gp", "fp", "ra", "sp"],
                    "arm64": ["x19", "x20", "x21", "x22", "x23", "x24", "x25", "x26", "x27", "x28", "fp", "lr", "sp"],
                    "arm64old": ["x19", "x20", "x21", "x22", "x23", "x24", "x25", "x26", "x27", "x28", "fp", "lr", "sp"],
                    "ppc64": ["r1", "lr"], "sparc": ["g_r14", "g_r30"]}[cpu]
        names = list(regs_all)
        for i in range(len(names) - 1, 0, -1):
            j = rng.below(i + 1)
            names[i], names[j] = names[j], names[i]
        near = rng.choice([0, 1, 2, 3, 4, 5, 5, 6, 7, 8, 12, 16])
        kv = []
        for i, n in enumerate(names):
            if i < near:
                d = rng.choice([0, 1, 8, 0xfff, 0x1000, rng.below(0x1000)])
                v = (good + d) if rng.chance(1, 2) else (good - d)
                if rng.chance(1, 12):
                    v = good + rng.choice([0x1001, -0x1001])         # just outside the window
            elif rng.chance(1, 4):
                v = rng.choice([0xe5, 0xa5, 0xcc, 0x2b, 0x11]) * 0x0101010101010101      # poison / repeated bytes
            else:
                v = rng.choice([0, 1, crash, good, rng.below(1 << 47)])
            kv.append("%s=%d" % (n, v & U64))
        ipn = CPUS[cpu][1][0]
        kv.append("%s=%d" % (ipn, 0x400000))
        regs = ",".join(kv)
        toks = ["D", "cpu=" + cpu, "os=" + os_, "opt=%d" % rng.choice([0, 1, 2, 3, 5]),
                "T=1:65536:z64:%s" % regs]
        if os_ == "win":
            toks.append("X=1:%d:0:%d:2:%d:%d:%s" % (0xc0000005, 0x400000, rng.below(2) if rng.chance(3, 4) else 8, crash, regs))
        else:
            toks.append("X=1:11:0:%d:0:0:0:%s" % (crash, regs))
        if rng.chance(1, 2) and cpu == "amd64":
            toks.append("R=4194304:%s" % rng.choice(["488b03", "488b00", "488903", "ff23", "ff30", "488b0418", "c3"]))
        prot_ok = rng.chance(5, 6)
        if os_ in ("linux", "android") and rng.chance(2, 3):
            lines = maps_line(base, base + max(size, 0x1000) - 1, "rw-p" if prot_ok else "---p")
            if rng.chance(1, 2):
                lines += maps_line(0x400000, 0x400fff, "r-xp")
            toks.append("maps=" + hx(lines.encode()))
        else:
            toks.append("I=%d:%d:%d" % (base, size, 4 if prot_ok else 1))
            if rng.chance(1, 2):
                toks.append("I=%d:%d:%d" % (0x400000, 0x1000, 0x20))
        self.count("bitflip_near_%s" % ("5plus" if near >= 5 else str(near)))
        return " ".join(toks)

    def share_case(self, tier):
        """D cases with share=1 (round 5, second pass: the quadratic budget): every thread-list entry cites the stack descriptor and the context
        location of the first one — the same file bytes. T threads x S stack bytes with a stack of return addresses into a module
        without symbols (one scan frame per word), frame-pointer chains, zeros, or a module whose STACK CFI rule moves the CFA by
        1..8 bytes and yields a constant return address (one frame per step)."""
        rng = self.rng
        cpu = rng.choice(["amd64"] * 4 + ["x86", "x86", "arm64", "arm", "mips"])
        bits, ips, sps, fps, lrs, pre = CPUS[cpu]
        w = bits // 8
        M = (1 << bits) - 1
        cap = 4096 if tier == "quick" else 40000          # frames of the whole state, roughly
        while True:
            T = rng.choice([2, 3, 5, 8, 16, 33, 64, 128])
            S = rng.choice([16, 64, 200, 256, 1024, 4096])
            step = rng.choice([0, 0, 0, 1, 2, w, 8]) if cpu in ("amd64", "x86") else 0
            frames = T * (S // (step if step else w))
            if frames <= cap:
                break
        base = rng.choice([0x10000, 0x7fff0000, (M + 1 - S) & ~(w - 1)])
        ret = 0x400010
        style = rng.below(4)
        b = bytearray()
        for i in range(S // w):
            a = base + i * w
            if style <= 1 or step:
                v = ret + (i % 7)
            elif style == 2:
                v = (a + 2 * w) if i % 2 == 0 else ret
            else:
                v = 0
            b += le(v, w)
        b += bytes(S - len(b))
        sp = base + rng.choice([0, 0, 0, w, S // 2])
        kv = ["%s=%d" % (ips[0], ret), "%s=%d" % (sps[0], sp & M)]
        if fps:
            kv.append("%s=%d" % (fps[0], (base + w) & M if style == 2 else 0))
        toks = ["cpu=%s" % cpu, "os=%s" % rng.choice(["linux", "win", "mac", "android"]), "opt=%d" % rng.choice([0, 0, 0, 0, 2, 3, 5]),
                "T=1:%d:%s:%s" % (base, hx(bytes(b)), ",".join(kv))]
        for i in range(2, T + 1):
            toks.append("T=%d:0:-:-" % (i if rng.chance(7, 8) else 1))
        if step:
            sym = "MODULE Linux %s 000000000000000000000000000000000 mod\nSTACK CFI INIT 0 1000 .cfa: %s%s %d + .ra: %d\n" % (
                "x86_64" if cpu == "amd64" else "x86", pre, sps[0], step, ret + 1)
            toks.append("M=4194304:4096:%s:0" % hx(b"/m/mod"))
            toks.append("S=%s" % hx(sym.encode()))
        else:
            toks.append("M=4194304:4096:%s:-" % hx(b"/m/mod"))
        if rng.chance(1, 3):
            toks.append("X=%d:11:0:0:0:0:0:-" % rng.choice([1, 2, 99]))
        toks.append("share=1")
        self.count("D_share")
        return "D " + " ".join(toks)

    def file_case(self):
        rng = self.rng
        f = rng.choice(SAMPLES)
        size = os.path.getsize("/repo/testdata/" + f)
        toks = ["F", "file=" + f, "opt=%d" % rng.choice([0, 1, 2, 3, 4, 5, 2, 4])]
        nm = rng.choice([0, 0, 1, 2, 4, 16, 64])
        muts = []
        for _ in range(nm):
            # favour the header / directory / stream headers (first KiB) and u32 boundary values
            off = rng.below(max(1, min(size, 1024))) if rng.chance(1, 2) else rng.below(max(size, 1))
            muts.append("%d:%d" % (off, rng.choice([0, 0xff, 1, 0x7f, 0x80, rng.below(256)])))
        if muts:
            toks.append("mut=" + ",".join(muts))
        if rng.chance(1, 8) and size:
            toks.append("trunc=%d" % rng.below(size))
        if rng.chance(1, 2):
            cpu = {"test.dmp": "x86", "linux-mini.dmp": "amd64", "simple-crashpad.dmp": "amd64", "pipeline-inlines-macos-segv.dmp": "amd64"}.get(f, "x86")
            for _ in range(rng.range(1, 3)):
                toks.append("S=" + hx(gen_symbols(rng, cpu, 0x100000, [rng.below(0x100000) for _ in range(4)])))
            if rng.chance(1, 4):
                toks.append("smut=%d:%d:%d" % (rng.below(2), rng.below(1 << 16), rng.below(256)))
        self.count("file_" + f)
        return " ".join(toks)

    def site_cases(self, n):
        rng = self.rng
        out = []
        alpha = "abMx  \t019+-ulimted"
        for _ in range(n):
            k = rng.below(7)
            if k == 6:
                # jmp [rbx]: a u64 read out of the memory list near the end of a region, with / without neighbours
                rb = rng.choice([0x5000, 0x5000, 0x10000, 0x10030, 0x3ffff8, 0x400002, U64 - 31, U64 - 7, 1 << 32])
                rl = rng.choice([1, 7, 8, 9, 15, 16, 24, 64])
                addr = rb + rl - rng.range(0, min(rl, 12)) if rng.chance(5, 6) else rng.choice([rb, rb + rl, rb + rl + 1, 0, U64, 0x10038, 0x10039, 0x3ffffe, 0x400000, 0x400001])
                regs = [(rb, rl)]
                nb = rb + rl
                kk = rng.below(5)
                if kk <= 1 and nb <= U64:
                    regs.append((nb, rng.choice([0, 1, 7, 8, 16])))
                elif kk == 2:
                    regs.append((max(0, nb - rng.range(1, 4)), rng.choice([4, 8, 16])))
                elif kk == 3 and nb + 1 <= U64:
                    regs.append((nb + 1, 8))
                if rng.chance(1, 3):
                    regs.reverse()
                regs = [(b, min(l, U64 - b + 1)) for (b, l) in regs if b <= U64]
                out.append("U %d %d %d %s" % (rng.below(2), addr & U64, len(regs), " ".join("%d %d" % x for x in regs)))
                continue
            if k == 5:
                # instruction fetch: regions around the instruction pointer, planted instruction of L bytes
                mem64 = rng.below(2)
                rb = rng.choice([0x400000, 0x400000, 0x7000, 0x10030, 0x10000, 0xffd0, U64 - 63, U64 - 15, 1 << 32])
                rl = rng.choice([1, 2, 3, 7, 14, 15, 16, 17, 30, 64])
                avail = min(rl, rng.range(1, 16))
                ip = rb + rl - avail
                if rng.chance(1, 10):
                    ip = rng.choice([rb + rl, rb - 1 if rb else 0, 0, U64, 0x10000, 0x1003f, 0x10040])
                L = max(1, min(15, avail + rng.choice([-1, 0, 0, 1, 2, -3])))
                if rng.chance(1, 8):
                    L = rng.range(1, 15)
                regs = [(rb, rl)]
                nb = rb + rl
                kk = rng.below(6)
                nl = rng.choice([0, 1, 2, 5, 14, 15, 20])
                if kk <= 2 and nb <= U64:
                    regs.append((nb, nl))
                elif kk == 3 and nb + 1 <= U64:
                    regs.append((nb + 1, nl))
                elif kk == 4:
                    regs.append((max(0, nb - 2), nl))
                if rng.chance(1, 4):
                    regs.insert(rng.below(len(regs) + 1), (rng.choice([rb, rb + 1, max(0, rb - 8), 0x10010]), rng.choice([0, 1, 4, 16, 40])))
                regs = [(b, min(l, U64 - b + 1) if rng.chance(9, 10) else l) for (b, l) in regs if b <= U64]
                out.append("I %d %d %d %d %d %d %s" % (mem64, rng.below(2), 0 if rng.chance(4, 5) else 1, ip & U64, L, len(regs),
                                                       " ".join("%d %d" % x for x in regs)))
                continue
            if k == 4:
                name = gen_name(rng)[:3000].lstrip(" \t") or "f(a)"      # the FUNC line parser eats leading blanks
                out.append("A " + hx(name.encode("utf-8", "replace")))
                continue
            if k == 0:
                if rng.chance(1, 2):
                    data = gen_limits(rng)
                    data = bytes(b for b in data if b < 128)
                else:
                    data = "".join(rng.choice(alpha + "\n\n") for _ in range(rng.below(60))).encode()
                out.append("L " + hx(data))
            elif k == 1:
                kind = rng.below(2)
                pts = sorted(set(rng.choice([0x5000, 0x6000, 0x7000, 0x8000, 0x10000, U64 - 0x1fff, U64 - 0xfff, 1 << 63]) for _ in range(rng.range(1, 5))))
                regs = []
                for lo in pts:
                    ln = rng.choice([0x1000, 0x1000, 0x8000, 0x8001, 0x2000, 0x800])
                    p = rng.choice([0, 0, 0, 1, 4, 2, 0x20]) if kind == 0 else rng.choice([0, 0, 0, 4, 6, 5, 1])
                    if kind == 0:
                        regs.append((lo, ln if lo + ln <= U64 else U64 - lo + rng.below(2), p))
                    else:
                        regs.append((lo, min(U64, lo + ln - 1), p))
                r = rng.choice(regs)
                addr = min(U64, r[0] + rng.below(0x800))
                out.append("G %d %d %d %s" % (addr, kind, len(regs), " ".join("%d %d %d" % x for x in regs)))
            elif k == 2:
                out.append("S %d %d" % (rng.choice([0, 1, 7, 8, 9, 4096, U64, U64 - 7, rng.below(1 << 64)]), rng.below(8)))
            else:
                def ml():
                    l = []
                    for _ in range(rng.below(4)):
                        b = rng.choice([0x1000, 0x400000, U64 - 0xfff, U64 - 0xffff, U64, U64 - U32, U64 - U32 + 1, 0])
                        l.append((b, rng.choice([0, 1, 0x1000, 0xfff, 0x10000, U32])))
                    return l
                a, b = ml(), ml()
                out.append("J %d %s %d %s" % (len(a), " ".join("%d %d" % x for x in a), len(b), " ".join("%d %d" % x for x in b)))
        self.dist["site_cases"] = n
        return out


    def info_new_cases(self, n):
        """N cases (round 5): MinidumpInfo::new with subsets of the dump's streams made unreadable"""
        rng = self.rng
        types = [3, 4, 5, 6, 7, 14, 15, 16, 24, 0x47670001, 0x47670003, 0x47670004, 0x47670005, 0x47670007, 0x47670009, 0x4767000b]
        out = ["N", "N 3", "N 7", "N 3 7"] + ["N %d" % t for t in types]
        out.append("N " + " ".join(str(t) for t in types if t not in (3, 7)))
        for _ in range(n):
            k = rng.choice([1, 2, 3, 5, 8])
            out.append("N " + " ".join(str(rng.choice(types + [3, 7])) for _ in range(k)))
        self.dist["info_new_cases"] = len(out)
        return out

    def nearby_cases(self, n):
        """B cases (round 5): the NEARBY_REGISTER index of BitFlipDetails::confidence — amd64 crash one flipped bit (12..47) from the
        only mapped page, 0..16 registers within / just outside 4096 bytes of the corrected address (also below the low-address cut-off)"""
        rng = self.rng
        out = []
        for _ in range(n):
            page = rng.choice([0x80000, 0x10180000, 0x7f00a0001000, 0x3000, 0x5000, 0x2000, 0x13000, 0x100003000])
            good = page + rng.below(0x1000)
            bit = rng.range(12, 47)
            crash = good ^ (1 << bit)
            if crash & (crash - 1) == 0:          # a power of two: NULL would be a second candidate
                good |= 0x9000000
                crash = good ^ (1 << bit)
            near = rng.choice([0, 0, 1, 2, 3, 4, 5, 6, 7, 8, 10, 13, 16])
            vals = []
            for i in range(16):
                if i < near:
                    d = rng.choice([0, 1, 0xfff, 0x1000, rng.below(0x1001)])
                    vals.append((good + d if rng.chance(1, 2) else good - d) & U64)
                else:
                    vals.append(rng.choice([0, good + 0x1001, (good - 0x1001) & U64, crash, 1 << 40, rng.below(1 << 47)]))
            for i in range(15, 0, -1):
                j = rng.below(i + 1)
                vals[i], vals[j] = vals[j], vals[i]
            out.append("B %d %d 16 %s" % (good, crash, " ".join(str(v) for v in vals)))
        self.dist["nearby_register_cases"] = n
        return out

    def thread_cases(self, n):
        """T cases (round 5): the thread loop of into_process_state — several threads (duplicate ids, threads without context,
        without stack bytes), the dump-writer / requesting thread of a breakpad-info stream, an exception stream whose thread is
        present / missing / has its own context or none, stack pointers inside the thread's own stack (with 0..9 bytes left:
        the 8-byte probe), inside another region, in no region; regions adjacent / overlapping / at the top of the address
        space; MemoryList and Memory64List; modules without symbols (scan and frame-pointer frames) and overlapping unloaded
        modules. Compared with the extracted model of coq/C03/ProcessModel.v (which runs C05's walker model)."""
        rng = self.rng
        out = []
        # mips64 (second pass): MinidumpContext::read has no arm for that architecture, so no context of such a dump is decoded — the
        # model side (ocaml/c03/main.ml) gives every thread and the exception None; every call stack is MissingContext without frames
        tcpus = ["amd64"] * 5 + ["x86"] * 3 + ["arm64"] * 2 + ["arm", "arm64old", "mips", "mips", "ppc", "sparc", "mips64"]
        for _ in range(n):
            cpu = rng.choice(tcpus)
            bits, ips, sps, fps, lrs, _ = CPUS[cpu]
            if cpu == "sparc":
                bits = 32          # CONTEXT_SPARC's registers are written through set_register as u64, the dump is small: keep addresses low
            M = (1 << bits) - 1
            w = bits // 8
            os_ = rng.choice(["linux", "win", "mac", "android", "linux", "win"] + ([] if cpu == "arm" else ["ios"]))
            toks = ["cpu=%s" % cpu, "os=%s" % os_]
            mem64 = rng.chance(1, 4)
            if mem64:
                toks.append("mem64=1")
            mods = []
            for b in rng.choice([[], [0x400000], [0x400000, 0x500000], [0x400000, 0x408000]]):
                mods.append((b, rng.choice([0x1000, 0x10000, 0x8000])))
            rets = [b + rng.below(sz) for (b, sz) in mods for _ in range(3)] + [0x400010, 0x600020, 0x300000]
            top = (M - 63) if rng.chance(1, 6) else 0x30000
            bases = [0x10000, 0x10040, 0x10020, 0x20000, 0x20100, top]
            sizes = [0, 1, 4, 7, 8, 9, 15, 16, 24, 32, 64, 64, 128, 256]

            def lace(base, size):
                style = rng.below(4)
                b = bytearray()
                for i in range(size // w):
                    a = base + i * w
                    if style == 0:
                        v = 0
                    elif style == 1:
                        v = rng.choice(rets)
                    elif style == 2:
                        v = (a + 2 * w * rng.range(1, 3)) if i % 2 == 0 else rng.choice(rets)
                    else:
                        v = rng.choice(rets + [a + w, a, 0, M, base + size])
                    b += le(v & M, w)
                b += bytes(size - len(b))
                return bytes(b)

            regions = []          # (base, size) of everything in the memory list, for aiming stack pointers
            tids = [1, 2, 3, 4, 7]
            nthreads = rng.range(1, 5)
            threads = []
            for _t in range(nthreads):
                tid = rng.choice(tids)
                base = rng.choice(bases)
                size = rng.choice(sizes)
                if base + size > M + 1:
                    size = M + 1 - base
                threads.append((tid, base, size))
                regions.append((base, size))
            extra = []
            for _r in range(rng.below(4)):
                base = min(M, rng.choice(bases + [threads[0][1] + max(0, threads[0][2] - rng.below(9))]))
                size = rng.choice(sizes)
                if base + size > M + 1:
                    size = M + 1 - base
                extra.append((base, size))
                regions.append((base, size))

            def aim():
                k = rng.below(8)
                if k <= 4 and regions:
                    b, sz = rng.choice(regions)
                    return (b + max(0, sz - rng.choice([0, 1, 4, 7, 8, 9, 16, sz, sz, sz, sz - w, sz // 2]))) & M
                if k == 5 and regions:
                    b, sz = rng.choice(regions)
                    return (b + sz + rng.choice([0, 1, 8])) & M
                return rng.choice([0, 8, M, M - 7, 0x7fff0000, 0x10000 - 1])

            def ctx():
                ip = rng.choice(rets + [0, 1, M, 0x400000])
                sp = aim()
                fp = aim() if rng.chance(3, 4) else rng.choice([0, M, sp])
                lr = rng.choice(rets + [0])
                kv = ["%s=%d" % (ips[0], ip & M), "%s=%d" % (sps[0], sp)]
                if fps:
                    kv.append("%s=%d" % (fps[0], fp))
                if lrs and cpu not in ("ppc", "ppc64"):
                    kv.append("%s=%d" % (lrs[0], lr & M))
                return ",".join(kv)

            for (tid, base, size) in threads:
                regs = "-" if rng.chance(1, 6) else ctx()
                toks.append("T=%d:%d:%s:%s" % (tid, base, hx(lace(base, size)), regs))
            if rng.chance(2, 3):
                xt = rng.choice([t[0] for t in threads] + [99])
                toks.append("X=%d:11:0:0:0:0:0:%s" % (xt, "-" if rng.chance(1, 4) else ctx()))
            if rng.chance(1, 3):
                toks.append("B=%d:%d" % (rng.choice(tids + [99]), rng.choice(tids + [99])))
            for i, (b, sz) in enumerate(mods):
                toks.append("M=%d:%d:%s:-" % (b, sz, hx(("/m/mod%d" % i).encode())))
            for i in range(rng.below(4)):
                b = rng.choice([0x400000, 0x404000, 0x600000, 0x300000, 0x5ff000])
                toks.append("U=%d:%d:%s" % (b, rng.choice([0x1000, 0x8000, 0x100000, 0x300000]), hx(("/u/unl%d" % i).encode())))
            for (b, sz) in extra:
                toks.append("R=%d:%s" % (b, hx(lace(b, sz))))
            if not mem64 and rng.chance(1, 6):
                # every thread-list entry cites the first entry's stack bytes and context (harness: share_patch); the memory list
                # keeps the threads' own regions, so the fall-back of the stack choice still has other regions to pick
                toks.append("share=1")
                self.count("thread_loop_shared_descriptor")
            out.append("T " + " ".join(toks))
        self.dist["thread_loop_cases"] = n
        return out


# ------------------------------------------------------------------ exhaustive blocks
MODRM_FORMS = [
    (0, 3, ""),                 # [rbx]
    (1, 0, "f8"),               # [rax - 8]
    (2, 3, "00100000"),         # [rbx + 0x1000]
    (3, 0, ""),                 # register operand
    (0, 4, "c5f8ffffff"),       # SIB: [rax * 8 - 8]
    (0, 5, "00000000"),         # [rip + 0]
]


def opcode_table(tier):
    """Instruction encodings <prefix> <map> <opcode> <ModRM(mod, reg, rm)> [SIB] [disp] + 8 zero bytes of immediate.
    quick: the memory form [rbx] for the full product (one-byte and 0f maps) x (no prefix, REX.W) x opcode x reg, and
    one of the other five forms per (opcode, reg); thorough: every form, more prefixes, the 0f38 / 0f3a maps."""
    out = []
    pad = "00" * 8
    def enc(prefix, mp, b, reg, form):
        mod, rm, tail = MODRM_FORMS[form]
        return "%s%s%02x%02x%s%s" % (prefix, mp, b, (mod << 6) | (reg << 3) | rm, tail, pad)
    if tier == "quick":
        for mp in ("", "0f"):
            for prefix in ("", "48"):
                for b in range(256):
                    for reg in range(8):
                        out.append(enc(prefix, mp, b, reg, 0))
                        if prefix == "":
                            out.append(enc(prefix, mp, b, reg, 1 + (b + reg) % 5))
    else:
        for mp in ("", "0f"):
            for prefix in ("", "48", "66", "f3"):
                for b in range(256):
                    for reg in range(8):
                        for form in range(6):
                            out.append(enc(prefix, mp, b, reg, form))
        for mp in ("0f38", "0f3a"):
            for prefix in ("", "66"):
                for b in range(256):
                    for reg in range(8):
                        for form in (0, 3):
                            out.append(enc(prefix, mp, b, reg, form))
    return out


WIN_BOUNDS = ["0", "1", "2", "4", "2147483647", "2147483648", "2147483649", "4294967294", "4294967295", "-1", "-2", "-2147483648"]
CFI_BOUNDS = ["0", "1", "2", "8", "-1", "-2", "2147483648", "4294967295", "4294967296", "9223372036854775807", "-9223372036854775808",
              "9223372036854775808", "18446744073709551615"]
BIN_OPS = ["+", "-", "*", "/", "%", "@"]


def operator_block(tier):
    """One small dump per (operator, lhs, rhs): an x86 thread in a module whose STACK WIN program computes `lhs rhs op`
    before recovering the caller, and threads (amd64; thorough: x86, arm, arm64, mips too) in a module whose STACK CFI rule
    computes it as the CFA; plus the dereference `^` of every boundary."""
    out = []
    mod = "M=4194304:4096:%s:0" % hx(b"/m/ops.so")
    ret = 0x400020
    def stack(w):
        return hx(b"".join(le(v, w) for v in [ret, 0x10010, ret, 0x10020, ret, 0x10030, ret, ret] * 2))
    def case(cpu, os_, sym, regs, w, opt):
        return "D cpu=%s os=%s opt=%d S=%s %s T=1:65536:%s:%s" % (cpu, os_, opt, hx(sym.encode()), mod, stack(w), regs)
    head = "MODULE windows %s 000000000000000000000000000000000 ops.pdb\nFUNC 0 1000 0 f\n"
    n = 0
    for op in BIN_OPS + ["^"]:
        for a in WIN_BOUNDS:
            for b in (WIN_BOUNDS if op != "^" else [""]):
                expr = "%s %s %s" % (a, b, op) if op != "^" else "%s ^" % a
                prog = rng_free_choice(n, ["$T0 %s = $eip $T0 ^ = $esp $T0 4 + =", "$eip %s = $esp $esp 4 + =",
                                           "$T0 $esp %s + = $eip $T0 ^ = $esp $T0 4 + = $ebp %s ="]) 
                prog = prog.replace("%s", expr)
                sym = head % "x86" + "STACK WIN 4 0 1000 0 0 0 0 0 0 1 %s\n" % prog
                out.append(case("x86", "win", sym, "eip=4194320,esp=65536,ebp=65552", 4, [0, 2][n % 2]))
                n += 1
    cpus = [("amd64", 8, "$rsp", "rip=4194320,rsp=65536,rbp=65552")]
    if tier != "quick":
        cpus += [("x86", 4, "$esp", "eip=4194320,esp=65536,ebp=65552"), ("arm64", 8, "sp", "pc=4194320,sp=65536,fp=65552,x29=65552,lr=4194336,x30=4194336"),
                 ("arm", 4, "sp", "pc=4194320,r15=4194320,sp=65536,r13=65536,r11=65552,r7=65552,lr=4194336,r14=4194336"),
                 ("mips", 4, "$sp", "pc=4194320,sp=65536,fp=65552,ra=4194336")]
    for cpu, w, sp, regs in cpus:
        for op in BIN_OPS + ["^"]:
            for a in CFI_BOUNDS:
                for b in (CFI_BOUNDS if op != "^" else [""]):
                    expr = "%s %s %s" % (a, b, op) if op != "^" else "%s ^" % a
                    rule = rng_free_choice(n, [".cfa: %s .ra: .cfa ^", ".cfa: " + sp + " %s + .ra: .cfa " + str(w) + " - ^",
                                               ".cfa: " + sp + " " + str(2 * w) + " + .ra: %s"]).replace("%s", expr)
                    sym = head % cpu + "STACK CFI INIT 0 1000 %s\n" % rule
                    out.append(case(cpu, ["linux", "win", "mac"][n % 3], sym, regs, w, [0, 2][n % 2]))
                    n += 1
    return out


def rng_free_choice(n, l):
    return l[n % len(l)]

CPU_BUDGET_BASE_MS = 10000         # the same constants as harness/src/bin/c03.rs
CPU_BUDGET_BYTES_PER_MS = 2
HEAP_BUDGET_BASE = 64 << 20        # peak heap <= 64 MiB + 20000 x (input bytes + frame budget); measured: <= ~8 KB per frame incl. its JSON tree
HEAP_BUDGET_PER_UNIT = 20000
SYM_CALLS_PER_FRAME = 200          # measured maximum is far below (scan window 40 words x 2 lookups + CFI + symbolication)


def parse_kv(ans):
    d = {}
    for t in ans.split()[1:]:
        if "=" in t:
            k, v = t.split("=", 1)
            d[k] = v
    return d


class C03(PropBase):
    pid = "C03"
    coq_dirs = ["Base", "C08", "C03"]      # C05 / C11 / Gen are imported (other owners): their own gates scan them
    translators = ["c03_sites.py", "c03_render.py", "unwind_consts.py"]   # unwind_consts.py: C05's model (imported) is instantiated from Gen/UnwindConsts.v
    bins = ["c03"]
    impl_timeout = 3000        # wall-clock backstop of the runner for a whole shard; hangs are ended per case by the CPU watchdogs
    impl_mem_gb = 4
    rule = ("D cases: a dump synthesized from a structured spec (11 CPU kinds x 11 platform ids; threads with pointer-laced, empty, "
            "overlapping or top-of-address-space stacks; hostile module / unloaded-module lists; exception records incl. missing "
            "threads and planted amd64 instruction bytes; memory-info lists and Linux maps near 2^64; /proc limits/status/lsb/cpuinfo "
            "streams with malformed lines; optional byte corruption) x grammar-generated and corrupted symbol files (FUNC/line/INLINE/"
            "PUBLIC/STACK CFI/STACK WIN with looping, non-progressing, overflowing rules) x option sets; F cases: byte-corrupted / "
            "truncated sample dumps from /repo/testdata with generated symbols; each runs process_minidump_with_options and the "
            "three printers under catch_unwind with a counting allocator, a CPU-time budget of 10 s + 0.5 ms per input byte enforced by a "
            "watchdog inside the harness, and a counter of symbol-provider calls. Themes added in round 4: `inline` (FUNCs covering every frame with "
            "INLINE records of hostile nesting levels up to 4294967295, gaps, many records, with/without INLINE_ORIGIN / FILE) and `straddle` "
            "(exception instruction pointer in the last 1..15 bytes of a memory region, with/without a directly following / overlapping / "
            "one-byte-apart region of 0..20 bytes, MemoryList or Memory64List, instruction encodings of every length). L/G/S/J/A/I cases drive "
            "the site models (I = instruction-bytes fetch, U = u64 read through the memory list for jmp [rbx]). Round 5: T cases (multi-thread dumps: duplicate ids, "
            "threads without context / stack, exception and breakpad-info thread ids, stack pointers with 0..16 bytes left in the own stack / in another region / nowhere, "
            "adjacent / overlapping regions, MemoryList and Memory64List, modules without symbols, overlapping unloaded modules) compare every thread's CallStackInfo, "
            "frames (instruction, trust), unloaded-module offsets and requesting_thread with the extracted model of into_process_state + C05's walker; B cases the "
            "NEARBY_REGISTER entry of the bit-flip confidence; N cases MinidumpInfo::new with streams made unreadable; D theme `bitflip` (crash address one flipped bit from "
            "mapped memory / NULL / non-canonical, 0..16 registers planted near the corrected address). Second pass: `share=1` dumps (D and T: every thread-list entry cites the "
            "stack bytes and the context of the first one — T threads x S shared bytes; scan stacks, frame-pointer chains, one-byte CFI rules), mips64 in the T cases, and every T answer "
            "carries the items the three printers wrote (thread blocks, frame lines with their offsets, JSON threads and crashing_thread), compared with the model's printers and judged by "
            "the oracle without the model. Non-trivial = "
            "processing returned Ok with at least one thread, or a site answer; distinct = distinct case lines")
    trusted_base = [
        "Coq 8.16.1 kernel (vm_compute only in refutation witnesses and Examples)",
        "site models C03/Model.v written by hand from process_state.rs / processor.rs / op_analysis.rs / minidump.rs, tied to the code by the "
        "L/G/S/J correspondence (whole process_minidump on synthesized dumps); reuses the C08 range-table model and its lookup theorems",
        "extraction ExtrOcamlBasic only; ocaml/c03/main.ml; harness/src/bin/c03.rs + harness/src/dumpspec.rs (minidump-synth)",
        "the search part (D/F cases) is testing, not proof: generators in props/c03.py, RLIMIT_AS + wall-clock limits of the runner",
        "round 5: coq/C03/ProcessModel.v (thread loop of into_process_state, MinidumpInfo::new, NEARBY_REGISTER index) written by hand and tied to the code by the T/B/N "
        "correspondence and by translate/c03_sites.py (order of steps, the three .or() expressions, probe width, index expression, table of stream reads); it runs C05's walker "
        "model (coq/C05, other owner) and imports C05.Proofs.frame_bound / walk_shape",
        "second pass: coq/C03/BudgetModel.v (descriptors as references into the file: MinidumpMemory::read, 48 / 16 bytes per list entry) and coq/C03/RenderModel.v (control flow of "
        "print_internal, CallStack::print, print_json) written by hand; RenderModel is tied to the code by translate/c03_render.py (every index / + / - / += site and unwrap count of "
        "the three printers, order of their blocks) and by the T correspondence on the printers' items; BudgetModel by the share=1 T / D cases (corpus: 96 thread entries citing the same 4 096 stack bytes)",
    ]
    assumptions = [
        "partial: the unwinder's own arithmetic and the per-walk frame bound are C05's theorems (imported: frame_bound, walk_shape), STACK CFI / STACK WIN evaluation C06/C07's; "
        "c03_process_threads_total composes them with the model of into_process_state for all threads; in c03_process_total the walker's environment (module lookup, CFI oracle, "
        "instruction validity) is a parameter with C05's contract (cfi_contract: every register the CFI evaluation writes fits the context's slot width)",
        "input_ok: every memory region has size = length of its byte slice and bytes < 256 (both stream readers), decoded contexts hold register values of the slot width; "
        "join_all is modelled as a plain map over the threads (the futures share no mutable state); tokio's interleaving itself is exercised only",
        "c03_render_total takes the C11 facts (function_base <= instruction, source_line_base <= instruction) as hypotheses; the module and "
        "unloaded-module facts are derived from C08 inside C03",
        "yaxpeax-x86 (operand kinds reaching the panic! arms of op_analysis), serde_json, tokio, tracing, the error-code tables and arg_recovery are exercised only",
        "the time / memory budget 'tied to the input size' is the one proved: frames of the whole state <= sum over threads of (stack bytes of the thread + 2) <= |thread list| x (|file| + 2) "
        "(c03_process_threads_total, c03_total_frames_bound, c03_frames_budget_in_file_size) — quadratic in the file length, because descriptors are references into the file and may cite the same bytes; "
        "no linear budget exists (c03_linear_frame_budget_refuted, informative). The search oracle holds heap and CPU time of EVERY case to a stated constant x (input bytes + that frame budget); the linear ceiling "
        "of the earlier rounds was stronger than the property and reported a false alarm on shared descriptors (design/C03.md, False alarms)",
        "c03_renderers_total / c03_pipeline_always_renders: print iterates modules.by_addr() (a subset of the module list, sorted), the model all modules in list order — the hypothesis is per "
        "module, so every subset in any order is covered; sections that only format fields are markers; lines_ok (no call stack prints 2^64 lines) is the only hypothesis left on the state",
        "time / memory budget is judged by the search harness: peak heap <= 64 MiB + 20000 x (input bytes + frame budget) (a frame costs up to ~15 KB incl. its JSON tree; frame budget = sum over threads of stack bytes + 2, reported by the harness as fbud); "
        "CPU time of the processing thread <= 10 s + 0.5 ms per (input byte + budget frame) (measured on the unchanged tree: <= 0.17 ms per byte, 4.8 s; rendering is frames x name length, so the constant is generous), "
        "enforced while the case runs by a watchdog thread of the harness; symbol-provider calls <= 200 per produced frame",
        "c03_inline_levels_bound takes get_inlinee_at_depth's contract (a record of the function with the depth asked for) as the hypothesis look_sound; the binary search itself is C11's model. "
        "c03_instr_fetch_total takes size = length of the byte slice for every region, which both stream readers establish (location_slice / all.get(start..end))",
    ]
    manifest = {
        "text": "partial: theorems (Coq, all inputs, debug and release arithmetic) that Panic is unreachable in the models of the anchored sites outside the "
                "unwinder — /proc limits line splitting and indexing, guard-page `end + 1` adjacency, the implicit stack access of call/push, module "
                "end addresses given the readers' size filter, the printers' instruction - module/function/source-line base subtractions given the "
                "C08/C11 lookup facts (module and unloaded-module parts derived from C08 here), threads[requesting_thread], x86 argument recovery (splitting a function name of arbitrary Unicode text never slices inside a "
                "character; read-head arithmetic); c03_render_total_discharged removes the frame hypotheses via C08 and the imported C11 theorems; "
                "c03_process_total_partial states all stages together with C05's imported frame bound; round 5: the top-level control flow is inside the model — "
                "MinidumpInfo::new (c03_info_new_required_streams: over the translator-extracted table of ALL stream reads only the thread list and the system info can make processing fail; "
                "c03_process_minidump_total: a result or an error, never a panic) and both passes of into_process_state (dump-writer thread, context selection, requesting_thread, "
                "MinidumpThread::stack_memory, the 8-byte stack-pointer probe and its fall-back, walk_stack's prologue) composed with C05's walker model: c03_process_threads_total proves for EVERY thread list, "
                "memory list, exception / breakpad-info combination and CPU, both profiles, that the loop returns with fuel |chosen stack| + 3 per thread and every thread has at most (bytes of the stack memory chosen for it) + 2 frames; "
                "c03_process_total adds that every frame of every thread passes the printers' address arithmetic (C08 + C11) and threads[requesting_thread] is in bounds; c03_total_frames_bound (all stacks together <= threads x (largest region + 2)); "
                "c03_stack_memory_choice; c03_crashing_thread_json_total; the NEARBY_REGISTER index of BitFlipDetails::confidence (c03_nearby_register_index_total, and _source for the index expression the translator reads from the code; seeded variant refuted); "
                "c03_process_matches_source / translator pins of the order of steps and the .or() expressions; round 4: the crashing-instruction fetch "
                "(region lookup through the C08 table, ip - base, &bytes[offset..]) returns at least one byte and never slices out of range for any region layout "
                "(c03_instr_fetch_total, c03_memory_at_sound), fill_symbol's inline-level enumeration performs at most |INLINE records| + 1 lookups whatever depths the records carry "
                "(c03_inline_levels_bound), a jmp/call target is only read when all 8 bytes lie in one region (c03_read_u64_inside_one_region, c03_read_u64_never_stitches), PPC/PPC64/SPARC/unknown contexts walk to exactly the context frame (c03_no_unwinder_single_frame), translate/c03_sites.py regenerates the dispatch table and constants from the source and pins the shape of every modelled function (c03_sites_match_source), and the two seeded variants of these sites are refuted in the model (c03_instr_fetch_stitch_refuted, c03_inline_maxdepth_refuted); refutations with "
                "witnesses for the three defects fixed in /repo (F-C03b, F-C03c, F-C03g). Second pass of round 5: (1) the budget 'tied to the input size' decided — the input as a FILE (thread entries and memory "
                "descriptors are references into it): c03_frames_budget_in_file_size proves frames <= |thread list| x (|file| + 2) and 48 x frames <= |file| x (|file| + 2) for every file-backed input, and "
                "c03_linear_frame_budget_refuted / c03_shared_stack_frames prove that NO linear budget holds (for every factor c < 2^20 a well-formed dump shorter than 2^32 bytes yields more than c x |file| frames: m thread "
                "entries citing the same m stack bytes give m x (m + 1) frames from 2048 + 49 m bytes, by induction through C05's walker model) — informative: the quadratic budget is tight up to a constant; replayed on the real code (share=1 cases, silent: they stay within the proved budget); "
                "(2) 'always renders': the control flow of print / print_brief (print_internal), CallStack::print and print_json is in the model (blocks, loops over threads / frames / inlines / modules, every index and "
                "+ / - site): c03_renderers_total (all three printers return for every state_ok state, both profiles), c03_pipeline_always_renders (thread loop + C08 module lookup + C11 fill_symbol on ANY well-formed "
                "symbol file + the three printers, no hypothesis on the state except that no stack prints 2^64 lines), c03_render_requesting_out_of_bounds_refuted, c03_render_sites_match_source (the sites "
                "translate/c03_render.py extracts from the source on every run are exactly the model's). The models are compared with whole-dump processing on "
                "generated site cases (round 5: whole multi-thread dumps against the thread-loop model). Everything else (symbol walkers' insides, disassembler, JSON writer, text formatting, scheduling, arg_recovery inside the loop) is covered by search only: "
                "structured hostile dumps x generated/corrupted symbols x three option sets through process_minidump_with_options and print / "
                "print_brief / print_json under catch_unwind, with per-case frame-count, peak-heap, CPU-time (tied to the input size) and provider-call checks in both build profiles.",
        "note": "Trusted: Coq kernel; hand-written site models (correspondence-checked); extraction + glue. The whole-pipeline claim (terminates, never panics, "
                "always renders, frames <= stack bytes + 2) is proved for the MODEL of the pipeline (c03_process_total: thread loop + C05 walker + printers' arithmetic, environment of the walker abstract within C05's contract); "
                "the async runtime, disassembler, serde_json and formatting are search only.",
    }

    def gen_cases(self, tier, seed):
        rng = Rng(seed)
        g = Gen(rng)
        nd, nf, ns = (9000, 1500, 6000) if tier == "quick" else (70000, 8000, 40000)
        cases = g.site_cases(ns)
        cases += g.thread_cases(1500 if tier == "quick" else 12000)
        cases += g.nearby_cases(500 if tier == "quick" else 4000)
        cases += g.info_new_cases(100 if tier == "quick" else 1000)
        # exhaustive block 1: amd64 instruction bytes at the crashing rip, generated from the opcode / ModRM table —
        # every opcode byte of the one-byte and 0f maps x every ModRM reg field (group opcodes select the operation with
        # it: 80/81/83, c0/c1/d0-d3, f6/f7 /0../7, fe/ff, 0f 00/01/ba/c7 ...) x operand forms, with REX.W and without
        ops = opcode_table(tier)
        for i, ins in enumerate(ops):
            rsp = [0, 4096, 7][i % 3]
            cases.append("D cpu=amd64 os=%s opt=0 T=1:65536:z64:rip=4194304,rsp=%d X=1:11:0:0:0:0:0:rip=4194304,rsp=%d,rax=%d,rbx=20480 R=4194304:%s maps=%s"
                         % (["linux", "win"][i % 2], rsp, rsp, [0, U64 - 3, 20480][i % 3], ins,
                            hx(maps_line(0x5000, 0x5fff, "---p").encode())))
        g.dist["opcode_block"] = len(ops)
        # exhaustive block 2: every STACK WIN / STACK CFI operator on every pair of boundary operands, in a symbol file
        # that covers the frame being walked
        ob = operator_block(tier)
        cases += ob
        g.dist["operator_block"] = len(ob)
        for _ in range(nd):
            cases.append(g.dump_case())
        for _ in range(nf):
            cases.append(g.file_case())
        nb = 700 if tier == "quick" else 6000
        for _ in range(nb):
            cases.append(g.bitflip_case())
        for _ in range(60 if tier == "quick" else 600):
            cases.append(g.share_case(tier))
        g.dist["D_bitflip"] = nb
        g.dist["D_random"] = nd
        g.dist["F"] = nf
        # interleave so that the expensive cases are spread over the shards
        order = list(range(len(cases)))
        for i in range(len(order) - 1, 0, -1):
            j = rng.below(i + 1)
            order[i], order[j] = order[j], order[i]
        return [cases[i] for i in order], g.dist, False

    def impl_cmd(self, exe, profile):
        # the per-case wall-clock watchdog of vharness is only the backstop for a case that waits without computing:
        # loops are ended by the CPU-time budget inside harness/src/bin/c03.rs, which does not depend on machine load
        return ["env", "VHARNESS_CASE_TIMEOUT=300", exe]

    def canon_model(self, case, ans):
        return None if ans == "?" else ans

    def canon_impl(self, case, ans, profile):
        return "P;;" if ans.startswith("P;;") else ans

    def oracle(self, case, ans, profile):
        if ans.startswith("P;;"):
            return "panic while processing or rendering: " + ans[3:240]
        kind = case[0]
        if kind == "T":
            return self.oracle_threads(case, ans)
        if kind == "N":
            # "returns a result or an error": which one is the model's business; a timeout or anything else is a violation
            if ans == "N ok" or (ans.startswith("N err:") and ans[6:].isalnum()):
                return None
            return "process_minidump_with_options neither returned a state nor a ProcessError: " + ans[:100]
        if kind == "B":
            f = ans.split()
            if len(f) != 3 or f[0] != "B" or not f[1].isdigit() or not (f[2] == "-" or (f[2].isdigit() and int(f[2]) < 4)):
                return "bit-flip candidate / NEARBY_REGISTER entry not identified: " + ans[:100]
            return None
        if kind in "LGSJAIU":
            if not ans.startswith(kind + " ") and ans != kind:
                return "unparseable site answer " + ans[:100]
            if kind == "G" and ans == "G -":
                return "planted mov did not produce a memory access list"
            return None
        if not ans.startswith("OK "):
            return "unparseable answer " + ans[:100]
        d = parse_kv(ans)
        if d.get("r") == "timeout":
            return "processing did not finish within 3000 s of wall clock although it stayed within its CPU budget (it waits without computing)"
        if d.get("fb") != "1":
            return "a thread was walked for %s frames with only %s stack bytes (bound: bytes + 2)" % tuple(d.get("fr", "?/?").split("/"))
        # CPUs without an unwinder (get_caller_frame's `_ => None` arm): the context frame and nothing else
        if kind == "D" and " mut=" not in case and case.split()[1] in ("cpu=ppc", "cpu=ppc64", "cpu=sparc", "cpu=unknown"):
            if int(d.get("fr", "0/0").split("/")[0]) > 1:
                return "a thread of a %s dump has %s frames although that CPU has no unwinder" % (case.split()[1][4:], d.get("fr"))
        peak, insz, ms = int(d.get("peak", 0)), int(d.get("in", 0)), int(d.get("ms", 0))
        cpu = int(d.get("cpu", 0))
        # The budget "tied to the input size" is the one PROVED for the model: the whole state has at most the sum over its threads of
        # (bytes of the stack memory the thread is walked on + 2) frames (c03_process_threads_total), at most |thread list| x (largest
        # region + 2) <= |thread list| x (|file| + 2) (c03_total_frames_bound, c03_frames_budget_in_file_size) — descriptors are references
        # into the file, so this is quadratic in the file length, and no linear budget exists (c03_linear_frame_budget_refuted). Heap and
        # CPU time are held to a stated constant x (input bytes + that frame budget), for EVERY case; anything beyond is a violation.
        fb_state, _, fb_upper = d.get("fbud", "0/0").partition("/")
        fbud, fupper = int(fb_state or 0), int(fb_upper or 0)
        if fbud > fupper:
            return "frame budget of the state (%d) exceeds threads x (largest region + 2) = %d" % (fbud, fupper)
        if "/" in d.get("sym", ""):
            frames_all = int(d["sym"].split("/")[1])
            nopt_ = {3: 3, 5: 4}.get(int(dict(t.split("=", 1) for t in case.split()[1:] if "=" in t).get("opt", 0)), 1)
            if frames_all > nopt_ * fbud:
                return "%d frames in all (%d option sets), the frame budget of the dump is %d (sum over threads of stack bytes + 2)" % (frames_all, nopt_, fbud)
        if peak > HEAP_BUDGET_BASE + HEAP_BUDGET_PER_UNIT * (insz + fbud):
            return "peak heap %d bytes for %d input bytes and a frame budget of %d exceeds the budget 64 MiB + 20000 x (input + frame budget)" % (peak, insz, fbud)
        if cpu > CPU_BUDGET_BASE_MS + (insz + fbud) // CPU_BUDGET_BYTES_PER_MS:
            return "case used %d ms of CPU time for %d input bytes and a frame budget of %d (budget %d ms + 1 ms per %d of input bytes + budget frames)" % (
                cpu, insz, fbud, CPU_BUDGET_BASE_MS, CPU_BUDGET_BYTES_PER_MS)
        # no wall-clock clause: on a machine with a load average of 175 (thorough run of round 5) a legitimate 3.5 s case took 537 s
        # of wall clock; time is judged as CPU time below, a case that waits without computing is ended by the harness's backstops
        # time tied to the input size, measured as CPU time of the processing thread (independent of machine load);
        # the harness's CPU watchdog ends a case that exceeds the same budget while it is still running
        # work counted at the symbol-provider interface (hook-free): the unwinder asks the provider a bounded number of
        # times per produced frame (fill_symbol for the frame, walk_frame for its CFI, fill_symbol per scanned stack word)
        if "/" in d.get("sym", ""):
            calls, frames = (int(x) for x in d["sym"].split("/"))
            nopt = {3: 3, 5: 4}.get(int(dict(t.split("=", 1) for t in case.split()[1:] if "=" in t).get("opt", 0)), 1)
            thr = int(d.get("thr", 0))
            if calls > SYM_CALLS_PER_FRAME * (frames + nopt * (thr + 1)):
                return "%d symbol-provider calls for %d frames of %d threads (bound: %d per frame)" % (calls, frames, thr, SYM_CALLS_PER_FRAME)
        return None

    def oracle_threads(self, case, ans):
        """C03 judged on a T answer without the model: one call stack per thread-list entry, in order; no frames for the
        dump-writer thread or a thread without context; every thread within (largest memory region of the dump) + 2 frames
        (the exact bound, for the region actually chosen, is the model's: c03_process_threads_total); a CPU without unwinder
        yields at most the context frame; requesting_thread indexes an existing call stack."""
        if not ans.startswith("T req="):
            return "unparseable thread-loop answer " + ans[:100]
        toks = case.split()[1:]
        tids = [int(t[2:].split(":")[0]) for t in toks if t.startswith("T=")]
        sizes = [0]
        for t in toks:
            if t.startswith("T=") or t.startswith("R="):
                b = t.split(":")[2 if t.startswith("T=") else 1]
                sizes.append(0 if b == "-" else (int(b[1:]) if b.startswith("z") else len(b) // 2))
        parts = ans.split(" | ")
        head, _, body = parts[0].partition(" ")[2].partition(" ")
        stacks = [x.split(":") for x in body.split(";")] if body else []
        if [int(x[0]) for x in stacks] != tids:
            return "call stacks %s do not correspond to the thread list %s" % ([x[0] for x in stacks], tids)
        req = head[4:]
        if req != "-" and int(req) >= len(stacks):
            return "requesting_thread %s is out of bounds (%d call stacks)" % (req, len(stacks))
        nounw = toks[0] in ("cpu=ppc", "cpu=ppc64", "cpu=sparc")
        for x in stacks:
            nfr = len(x[2].split(",")) if x[2] else 0
            if x[1] in ("1", "2") and nfr:
                return "thread %s has CallStackInfo %s but %d frames" % (x[0], x[1], nfr)
            if nfr > max(sizes) + 2:
                return "thread %s was walked for %d frames; the largest memory region has %d bytes" % (x[0], nfr, max(sizes))
            if nounw and nfr > 1:
                return "thread %s of a %s dump has %d frames although that CPU has no unwinder" % (x[0], toks[0][4:], nfr)
        # "the resulting state can always be written as full text, brief text and JSON" (second pass), judged on what the printers
        # wrote: the requesting thread's block first (the only one of the brief text), then every other thread that was not skipped,
        # in order; one frame line per frame, numbered from 0 (T dumps have no symbols, hence no inline frames), `<no frames>` for an
        # empty stack; one JSON thread per call stack with one entry per frame; crashing_thread iff the requesting stack has frames
        if len(parts) != 4:
            return "the printers' items are missing from the answer: " + ans[:100]
        nfrs = [len(x[2].split(",")) if x[2] else 0 for x in stacks]

        def blocks(txt):
            out = []
            for t in ([] if txt == "-" else txt.split(",")):
                if t.startswith("T"):
                    out.append([t[1:], []])
                elif not out:
                    return None
                else:
                    out[-1][1].append(t)
            return out

        def block_ok(b):
            i = int(b[0]) if b[0].isdigit() else -1
            if i < 0 or i >= len(stacks):
                return "a thread block for index %s, which is no call stack" % b[0]
            want = ["N"] if nfrs[i] == 0 else None
            if want is not None:
                return None if b[1] == want else "thread %d has no frames but its block is %s" % (i, b[1])
            nums = [t.split(":")[0] for t in b[1]]
            if nums != ["F%d" % k for k in range(nfrs[i])]:
                return "thread %d has %d frames but its block holds the lines %s" % (i, nfrs[i], ",".join(b[1])[:80])
            return None

        full, brief = blocks(parts[1]), blocks(parts[2])
        if full is None or brief is None:
            return "frame lines before the first thread header: " + (parts[1] + " / " + parts[2])[:100]
        want_full = ([req] if req != "-" else []) + [str(i) for i, x in enumerate(stacks) if str(i) != req and x[1] != "2"]
        if [b[0] for b in full] != want_full:
            return "print wrote the thread blocks %s, expected %s" % ([b[0] for b in full], want_full)
        if [b[0] for b in brief] != ([req] if req != "-" else []):
            return "print_brief wrote the thread blocks %s, requesting thread %s" % ([b[0] for b in brief], req)
        for b in full + brief:
            e = block_ok(b)
            if e:
                return "text output: " + e
        js = parts[3].split(",") if parts[3] != "-" else []
        jn = [int(t[1:]) for t in js if t.startswith("J")]
        if jn != nfrs:
            return "print_json wrote threads with %s frames, the call stacks have %s" % (jn, nfrs)
        if len([t for t in js if t.startswith("f")]) != sum(nfrs) or any(t.startswith("?") for t in js):
            return "print_json frame entries do not correspond to the frames: " + parts[3][:100]
        cs = [t[1:] for t in js if t.startswith("C")]
        if cs != ([req] if req != "-" and nfrs[int(req)] > 0 else []):
            return "print_json crashing_thread %s, requesting thread %s with %s frames" % (cs, req, nfrs[int(req)] if req != "-" else "-")
        return None

    def nontrivial(self, case, ans):
        if case[0] == "T":
            return ans.startswith("T req=") and "/" in ans
        if case[0] in "LGSJAIUBN":
            return not ans.startswith("P;;")
        return " r=ok " in ans and " thr=0 " not in ans


PROP = C03()
