"""C11 — symbolication returns the record that really covers the address."""
import itertools
import re

from runner import PropBase
from vlib import Rng

U64 = (1 << 64) - 1
U32 = (1 << 32) - 1


# ----------------------------------------------------------------------------- case <-> records
def fmt_case(mbase, msize, qs, items, extra=()):
    out = ["M", str(mbase), str(msize)]
    if extra:
        out += ["X", str(len(extra))]
        for (b, sz, hs) in extra:
            out += [str(b), str(sz), str(int(hs))]
    out += ["Q", str(len(qs))] + [str(q) for q in qs] + ["R"]
    for it in items:
        k = it[0]
        if k == "I":
            d, cl, cf, og, rs = it[1:]
            out += ["I", str(d), str(cl), str(cf), str(og), str(len(rs))]
            for a, s in rs:
                out += [str(a), str(s)]
        else:
            out += [k] + [str(x) for x in it[1:]]
    return " ".join(out)


class Func:
    __slots__ = ("addr", "size", "psize", "name", "lines", "inls", "flines", "finls")

    def __init__(self, addr, size, psize, name):
        self.addr, self.size, self.psize, self.name = addr, size, psize, name
        self.lines = []     # (addr, size, line, file)   the block's own records, by the text
        self.inls = []      # (depth, addr, size, cfile, cline, origin)
        self.flines = []    # records of a dropped over-long FUNC line that the parser attaches to this block
        self.finls = []


class Case:
    pass


_cache = {}


def parse_case(line):
    c = _cache.get(line)
    if c is not None:
        return c
    t = line.split()
    c = Case()
    assert t[0] == "M"
    c.mbase, c.msize = int(t[1]), int(t[2])
    c.mods = [(c.mbase, c.msize, True)]
    c.modflags = [1]          # 0 = the supplier has no symbols for the module, 1 = symbols, 2 = a symbol file that does not parse, 3 = another symbol file
    i = 3
    if t[i] == "X":
        k = int(t[i + 1])
        for j in range(k):
            c.mods.append((int(t[i + 2 + 3 * j]), int(t[i + 3 + 3 * j]), t[i + 4 + 3 * j] == "1"))
            c.modflags.append(int(t[i + 4 + 3 * j]))
        i += 2 + 3 * k
    assert t[i] == "Q"
    n = int(t[i + 1])
    c.qs = [int(x) for x in t[i + 2:i + 2 + n]]
    i += 2 + n
    assert t[i] == "R"
    i += 1
    c.files, c.origins, c.pubs, c.funcs, c.win = {}, {}, [], [], {4: [], 0: []}
    c.zfuncs, c.parse_error = [], False
    cur = None
    orph = None       # the dropped FUNC whose sub-records are being read
    while i < len(t):
        k = t[i]
        if k == "Y":       # text style of the rendering (CRLF / upper-case hex / leading zero): no record
            i += 2
            continue
        if k in ("F", "P", "U", "W"):
            orph = None
        if k == "Z":
            orph = Func(int(t[i + 1]), int(t[i + 2]), int(t[i + 3]), int(t[i + 4]))
            c.zfuncs.append(orph)
            i += 6
            continue
        if k in ("L", "I") and cur is None:
            c.parse_error = True
            break
        if k == "F":
            cur = None
            c.files[int(t[i + 1])] = int(t[i + 2])
            i += 3
        elif k == "O":
            c.origins[int(t[i + 1])] = int(t[i + 2])
            i += 3
        elif k == "P":
            cur = None
            c.pubs.append((int(t[i + 1]), int(t[i + 3]), int(t[i + 2])))     # (addr, name, psize)
            i += 4
        elif k == "U":
            cur = Func(int(t[i + 1]), int(t[i + 2]), int(t[i + 3]), int(t[i + 4]))
            c.funcs.append(cur)
            i += 5
        elif k == "L":
            rec = (int(t[i + 1]), int(t[i + 2]), int(t[i + 3]), int(t[i + 4]))
            if orph is not None:
                orph.lines.append(rec)
                cur.flines.append(rec)
            else:
                cur.lines.append(rec)
            i += 5
        elif k == "I":
            d, cl, cf, og, kk = (int(x) for x in t[i + 1:i + 6])
            for j in range(kk):
                rec = (d, int(t[i + 6 + 2 * j]), int(t[i + 7 + 2 * j]), cf, cl, og)
                if orph is not None:
                    orph.inls.append(rec)
                    cur.finls.append(rec)
                else:
                    cur.inls.append(rec)
            i += 6 + 2 * kk
        elif k == "W":
            cur = None
            ty = int(t[i + 1])
            if ty in c.win:
                c.win[ty].append((int(t[i + 2]), int(t[i + 3]), int(t[i + 4]), int(t[i + 5])))   # addr,size,psize,tag
            i += 6
        else:
            raise ValueError("bad item " + k)
    c.nonoverlap = (not c.parse_error) and classify(c)
    if len(_cache) > 200000:
        _cache.clear()
    _cache[line] = c
    return c


# the address range a record denotes; None = the record denotes nothing
def rng_func(a, s):
    return (a, a + s - 1) if s > 0 and a + s <= U64 else None


def rng_line(a, s):
    return (a, a + s - 1) if s > 0 and a + s - 1 <= U64 else None


def rng_inl(a, s):
    return (a, a + s - 1) if s > 0 and a + s <= U64 else None


def disjoint(rs):
    rs = sorted(r for r in rs if r)
    return all(a[1] < b[0] for a, b in zip(rs, rs[1:]))


def clip(a, s):
    """the addresses a record of size s at a occupies, for the overlap test (a record whose end is
    not representable still occupies its start)"""
    return (a, min(a + s - 1, U64)) if s > 0 else None


def classify(c):
    """records of every kind are pairwise disjoint (empty records occupy nothing)"""
    if not disjoint([clip(f.addr, f.size) for f in c.funcs + c.zfuncs]):
        return False
    for f in c.funcs:
        # records of a dropped FUNC line that the parser hands to this block must stay clear of its range
        if not all(disjoint([clip(f.addr, f.size), clip(r[0], r[1])]) for r in f.flines):
            return False
        if not all(disjoint([clip(f.addr, f.size), clip(e[1], e[2])]) for e in f.finls):
            return False
    for ty in (4, 0):
        if not disjoint([clip(a, s) for (a, s, _, _) in c.win[ty]]):
            return False
    for f in c.funcs + c.zfuncs:
        if not disjoint([clip(a, s) for (a, s, _, _) in f.lines]):
            return False
        by = {}
        for e in f.inls:
            by.setdefault(e[0], []).append(clip(e[1], e[2]))
        if not all(disjoint(v) for v in by.values()):
            return False
    return True


def in_r(r, x):
    return r is not None and r[0] <= x <= r[1]


def isolated_cover(c, x):
    """the FUNC covering x that intersects no other FUNC (C08 guarantees the table finds it)"""
    rs = [rng_func(f.addr, f.size) for f in c.funcs]
    for i, f in enumerate(c.funcs):
        r = rs[i]
        if in_r(r, x) and all(j == i or g is None or g[1] < r[0] or r[1] < g[0] for j, g in enumerate(rs)):
            return f
    return None


# ----------------------------------------------------------------------------- reference lookup
def reference(c, x):
    """independent linear scan (meaningful for non-overlapping files):
    -> (func, src, frames)  func=(name, addr, psize)|None, src=(file, line, addr)|None, frames callback order"""
    f = next((f for f in c.funcs if in_r(rng_func(f.addr, f.size), x)), None)
    if f is None:
        cands = [p for p in c.pubs if p[0] <= x]
        if not cands:
            return None, None, []
        p = max(cands)
        if any(rng_func(g.addr, g.size) and p[0] <= g.addr <= x for g in c.funcs):
            return None, None, []
        return (p[1], p[0], p[2]), None, []
    ps = f.psize
    for ty in (0, 4):      # frame data (4) wins over fpo (0)
        for (a, s, p, _) in c.win[ty]:
            if in_r(rng_func(a, s), x):
                ps = p
    chain = []
    d = 0
    while True:
        e = next((e for e in f.inls if e[0] == d and in_r(rng_inl(e[1], e[2]), x)), None)
        if e is None:
            break
        chain.append(e)
        d += 1
    ln = next((l for l in f.lines if in_r(rng_line(l[0], l[1]), x)), None)
    frames = []
    if chain:
        loc = (chain[0][3], chain[0][4], chain[0][1])
        for k, e in enumerate(chain):
            if e[5] not in c.origins:
                continue
            if k + 1 < len(chain):
                nx = chain[k + 1]
                frames.append((c.origins[e[5]], c.files.get(nx[3]), nx[4]))
            elif ln:
                frames.append((c.origins[e[5]], c.files.get(ln[3]), ln[2] if ln[2] != 0 else None))
            else:
                frames.append((c.origins[e[5]], None, None))
    elif ln:
        loc = (ln[3], ln[2], ln[0])
    else:
        loc = None
    src = None
    if loc and loc[0] in c.files:
        src = (c.files[loc[0]], loc[1], loc[2])
    return (f.name, f.addr, ps), src, frames



# ----------------------------------------------------------------------------- generator statistics
def _bucket(n):
    return str(n) if n <= 4 else ("5-8" if n <= 8 else ("9-16" if n <= 16 else ">16"))


def _overlap(rs):
    rs = sorted(r for r in rs if r)
    return any(a[1] >= b[0] for a, b in zip(rs, rs[1:]))


def measure(lines):
    """distribution of the generated inputs, printed into the evidence: records per kind, overlap classes,
    inline depth, PUBLIC/FUNC adjacency, where the queried addresses fall relative to the records"""
    st = {}

    def inc(k, sub, n=1):
        d = st.setdefault(k, {})
        d[sub] = d.get(sub, 0) + n
    for line in lines:
        c = parse_case(line)
        if c.parse_error:
            inc("file", "sub-records without FUNC (parse error)")
            continue
        inc("file", "non-overlapping" if c.nonoverlap else "overlapping")
        fr = [rng_func(f.addr, f.size) for f in c.funcs]
        inc("FUNC per file", _bucket(len(c.funcs)))
        inc("PUBLIC per file", _bucket(len(c.pubs)))
        inc("STACK WIN per file", _bucket(len(c.win[4]) + len(c.win[0])))
        inc("line records per file", _bucket(sum(len(f.lines) for f in c.funcs)))
        inc("INLINE ranges per file", _bucket(sum(len(f.inls) for f in c.funcs)))
        inc("INLINE ranges per FUNC (max)", _bucket(max([len(f.inls) for f in c.funcs] + [0])))
        inc("max inline depth recorded", _bucket(max([e[0] for f in c.funcs for e in f.inls] + [-1]) + 1))
        if _overlap([clip(f.addr, f.size) for f in c.funcs]):
            inc("overlap class", "FUNC/FUNC")
        if len(set((f.addr, f.size) for f in c.funcs if f.size)) < len([f for f in c.funcs if f.size]):
            inc("overlap class", "duplicate FUNC range")
        if any(_overlap([clip(a, s_) for (a, s_, _, _) in f.lines]) for f in c.funcs):
            inc("overlap class", "line/line in one FUNC")
        for f in c.funcs:
            by = {}
            for e in f.inls:
                by.setdefault(e[0], []).append(clip(e[1], e[2]))
            if any(_overlap(v) for v in by.values()):
                inc("overlap class", "same-depth INLINE/INLINE")
                break
        if any(_overlap([clip(a, s_) for (a, s_, _, _) in c.win[ty]]) for ty in (4, 0)):
            inc("overlap class", "STACK WIN/STACK WIN")
        # duplicate (depth, address) keys among the kept INLINE ranges of one FUNC (c11_inlinee_duplicates):
        # the answer is then decided by the rest of the derived order (size, call_file, call_line, origin)
        dup = same = False
        for f in c.funcs:
            keys = {}
            for e in f.inls + f.finls:
                if e[2] > 0:
                    keys.setdefault((e[0], e[1]), set()).add(tuple(e))
            dup = dup or any(len(v) > 1 for v in keys.values())
            same = same or any(len({t[2] for t in v}) < len(v) for v in keys.values())
        if dup:
            inc("overlap class", "INLINE ranges with equal (depth, address), different payload")
        if same:
            inc("overlap class", "INLINE ranges with equal (depth, address, size), different call site / origin")
        if any(e[2] == 0 for f in c.funcs for e in f.inls):
            inc("degenerate records", "zero-size INLINE")
        if any(l[1] == 0 for f in c.funcs for l in f.lines):
            inc("degenerate records", "zero-size line")
        if any(f.size == 0 for f in c.funcs):
            inc("degenerate records", "zero-size FUNC")
        if any(f.addr + f.size > U64 for f in c.funcs) or any(e[1] + e[2] > U64 for f in c.funcs for e in f.inls) or \
                any(l[0] + l[1] - 1 > U64 for f in c.funcs for l in f.lines):
            inc("degenerate records", "end past 2^64-1")
        if any(r and not in_r(fr[i], r[0]) or r and not in_r(fr[i], r[1]) for i, f in enumerate(c.funcs)
               for r in [rng_line(l[0], l[1]) for l in f.lines] + [rng_inl(e[1], e[2]) for e in f.inls]):
            inc("degenerate records", "sub-record outside its FUNC")
        if any(e[5] not in c.origins for f in c.funcs for e in f.inls):
            inc("degenerate records", "INLINE with undefined origin")
        if any(l[3] not in c.files for f in c.funcs for l in f.lines):
            inc("degenerate records", "line with undefined FILE")
        # PUBLIC / FUNC adjacency
        starts = sorted(r[0] for r in fr if r)
        for pb in c.pubs:
            a = pb[0]
            if any(r and r[0] == a for r in fr):
                inc("PUBLIC position", "at a FUNC start")
            elif any(in_r(r, a) for r in fr):
                inc("PUBLIC position", "inside a FUNC")
            elif any(r and r[1] + 1 == a for r in fr):
                inc("PUBLIC position", "first byte after a FUNC")
            elif not starts:
                inc("PUBLIC position", "file without FUNC")
            elif a < starts[0]:
                inc("PUBLIC position", "before every FUNC")
            elif a > starts[-1]:
                inc("PUBLIC position", "after every FUNC")
            else:
                inc("PUBLIC position", "in a hole between FUNCs")
        if len(set(pb[0] for pb in c.pubs)) < len(c.pubs):
            inc("PUBLIC position", "files with two PUBLICs at one address")
        # module placement
        if c.mbase == 0:
            inc("module 0 base", "0")
        elif c.mbase >= U64 - 4096:
            inc("module 0 base", "within 4096 of 2^64-1")
        elif c.mbase >= 1 << 63:
            inc("module 0 base", ">= 2^63")
        else:
            inc("module 0 base", "other")
        inc("modules in list", str(len(c.mods)))
        mr = [rng_func(b, sz) if sz <= U32 else None for (b, sz, _) in c.mods]
        for i, (b, sz, hs) in enumerate(c.mods[1:], 1):
            r = mr[i]
            inc("extra module: supplier", {0: "unknown to the supplier (NotFound)", 1: "symbol file", 2: "symbol file that does not parse", 3: "another symbol file"}[c.modflags[i]])
            if r is not None and any(in_r(r, q) for q in c.qs):
                inc("extra module looked up by a query", {0: "unknown to the supplier", 1: "symbol file", 2: "corrupt symbol file", 3: "another symbol file"}[c.modflags[i]])
            if r is None:
                inc("extra module", "empty / not representable (base+size > 2^64-1)")
            elif mr[0] and r[0] <= mr[0][1] and mr[0][0] <= r[1]:
                inc("extra module", "intersects module 0")
            elif r[1] == U64 - 1 or b + sz == U64:
                inc("extra module", "ends at 2^64-1")
            elif mr[0] and r[0] == mr[0][1] + 1:
                inc("extra module", "adjacent after module 0")
            elif mr[0] and r[1] < mr[0][0]:
                inc("extra module", "below module 0")
            else:
                inc("extra module", "above module 0")
        # queries
        for q in c.qs:
            if q < c.mbase:
                inc("query", "below module base (base > address)")
                continue
            x = q - c.mbase
            cov = [i for i, r in enumerate(fr) if in_r(r, x)]
            if q == U64:
                inc("query", "instruction = 2^64-1")
            if not cov:
                if any(r and r[1] + 1 == x for r in fr):
                    inc("query", "first byte after a FUNC")
                elif any(r and r[0] == x + 1 for r in fr):
                    inc("query", "last byte before a FUNC")
                elif starts and starts[0] < x < starts[-1]:
                    inc("query", "hole between FUNCs")
                else:
                    inc("query", "outside every FUNC (before first / after last / no FUNC)")
                pbs = [pb for pb in c.pubs if pb[0] <= x]
                if pbs:
                    pb = max(pbs)
                    if any(r and r[0] == pb[0] for r in fr) and any(r and pb[0] <= r[0] <= x for r in fr):
                        inc("query: PUBLIC fallback", "cut by a FUNC starting at the PUBLIC's address")
                    elif any(r and pb[0] <= r[0] <= x for r in fr):
                        inc("query: PUBLIC fallback", "cut by an intervening FUNC")
                    elif pb[0] == x:
                        inc("query: PUBLIC fallback", "PUBLIC exactly at the address")
                    else:
                        inc("query: PUBLIC fallback", "PUBLIC below the address, not cut")
                elif c.pubs:
                    inc("query: PUBLIC fallback", "every PUBLIC above the address")
                continue
            if len(cov) > 1:
                inc("query", "inside several FUNC records")
            f, r = c.funcs[cov[0]], fr[cov[0]]
            inc("query", "FUNC first byte" if x == r[0] else ("FUNC last byte" if x == r[1] else "FUNC interior"))
            lr = [rng_line(l[0], l[1]) for l in f.lines]
            if any(in_r(v, x) for v in lr):
                inc("query: line table", "line first byte" if any(v and v[0] == x for v in lr) else
                    ("line last byte" if any(v and v[1] == x for v in lr) else "line interior"))
            elif f.lines:
                inc("query: line table", "hole of the line table")
            else:
                inc("query: line table", "FUNC without lines")
            depth = 0
            while any(e[0] == depth and in_r(rng_inl(e[1], e[2]), x) for e in f.inls):
                depth += 1
            inc("query: inline chain length", _bucket(depth))
            if f.inls:
                ir = [rng_inl(e[1], e[2]) for e in f.inls]
                if any(v and v[0] == x for v in ir):
                    inc("query: inline ranges", "at a range start")
                if any(v and v[1] == x for v in ir):
                    inc("query: inline ranges", "at a range's last byte")
                if any(v and v[1] + 1 == x for v in ir):
                    inc("query: inline ranges", "first byte after a range")
                if depth == 0 and any(e[0] > 0 and in_r(rng_inl(e[1], e[2]), x) for e in f.inls):
                    inc("query: inline ranges", "covered at depth >= 1 only (depth 0 missing)")
                if depth > 0 and any(e[0] > depth and in_r(rng_inl(e[1], e[2]), x) for e in f.inls):
                    inc("query: inline ranges", "chain interrupted by a missing depth")
            if any(in_r(rng_func(a, s_), x) for ty in (4, 0) for (a, s_, _, _) in c.win[ty]):
                both = all(any(in_r(rng_func(a, s_), x) for (a, s_, _, _) in c.win[ty]) for ty in (4, 0))
                inc("query: parameter size", "frame data and fpo both cover" if both else "one STACK WIN table covers")
            else:
                inc("query: parameter size", "FUNC's own")
    return st

# ----------------------------------------------------------------------------- answers
def p3(s):
    if s == "-":
        return None
    a, b, cc = s.split(",")
    return (int(a), int(b), int(cc))


def pinl(s):
    out = []
    if s:
        for f in s.split(","):
            n, fl, ln = f.split(":")
            out.append((int(n), None if fl == "-" else int(fl), None if ln == "-" else int(ln)))
    return out


def parse_out(s):
    parts = s.split("|")
    return p3(parts[0][3:]), p3(parts[1][4:]), pinl(parts[2][4:])


class C11(PropBase):
    pid = "C11"
    coq_dirs = ["Base", "Gen", "C08", "C09", "C11"]
    translators = ["c11_symbolize.py", "c11_compile.py"]
    bins = ["c11"]
    rule = ("case = records of one symbol file (FILE, INLINE_ORIGIN inside/outside FUNC blocks, PUBLIC, FUNC with line and "
            "multi-range INLINE records, STACK WIN) + module list (module 0 = base/size with symbols, optional further modules "
            "before/inside/after it and at the top of the address space, with the same symbols, with another symbol file, unknown to the supplier, or with a symbol file that does not parse) + query instructions (every "
            "record boundary +-1, one below the module, module boundaries); the harness prints the .sym text (names decorated "
            "with spaces, parentheses, templates, tabs, non-ASCII; `m` flags; sparse u32 ids), parses it with the real parser and "
            "symbolicates through SymbolFile::fill_symbol, through walk_stack/fill_source_line_info/Symbolizer::fill_symbol and "
            "through Symbolizer::get_symbol_at_address; the parsed tables are part of the answer. "
            "Exhaustive block over a 0..12 address domain, generated nested-inline files (depth <= 8), messy files (overlaps, "
            "duplicates, zero sizes, top of the address space), deep inline chains (10..70 levels, missing levels, disconnected records at depth 2^31 / u32::MAX), "
            "files with 10..40 FUNCs and up to 20 PUBLICs; module bases 0, 0x1000, 2^63, 2^64-1-k; the measured distribution (records per kind, overlap classes, "
            "inline depth, PUBLIC/FUNC adjacency, where the queries fall) is in input_distribution.measured. "
            "Round 5: 1 file in 6 has payload fields (parameter sizes, line numbers, call lines) at 0 / 2^31 / u32::MAX; 1 file in 5 is spelled in another text style "
            "(CRLF line ends, upper-case hex, a leading zero on hex fields, space-tab-space between fields: item Y, rendered identically by the harness and by the model's own renderer); every file is "
            "additionally re-parsed by the harness as two twins (INLINE ranges of each FUNC block permuted; FILE / INLINE_ORIGIN lines moved to the end) whose tables and "
            "callbacks must be identical (field X, oracle only); the extracted model answers every case twice, from the records and from the text (C09's recogniser + finish), "
            "and both must agree with the real code. Second pass: field D of every query and the printed table come from the functions COMPILED from the Rust source (fill_symbol with its callees; the Line::Function arm of finish_item); "
            "after the queries of a case the Symbolizer's pending_stats and per-module stats are compared with C12's cache model run on the session (field C) and judged by the oracle. "
            "Non-trivial = some query reports a function together with a source line or inline frame; distinct = distinct case lines")
    trusted_base = [
        "Coq 8.16.1 kernel (vm_compute only in the non-vacuity Examples)",
        "model C11/Model.v written by hand from sym_file/{mod,types,parser}.rs and minidump-unwind/src/lib.rs; tied to the code (1) by the correspondence run "
        "(parsed tables and every callback argument compared) and (2) by translate/c11_symbolize.py: a template matcher (regular expressions over the "
        "comment-stripped, whitespace-normalised function bodies) whose holes - comparison operators, operands, constants, table order, lookup keys, loop "
        "start/stop - are translated to Gallina (Gen/C11Sym.v) and proved equal to the model (c11_source_tie); the templates' literal text and the "
        "Gallina skeleton the holes are spliced into are trusted to say the same thing; reuses the C08 range-table model; and (3, round 5 second pass) by translate/c11_compile.py, a small "
        "compiler (tokeniser + recursive-descent parser for a Rust subset + continuation-passing code generator, field types read from the struct declarations) that translates the bodies of "
        "memory_range (Function, StackInfoWin), get_inlinee_at_depth, get_outermost_sourceloc, get_innermost_sourceloc, find_nearest_public, SymbolFile::fill_symbol, the Line::Function arm of finish_item, "
        "insert_win_stack_info, Symbolizer::fill_symbol and fill_source_line_info statement by statement into Gallina (Gen/C11Src.v) over the vocabulary "
        "C11/Prims.v (vec_index, usize_sub, range_new, bres_err, opt_and_then, vec_mapM / opt_mapM, vec_last_split with write-back for last_mut(), opt_unwrap, the three FrameSymbolizer callbacks as updates of a sym_out, "
        "StackFrame / module list / cached symbol file for the async Symbolizer glue, read sequentially): here the trusted part is the compiler's reading of each construct "
        "and Prims.v, no longer a hand-written skeleton; c11_compiled_source_tie proves the compiled functions equal to the model; the compiled functions build the printed table and answer fields D and S of every generated query; a function outside the "
        "compiler's subset is reported (broken tie) and replaced by a FALLBACK definition equal to the hand-written model so that the correspondence run goes on",
        "names are modelled as integers, rendered as letter + 4 digits so that String order = integer order (PublicSymbol's derived Ord)",
        "std slice::binary_search_by modelled as the Rust >= 1.82 halving loop; Vec::sort as a stable insertion sort; HashMap as insert log",
        "extraction: ExtrOcamlBasic only; ocaml/zconv.ml + ocaml/c11/main.ml glue (it renders the case as .sym text a second time, independently of the harness, for the "
        "text front-end of the model: C09's extracted line recogniser + finish + Text2.symtab_of_table with nm = the number inside the name, tg = the prologue size); harness/src/bin/c11.rs",
    ]
    assumptions = ["nom line grammar: the harness goes through SymbolFile::from_bytes; its byte-level model is C09's (Grammar.v, compared with the real parser by C09's check); "
                   "c11_from_bytes composes that model with C11's for every byte string shorter than 2^32-1 bytes that parses - the integer ranges and the INLINE-range count of wf_file "
                   "are PROVED from the parser (c11_parser_records_in_range) and encodings of names / STACK WIN payloads as integers that fit the text always exist (c11_encodings_exist), so c11_from_bytes_closed has "
                   "no hypothesis besides the 4 GiB bound on the length of the text",
                   "Symbolizer/SymbolSupplier caching between walk_stack and SymbolFile::fill_symbol: modelled by C12 (Model.run); C11 composes it for the sequential client of one case "
                   "(c11_symbolizer_session, c11_symbolizer_cached_frame) and compares pending_stats / stats after every case; concurrent interleavings are C12's check, not C11's",
                   "hypothesis of the theorems: fewer than 2^32-1 INLINE ranges in one FUNC. The u32 depth counter of `for depth in 1..` can only "
                   "overflow after 2^32-1 successful lookups at depths 1..2^32-1, i.e. 2^32 INLINE records of pairwise distinct depth in one FUNC "
                   "(each its own line of >= 16 bytes, > 64 GiB of text, and 2^32 x 32-byte Inlinee = 128 GiB of Vec): not reachable by a file the parser can hold",
                   "module lookup in front-end S is the C08 table (Model.v mod_table/frame_of, proved in C08 and composed in c11_module_lookup_compose / c11_module_isolated_found)",
                   "c11_source_tie covers the lookup side (fill_symbol, find_nearest_public, get_inlinee_at_depth, get_outermost/innermost_sourceloc, memory_range, the filters and sort keys of finish_item, "
                   "the forwarding in Symbolizer::fill_symbol / get_symbol_at_address / fill_source_line_info) and, on the parse side, insert_win_stack_info, StackInfoWin::memory_range, (round 5, literal pins) the record-collecting arms of "
                   "parse_more / parse_func_subline (every FILE / INLINE_ORIGIN / PUBLIC / FUNC sub-record is kept, in file order) and the merge step of the "
                   "parser-local into_rangemap_safe; the trait into_rangemap_safe of minidump-common (line tables; C08's model), range_map::Range::intersects and std's sort / binary search stay correspondence-only"]
    manifest = {
        "text": "Theorems (Coq, all symbol files, addresses, module bases < 2^64, both build profiles): a reported FUNC is a record of the file whose range "
                "contains the address, bases never exceed the instruction and the additions cannot overflow; the PUBLIC fallback is the last PUBLIC at or "
                "below the address, suppressed exactly when a FUNC of the table starts between it and the address; the source line is the covering line "
                "record or the covering depth-0 inline call site; the inline chain has depths 0,1,2.. each covering the address, frames carry the next "
                "call site / innermost line, reversed in the stack frame, and the depth loop ends within fuel = number of inlinees; for non-overlapping "
                "files everything (incl. the STACK WIN parameter size) equals a linear scan; the whole table of C09's byte-level parser model (finish) is related to the text's records and fill_symbol on it "
                "equals symbolize on them (c11_from_text); the module-list lookup of C08 composes with fill_symbol (c11_module_lookup_compose) and a module intersecting no other is the one found, also at the top of the address space (c11_module_isolated_found); "
                "round 5: every record the parser state holds after any sequence of recognised or dropped lines is in the integer ranges the theorems assume and a FUNC block has at most as many INLINE ranges "
                "as the text had bytes (c11_parser_records_in_range), so for EVERY byte string < 2^32-1 bytes that the parse loop of C09's model accepts (any read schedule, over-long lines dropped) finish returns a table, "
                "the text's records are wf_file and fill_symbol on the parsed table equals symbolize on them (c11_from_bytes, c11_from_parse; closed form c11_from_bytes_closed with the encodings of c11_encodings_exist: names ranked in String order - "
                "rle_compare is proved to be the lexicographic order of the decoded strings and every stored name a normal form; c11_bytes_func_sound / c11_bytes_equals_linear_scan state the FUNC/PUBLIC and linear-scan clauses directly of the bytes); "
                "get_inlinee_at_depth is characterised exactly for every FUNC block, overlapping or with duplicate (depth,address) keys: it inspects the greatest kept record in Inlinee's derived order at or below (depth,addr) - unique, "
                "independent of the algorithm and of record order (c11_inlinee_lookup_exact, c11_inlinee_duplicates) - and Function values and every symbolication are invariant under permuting the INLINE ranges of a FUNC block "
                "(c11_inline_order_irrelevant; the harness re-parses each generated file with the INLINE ranges permuted, and once more with every FILE / INLINE_ORIGIN line moved to the end, and the oracle demands identical tables and callbacks); "
                "the extracted model also READS THE TEXT of every generated file (C09's recogniser and finish, then symtab_of_table: Driver.table_of_text, proved equal to symbolize on the text's records in c11_text_driver_correct) and its "
                "answers from the text must equal those from the records and those of the real code; "
                "for ALL files a covering FUNC record that intersects no other FUNC record is the one reported (c11_isolated_func_found); one symbolication makes 0 inline lookups without a covering FUNC and otherwise "
                "1 + chain length <= INLINE ranges of the FUNC + 1, for any fuel (c11_inline_lookups_bounded); the lookup side of the model is regenerated from the Rust source on every run and proved equal "
                "to the hand-written model (c11_source_tie: operators, operands, constants, table order, keys, loop bounds; structure pinned by templates that abort on unrecognised source); second pass: the bodies of get_inlinee_at_depth, "
                "get_outermost/innermost_sourceloc, find_nearest_public and fill_symbol (callbacks, early returns, `?`, the unbounded `for depth in 1..` loop as a Fixpoint over fuel, u64 +/- as trapping operations, indexing as a panic site) are COMPILED into Gallina "
                "on every run and proved equal to the model for all arguments, panics included (c11_compiled_source_tie); on every well-formed file the compiled fill_symbol with any fuel covering the table's FUNCs equals symbolize and returns "
                "(c11_compiled_fill_symbol), so the property theorems hold of the compiled source; the extracted compiled function answers the fill_symbol field of every generated query; likewise the Line::Function arm of finish_item (closures included) and insert_win_stack_info (last_mut borrow, `as u32`, unwrap) are compiled and the table built with them equals build_symtab (c11_compiled_build_symtab); "
                "Symbolizer::fill_symbol and fill_source_line_info are compiled too and, on module lists with parsed tables, return the frame of c11_module_frame_total (c11_compiled_frame_total); "
                "the Symbolizer level is composed with C12's cache model for the sequential client of a case: in every finishing schedule one result per lookup in order, each the supplier's single answer for that module, requested = processed = distinct modules, "
                "each module fetched once (c11_symbolizer_session), and in every schedule the frame filled from the cached answer is frame_of (c11_symbolizer_cached_frame); modules may be unknown to the supplier or have a corrupt file, and pending_stats / stats are compared after every case. Model and real code (parser + fill_symbol + walk_stack over a module list + Symbolizer::get_symbol_at_address) are run on the same generated files in "
                "debug and release; an independent Python linear-scan oracle judges the real output.",
        "note": "Trusted: Coq kernel; hand-written model (correspondence-checked, parser table construction included) and, for the eleven functions compiled from the Rust source, "
                "the compiler translate/c11_compile.py with its vocabulary C11/Prims.v instead; ExtrOcamlBasic extraction + OCaml/Rust glue; "
                "std binary search and sort modelled from their documented algorithms. No axioms.",
    }

    def canon_impl(self, case, ans, profile):
        if ans.startswith("E;"):
            return "E"
        if ans.startswith("P;;"):
            return "P;;"
        # the permuted-twin verdict is judged by the oracle only (the model has no such field)
        head, sep, last = ans.rpartition(";")
        return head if sep and last.startswith("X") else ans

    def canon_model(self, case, ans):
        return ans if not ans.startswith("P;;") else "P;;"

    # ------------------------------------------------------------------ generation
    def sparsify(self, rng, items):
        """FILE / INLINE_ORIGIN ids become sparse u32 values (0, 2^31, u32::MAX, ...), consistently"""
        pool = [0, 1, 2, 7, 1000, 65535, 65536, 1 << 31, U32 - 1, U32, 123456789, 4000000000]
        def mk():
            m, free = {}, list(pool)
            def f(i):
                if i not in m:
                    m[i] = free.pop(rng.below(len(free))) if free else i + 5000
                return m[i]
            return f
        ff, fo = mk(), mk()
        out = []
        for it in items:
            k = it[0]
            if k == "F":
                out.append(("F", ff(it[1]), it[2]))
            elif k == "O":
                out.append(("O", fo(it[1]), it[2]))
            elif k == "L":
                out.append(("L", it[1], it[2], it[3], ff(it[4])))
            elif k == "I":
                out.append(("I", it[1], it[2], ff(it[3]), fo(it[4]), it[5]))
            else:
                out.append(it)
        return out

    def gen_modules(self, rng, mb, msize):
        extra = []
        for _ in range(rng.range(1, 3)):
            st = rng.below(6)
            if st == 0:
                b, sz = mb + msize, rng.choice([1, 16, 4096])            # adjacent after module 0
            elif st == 1:
                b, sz = max(0, mb - rng.below(64)), rng.below(128)       # before / overlapping its start
            elif st == 2:
                b, sz = U64 - rng.below(64), rng.below(80)               # top of the address space, may overflow
                if rng.chance(1, 2):
                    sz = (U64 - b) + rng.choice([0, 0, 1, -1])           # ends exactly at 2^64-1 / one past / one short
                    sz = max(0, sz)
            elif st == 3:
                b, sz = mb + rng.below(64), rng.below(64)                # inside module 0
            elif st == 4:
                b, sz = rng.below(1 << 20), rng.choice([0, 1, U32])
            else:
                b, sz = (mb + (1 << 32) + rng.below(16)), rng.choice([64, 4096, U32])
            hs = rng.chance(3, 4)
            # second pass: a module without usable symbols is either unknown to the supplier (0) or has a symbol file that
            # does not parse (2) - decided by the values already drawn, so the random stream is the one of the earlier rounds
            # 3 = the supplier has ANOTHER valid symbol file for the module (one FUNC f9999 over [0, 0xfffffffe])
            extra.append((max(0, min(b, U64)), sz, (3 if (b + sz) % 3 == 0 else 1) if hs else (2 if (b + sz) % 2 else 0)))
        return extra

    def queries(self, rng, mbase, items, cap, extra=()):
        pts = set()

        def rec(a, s):
            for v in (a - 1, a, a + 1, a + s - 1, a + s, a + s + 1):
                pts.add(v)
        for it in items:
            k = it[0]
            if k == "P":
                rec(it[1], 1)
            elif k in ("U", "L", "Z"):
                rec(it[1], it[2])
            elif k == "I":
                for a, s in it[5]:
                    rec(a, s)
            elif k == "W":
                rec(it[2], it[3])
        qs = sorted(mbase + v for v in pts if 0 <= v and mbase + v <= U64)
        if len(qs) > cap:
            keep = set(rng.choice(qs) for _ in range(cap))
            qs = sorted(keep)
        if mbase > 0:
            qs.append(mbase - 1)
        few = sorted(v for v in pts if v >= 0)[:8]
        for (b, sz, _) in extra:
            for v in [b - 1, b, b + sz - 1, b + sz] + [b + w for w in few[::2]]:
                if 0 <= v <= U64:
                    qs.append(v)
        return qs

    def gen_exhaustive(self, tier, add):
        """small block: every combination over a 0..12 address domain"""
        dom = list(range(0, 14))
        base_items = [("F", 1, 1), ("O", 1, 11), ("O", 2, 12)]
        # (A) one FUNC [2,10): <=2 lines x <=2 inline ranges
        lopts = [(2, 4), (6, 4), (4, 4), (2, 0), (2, 8)] if tier != "quick" else [(2, 4), (6, 4), (4, 4), (4, 0)]
        iopts = [(d, a, s) for d in (0, 1) for a in (2, 4, 6) for s in ((0, 2, 4, 6) if tier != "quick" else (0, 2, 6))]
        lsets = [()] + [(l,) for l in lopts] + list(itertools.combinations(lopts, 2))
        isets = [()] + [(i,) for i in iopts] + list(itertools.product(iopts, repeat=2))
        for ls in lsets:
            for is_ in isets:
                items = list(base_items) + [("U", 2, 8, 4, 5)]
                for n, (a, s) in enumerate(ls):
                    items.append(("L", a, s, 10 + n, 1))
                for n, (d, a, s) in enumerate(is_):
                    items.append(("I", d, 20 + n, 1, 1 + n, [(a, s)]))
                add("exh_func", fmt_case(0, 64, dom, items))
        # (B) <=3 FUNCs x <=2 PUBLICs
        fopts = [(0, 4), (2, 4), (4, 4), (4, 0), (0, 12), (8, 4)]
        popts = [0, 3, 4, 9, 11]
        fsets = [()] + [(f,) for f in fopts] + list(itertools.product(fopts, repeat=2))
        if tier != "quick":
            fsets += list(itertools.product(fopts, repeat=3))
        else:
            fsets += [t for t in itertools.combinations(fopts, 3)]
        psets = [()] + [(p,) for p in popts] + list(itertools.combinations_with_replacement(popts, 2))
        for fs in fsets:
            for ps in psets:
                items = []
                for n, (a, s) in enumerate(fs):
                    items.append(("U", a, s, n, 30 + n))
                    if s:
                        items.append(("L", a, s, 40 + n, 1))
                for n, a in enumerate(ps):
                    items.append(("P", a, 7 + n, 50 + n))
                items.append(("F", 1, 1))
                add("exh_public", fmt_case(0, 64, dom, items))

    def extremes(self, rng, items):
        """payload fields (parameter sizes, line numbers, call lines) at the ends of their u32 range: a record whose payload is 0 or
        u32::MAX is a record like any other (the class of seeded C11-5: records dropped at collection time by a condition on a field)"""
        ext = [0, U32 - 1, 1 << 31]
        idx = {"P": 2, "U": 3, "L": 3, "I": 2, "W": 4}
        out = []
        for it in items:
            if it[0] in idx and rng.chance(1, 3):
                it = list(it)
                it[idx[it[0]]] = rng.choice(ext)
                it = tuple(it)
            out.append(it)
        return out

    def gen_nested(self, rng, scale_hi):
        """well-formed file: disjoint FUNCs, disjoint line tables, properly nested inline tree"""
        items = []
        nfiles = rng.range(1, 4)
        for i in range(1, nfiles + 1):
            items.append(("F", i, 100 + i))
        norig = rng.range(1, 6)
        top_origins = [i for i in range(1, norig + 1) if rng.chance(1, 2)]
        for i in top_origins:
            items.append(("O", i, 200 + i))
        pending = [i for i in range(1, norig + 1) if i not in top_origins]
        if rng.chance(1, 5) and pending:
            pending.pop()     # leave one origin undefined
        pos = rng.below(8)
        nf = rng.range(1, 5)
        for fi in range(nf):
            if rng.chance(1, 2):
                items.append(("P", pos + rng.below(3), rng.below(16), 300 + rng.below(5)))
            pos += rng.below(4)
            size = rng.range(4, scale_hi)
            items.append(("U", pos, size, rng.below(32), 400 + fi))
            fitems = []
            # lines
            lp = pos
            while lp < pos + size:
                ls = rng.range(1, max(1, size // 3))
                ls = min(ls, pos + size - lp)
                if rng.chance(4, 5):
                    fitems.append(("L", lp, ls, rng.below(60), rng.range(1, nfiles + 1 if rng.chance(9, 10) else nfiles + 2)))
                if rng.chance(1, 8):
                    fitems.append(("L", lp, 0, 999, 1))      # zero-size line
                lp += ls
            # inline tree
            maxd = rng.choice([0, 1, 2, 3, 8])

            def tree(lo, hi, d):
                if d > maxd or hi - lo < 1:
                    return
                p = lo + rng.below(2)
                while p < hi:
                    s = rng.range(1, max(1, (hi - p)))
                    if rng.chance(1, 3):
                        s = hi - p
                    og = rng.range(1, norig)
                    cl, cf = rng.below(90), rng.range(1, nfiles)
                    rs = [(p, s)]
                    tree(p, p + s, d + 1)
                    p += s + rng.below(3)
                    if rng.chance(1, 3) and p < hi:     # multi-range record
                        s2 = rng.range(1, hi - p)
                        rs.append((p, s2))
                        tree(p, p + s2, d + 1)
                        p += s2 + rng.below(3)
                    fitems.append(("I", d, cl, cf, og, rs))
            if maxd or rng.chance(1, 2):
                tree(pos, pos + size, 0)
            while pending and rng.chance(1, 2):
                i = pending.pop()
                fitems.append(("O", i, 200 + i))
            # INLINE records may come in any order inside the block
            for j in range(len(fitems) - 1, 0, -1):
                k = rng.below(j + 1)
                fitems[j], fitems[k] = fitems[k], fitems[j]
            items += fitems
            pos += size
            if rng.chance(1, 3):
                a = pos - size + rng.below(size)
                ty = rng.choice([4, 0])
                items.append(("W", ty, a, rng.range(1, pos - a), rng.below(64), rng.below(3)))
                if rng.chance(1, 2):        # the other table covers part of the same FUNC too (frame data must win)
                    a2 = pos - size + rng.below(size)
                    items.append(("W", 4 - ty, a2, rng.range(1, pos - a2), 64 + rng.below(64), rng.below(3)))
        for i in pending:
            items.append(("O", i, 200 + i))
        if rng.chance(1, 2):
            items.append(("P", pos + rng.below(5), rng.below(16), 300 + rng.below(5)))
        return items

    def gen_messy(self, rng, top):
        """overlapping / duplicate / zero-size / overflowing records"""
        items = []
        off = (U64 - 60) if top else 0
        span = 48

        def A():
            return min(U64, off + rng.below(span))
        for i in range(1, 4):
            if rng.chance(3, 4):
                items.append(("F", i, 100 + rng.below(3)))
        for i in range(1, 5):
            if rng.chance(2, 3):
                items.append(("O", i, 200 + rng.below(3)))
        for _ in range(rng.below(4)):
            items.append(("P", A(), rng.below(4), 300 + rng.below(3)))
        for fi in range(rng.range(1, 5)):
            a = A()
            items.append(("U", a, rng.choice([0, 1, 4, 8, 16, 40, 80]), rng.below(4), 400 + rng.below(3)))
            for _ in range(rng.below(5)):
                items.append(("L", A(), rng.choice([0, 1, 2, 4, 8, 30, 80]), rng.below(5), rng.range(1, 4)))
            for _ in range(rng.below(6)):
                k = rng.choice([1, 1, 2, 3])
                rs = [(A(), rng.choice([0, 1, 2, 4, 8, 30, 80])) for _ in range(k)]
                if rng.chance(1, 4) and rs:
                    rs.append(rs[0])
                items.append(("I", rng.below(4), rng.below(5), rng.range(1, 4), rng.range(1, 5), rs))
            if rng.chance(1, 4):
                items.append(("O", rng.range(1, 5), 200 + rng.below(4)))
            if rng.chance(1, 3):
                items.append(("P", A(), rng.below(4), 300 + rng.below(3)))
            if rng.chance(1, 2):
                for _ in range(rng.range(1, 3)):
                    items.append(("W", rng.choice([4, 0, 4, 0, 1]), A(), rng.choice([0, 1, 4, 8, 30, 80]), rng.below(8), rng.below(2)))
        return items

    def gen_deep(self, rng):
        """deep inline chains (10..70 nested levels), optionally interrupted by a missing level, with
        disconnected INLINE records at huge depth values (2^31, u32::MAX) and same-depth siblings"""
        items = [("F", 1, 101), ("F", 2, 102)]
        norig = rng.range(2, 6)
        for i in range(1, norig + 1):
            items.append(("O", i, 200 + i))
        pos = rng.below(6)
        for fi in range(rng.range(1, 2)):
            size = rng.choice([40, 90, 200])
            items.append(("U", pos, size, rng.below(16), 400 + fi))
            fitems = []
            lp = pos
            while lp < pos + size:
                ls = min(rng.range(1, 24), pos + size - lp)
                if rng.chance(5, 6):
                    fitems.append(("L", lp, ls, rng.below(60), rng.range(1, 2)))
                lp += ls
            depth_n = rng.choice([10, 12, 17, 20, 33, 70])
            missing = rng.range(1, depth_n - 1) if rng.chance(1, 3) else None
            lo, hi = pos + rng.below(2), pos + size - rng.below(2)
            for d in range(depth_n):
                if hi - lo < 1:
                    break
                if d != missing:
                    rs = [(lo, hi - lo)]
                    if rng.chance(1, 4) and hi + 2 < pos + size and d > 0:
                        rs.append((hi + 1, rng.range(1, pos + size - hi - 1)))     # a sibling range further right
                    fitems.append(("I", d, rng.below(90), rng.range(1, 2), rng.range(1, norig), rs))
                lo += rng.below(2)
                hi -= rng.below(2)
            if rng.chance(1, 2):
                for dv in rng.choice([[U32], [1 << 31], [U32, U32 - 1], [1000], [depth_n + 1]]):
                    fitems.append(("I", dv, rng.below(90), 1, rng.range(1, norig), [(pos + rng.below(4), size - 4)]))
            for j in range(len(fitems) - 1, 0, -1):
                k = rng.below(j + 1)
                fitems[j], fitems[k] = fitems[k], fitems[j]
            items += fitems
            pos += size + rng.below(3)
        return items

    def gen_wide(self, rng):
        """many FUNCs (10..40) and PUBLICs (up to 20): longer tables for the FUNC lookup, the previous-FUNC
        binary search and the reverse PUBLIC scan; PUBLICs at FUNC starts, inside, in holes, after the last"""
        items = [("F", 1, 101)]
        n = rng.range(10, 40)
        pos = rng.below(4)
        spots = []
        messy = rng.chance(1, 4)
        for fi in range(n):
            gap = rng.choice([0, 0, 1, 2, 5])
            if gap:
                spots.append(pos + rng.below(gap))
            pos += gap
            size = rng.choice([1, 1, 2, 3, 6])
            a = pos - rng.below(3) if messy and rng.chance(1, 5) and pos > 3 else pos
            items.append(("U", a, size if not (messy and rng.chance(1, 10)) else 0, rng.below(8), 400 + fi))
            if rng.chance(2, 3):
                items.append(("L", a, size, 10 + fi, 1))
            spots.append(a)
            if size > 1:
                spots.append(a + rng.range(1, size - 1))
            pos += size
        spots += [pos, pos + 1, pos + 7]
        for _ in range(rng.range(1, 20)):
            items.append(("P", rng.choice(spots), rng.below(8), 300 + rng.below(30)))
        return items

    def gen_cases(self, tier, seed):
        rng = Rng(seed)
        cases = []
        dist = {}

        def add(kind, line):
            cases.append(line)
            dist[kind] = dist.get(kind, 0) + 1
        self.gen_exhaustive(tier, add)
        nrand = 4000 if tier == "quick" else 30000
        for _ in range(nrand):
            style = rng.below(10)
            if style < 5:
                hi = rng.choice([8, 16, 40, 200])
                items = self.gen_nested(rng, hi)
                kind = "nested"
                ext = 1 + max([it[1] + it[2] for it in items if it[0] == "U"] + [it[1] for it in items if it[0] == "P"] + [0])
                mb = rng.choice([0, 0x1000, 1 << 63, U64 - ext - rng.below(4), U64 - ext // 2, U64])
            elif style < 9:
                items = self.gen_messy(rng, False)
                kind = "messy"
                mb = rng.choice([0, 0, 0x1000, 1 << 63, U64 - 50, U64 - 130, U64 - rng.below(40)])
            else:
                items = self.gen_messy(rng, True)
                kind = "messy_top"
                mb = rng.choice([0, 0, 1, 30])
            msize = rng.choice([min(U32, U64 - mb), min(U32, U64 - mb), U32, rng.below(64), 0])
            if rng.chance(1, 3):
                items = self.sparsify(rng, items)
                kind += "+sparse_ids"
            if rng.chance(1, 6):
                items = self.extremes(rng, items)
                kind += "+extreme_payloads"
            if rng.chance(1, 5):
                # the same records in another spelling: CRLF line ends (1), upper-case hex (2), a leading zero on hex fields (4),
                # space-tab-space between the fields (8)
                items = [("Y", rng.range(1, 15))] + items
                kind += "+text_style"
            extra = self.gen_modules(rng, mb, msize) if rng.chance(1, 2) else []
            if extra:
                kind += "+modules"
            qs = self.queries(rng, mb, items, 40, extra)
            add(kind, fmt_case(mb, msize, qs, items, extra))
        for _ in range(300 if tier == "quick" else 2500):
            items = self.gen_deep(rng)
            mb = rng.choice([0, 0x1000, 1 << 63, U64 - 500 - rng.below(4)])
            add("deep_inline", fmt_case(mb, min(U32, U64 - mb), self.queries(rng, mb, items, 60), items))
        for _ in range(300 if tier == "quick" else 2500):
            items = self.gen_wide(rng)
            mb = rng.choice([0, 0x1000, U64 - 400])
            msz = min(4096, U64 - mb)
            extra = self.gen_modules(rng, mb, msz) if rng.chance(1, 3) else []
            add("many_funcs", fmt_case(mb, msz, self.queries(rng, mb, items, 80, extra), items, extra))
        # dropped over-long FUNC lines (200 KB each: only a handful)
        for n in range(12 if tier == "quick" else 60):
            items = self.gen_nested(rng, 16)
            out, placed = [], False
            for j, it in enumerate(items):
                out.append(it)
                nxt = items[j + 1][0] if j + 1 < len(items) else None
                if not placed and it[0] in ("U", "L", "I", "P", "F") and nxt not in ("L", "I") and rng.chance(1, 3):
                    base = 600 + rng.below(8)
                    out.append(("Z", base, 16, 0, 450, 170000 + rng.below(60000)))
                    out.append(("L", base, 8, 71, 1))
                    if rng.chance(1, 2):
                        out.append(("I", 0, 72, 1, 1, [(base + rng.below(4), 4)]))
                    if rng.chance(1, 3):        # a sub-record of the dropped FUNC inside an earlier FUNC's range
                        out.append(("L", rng.below(40), 4, 73, 1))
                    placed = True
            qs = self.queries(rng, 0, out, 40)
            add("dropped_func_line", fmt_case(0, U32, qs, out))
        dist["measured"] = measure(cases)
        return cases, dist, True

    # ------------------------------------------------------------------ oracle
    def oracle(self, case, ans, profile):
        if ans.startswith("P;;"):
            return "parsing or symbolication panicked: " + ans[3:200]
        c = parse_case(case)
        if c.parse_error:
            # sub-records of a dropped over-long FUNC line with no FUNC block open: the parse fails (C09's concern)
            return None if ans.startswith("E") else "sub-records without an open FUNC block were accepted: " + ans[:100]
        if ans.startswith("E"):
            return "harness could not parse its own symbol file: " + ans[:200]
        parts = ans.split(";")
        if len(parts) != 3 + len(c.qs) or not parts[0].startswith("T") or not parts[-1].startswith("X") or not parts[-2].startswith("C"):
            return "unparseable answer " + ans[:100]
        twin = parts.pop()
        cache = parts.pop()
        looked_up = set()
        mranges = [rng_func(b, sz) if sz <= U32 else None for (b, sz, _) in c.mods]
        for q, p in zip(c.qs, parts[1:]):
            d, rest = p.split("/S")
            s, g = rest.split("/G")
            fn, src, inl = parse_out(d[1:])
            # --- front-end D: SymbolFile::fill_symbol with module base mbase
            bad = self.judge(c, c.mbase, q, fn, src, inl)
            if bad:
                return bad
            # --- front-end S: module lookup, then the same data with the inlines reversed
            covering = [i for i, r in enumerate(mranges) if in_r(r, q)]
            if s == "-":
                for i in covering:
                    r = mranges[i]
                    if all(j == i or o is None or o[1] < r[0] or r[1] < o[0] for j, o in enumerate(mranges)):
                        return "instruction %d lies in module %d, which intersects no other module, but walk_stack attached no module" % (q, i)
            else:
                idx, so = s.split(":", 1)
                idx = int(idx)
                looked_up.add(idx)
                if idx not in covering:
                    return "walk_stack attached module %d to instruction %d outside its range" % (idx, q)
                fn2, src2, inl2 = parse_out(so)
                mb, _, hs = c.mods[idx]
                if c.modflags[idx] == 3:
                    # the module's own symbol file is "FUNC 0 ffffffff 0 f9999": every address of the module is in that FUNC
                    if (fn2, src2, inl2) != ((9999, mb, 0), None, []):
                        return ("module %d has its own symbol file (one FUNC 9999 at 0 covering it), but the frame at %d is %s %s %s: "
                                "symbolicated from another module's file" % (idx, q, fn2, src2, inl2))
                elif not hs:
                    if fn2 or src2 or inl2:
                        return "frame at %d symbolicated although module %d has no symbols" % (q, idx)
                else:
                    if mb == c.mbase and (fn2 != fn or src2 != src):
                        return "stack frame and fill_symbol callbacks disagree at %d" % q
                    if mb == c.mbase and inl2 != inl[::-1]:
                        return "stack frame inlines at %d are not the callback order reversed (innermost first): %s vs %s" % (q, inl2, inl)
                    bad = self.judge(c, mb, q, fn2, src2, inl2[::-1])
                    if bad:
                        return "module %d: %s" % (idx, bad)
            # --- front-end G: get_symbol_at_address = module base 0, name only
            gname = None if g == "-" else int(g)
            if c.nonoverlap:
                rf, _, _ = reference(c, q)
                if gname != (rf[0] if rf else None):
                    return "get_symbol_at_address(%d) = %s, linear scan says %s" % (q, gname, rf[0] if rf else None)
            elif gname is not None:
                if not any(f.name == gname and in_r(rng_func(f.addr, f.size), q) for f in c.funcs) and \
                        not any(pb[1] == gname and pb[0] <= q for pb in c.pubs):
                    return "get_symbol_at_address(%d) = %s: no FUNC of that name contains the address and no PUBLIC of that name is at or below it" % (q, gname)
        # --- the Symbolizer after the session (c11_symbolizer_session): one supplier call per module that was looked up
        # (the modules walk_stack attached, plus the (debug_file, debug_id) pseudo-module of get_symbol_at_address), none pending,
        # and a stats entry exactly for those: found-and-parsed / found-but-corrupt / not found
        m = re.fullmatch(r"C(\d+),(\d+)\|([-01,]*)(\+\d+)?", cache)
        if not m:
            return "unparseable cache field " + cache[:100]
        ents = m.group(3).split(",")
        if len(ents) != len(c.mods) + 1:
            return "unparseable cache field " + cache[:100]
        want_keys = len(looked_up) + (1 if c.qs else 0)
        if int(m.group(1)) != want_keys or int(m.group(2)) != want_keys:
            return ("after the queries the Symbolizer reports %s symbol files requested / %s processed; %d distinct modules were looked up "
                    "(each module's symbols are located exactly once)" % (m.group(1), m.group(2), want_keys))
        if m.group(4):
            return "the Symbolizer's stats have %s entries for modules that are not in the module list" % m.group(4)[1:]
        for i, e in enumerate(ents):
            if i == len(c.mods):
                want = "10" if c.qs else "-"
            elif i not in looked_up:
                want = "-"
            else:
                want = {0: "00", 1: "10", 2: "11", 3: "10"}[c.modflags[i]]
            if e != want:
                return ("Symbolizer::stats for module %d is %s, expected %s (loaded,corrupt; - = no entry: the module was never looked up)"
                        % (i, e, want))
        if twin != "Xok":
            # c11_inline_order_irrelevant: Function values and every symbolication are independent of the order of the INLINE ranges
            if twin.startswith("Xmove:"):
                return ("the same records with the FILE / INLINE_ORIGIN lines moved to the end of the file give a different result (%s): "
                        "names or lines depend on where a FILE / INLINE_ORIGIN record stands among the others, so one of the two files misreports "
                        "the records covering the address" % twin[6:])
            return ("the same file with the INLINE ranges of each FUNC block in another order gives a different result (%s): "
                    "inline frames / call-site lines depend on record order, so some order misreports the calls covering the address" % twin[1:])
        return None

    def judge(self, c, mbase, q, fn, src, inl):
        """one symbolication result (callback order) for a module loaded at mbase"""
        if q < mbase:
            if fn or src or inl:
                return "instruction %d below module base %d was symbolicated" % (q, mbase)
            return None
        x = q - mbase
        bad = self.sound(c, mbase, x, q, fn, src, inl)
        if bad:
            return bad
        if c.nonoverlap:
            rf, rs, ri = reference(c, x)
            want_fn = (rf[0], rf[1] + mbase, rf[2]) if rf else None
            want_src = (rs[0], rs[1], rs[2] + mbase) if rs else None
            if fn != want_fn:
                return "non-overlapping file: function at %d is %s, linear scan says %s" % (x, fn, want_fn)
            if src != want_src:
                return "non-overlapping file: source line at %d is %s, linear scan says %s" % (x, src, want_src)
            if inl != ri:
                return "non-overlapping file: inline frames at %d are %s, linear scan says %s" % (x, inl, ri)
        return None

    def sound(self, c, mbase, x, q, fn, src, inl):
        if fn is None:
            if src or inl:
                return "source line or inline frames without a function at %d" % x
            f = isolated_cover(c, x)
            if f is not None:
                return "FUNC %d covers %d and intersects no other FUNC, but no function was reported" % (f.name, x)
            return None
        name, base, ps = fn
        if base > q:
            return "function_base %d exceeds the instruction %d" % (base, q)
        fa = base - mbase
        if src is None and not inl:
            # may be a PUBLIC
            for p in c.pubs:
                if p == (fa, name, ps):
                    if isolated_cover(c, x) is not None:
                        continue    # an isolated FUNC covers x: a PUBLIC must not win
                    if any(p2[0] <= x and p2 > p for p2 in c.pubs):
                        return "PUBLIC %s reported at %d although a later PUBLIC is at or below the address" % (p, x)
                    return None
        errs = []
        for f in c.funcs:
            if f.name != name or f.addr != fa or not in_r(rng_func(f.addr, f.size), x):
                continue
            e = self.sound_in(c, mbase, f, x, q, ps, src, inl)
            if e is None:
                return None
            errs.append(e)
        if errs:
            return errs[0]
        return "reported function %s at %d is neither a FUNC record containing the address nor an admissible PUBLIC" % (fn, x)

    def sound_in(self, c, mbase, f, x, q, ps, src, inl):
        if ps != f.psize and not any(p == ps and in_r(rng_func(a, s), x) for ty in (4, 0) for (a, s, p, _) in c.win[ty]):
            return "parameter size %d at %d is neither the FUNC's nor that of a STACK WIN record covering the address" % (ps, x)
        cover = [e for e in f.inls + f.finls if e[1] <= x < e[1] + e[2]]
        if src:
            fl, ln, b = src
            if b > q:
                return "source_line_base %d exceeds the instruction %d" % (b, q)
            la = b - mbase
            ok = any(l[0] == la and l[2] == ln and c.files.get(l[3]) == fl and in_r(rng_line(l[0], l[1]), x) for l in f.lines + f.flines) or \
                any(e[0] == 0 and e[1] == la and e[4] == ln and c.files.get(e[3]) == fl for e in cover)
            if not ok:
                return "source line %s at %d is neither a covering line record nor a covering depth-0 inline call site" % (src, x)
        if inl:
            names = {c.origins.get(e[5]) for e in cover}
            for (n, fl, ln) in inl:
                if n not in names:
                    return "inline frame %s at %d: no INLINE record of FUNC %d with that origin covers the address" % (n, x, f.name)
            if len(inl) > len({e[0] for e in cover}):
                return "more inline frames (%d) at %d than inline depths covering the address" % (len(inl), x)
            if not any(e[0] == 0 for e in cover):
                return "inline frames at %d without a depth-0 INLINE record covering the address" % x
            # "with their call sites": a frame is located at the call site recorded by a covering INLINE record of depth >= 1
            # (the next inlined call) or, innermost, at a line record covering the address (line 0 = no line); nothing else
            sites = {(c.files.get(e[3]), e[4]) for e in cover if e[0] >= 1}
            lsites = {(c.files.get(l[3]), l[2] if l[2] != 0 else None) for l in f.lines + f.flines if in_r(rng_line(l[0], l[1]), x)}
            for k, (n, fl, ln) in enumerate(inl):
                if (fl, ln) in sites or (fl, ln) in lsites or (fl, ln) == (None, None):
                    continue
                return ("inline frame %s at %d is located at (file %s, line %s): neither the call site of a covering INLINE record of depth >= 1 "
                        "nor a line record covering the address" % (n, x, fl, ln))
            if inl[-1][1:] != (None, None) and inl[-1][1:] not in lsites and len(inl) >= len({e[0] for e in cover}):
                return "innermost inline frame %s at %d is not located at a line record covering the address" % (inl[-1], x)
        return None

    def nontrivial(self, case, ans):
        return "|src=" in ans and any(("fn=-" not in p) and ("src=-" not in p or "inl=/" not in p)
                                      for p in ans.split(";")[1:] if p.startswith("D"))


PROP = C11()
