"""C13 — processing is deterministic and independent of scheduling (partial).

Theorem part: coq/C13 (order-independent renderers, join by index, schedule-independent thread
answers and stats snapshot on top of the C12 model).  Direct oracle: harness/src/bin/c13.rs
processes one (dump, symbols) pair runs x 3 executors times and counts distinct renderings."""
import os
import re

from runner import PropBase
from vlib import Rng, REPO
from props.c03 import Gen, gen_limits, hx, CPUS

U64 = (1 << 64) - 1


def le64(ws):
    return b"".join((w & U64).to_bytes(8, "little") for w in ws)


def leaf(name):
    return re.split(r"[/\\]", name)[-1]


def modules_of(case):
    """code_file of the modules that survive the reader's size filter, in JSON `modules` order"""
    out = []
    for t in case.split():
        if t.startswith("M="):
            f = t[2:].split(":")
            base, size = int(f[0]), int(f[1])
            if size == 0 or size > U64 - base:
                continue
            name = "" if f[2] == "-" else bytes.fromhex(f[2]).decode("utf-8", "replace")
            out.append(name)
    return out


# the keys the readers of the Linux text streams compare against, taken from the source that is being checked
# (byte-string literals of the non-test code): a key spelled in the code is a key the generator uses
KEY_FILES = ["minidump-processor/src/process_state.rs", "minidump-processor/src/processor.rs"]
KEY_FALLBACK = ["DISTRIB_ID", "ID", "DISTRIB_RELEASE", "VERSION_ID", "DISTRIB_CODENAME", "VERSION_CODENAME",
                "DISTRIB_DESCRIPTION", "PRETTY_NAME", "Pid", "microcode"]


def scan_keys(repo=REPO):
    keys = []
    for f in KEY_FILES:
        try:
            src = open(os.path.join(repo, f), encoding="utf-8", errors="replace").read()
        except OSError:
            continue
        src = re.split(r"#\[cfg\(test\)\]", src)[0]
        for m in re.finditer(r'b"([A-Za-z_][A-Za-z0-9_ ]{0,40})"', src):
            if m.group(1) not in keys:
                keys.append(m.group(1))
    for k in KEY_FALLBACK:
        if k not in keys:
            keys.append(k)
    return keys


STATS_PATH = re.compile(r"^modules\.(\d+)\.(loaded_symbols|missing_symbols|corrupt_symbols|symbol_url)$")


class C13(PropBase):
    pid = "C13"
    coq_dirs = ["Base", "C08", "C03", "C12", "C13", "Gen"]
    translators = ["c13_sites.py"]
    bins = ["c13"]
    impl_timeout = 6000
    impl_mem_gb = 4
    rule = ("direct-oracle cases: one (dump, symbols[, evil-json]) pair processed runs(6..8) x 3 executors (poll-to-completion, seeded "
            "random release of parked lookups, multi-thread tokio) with a fresh Symbolizer and per-run rotated supplier delay scripts; "
            "print_json + print + print_brief bytes must be identical in all runs. Inputs: the C03 structured dump generator (threads "
            "sharing modules, hostile CFI / STACK WIN, Linux streams) plus targeted families: many-line /proc limits, arm64 CFI with "
            "aliasing targets (x29/fp, x30/lr), two modules with one leaf name, evil-json certificates listing one module twice, "
            "Linux key/value streams (lsb/status/cpuinfo/environ/limits) over the key literals of the readers with conflicting duplicates, "
            "33..80 threads with a per-module suspension script (completion order != thread order), CFI rules that leave the evaluator early "
            "after a push (state leaking between evaluations), PUBLIC records sharing an address, STACK CFI delta lines that re-define a register "
            "and then define its alias (x29/fp, x30/lr, r11/fp, r14/lr; 25 in-process runs), 2..4 threads in deep recursion (17 000..40 000 frames "
            "together, stacks synthesised by the harness from deep=) under per-module suspension scripts rotated per run; rendering 0 is the "
            "synchronous one and threads[] must be in thread-list order; renderings 1..3 print ONE synchronously built state after an amd64 dump and after an x86 dump were processed and "
            "printed on the same thread and on a freshly spawned OS thread (state surviving between building and printing); frames inside 2..6 overlapping unloaded modules. Q cases: the registers of an arm64 "
            "CFI caller frame against C13.Cfi.a64_walk; A cases: adaptive walks on one real Symbolizer polled in an explicit schedule against C13.Adaptive.arun; P cases: process_minidump on "
            "decision-tree dumps against the same model. "
            "R cases: the entries (name, soft, hard, unit) of the proc_limits array against the model; E: cert_subject per module (certificate names may repeat in the JSON object); "
            "L: lsb_release fields, text line, pid, microcode; U: frames[0].unloaded_modules (JSON) and the `(unloaded name@off|off)` groups (text) of threads whose instruction pointer "
            "lies in 0..7 overlapping unloaded modules (names repeated, range ends, a bad size that makes the reader drop the stream) against C13.Unloaded.frame_offsets; B: the source_register sequence of crash_info.possible_bit_flips for amd64 crashes on instructions with one or two operand registers "
            "(each a single bit, so every register has a candidate) against the model's BTreeSet of the operand registers. Non-trivial = at least one thread processed; "
            "distinct = distinct case lines")
    trusted_base = [
        "Coq 8.16.1 kernel (vm_compute only in witnesses / Examples)",
        "C13/Model.v: HashMap / HashSet as duplicate-free lists iterated in an arbitrary permutation; slice::sort_by modelled as insertion sort "
        "(equal output for distinct keys); join_all modelled as slot-by-index filling",
        "C12/Model.v (other owner) as the semantics of the shared Symbolizer (tasks = per-thread lookup lists, futures-util Mutex, stats keyed by "
        "leaf name), tied to the code by C12's own executor correspondence; C03/Model.v for the limits parser",
        "C13/Linux.v: linux_list_iter / LinuxStandardBase::from / LinuxProcStatus::from / get_microcode_version hand-modelled on ASCII input "
        "(to_string_lossy is the identity there), correspondence-checked (L cases); walks in place = events (i, f) that transform slot i only",
        "translate/c13_sites.py (name-based regex/bracket scan, not a type checker: hash containers reached through pattern bindings, aliases or "
        "generics are not seen) and C13/Sites.v (the classification of each site is a reading of the code)",
        "C13/Adaptive.v: an adaptive walk is a finite decision tree over lookup answers, stepped with C12's begin_call / complete / hit on C12's shared record; "
        "C13/Budget.v: the statements of a walk future after walk_stack(..).await run as one atomic step at completion (no await among them: pinned by "
        "walk_future_steps); C13/Cfi.v: walk_with_stack_cfi as insert-overwrite map -> arbitrary iteration -> sort by name -> fold of an arbitrary per-rule "
        "state transformer; the arm64 instance (memoize table, callee-saved list regenerated from the source) is correspondence-checked (Q cases)",
        "C13/Unloaded.v: BTreeMap<String, BTreeSet<u64>> as a list kept strictly ascending by name with strictly ascending offset lists (entry().or_insert_with().insert() = "
        "map_upsert; iteration = reading the list: trusted fact about std's BTree containers), MinidumpUnloadedModuleList::read as all-or-nothing, modules_at_address as a filter "
        "visited in an arbitrary order; serde's HashMap visitor for a JSON object with repeated member names as insert-or-replace (hm_insert); both correspondence-checked (U, E cases)",
        "extraction ExtrOcamlBasic only; ocaml/c13/main.ml; harness/src/bin/c13.rs + harness/src/dumpspec.rs",
        "the direct oracle is testing: it shows byte-identical output on the schedules / hash seeds it ran, nothing more",
    ]
    assumptions = [
        "partial: tokio's scheduler, std RandomState, serde_json and the symbol parser are not modelled; the theorems cover the order-sensitive "
        "logic (sorting before emission, index-addressed join, one answer per module key, stats by leaf name), the rest is the repeated-run oracle",
        "adaptive walks (next lookup chosen from the answers so far) are decision trees of finite depth in C13/Adaptive.v and refine C12's fixed-list "
        "model for every schedule; that walk_stack IS such a tree (its lookups depend on nothing but the dump and the answers) is a reading of the code, "
        "exercised by the repeated-run oracle",
        "the classification of the walk future's captures / steps / cells in C13/Sites.v (SharedImmutable, ReporterOnly, OwnSlotOnly, SymbolizerC12) is a "
        "reading of the code; the scan guarantees only that the lists are complete for the scanned files and shapes",
        "c13_stats_independent needs the visible hypothesis leaf_injective (distinct module keys have distinct leaf names); without it "
        "c13_stats_refuted holds and the code shows it (known finding F-C13c)",
        "CFI rule order: the evaluator itself is C06's model; here the ORDER of application is a theorem for an arbitrary per-rule transformer "
        "(c13_cfi_rule_order_independent), the sort is pinned by the site scan, the arm64 instance is compared with the code (Q) and exercised (alias inputs)",

    ]
    manifest = {
        "text": "partial: theorems (Coq) for the order-sensitive cores — the proc_limits array and the evil-json certificate map render identically for "
                "every iteration order of their hash maps (any strict total order on the keys; instantiated at bytewise string order), registers are "
                "emitted by membership only, join_all returns outputs by index for every completion order, every thread's symbol answers (hence its "
                "frames) and, when module keys have distinct leaf names, the symbol-stats snapshot are the same under all schedules that finish (on "
                "the C12 model, all task/key counts), including the rendered modules[] stats fields (c13_modules_json_independent / _determined); refutations with witnesses for the pre-fix renderers (F-C13a, F-C13d) and for stats without the "
                "leaf-name hypothesis (F-C13c, known). Round 4: LinuxStandardBase::from is the file-order fold, every field = the last line that feeds it "
                "(key table regenerated from the match arms; c13_lsb_last_wins, c13_lsb_report_determined) and the HashMap-then-fold variant is refuted; "
                "walks that mutate their own slot of state.threads give the same thread list under every interleaving (c13_walks_in_place_*), "
                "collecting results in completion order is refuted; every HashMap/HashSet iteration and every future combinator the source scan finds "
                "is one of the enumerated, classified sites (c13_hash_sites_modelled, c13_concurrency_sites_modelled), likewise every thread_local / "
                "static mut / interior-mutable static (c13_shared_state_sites_modelled); the proc_limits pipeline from the stream bytes is order "
                "independent with no hypothesis left (c13_limits_pipeline_order_independent). Round 5: ADAPTIVE walks (the next lookup depends on the "
                "answers so far) refine C12's fixed-list model poll for poll under every schedule (c13_adaptive_refines_fixed_model), so every finished walk returns "
                "the value at the end of the path the supplier's answers select and the stats snapshot is schedule independent (c13_adaptive_walks_determined / "
                "_schedule_independent / _answers_determined / _stats_independent); the statements a walk future runs after walk_stack, as an atomic step on state "
                "shared by the futures: any commuting steps (in particular read-only ones, today's code) give one thread list for every completion order "
                "(c13_post_walk_commuting_independent, c13_post_walk_readonly_independent), a first-come-first-served budget is refuted (c13_frame_budget_refuted); "
                "STACK CFI register rules: one rule per name (the last written), applied sorted by name, hence the same caller registers for every iteration "
                "order of the rule map and every walker incl. aliases (c13_cfi_rule_order_independent, c13_cfi_last_rule_wins), a non-unique sequence key is "
                "refuted (c13_cfi_seq_order_refuted), the arm64 instance is compared with the real unwinder (Q cases); every cell writable through a shared "
                "reference, every capture and every statement of the per-thread future is an enumerated, classified site (c13_interior_mutable_sites_modelled, "
                "c13_walk_future_captures_modelled, c13_walk_future_steps_modelled: one await, no cell written in the body; c13_walk_awaits_modelled: the unwinder awaits "
                "only its own async fns and the three SymbolProvider methods); the per-thread part of into_process_state as ONE system (adaptive walks + the post-walk "
                "step run in the poll in which the walk finishes + results by index): c13_process_schedule_independent, c13_process_determined, "
                "c13_process_budget_refuted; c13_adaptive_modules_json_determined; MultiSymbolProvider::stats merge (c13_multi_provider_stats_order_independent). "
                "Second pass of round 5: the per-frame map of overlapping UNLOADED modules (BTreeMap<String, BTreeSet<u64>> built after walk_stack, printed by print_json and print) is the same "
                "for every order in which the overlapping modules are visited, in both build profiles, the offset subtraction never traps (c13_unloaded_offsets_order_independent), and it is "
                "determined by the set of (name, offset) pairs: names and offsets strictly ascending, membership characterised (c13_unloaded_offsets_determined); with hash containers in their "
                "place the printers depend on the iteration order (c13_unloaded_hash_containers_refuted); a BTreeSet of any strictly totally ordered key iterates as the ascending list of its "
                "members whatever the insertion order (c13_ordered_set_order_independent / _determined: the register names of check_for_bitflips); the evil-json certificate map from the "
                "MEMBERS of the JSON object incl. repeated names (c13_cert_pipeline_order_independent, no NoDup hypothesis) and its closed form: the greatest certificate name that lists the "
                "module (c13_cert_greatest_wins); the proc_limits entries with soft / hard / unit, any formatter (c13_limits_entries_order_independent); every iteration over a BTreeMap / "
                "BTreeSet and every field of such a type is an enumerated, classified site (c13_ordered_sites_modelled); the site scan now reads breakpad-symbols/src/http.rs and "
                "minidump-unwind/src/symbols/debuginfo.rs (feature-gated: four more cells, classified SupplierSide / FeatureGatedProvider, no hash iteration, no combinator) and "
                "minidump/src/context.rs (one hash site: the trait method CpuContext::valid_registers hands out the validity HashSet's iterator for Some(..); never called that way inside the "
                "workspace — PublicApiOnly; calculate_heuristics' own loop is a count and an any: c13_register_scan_order_independent); crash_info.possible_bit_flips lists the "
                "register-derived candidates in ascending register order whatever order the operands contributed them in (c13_bitflip_candidates_order_independent; through a hash container "
                "refuted: c13_bitflip_candidates_hash_refuted); the seven pieces of code these models stand for (certificate fold, unloaded-module block, stream fallback, modules_at_address, "
                "memory_range, the reader's size guard, the register loop of check_for_bitflips) are regenerated as text from the source and proved equal to the text the model was written "
                "against (c13_pinned_code_modelled); the thread_local print context (pointer width of every printed address) is written by the printers as their first statement and by nobody "
                "else, and read only by Display for Address (c13_print_context_set_by_printers: site enumeration, not a semantic proof; exercised by the build-then-print-later/elsewhere run shapes). "
                "Compared with the real code on generated cases: U (unloaded-module map, JSON and text), B (source registers of possible_bit_flips), A (adaptive walks on one real Symbolizer under explicit poll schedules: results, answer logs, "
                "supplier call order, stats, counters), P (the real processor on synthetic amd64 dumps whose threads ARE decision trees — CFI cell when the module's "
                "symbols load, frame-pointer cell otherwise — against the adaptive model under round-robin polling: per-thread module sequence, supplier call "
                "order, stats, counters), Q (arm64 / arm CFI caller registers), R (now name, soft, hard, unit) / E (now with repeated certificate names) / L. Everything beyond these cores is checked by a direct oracle only: the same input processed "
                ">= 13 times in-process (fresh hash seeds; first synchronously, then under three executors with rotated supplier delays / per-module "
                "suspension counts) must give byte-identical JSON and text with threads[] in thread-list order.",
        "note": "Trusted: Coq kernel; hand-written models (limits renderer correspondence-checked here, Symbolizer model by C12); the oracle is search, not proof. "
                "Known: F-C13c (stats keyed by leaf name; API-level).",
    }

    # ---------------------------------------------------------------- cases
    def sched_suffix(self, rng, runs=None):
        dl = [rng.choice([0, 0, 1, 2, 3, 5, 8]) for _ in range(rng.range(1, 6))]
        return "dl=%s runs=%d seed=%d" % (",".join(map(str, dl)), runs or rng.choice([6, 8]), rng.range(1, 1 << 30))

    def shared_modules_case(self, rng, same_leaf=False, alias=False, early_exit=False):
        """several threads whose stacks return into two or three shared modules"""
        cpu = "arm64" if alias else rng.choice(["amd64", "amd64", "x86", "arm64", "arm"])
        bits, ips, sps, fps, lrs, pre = CPUS[cpu]
        w = bits // 8
        names = ["/a/same.so", "/b/same.so", "/c/other.so"] if same_leaf else ["/lib/m0.so", "/usr/lib/m1.so", "C:\\x\\m2.dll"]
        toks = ["cpu=" + cpu, "os=" + rng.choice(["linux", "android", "win", "mac"]), "opt=%d" % rng.below(3)]
        mods = [(0x400000 + i * 0x100000, 0x10000) for i in range(3)]
        sp = pre + sps[0]
        fp = "x29" if cpu == "arm64" else pre + (fps[0] if fps else "fp")
        for i, (b, s) in enumerate(mods):
            has_sym = (rng.chance(2, 3) or early_exit) if not same_leaf else (i != 1)
            if has_sym:
                if alias:
                    rule = ".cfa: sp 16 + .ra: .cfa 8 - ^ x29: %d fp: %d x30: %d lr: %d x19: .cfa 16 - ^" % (rng.below(1000), rng.below(1000), rng.below(1000), rng.below(1000))
                elif early_exit:
                    # rules that leave the evaluator through one of its early exits AFTER an operand was pushed: a failed `^`
                    # read with a value underneath, a register that is not valid in a caller frame, `.cfa` inside the CFA rule,
                    # division by zero / bad alignment / unknown token / .undef with operands on the stack
                    scratch = {"amd64": "$rax", "x86": "$eax", "arm64": "x0", "arm": "r0"}[cpu]
                    base_rule = ".cfa: %s %d + .ra: .cfa %d - ^" % (sp, 2 * w, w)
                    rule = rng.choice([base_rule + " %s: 5 0 ^ +" % fp,
                                       base_rule + " %s: .cfa %s 8 * - ^" % (fp, scratch),
                                       base_rule + " %s: 7 .cfa %s + ^" % (fp, scratch),
                                       base_rule + " %s: 3 4 0 / +" % fp,
                                       base_rule + " %s: 9 .cfa 3 @ +" % fp,
                                       base_rule + " %s: 1 2 nonsense +" % fp,
                                       base_rule + " %s: 6 .undef" % fp,
                                       ".cfa: %s .cfa + .ra: %s ^" % (sp, sp),
                                       base_rule + " %s: 8 18446744073709551615 ^ -" % fp])
                else:
                    rule = rng.choice([".cfa: %s %d + .ra: .cfa %d - ^" % (sp, 2 * w, w),
                                       ".cfa: %s %d + .ra: .cfa %d - ^ %s: .cfa %d - ^" % (sp, 2 * w, w, fp, 2 * w),
                                       ".cfa: %s %d + .ra: .cfa %d - ^ %s: 5 %s: 6" % (sp, w, w, fp, fp)])
                text = "MODULE Linux %s 000000000000000000000000000000000 m%d\nFILE 0 a.c\nFUNC 0 %x 0 fn%d\n0 10 7 0\nPUBLIC 20 0 pub\nSTACK CFI INIT 0 %x %s\n" % (cpu, i, s, i, s, rule)
                if rng.chance(1, 6) and not early_exit:
                    text = "MODULE garbage\nFUNC zz\n"
                toks.append("S=" + hx(text.encode()))
                toks.append("M=%d:%d:%s:%d" % (b, s, hx(names[i].encode()), sum(1 for t in toks if t.startswith("S=")) - 1))
            else:
                toks.append("M=%d:%d:%s:-" % (b, s, hx(names[i].encode())))
        nthreads = rng.range(2, 6)
        for t in range(nthreads):
            base = 0x10000 + t * 0x10000
            words = []
            for k in range(rng.choice([8, 16, 32])):
                b, s = rng.choice(mods)
                words.append(b + rng.below(s) if k % 2 else base + 8 * (k + 2))
            stack = b"".join((x & ((1 << bits) - 1)).to_bytes(w, "little") for x in words)
            b, s = mods[t % 3] if same_leaf else rng.choice(mods)
            regs = []
            for n in ips:
                regs.append("%s=%d" % (n, b + 0x40 + rng.below(0x100)))
            for n in sps:
                regs.append("%s=%d" % (n, base))
            for n in fps:
                regs.append("%s=%d" % (n, base + 2 * w))
            for n in lrs:
                regs.append("%s=%d" % (n, rng.choice(mods)[0] + 0x80))
            toks.append("T=%d:%d:%s:%s" % (t + 1, base, hx(stack), ",".join(regs)))
        if rng.chance(1, 2):
            toks.append("X=%d:11:0:0:0:0:0:-" % rng.range(1, nthreads))
        return " ".join(toks)

    def twin_case(self, rng, kind):
        """kind 0: twins = same debug file + id (+ code id), different leaf names (one binary mapped under two paths);
        kind 1: same leaf name, different directories, different ids; kind 2: same everything (duplicate entries).
        Thread 1 starts in module C and returns into A; thread 2 starts in the twin B; C's lookup is delayed in some runs."""
        cpu = rng.choice(["amd64", "amd64", "x86"])
        bits = CPUS[cpu][0]
        w = bits // 8
        pre = "$"
        sp = "$rsp" if cpu == "amd64" else "$esp"
        A, B, C = 0x400000, 0x500000, 0x600000
        size = 0x10000
        na, nb = [("/opt/app/libfoo.so", "/var/cache/libfoo-copy.so"), ("/a/same.so", "/b/same.so"), ("/x/dup.so", "/x/dup.so")][kind]
        da, db = [(("libfoo.so", 7), ("libfoo.so", 7)), (("same.so", 1), ("same.so", 2)), (("dup.so", 3), ("dup.so", 3))][kind]
        def sym(name, ok=True):
            if not ok:
                return b"MODULE garbage\nFUNC zz\n"
            return ("MODULE Linux %s 000000000000000000000000000000000 %s\nFUNC 0 %x 0 fn_%s\nSTACK CFI INIT 0 %x .cfa: %s %d + .ra: .cfa %d - ^\n"
                    % (cpu, name, size, name, size, sp, w, w)).encode()
        toks = ["cpu=" + cpu, "os=" + rng.choice(["linux", "win", "mac"]), "opt=%d" % rng.below(3)]
        both = rng.chance(2, 3)
        toks.append("S=" + hx(sym("foo")))
        toks.append("S=" + hx(sym("c", ok=rng.chance(3, 4))))
        order = [("A", A, na, da, "0"), ("B", B, nb, db, "0" if both else "-"), ("C", C, "/lib/libc.so", ("libc.so", 9), "1")]
        if rng.chance(1, 2):
            order = [order[2], order[1], order[0]]
        for (_, base, name, (df, did), si) in order:
            toks.append("M=%d:%d:%s:%s:%s:%d" % (base, size, hx(name.encode()), si, hx(df.encode()), did))
        def stack(words):
            return b"".join((x & ((1 << bits) - 1)).to_bytes(w, "little") for x in words)
        ipn = "rip" if cpu == "amd64" else "eip"
        spn = "rsp" if cpu == "amd64" else "esp"
        t1 = stack([A + 0x120, 0x20000 + 4 * w, B + 0x300 if rng.chance(1, 2) else 0, 0, 0, 0, 0, 0])
        t2 = stack([0x30000 + 4 * w, C + 0x88 if rng.chance(1, 2) else 0, 0, 0, 0, 0, 0, 0])
        threads = [(1, 0x20000, t1, C + 0x40), (2, 0x30000, t2, B + 0x50)]
        if rng.chance(1, 3):
            threads.append((3, 0x40000, stack([B + 0x10, 0, A + 0x20, 0]), A + 0x60))
        if rng.chance(1, 2):
            threads.reverse()
        for (tid, base, st, ip) in threads:
            toks.append("T=%d:%d:%s:%s=%d,%s=%d" % (tid, base, hx(st), ipn, ip, spn, base))
        return " ".join(toks)

    # ---- Linux key/value text streams (lsb-release / os-release, /proc/self/status, /proc/cpuinfo, environ)
    VALUES = ["Ubuntu", "ubuntu", "22.04", "22.04.3 LTS", "jammy", "Jammy Jellyfish", "Ubuntu 22.04.3 LTS", "0x1f", "0x2b000000", "0xZZ", "0x",
              "4242", "17", "+9", "-1", "4294967296", "", " ", "x y", "\"q\"", "Debian GNU/Linux 12 (bookworm)", "12", "bookworm", "a=b", "a:b", "\t7"]

    def kv_stream(self, rng, keys, sep, ascii_only=True):
        """lines `key<sep>value` over the dictionary: most keys present, every value different, some keys repeated with
        conflicting values, optional quotes / blanks around keys and values, a few lines that are not key/value at all"""
        lines = []
        picked = [k for k in keys if rng.chance(2, 3)]
        for _ in range(rng.below(4)):
            picked.append(rng.choice(keys))
        for _ in range(rng.below(3)):
            picked.append(rng.choice(["NAME", "HOME_URL", "processor", "model name", "Name", "PPid", "Uid", "PATH", "id", "pid", ""]))
        for i in range(len(picked) - 1, 0, -1):
            j = rng.below(i + 1)
            picked[i], picked[j] = picked[j], picked[i]
        n = 0
        for k in picked:
            v = rng.choice(self.VALUES)
            if rng.chance(1, 2):
                v = "%s%d" % (v, n)       # distinct values: a conflict is visible whichever line wins
            n += 1
            if rng.chance(1, 3):
                v = '"%s"' % v
            if rng.chance(1, 6):
                k = '"%s"' % k
            pad = rng.choice(["", "", "", " ", "\t", "  "])
            pad2 = rng.choice(["", "", " ", "\t"])
            line = "%s%s%s%s%s" % (k, pad2, sep, pad, v)
            if rng.chance(1, 12):
                line = rng.choice([k, sep, "", " ", k + sep, sep + v, k + sep + sep + v, '"' + sep + '"'])
            lines.append(line)
        data = ("\n".join(lines) + rng.choice(["\n", "\n", ""])).encode()
        if not ascii_only and rng.chance(1, 5) and data:
            b = bytearray(data)
            b[rng.below(len(b))] = rng.choice([0xff, 0xc3, 0x80, 0])
            data = bytes(b)
        return data

    def linux_streams_case(self, rng, keys):
        toks = ["cpu=%s" % rng.choice(["amd64", "x86", "arm64"]), "os=%s" % rng.choice(["linux", "linux", "android"]), "opt=%d" % rng.below(3),
                "T=1:65536:z64:0"]
        toks.append("lsb=" + hx(self.kv_stream(rng, keys, "=", False)))
        if rng.chance(3, 4):
            toks.append("status=" + hx(self.kv_stream(rng, keys, ":", False)))
        if rng.chance(3, 4):
            toks.append("cpuinfo=" + hx(self.kv_stream(rng, keys, ":", False)))
        if rng.chance(1, 2):
            toks.append("environ=" + hx(self.kv_stream(rng, keys, "=", False).replace(b"\n", b"\0")))
        if rng.chance(1, 2):
            # limits with repeated names and conflicting values
            names = ["Max cpu time", "Max open files", "Max x", "Max open files", "Max cpu time"]
            lines = ["Limit  Soft Limit  Hard Limit  Units"] + ["%s  %s  %s  %s" % (rng.choice(names), rng.choice(["unlimited", "1024", "0", "7"]), rng.choice(["unlimited", "4096", "9"]), rng.choice(["bytes", "files", "seconds"])) for _ in range(rng.range(2, 8))]
            toks.append("limits=" + hx(("\n".join(lines) + "\n").encode()))
        return " ".join(toks)

    def public_alias_case(self, rng):
        """PUBLIC records that share an address (aliases, folded code, `m` multiples, exact duplicates) and frames that are
        resolved through them (no FUNC covers the addresses): the name reported must not depend on the parse's hash seeds"""
        cpu = rng.choice(["amd64", "x86", "arm64"])
        bits, ips, sps, fps, lrs, pre = CPUS[cpu]
        w = bits // 8
        base, size = 0x400000, 0x10000
        lines = ["MODULE Linux %s 000000000000000000000000000000000 pub.so" % cpu]
        if rng.chance(1, 3):
            lines.append("FUNC 8000 100 0 far_away")
        addrs = []
        for _ in range(rng.range(1, 3)):
            a = 0x100 * rng.range(1, 0x40)
            addrs.append(a)
            names = []
            while len(names) < rng.range(2, 4):
                n = rng.choice(["alias_a", "alias_b", "Zeta", "alpha", "_ZN3foo3barEv", "folded_1", "folded_2", "a", "b"])
                if n not in names:
                    names.append(n)
            for n in names:
                lines.append("PUBLIC %s%x %x %s" % (rng.choice(["", "", "m "]), a, rng.choice([0, 0, 4, 8]), n))
            if rng.chance(1, 3):
                lines.append(lines[-1])            # an exact duplicate
        lines.append("PUBLIC %x 0 after" % (max(addrs) + 0x2000))
        rng_lines = lines[1:]
        for i in range(len(rng_lines) - 1, 0, -1):
            j = rng.below(i + 1)
            rng_lines[i], rng_lines[j] = rng_lines[j], rng_lines[i]
        text = "\n".join([lines[0]] + rng_lines) + "\n"
        toks = ["cpu=" + cpu, "os=" + rng.choice(["linux", "win", "mac"]), "opt=%d" % rng.below(3), "S=" + hx(text.encode()),
                "M=%d:%d:%s:0" % (base, size, hx(b"/lib/pub.so"))]
        for t in range(rng.range(1, 3)):
            sb = 0x20000 + t * 0x10000
            words = []
            for k in range(8):
                words.append(base + rng.choice(addrs) + rng.below(0x80) if k % 2 else sb + w * (k + 2))
            stack = b"".join((x & ((1 << bits) - 1)).to_bytes(w, "little") for x in words)
            regs = ["%s=%d" % (n, base + rng.choice(addrs) + rng.below(0x80)) for n in ips]
            regs += ["%s=%d" % (n, sb) for n in sps]
            regs += ["%s=%d" % (n, sb + 2 * w) for n in fps]
            regs += ["%s=%d" % (n, base + rng.choice(addrs) + 4) for n in lrs]
            toks.append("T=%d:%d:%s:%s" % (t + 1, sb, hx(stack), ",".join(regs)))
        return " ".join(toks)

    def many_threads_case(self, rng):
        """33..80 threads over 2..6 modules; sk= makes the supplier suspend a different number of times per module
        (rotated per run), so the walks complete in an order that is not the thread-list order"""
        cpu = rng.choice(["amd64", "amd64", "x86", "arm64"])
        bits, ips, sps, fps, lrs, pre = CPUS[cpu]
        w = bits // 8
        sp = pre + sps[0]
        nm = rng.range(2, 6)
        size = 0x10000
        toks = ["cpu=" + cpu, "os=" + rng.choice(["linux", "win", "mac", "android"]), "opt=%d" % rng.below(3)]
        mods = []
        ns = 0
        for i in range(nm):
            base = 0x400000 + i * 0x100000
            name = rng.choice(["/lib/lib%d.so", "C:\\w\\mod%d.dll", "/usr/lib/x/m%d.so"]) % i
            if i < 2 or rng.chance(3, 4):
                text = ("MODULE Linux %s 000000000000000000000000000000000 m%d\nFUNC 0 %x 0 fn_of_module_%d\nSTACK CFI INIT 0 %x .cfa: %s %d + .ra: .cfa %d - ^\n"
                        % (cpu, i, size, i, size, sp, 2 * w, w))
                toks.append("S=" + hx(text.encode()))
                toks.append("M=%d:%d:%s:%d" % (base, size, hx(name.encode()), ns))
                ns += 1
            else:
                toks.append("M=%d:%d:%s:-" % (base, size, hx(name.encode())))
            mods.append(base)
        nthreads = rng.range(33, 80)
        tids = []
        while len(tids) < nthreads:
            t = rng.range(1, 5000)
            if t not in tids:
                tids.append(t)
        # thread 0 sits in one module, (almost) everybody else in another: the slow module decides who finishes last
        first_mod = rng.below(nm)
        for t in range(nthreads):
            base = 0x1000000 + t * 0x1000
            mi = first_mod if t == 0 else (rng.below(nm) if rng.chance(1, 3) else (first_mod + 1) % nm)
            words = []
            for k in range(8):
                words.append(rng.choice(mods) + 0x100 + rng.below(0x800) if k % 2 == 0 and k < 4 and rng.chance(2, 3) else base + w * (k + 2))
            stack = b"".join((x & ((1 << bits) - 1)).to_bytes(w, "little") for x in words)
            regs = ["%s=%d" % (n, mods[mi] + 0x40 + 4 * rng.below(0x40)) for n in ips]
            regs += ["%s=%d" % (n, base) for n in sps]
            regs += ["%s=%d" % (n, base + 2 * w) for n in fps]
            regs += ["%s=%d" % (n, rng.choice(mods) + 0x80) for n in lrs]
            toks.append("T=%d:%d:%s:%s" % (tids[t], base, hx(stack), ",".join(regs)))
        if rng.chance(1, 2):
            toks.append("X=%d:11:0:0:0:0:0:-" % rng.choice(tids))
        sk = [rng.choice([0, 1, 2, 3, 5, 8]) for _ in range(nm + rng.below(3))]
        if len(set(sk[:nm])) == 1:
            sk[first_mod] = sk[first_mod] + 3
        toks.append("sk=%s runs=%d seed=%d" % (",".join(map(str, sk)), rng.choice([4, 6]), rng.range(1, 1 << 30)))
        return " ".join(toks)

    def cfi_redef_case(self, rng):
        """STACK CFI records whose delta lines (and sometimes one line twice) RE-DEFINE a general register and then
        define a second name of the same register (arm64 x29/fp, x30/lr; arm r11/fp, r14/lr): whatever order the rules
        are applied in must be a function of the record, not of a hash seed.  Every rule is a distinct constant of the
        same length, so which rule won is visible in the caller's registers (text report) and in the frames after it."""
        cpu = rng.choice(["arm64", "arm64", "arm"])
        bits, ips, sps, fps, lrs, pre = CPUS[cpu]
        w = bits // 8
        pairs = [("x29", "fp"), ("x30", "lr")] if cpu == "arm64" else [("r11", "fp"), ("r14", "lr")]
        others = ["x19", "x20", "x21"] if cpu == "arm64" else ["r4", "r5", "r6"]
        size = 0x10000
        mods = [(0x400000 + i * 0x100000, size) for i in range(2)]
        toks = ["cpu=" + cpu, "os=" + rng.choice(["linux", "android", "mac", "ios"]), "opt=%d" % rng.below(3)]
        used = set()
        def val():
            while True:
                v = rng.range(100, 999)
                if v not in used:
                    used.add(v)
                    return v
        for i, (b, s_) in enumerate(mods):
            a, bname = pairs[rng.below(2)]
            if rng.chance(1, 2):
                a, bname = bname, a
            init = [a] + [o for o in others if rng.chance(1, 2)]
            if rng.chance(1, 3):
                a2, b2 = pairs[rng.below(2)]
                if a2 not in init and b2 not in init:
                    init.append(rng.choice([a2, b2]))
            for k in range(len(init) - 1, 0, -1):
                j = rng.below(k + 1)
                init[k], init[j] = init[j], init[k]
            lines = ["STACK CFI INIT 0 %x .cfa: sp %d + .ra: .cfa %d - ^ %s" % (s_, 2 * w, w, " ".join("%s: %d" % (n, val()) for n in init))]
            defined = list(init)
            nd = rng.range(1, 3)
            forced = rng.below(nd)
            for d in range(nd):
                rules = []
                if d == forced:
                    # re-definitions first (the forced one among them), then the alias as the next NEW name
                    redo = [a] + [n for n in defined if n != a and rng.chance(1, 3)]
                    for k in range(len(redo) - 1, 0, -1):
                        j = rng.below(k + 1)
                        redo[k], redo[j] = redo[j], redo[k]
                    rules = redo + [bname]
                    if rng.chance(1, 3):
                        rules.append(rng.choice(others))
                    if rng.chance(1, 4):
                        rules.append(rng.choice([a, bname]))       # and once more on the same line
                else:
                    for _ in range(rng.range(1, 3)):
                        rules.append(rng.choice(defined + others + [bname]))
                for n in rules:
                    if n not in defined:
                        defined.append(n)
                lines.append("STACK CFI %x %s" % (4 * (d + 1), " ".join("%s: %d" % (n, val()) for n in rules)))
            text = "MODULE Linux %s 000000000000000000000000000000000 r%d\nFUNC 0 %x 0 fn%d\n%s\n" % (cpu, i, s_, i, "\n".join(lines))
            toks.append("S=" + hx(text.encode()))
            toks.append("M=%d:%d:%s:%d" % (b, s_, hx(("/lib/redef%d.so" % i).encode()), i))
        nthreads = rng.range(1, 3)
        for t in range(nthreads):
            base = 0x10000 + t * 0x10000
            words = []
            for k in range(16):
                b, s_ = rng.choice(mods)
                words.append(b + 0x40 + rng.below(0x800) if k % 2 else base + w * (k + 2))
            stack = b"".join((x & ((1 << bits) - 1)).to_bytes(w, "little") for x in words)
            b, s_ = mods[t % 2]
            regs = ["%s=%d" % (n, b + 0x40 + 4 * rng.below(0x40)) for n in ips]
            regs += ["%s=%d" % (n, base) for n in sps]
            regs += ["%s=%d" % (n, base + 2 * w) for n in fps]
            regs += ["%s=%d" % (n, rng.choice(mods)[0] + 0x80) for n in lrs]
            toks.append("T=%d:%d:%s:%s" % (t + 1, base, hx(stack), ",".join(regs)))
        return " ".join(toks)

    def cfi_q_case(self, rng):
        """Q: STACK CFI rules (constants / failing expressions) over arm64 or arm register names incl. both names of the frame pointer
        and of the link register, names the walker does not know, re-definitions on the same and on later lines, (arm) values that do
        not fit 32 bits; model = C13.Cfi.arch_walk"""
        arm = rng.chance(1, 3)
        if arm:
            pool = ["r4", "r5", "r6", "r10", "r11", "fp", "r14", "lr", "r0", "r12", "r16", "foo", "r11", "fp"]
            saved = ["r4", "r5", "r6", "r7", "r8", "r9", "r10", "fp", "r0", "r12"]
        else:
            pool = ["x19", "x20", "x21", "x28", "x29", "fp", "x30", "lr", "x0", "x31", "foo", "x29", "fp"]
            saved = ["x19", "x20", "x21", "x22", "x23", "x24", "x25", "x26", "x27", "x28", "fp", "x0"]
        used = set()
        def val():
            if rng.chance(1, 8):
                return "!"
            while True:
                v = rng.range(100, 999)
                if v not in used:
                    used.add(v)
                    return str(v + (1 << 32) if arm and rng.chance(1, 8) else v)
        lines = []
        for i in range(rng.range(1, 4)):
            n = rng.below(4) if i == 0 else rng.range(1, 4)
            lines.append(",".join("%s=%s" % (rng.choice(pool), val()) for _ in range(n)) or "-")
        callee = ",".join("%s=%d" % (n, rng.range(1000, 9999)) for n in saved)
        return "Q %s %s%s" % (callee, ";".join(lines), " arm" if arm else "")

    def unloaded_overlap_case(self, rng):
        """frames that lie in no loaded module but in 2..6 overlapping UNLOADED modules with different names (the context frame
        of one thread; CFI caller frames of another, whose return addresses point there): the per-frame list of unloaded
        modules + offsets must come out in one order"""
        cpu = rng.choice(["amd64", "x86", "arm64"])
        bits, ips, sps, fps, lrs, pre = CPUS[cpu]
        w = bits // 8
        sp = pre + sps[0]
        base, size = 0x400000, 0x10000
        ubase = 0x700000
        toks = ["cpu=" + cpu, "os=" + rng.choice(["win", "win", "linux", "mac"]), "opt=%d" % rng.below(3)]
        text = ("MODULE Linux %s 000000000000000000000000000000000 live\nFUNC 0 %x 0 live_fn\nSTACK CFI INIT 0 %x .cfa: %s %d + .ra: .cfa %d - ^\n"
                % (cpu, size, size, sp, 2 * w, w))
        toks.append("S=" + hx(text.encode()))
        toks.append("M=%d:%d:%s:0" % (base, size, hx(b"/lib/live.so")))
        names = []
        while len(names) < rng.range(2, 6):
            n = rng.choice(["gone", "old", "plugin", "Zed", "a", "b", "unl", "x"]) + rng.choice(["", "1", "2", "_v2"]) + rng.choice([".dll", ".so"])
            if n not in names:
                names.append(n)
        for n in names:
            ub = ubase - 0x1000 * rng.below(4)
            toks.append("U=%d:%d:%s" % (ub, 0x20000 + 0x1000 * rng.below(8), hx(n.encode())))
            if rng.chance(1, 4):
                toks.append("U=%d:%d:%s" % (ub + 0x100, 0x20000, hx(n.encode())))     # the same name twice: two offsets
        for t in range(rng.range(1, 3)):
            sb = 0x20000 + t * 0x10000
            words = []
            for k in range(8):
                words.append(ubase + 0x100 + rng.below(0x8000) if k % 2 else sb + w * (k + 2))
            stack = b"".join((x & ((1 << bits) - 1)).to_bytes(w, "little") for x in words)
            ip = ubase + 0x40 + rng.below(0x4000) if (t == 0 or rng.chance(1, 2)) else base + 0x40 + 4 * rng.below(0x40)
            regs = ["%s=%d" % (n, ip) for n in ips]
            regs += ["%s=%d" % (n, sb) for n in sps]
            regs += ["%s=%d" % (n, sb + 2 * w) for n in fps]
            regs += ["%s=%d" % (n, base + 0x80) for n in lrs]
            toks.append("T=%d:%d:%s:%s" % (t + 1, sb, hx(stack), ",".join(regs)))
        return " ".join(toks)

    def unloaded_u_case(self, rng):
        """U: 1..7 unloaded modules (names from a small pool, so that one name occurs several times; bases close together, so that
        they overlap; sizes incl. 0 and a range that overflows u64) and 1..4 instruction addresses on and around the range ends;
        model = C13.Unloaded.frame_offsets with the overlapping modules visited in reverse"""
        pool = ["gone.dll", "old.so", "a", "b", "Zed.dll", "plugin_v2.so", "a.dll", "B"]
        mods = []
        top = rng.chance(1, 8)
        bad = rng.chance(1, 10)       # a size of 0 / a range past u64::MAX makes the reader drop the whole stream
        for _ in range(rng.range(1, 7)):
            base = 0x700000 + 0x800 * rng.below(6) if not (top and rng.chance(1, 2)) else U64 - 0xfff - 0x100 * rng.below(4)
            size = rng.choice([1, 0x10, 0x800, 0x1000, 0x1800, 0x2000, 0x4000, 0xffffffff] + ([0] if bad else []))
            if not bad and base + size > U64:
                size = U64 - base
            mods.append((base, size, rng.choice(pool)))
        if rng.chance(1, 4):
            mods.append(mods[rng.below(len(mods))])          # an exact duplicate: one offset, listed once
        addrs = []
        for _ in range(rng.range(1, 4)):
            b, sz, _n = mods[rng.below(len(mods))]
            a = rng.choice([b, b + sz - 1, b + sz, b + 1, b + rng.below(max(1, min(sz, 0x4000))), b - 1, 0x700000 + rng.below(0x5000)])
            addrs.append(max(0, min(U64, a)))
        return "U %s %s" % (",".join(map(str, addrs)), ";".join("%d:%d:%s" % (b, sz, hx(n.encode())) for b, sz, n in mods))

    BITFLIP_INS = [("488b0411", ["rcx", "rdx"]), ("488b04d1", ["rcx", "rdx"]), ("48890c13", ["rbx", "rdx"]), ("ff3411", ["rcx", "rdx"]),
                   ("488b441108", ["rcx", "rdx"]), ("4a8b0401", ["rcx", "r8"]), ("48030411", ["rcx", "rdx"]), ("488b0413", ["rbx", "rdx"]),
                   ("488b0409", ["rcx", "rcx"]), ("4b8b0401", ["r9", "r8"]), ("488b01", ["rcx"])]

    def bitflip_b_case(self, rng):
        """B: an amd64 crash on an instruction with one or two registers in its memory operand (base, index — in that order), each
        register a distinct single bit (so one flip away from null: at least one candidate per register); the source registers of
        crash_info.possible_bit_flips in array order against the model's BTreeSet of the operand registers"""
        ins, regs = rng.choice(self.BITFLIP_INS)
        bits = []
        while len(bits) < 6:
            b = 12 + rng.below(34)
            if b not in bits:
                bits.append(b)
        vals = dict(zip(["rcx", "rdx", "rbx", "r8", "r9", "rax"], [1 << b for b in bits]))
        regtxt = "rip=4194304,rsp=65536," + ",".join("%s=%d" % kv for kv in vals.items())
        addr = vals[regs[0]] + (vals[regs[1]] if len(regs) > 1 and regs[1] != regs[0] else 8)
        return ("B %s | cpu=amd64 os=%s opt=%d T=1:65536:z64:rip=4194304,rsp=65536 X=1:%d:0:%d:0:0:0:%s R=4194304:%s"
                % (",".join(regs), rng.choice(["linux", "win", "mac"]), rng.below(3), rng.choice([11, 0xC0000005]), addr, regtxt, ins))

    def adaptive_case(self, rng):
        """A: 2..5 adaptive walks (decision trees of depth <= 4 over 2..5 modules: the next module depends on whether the last
        lookup found symbols) on ONE real Symbolizer with a scripted supplier (0..3 suspensions, all five outcomes), polled in
        an explicit random schedule; model = C13.Adaptive.arun"""
        nk = rng.range(2, 5)
        scripts = [(rng.choice([0, 0, 1, 2, 3]), rng.choice([0, 0, 0, 1, 2, 3, 4])) for _ in range(nk)]
        def tree(depth):
            if depth == 0 or rng.chance(1, 5):
                return ["d%d" % rng.below(100)]
            return ["k%d" % rng.below(nk)] + tree(depth - 1) + tree(depth - 1)
        nt = rng.range(2, 5)
        trees = [tree(rng.range(1, 4)) for _ in range(nt)]
        sched = [rng.below(nt + 1) for _ in range(rng.below(24))]
        toks = ["A", str(nk)] + ["%d %d" % sc for sc in scripts] + [str(nt)]
        for t in trees:
            toks += t
        toks += [str(len(sched))] + [str(x) for x in sched]
        return " ".join(toks)

    def process_tree_case(self, rng):
        """P: the REAL processor on a synthetic amd64 dump whose threads ARE decision trees: a frame in module k is unwound by CFI if
        k's symbols load (return address and saved frame pointer taken from the cell at rsp) and by the frame pointer otherwise
        (cell at rbp); the two cells of a node point to different children.  Scripted supplier (suspensions, all five outcomes) behind
        one Symbolizer, the process future polled to completion (join_all polls every unfinished walk per poll = round-robin).
        Compared with C13.Adaptive (a_rounds): per-thread module sequence, supplier call order, stats, counters."""
        nk = rng.range(2, 5)
        scripts = [(rng.choice([0, 0, 1, 2, 3]), rng.choice([0, 0, 0, 1, 1, 4, 3, 2])) for _ in range(nk)]
        size = 0x10000
        bases = [0x400000 + k * 0x100000 for k in range(nk)]
        D = 3
        toks = ["cpu=amd64", "os=linux", "opt=0"]
        for k in range(nk):
            toks.append("M=%d:%d:%s:-" % (bases[k], size, hx(("/m/k%d.so" % k).encode())))
        nt = rng.range(1, 4)
        tree_toks = []
        for t in range(nt):
            sb = 0x10000000 + t * 0x100000
            mem = {}
            bump = [sb + 16 * (D + 3)]
            def fresh():
                a = bump[0]
                bump[0] += 16 * (D + 3)
                return a
            def build(depth, okaddr, erraddr):
                """returns (tree tokens, rip for this node); fills the node's two cells"""
                k = rng.below(nk)
                rip = bases[k] + 0x100 + 4 * rng.below(0x400)
                toks_ = ["k%d" % k]
                for (cell, child_ok_addr) in ((okaddr, okaddr + 16), (erraddr, erraddr + 16)):
                    if depth == 0 or rng.chance(1, 4):
                        mem[cell] = cell + 32           # saved frame pointer: any readable higher address
                        mem[cell + 8] = 0               # return address 0: the walk ends here
                        toks_.append("d0")
                    else:
                        child_err = fresh()
                        sub, crip = build(depth - 1, child_ok_addr, child_err)
                        mem[cell] = child_err
                        mem[cell + 8] = crip
                        toks_ += sub
                return toks_, rip
            root_err = fresh()
            ttoks, rip = build(D, sb, root_err)
            tree_toks += ttoks
            top = bump[0] + 64
            words = [mem.get(a, 0) for a in range(sb, top, 8)]
            toks.append("T=%d:%d:%s:rip=%d,rsp=%d,rbp=%d" % (t + 1, sb, hx(le64(words)), rip, sb, root_err))
        return "P %s %d %s | %s" % (";".join("%d,%d" % sc for sc in scripts), nt, " ".join(tree_toks), " ".join(toks))

    def deep_threads_case(self, rng, total_min=17000, total_max=24000):
        """2..4 threads in deep recursion (thousands of frames each, tens of thousands together; stacks generated by the
        harness from deep=), each thread in its own module, modules with CFI / without symbols (frame pointers), and a
        per-module suspension script rotated per run: any per-dump resource that the walks draw from in the order they
        FINISH (a shared frame / time / memory budget, a shared counter) shows as a difference between schedules."""
        cpu = rng.choice(["amd64", "amd64", "arm64", "x86"])
        bits, ips, sps, fps, lrs, pre = CPUS[cpu]
        w = bits // 8
        sp = pre + sps[0]
        fp = "x29" if cpu == "arm64" else pre + fps[0]
        nthreads = rng.range(2, 4)
        nm = max(2, nthreads - rng.below(2))
        size = 0x10000
        toks = ["cpu=" + cpu, "os=" + rng.choice(["linux", "win", "mac", "android"]), "opt=%d" % rng.below(3)]
        mods, ns = [], 0
        for i in range(nm):
            base = 0x400000 + i * 0x100000
            name = rng.choice(["/lib/deep%d.so", "C:\\w\\deep%d.dll"]) % i
            if rng.chance(2, 3):
                text = ("MODULE Linux %s 000000000000000000000000000000000 d%d\nFUNC 0 %x 0 recurse_%d\nSTACK CFI INIT 0 %x .cfa: %s %d + .ra: .cfa %d - ^ %s: .cfa %d - ^\n"
                        % (cpu, i, size, i, size, sp, 2 * w, w, fp, 2 * w))
                toks.append("S=" + hx(text.encode()))
                toks.append("M=%d:%d:%s:%d" % (base, size, hx(name.encode()), ns))
                ns += 1
            else:
                toks.append("M=%d:%d:%s:-" % (base, size, hx(name.encode())))
            mods.append(base)
        total = rng.range(total_min, total_max)
        # split: either roughly equal, or one runaway thread plus smaller ones
        if rng.chance(1, 2):
            parts = [total // nthreads + rng.below(500) for _ in range(nthreads)]
        else:
            parts = [2000 + rng.below(1500) for _ in range(nthreads)]
            j = rng.below(nthreads)
            parts[j] = max(3000, total - (sum(parts) - parts[j]))
        deep = []
        for t in range(nthreads):
            base = 0x10000000 + t * 0x1000000
            mi = t % nm
            ras = [mods[mi] + 0x100 + 4 * rng.below(0x400) for _ in range(rng.range(1, 3))]
            regs = ["%s=%d" % (n, mods[mi] + 0x40 + 4 * rng.below(0x40)) for n in ips]
            regs += ["%s=%d" % (n, base) for n in sps]
            regs += ["%s=%d" % (n, base) for n in fps]
            regs += ["%s=%d" % (n, ras[0]) for n in lrs]
            toks.append("T=%d:%d:z16:%s" % (t + 1, base, ",".join(regs)))
            deep.append("%d:%d:%s" % (t, parts[t], "+".join(map(str, ras))))
        toks.append("deep=" + ";".join(deep))
        sk = [rng.choice([0, 1, 2, 3, 5]) for _ in range(nm)]
        if len(set(sk)) == 1:
            sk[0] += 3
        toks.append("sk=%s runs=2 seed=%d" % (",".join(map(str, sk)), rng.range(1, 1 << 30)))
        return " ".join(toks)

    def gen_cases(self, tier, seed):
        rng = Rng(seed)
        g = Gen(rng)
        dist = {}
        cases = []
        n_r, n_gen, n_fam = (3000, 900, 200) if tier == "quick" else (30000, 12000, 2000)
        keys = scan_keys()
        n_l = n_r // 2
        for _ in range(n_l):
            cases.append("L %s %s %s" % tuple(hx(self.kv_stream(rng, keys, sep)) or "-" for sep in ("=", ":", ":")))
        dist["L_linux_kv_streams"] = n_l
        n_q = n_r // 3
        for _ in range(n_q):
            cases.append(self.cfi_q_case(rng))
        dist["Q_cfi_rule_order_arm64_arm"] = n_q
        for _ in range(n_q):
            cases.append(self.adaptive_case(rng))
        dist["A_adaptive_walks_explicit_schedule"] = n_q
        for _ in range(n_q // 2):
            cases.append(self.process_tree_case(rng))
        dist["P_processor_on_decision_tree_dumps"] = n_q // 2
        for _ in range(n_fam):
            cases.append(self.linux_streams_case(rng, keys) + " " + self.sched_suffix(rng))
            cases.append(self.many_threads_case(rng))
            cases.append(self.shared_modules_case(rng, early_exit=True) + " " + self.sched_suffix(rng))
            cases.append(self.public_alias_case(rng) + " " + self.sched_suffix(rng))
        dist["linux_kv_conflicts"] = n_fam
        dist["many_threads_gt32"] = n_fam
        dist["cfi_early_exit_after_push"] = n_fam
        dist["public_aliases_same_address"] = n_fam
        dist["key_dictionary"] = keys
        n_deep = 4 if tier == "quick" else 16
        for _ in range(n_deep):
            cases.append(self.deep_threads_case(rng) if tier == "quick" else self.deep_threads_case(rng, 17000, 40000))
        dist["deep_threads_shared_budget"] = n_deep
        for _ in range(n_fam):
            cases.append(self.cfi_redef_case(rng) + " " + self.sched_suffix(rng, 8))
        dist["cfi_redefinition_then_alias"] = n_fam
        for _ in range(n_fam // 2):
            cases.append(self.unloaded_overlap_case(rng) + " " + self.sched_suffix(rng, 6))
        dist["unloaded_modules_overlapping"] = n_fam // 2
        alpha = "abMx  \t019+-ulimted"
        for _ in range(n_r):
            if rng.chance(1, 2):
                data = bytes(b for b in gen_limits(rng) if b < 128)
            else:
                data = "".join(rng.choice(alpha + "\n\n") for _ in range(rng.below(80))).encode()
            cases.append("R " + hx(data))
        dist["R_limits_names"] = n_r
        n_e = n_r // 3
        for _ in range(n_e):
            nm = rng.range(1, 4)
            mods = ["m%d" % i for i in range(nm)]
            names = []
            while len(names) < rng.range(1, 5):
                c = rng.choice(["a", "b", "B", "ab", "a0", "Z", "cert", "Cert", "z9", "a_b", "a-b", "aa", "0"]) + rng.choice(["", "", "1", "x"])
                if c not in names:
                    names.append(c)
            if rng.chance(1, 3):
                names.insert(rng.below(len(names) + 1), rng.choice(names))     # a certificate name twice: the later member replaces the earlier
            certs = ",".join("%s:%s" % (c, "+".join(rng.choice(mods + ["other"]) for _ in range(rng.range(1, 3)))) for c in names)
            cases.append("E %s %s%s" % (certs, ",".join(mods), " obj" if rng.chance(1, 3) else ""))     # obj: the table as a JSON object, not as a string holding JSON
        dist["E_cert_subjects"] = n_e
        for _ in range(n_e):
            cases.append(self.unloaded_u_case(rng))
        dist["U_unloaded_module_offsets"] = n_e
        for _ in range(n_e // 2):
            cases.append(self.bitflip_b_case(rng))
        dist["B_bitflip_source_register_order"] = n_e // 2
        # C03's structured generator (without the deep-stack theme: 24 runs per case)
        themes = ["plain", "symbols", "symbols", "symbols", "limits", "guard", "instr", "overlap", "modules", "exc"]
        k = 0
        while k < n_gen:
            line = g.dump_case(rng.choice(themes))
            if len(line) > 30000:
                continue
            cases.append(line[2:] + " " + self.sched_suffix(rng, 6))
            k += 1
        dist["c03_generator"] = n_gen
        for _ in range(n_fam):
            cases.append(self.shared_modules_case(rng) + " " + self.sched_suffix(rng))
            cases.append(self.shared_modules_case(rng, alias=True) + " " + self.sched_suffix(rng))
            cases.append(self.shared_modules_case(rng, same_leaf=True) + " " + self.sched_suffix(rng))
            for kind in (0, 0, 1, 2):
                cases.append(self.twin_case(rng, kind) + " " + self.sched_suffix(rng))
            # amd64 crash on an instruction whose memory operand names two or three registers, each one bit away
            # from null or from a mapped region: several register-derived bit-flip candidates, in a fixed order
            for _ in range(2):
                ins = rng.choice(["488b0411", "488b04d1", "48890c13", "ff3411", "488b441108", "4a8b0401", "48030411", "488b0413"])
                vals = []
                while len(vals) < 4:
                    v = rng.choice([1 << rng.below(47), (1 << rng.below(40)) | (1 << rng.below(40)), 0x7000 ^ (1 << rng.below(47)), 0x10, 0x40000000])
                    if v not in vals:
                        vals.append(v)
                regs = "rip=4194304,rsp=65536,rcx=%d,rdx=%d,rbx=%d,r8=%d,rax=%d" % (vals[0], vals[1], vals[2], vals[3], vals[0])
                mi = " I=28672:4096:4" if rng.chance(1, 2) else ""
                cases.append("cpu=amd64 os=%s opt=%d T=1:65536:z64:rip=4194304,rsp=65536 X=1:%d:0:%d:0:0:0:%s R=4194304:%s%s %s"
                             % (rng.choice(["linux", "win", "mac"]), rng.below(3), rng.choice([11, 0xC0000005]), rng.choice([0, vals[0] + vals[1]]), regs, ins, mi, self.sched_suffix(rng)))
            # many limits lines
            lines = ["Limit  Soft Limit  Hard Limit  Units"] + ["Max %s%d  %s  %s  %s" % (rng.choice(["cpu", "files", "x"]), rng.below(40), rng.choice(["unlimited", "1024", "0"]), rng.choice(["unlimited", "4096"]), rng.choice(["bytes", "files", ""])) for _ in range(rng.range(2, 24))]
            cases.append("cpu=x86 os=linux opt=%d T=1:65536:z64:eip=4194320,esp=65536 limits=%s %s" % (rng.below(3), hx(("\n".join(lines) + "\n").encode()), self.sched_suffix(rng)))
            # evil json: one module under several certificates
            certs = ",".join('\\"cert%d\\":[\\"mod.dll\\",\\"other%d.dll\\"]' % (i, i) for i in range(rng.range(2, 6)))
            evil = '{"ModuleSignatureInfo":"{%s}","CPUMicrocodeVersion":"0x1f"}' % certs
            cases.append("cpu=x86 os=win opt=2 M=4194304:4096:%s:- M=8388608:4096:%s:- T=1:65536:z64:eip=4194320,esp=65536 evil=%s %s"
                         % (hx(b"C:\\x\\mod.dll"), hx(b"C:\\y\\other1.dll"), hx(evil.encode()), self.sched_suffix(rng)))
        dist["families"] = {"shared_modules": n_fam, "arm64_alias_cfi": n_fam, "same_leaf": n_fam, "many_limits": n_fam, "evil_certs": n_fam, "twin_modules_same_ids": 2 * n_fam, "same_leaf_other_ids": n_fam, "duplicate_modules": n_fam, "bitflip_multi_register": 2 * n_fam}
        order = list(range(len(cases)))
        for i in range(len(order) - 1, 0, -1):
            j = rng.below(i + 1)
            order[i], order[j] = order[j], order[i]
        return [cases[i] for i in order], dist, False

    def impl_cmd(self, exe, profile):
        # the per-case wall-clock watchdog of vharness (SystemTime based) is only a backstop here: the harness ends a stuck
        # schedule itself (POLL_CAP for executors A / B -> "HUNG" panic, a 1200 s tokio timeout for executor C), and on a
        # heavily loaded machine (or across a clock step) 30 s of wall time say nothing about one case; a deep-thread case is
        # 20 s of CPU in the debug build, i.e. minutes of wall time at load average 150 (the tokio timeout is 1200 s)
        return ["env", "VHARNESS_CASE_TIMEOUT=2000", exe]

    # ---------------------------------------------------------------- judging
    def canon_model(self, case, ans):
        return None if ans == "?" else ans

    def canon_impl(self, case, ans, profile):
        return "P;;" if ans.startswith("P;;") else ans

    def oracle(self, case, ans, profile):
        if ans.startswith("P;;"):
            return "panic or hang while processing: " + ans[3:240]
        if case[:2] in ("R ", "E ", "L ", "Q ", "A ", "P ", "U ", "B "):
            return None if ans[:1] == case[0] else "unparseable answer " + ans[:80]
        d = dict(t.split("=", 1) for t in ans.split() if "=" in t)
        if "n" not in d:
            return "unparseable answer " + ans[:80]
        if d.get("ord", "ok") != "ok":
            return "threads[] of the report is not in thread-list order (%s; %s distinct renderings in %s runs)" % (d["ord"], d["n"], d.get("runs"))
        if d["n"] == "1":
            return None
        paths = d.get("diff", "-").split(",")
        msg = "nondeterministic output (%s distinct renderings in %s runs); differs in: %s" % (d["n"], d.get("runs"), ",".join(paths))
        # F-C13c class: ONLY stats fields differ, and EVERY module whose stats differ has a namesake: another
        # module of the dump with a different code_file but the same leaf name (the key of Symbolizer.stats)
        names = modules_of(case)
        ms = [STATS_PATH.match(p) for p in paths]
        if ms and all(ms) and len(paths) < 32:
            idx = sorted({int(m.group(1)) for m in ms})
            def namesake(i):
                return i < len(names) and any(j != i and names[j] != names[i] and leaf(names[j]) == leaf(names[i]) for j in range(len(names)))
            if idx and all(namesake(i) for i in idx):
                msg += "; only symbol-stats fields of modules that share the leaf name %r with another module" % leaf(names[idx[0]])
        return msg

    def nontrivial(self, case, ans):
        if case[:2] in ("R ", "E ", "L ", "Q ", "A ", "P ", "U ", "B "):
            return len(ans) > 2
        return " thr=0 " not in ans and ans.startswith("n=")


PROP = C13()
