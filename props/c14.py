"""C14 — the process state is a faithful index of the dump."""
import os
import re

from runner import PropBase
from vlib import Rng, REPO

U32 = (1 << 32) - 1
U64 = (1 << 64) - 1
ERR_DIR = os.path.join(REPO, "minidump-common/src/errors")      # the checkout under test

# enumeration ids shared with coq/C14/Model.v
ENUM_IDS = {
    "ExceptionCodeWindows": 1, "WinErrorWindows": 2, "NtStatusWindows": 3, "WinErrorFacilityWindows": 4,
    "ExceptionCodeWindowsAccessType": 5, "ExceptionCodeWindowsInPageErrorType": 6,
    "ExceptionCodeLinux": 10, "ExceptionCodeLinuxSigillKind": 11, "ExceptionCodeLinuxSigtrapKind": 12,
    "ExceptionCodeLinuxSigfpeKind": 13, "ExceptionCodeLinuxSigsegvKind": 14, "ExceptionCodeLinuxSigbusKind": 15,
    "ExceptionCodeLinuxSigsysKind": 16,
    "ExceptionCodeMac": 20, "ExceptionCodeMacBadAccessKernType": 21, "ExceptionCodeMacBadAccessArmType": 22,
    "ExceptionCodeMacBadAccessPpcType": 23, "ExceptionCodeMacBadAccessX86Type": 24,
    "ExceptionCodeMacBadInstructionArmType": 25, "ExceptionCodeMacBadInstructionPpcType": 26,
    "ExceptionCodeMacBadInstructionX86Type": 27, "ExceptionCodeMacArithmeticArmType": 28,
    "ExceptionCodeMacArithmeticPpcType": 29, "ExceptionCodeMacArithmeticX86Type": 30,
    "ExceptionCodeMacSoftwareType": 31, "ExceptionCodeMacBreakpointArmType": 32,
    "ExceptionCodeMacBreakpointPpcType": 33, "ExceptionCodeMacBreakpointX86Type": 34,
    "ExceptionCodeMacResourceType": 35, "ExceptionCodeMacGuardType": 36,
}
_ENUMS = None


def load_enums():
    """{enum name: set of discriminants} parsed from minidump-common/src/errors/*.rs (all derive FromPrimitive)."""
    global _ENUMS
    if _ENUMS is not None:
        return _ENUMS
    out = {}
    for f in ("windows.rs", "linux.rs", "macos.rs"):
        s = open(os.path.join(ERR_DIR, f)).read()
        for m in re.finditer(r"pub enum (\w+)\s*\{(.*?)\n\}", s, re.S):
            body = re.sub(r"//[^\n]*", "", m.group(2))
            vals = {}
            for ent in body.split(","):
                ent = ent.strip()
                if not ent:
                    continue
                mm = re.match(r"^(?:#\[[^\]]*\]\s*)*(\w+)\s*=\s*(0x[0-9a-fA-F_]+|-?[0-9_]+)(?:u32|i32|u64)?$", ent)
                if not mm:
                    raise RuntimeError("c14: unrecognised enum entry %r in %s::%s" % (ent, f, m.group(1)))
                vals.setdefault(int(mm.group(2).replace("_", ""), 0), mm.group(1))
            out[m.group(1)] = vals
    for k in ENUM_IDS:
        if k not in out:
            raise RuntimeError("c14: enumeration %s not found in %s" % (k, ERR_DIR))
    _ENUMS = out
    return out


ARCHS = [0, 10, 9, 12, 0x8003, 5, 1, 3, 0x8002, 0x8001, 0x8004, 2, 6, 0xffff, 77]
ARCH_CTX = {0, 10, 9, 12, 0x8003, 5, 1, 3, 0x8002, 0x8001}
ARCH_TRUNC = {0, 10, 5, 3}               # ip/sp are u32 fields in the context
ARCH_W32 = {0, 10, 3, 0x8001, 5, 1}      # Cpu::pointer_width() == Bits32
ARCH_WORD8 = {9, 12, 0x8002, 0x8003, 0x8004}
# architectures where a frame recovered by stack scanning reveals which memory region was walked
ARCH_SCAN = {0, 10, 9, 5, 12, 0x8003}
PLATFORMS = [2, 3, 0x8101, 0x8102, 0x8201, 0x8203, 0x8202, 0x8204, 0x8205, 1, 4, 0x8000, 0, 0x9999]
OS_WIN, OS_MAC, OS_LINUX, OS_OTHER = "win", "mac", "linux", "other"
ANCHOR = (0x70000000, 0x10000000)
ANCHOR_WORD = 0x70000100


def os_class(p):
    if p in (2, 3):
        return OS_WIN
    if p in (0x8101, 0x8102):
        return OS_MAC
    if p in (0x8201, 0x8203):
        return OS_LINUX
    return OS_OTHER


FAMILY_NAMES = ["MacGeneral", "MacBadAccessKern", "MacBadAccessArm", "MacBadAccessPpc", "MacBadAccessX86", "MacBadInstructionArm",
                "MacBadInstructionPpc", "MacBadInstructionX86", "MacArithmeticArm", "MacArithmeticPpc", "MacArithmeticX86", "MacSoftware",
                "MacBreakpointArm", "MacBreakpointPpc", "MacBreakpointX86", "MacResource", "MacGuard", "LinuxGeneral", "LinuxSigill",
                "LinuxSigtrap", "LinuxSigbus", "LinuxSigfpe", "LinuxSigsegv", "LinuxSigsys", "WindowsGeneral", "WindowsWinError",
                "WindowsWinErrorWithFacility", "WindowsNtStatus", "WindowsAccessViolation", "WindowsInPageError", "WindowsStackBufferOverrun",
                "WindowsUnknown", "Unknown"]


# the dispatch consults these tables one after the other; the values they share TODAY (pinned; the same lists are the Coq theorem
# c14_dispatch_overlaps_documented): a new enumeration value that shadows a later table is judged by what was documented before it
LATER_TABLES = {"ExceptionCodeWindows": ("WinErrorWindows", "NtStatusWindows"), "WinErrorWindows": ("NtStatusWindows",),
                "ExceptionCodeMacBadAccessKernType": ("ExceptionCodeMacBadAccessArmType", "ExceptionCodeMacBadAccessPpcType",
                                                      "ExceptionCodeMacBadAccessX86Type")}
DOCUMENTED_SHARED = {
    ("ExceptionCodeWindows", "NtStatusWindows"): {
        2147483649, 2147483650, 2147483651, 2147483652, 3221225477, 3221225478, 3221225480, 3221225501, 3221225509, 3221225510, 3221225612,
        3221225613, 3221225614, 3221225615, 3221225616, 3221225617, 3221225618, 3221225619, 3221225620, 3221225621, 3221225622, 3221225725,
        3221225876},
    ("WinErrorWindows", "NtStatusWindows"): {0, 1, 2, 3, 63, 128, 191, 192, 255, 259, 266, 267, 275, 276, 277, 278, 288, 298, 299, 300, 301, 302,
                                              303, 304, 514, 534},
}
ASCII_WS = b" \t\n\x0c\r"       # u8::is_ascii_whitespace (no vertical tab)


def status_pid(text):
    """the documented reading of a /proc/self/status stream, independent of the model: lines, `key: value`, blanks and one
    pair of double quotes removed, the first `Pid`, a u32 in decimal (Rust's str::parse: optional `+`), 0 otherwise"""
    def unq(b):
        t = b.strip(ASCII_WS)
        return t[1:-1] if len(t) >= 2 and t[:1] == b'"' and t[-1:] == b'"' else t
    for line in text.split(b"\n"):
        i = line.find(b":")
        if i < 0:
            continue
        if unq(line[:i]) == b"Pid":
            v = unq(line[i + 1:])
            if re.fullmatch(rb"\+?[0-9]+", v) and int(v) <= U32:
                return int(v)
            return 0
    return 0


class Case:
    pass


def case_body(line):
    """`H <hex> <description>` (the dump's bytes, written by write_dump below) -> the description"""
    return line.split(" ", 2)[2] if line.startswith("H ") else line


def parse_case(line):
    t = line.split()
    c = Case()
    p = [0]
    c.hex = None
    if t[0] == "H":
        c.hex = t[1]
        t = t[2:]
    c.unprocessable = t[-1] == "NONE"        # H cases only: no thread list / system info / header -> processing must fail
    c.lacks = t[-2].replace("_", " ") if c.unprocessable else None

    def nx():
        v = t[p[0]]
        p[0] += 1
        return v

    def ni():
        return int(nx())

    def ex(s):
        v = nx()
        assert v == s, (v, s)

    a = ni()
    c.arch, c.big_endian, c.mem64 = a & 0xffff, (a >> 16) & 1, (a >> 17) & 1   # + 65536: big-endian dump; + 131072: Memory64List
    c.platform, c.time = ni(), ni()
    ex("T")
    c.threads = [dict(id=ni(), ck=ni(), ip=ni(), sp=ni(), sidx=ni(), sbase=ni()) for _ in range(ni())]
    ex("N")
    c.names = [(ni(), ni(), ni()) for _ in range(ni())]
    ex("E")
    pres = ni()
    e = dict(tid=ni(), code=ni(), flags=ni(), np=ni(), i0=ni(), i1=ni(), i2=ni(), addr=ni(), ck=ni(), ip=ni(), sp=ni())
    c.exc = e if pres else None
    ex("B")
    pres = ni()                      # 0 absent | 1 the 12-byte structure | 2 truncated to 8 bytes (unreadable) | 3 16 bytes
    b = (ni(), ni(), ni())
    c.bp = b if pres in (1, 3) else None
    c.bp_form, c.bp_raw = pres, b
    ex("M")
    pres = ni()
    m = (ni(), ni(), ni(), ni())     # m[0] = length of the stream (and size_of_info): unreadable below 24 bytes
    c.misc = m if pres and m[0] >= 24 else None
    c.misc_raw = m if pres else None
    ex("L")
    pres = ni()
    l = (ni(), ni())
    hx = nx()
    c.status = (l[0], l[1], b"" if hx == "-" else bytes.fromhex(hx)) if pres else None
    ex("MOD")
    c.mods = [(ni(), ni()) for _ in range(ni())]
    ex("UNL")
    c.unl = [(ni(), ni(), ni()) for _ in range(ni())]
    ex("MEM")
    c.mems = [(ni(), ni()) for _ in range(ni())]
    return c


def parse_threads(s):
    out = []
    if not s:
        return out
    for ent in s.split(","):
        out.append(ent.split(":"))
    return out


def split_answer(ans):
    body, _, reason = ans.partition("#")
    d = {}
    for part in body.split(";"):
        k, _, v = part.partition("=")
        d[k] = v
    d["reason"] = reason
    return d


def canon_unl_impl(s):
    pairs = set()
    if s:
        for ent in s.split("|"):
            nm, _, offs = ent.partition("=")
            for o in offs.split("+"):
                pairs.add((nm, int(o)))
    return "+".join("%s.%d" % p for p in sorted(pairs))


def canon_unl_model(s):
    if s == "!":
        return "!"
    pairs = set()
    if s:
        for ent in s.split("+"):
            nm, off = ent.split(".")
            pairs.add(("u%02d" % int(nm), int(off)))
    return "+".join("%s.%d" % p for p in sorted(pairs))


# ----------------------------------------------------------------------------- the plugin's own dump writer (H cases)
# Written from the Microsoft / Breakpad format documentation, independent of minidump-synth AND of the Coq serializer: both the
# real reader (Minidump::read) and the reader model (C02 decode_dump) get these bytes.
# CPU context: (size, offset / width / value of context_flags, offset of ip, offset of sp, register width)
CTX_LAYOUT = {
    0: (716, 0, 4, 0x00010007, 184, 196, 4), 10: (716, 0, 4, 0x00010007, 184, 196, 4),     # CONTEXT_X86: eip, esp
    9: (1232, 48, 4, 0x0010000f, 248, 152, 8),                                             # CONTEXT_AMD64: rip, rsp
    5: (368, 0, 4, 0x40000002, 64, 56, 4),                                                 # CONTEXT_ARM: iregs[15], iregs[13]
    12: (912, 0, 4, 0x00400003, 264, 256, 8),                                              # CONTEXT_ARM64: pc, sp
    0x8003: (796, 0, 8, 0x80000002, 264, 256, 8),                                          # CONTEXT_ARM64_OLD: pc, sp
    1: (600, 0, 4, 0x00040003, 312, 240, 8),                                               # CONTEXT_MIPS: epc, iregs[29]
    3: (1004, 0, 4, 0x20000003, 4, 16, 4),                                                 # CONTEXT_PPC: srr0, gpr[1]
    0x8002: (1160, 0, 8, 0x01000003, 8, 32, 8),                                            # CONTEXT_PPC64: srr0, gpr[1]
    0x8001: (584, 0, 4, 0x10000003, 272, 120, 8),                                          # CONTEXT_SPARC: pc, g_r[14]
}
H_ARCHS = [0, 10, 9, 12, 0x8003, 5, 1, 3, 0x8002, 0x8001, 0, 9, 5, 12, 0x8004, 2, 6, 0xffff, 77]          # every architecture with a context reader, and some without
ST_THREADS, ST_MODULES, ST_EXCEPTION, ST_SYSINFO, ST_UNLOADED, ST_MISC, ST_TNAMES = 3, 4, 6, 7, 14, 15, 24
ST_BREAKPAD, ST_LXSTATUS = 0x47670001, 0x47670004


def write_dump(c, rng, dist):
    """bytes of the dump the case describes; `c` is adjusted to what the dump effectively says when an optional stream is written
    unreadable (out-of-bounds location), and c.lacks is set when a required stream is left out"""
    big = bool(c.big_endian)
    bo = "big" if big else "little"
    u = lambda n, v: (v & ((1 << (8 * n)) - 1)).to_bytes(n, bo)
    u16, u32, u64 = (lambda v: u(2, v)), (lambda v: u(4, v)), (lambda v: u(8, v))

    def mdstring(text):
        b = text.encode("utf-16-be" if big else "utf-16-le")
        return u32(len(b)) + b + b"\0\0"

    def ctx_bytes(kind, ip, sp):
        if kind == 0:
            return None
        lay = CTX_LAYOUT.get(c.arch)
        if lay is None:
            b = bytearray(64)
        else:
            size, fo, fw, fv, ipo, spo, rw = lay
            b = bytearray(size)
            b[fo:fo + fw] = u(fw, fv)
            b[ipo:ipo + rw] = u(rw, ip)
            b[spo:spo + rw] = u(rw, sp)
            if kind == 2:                # the right size, flags of no architecture
                b[fo:fo + fw] = bytes(fw)
        return bytes(b[:16]) if kind == 3 else bytes(b)

    def loc(data, at):
        return u32(len(data)) + u32(at)

    # every stream: off -> (the stream proper, the out-of-line data it cites, which follows it in the file)
    def thread_list(threads):
        def f(off):
            body, aux = u32(len(threads)), b""
            at = off + 4 + 48 * len(threads)
            for t in threads:
                cb = ctx_bytes(t["ck"], t["ip"], t["sp"])
                body += u32(t["id"]) + u32(0) + u32(0) + u32(0) + u64(0) + u64(t["sbase"]) + u32(0) + u32(0)
                if cb is None:
                    body += u32(0) + u32(0)
                else:
                    body += loc(cb, at + len(aux))
                    aux += cb
            return body, aux
        return f

    def thread_names(names):
        def f(off):
            body, aux = u32(len(names)), b""
            at = off + 4 + 12 * len(names)
            for (tid, readable, nm) in names:
                if readable:
                    body += u32(tid) + u64(at + len(aux))
                    aux += mdstring("n%d" % nm)
                else:
                    body += u32(tid) + u64(0 if tid % 2 else 0xfffffff0)      # the header's signature is not a string length; past the end
            return body, aux
        return f

    def exception(e):
        def f(off):
            cb = ctx_bytes(e["ck"], e["ip"], e["sp"])
            body = u32(e["tid"]) + u32(0) + u32(e["code"]) + u32(e["flags"]) + u64(0) + u64(e["addr"]) + u32(e["np"]) + u32(0)
            body += u64(e["i0"]) + u64(e["i1"]) + u64(e["i2"]) + bytes(8 * 12)
            body += (u32(0) + u32(0)) if cb is None else loc(cb, off + 168)
            return body, (cb or b"")
        return f

    def system_info(off):
        body = u16(c.arch) + u16(6) + u16(0) + bytes([1, 1]) + u32(5) + u32(1) + u32(2600) + u32(c.platform) + u32(off + 56) + u16(0) + u16(0) + bytes(24)
        return body, mdstring("")

    def module_list(mods):
        def f(off):
            body, aux = u32(len(mods)), b""
            at = off + 4 + 108 * len(mods)
            for i, (base, size) in enumerate(mods):
                body += u64(base) + u32(size) + u32(0) + u32(0x50000000) + u32(at + len(aux)) + u32(0xfeef04bd) + u32(0x10000) + bytes(44) + bytes(16) + bytes(16)
                aux += mdstring("/lib/m%02d.so" % i)
            return body, aux
        return f

    def unloaded_list(unl):
        def f(off):
            body, aux = u32(12) + u32(24) + u32(len(unl)), b""
            at = off + 12 + 24 * len(unl)
            for (base, size, nm) in unl:
                body += u64(base) + u32(size) + u32(0) + u32(0x50000000) + u32(at + len(aux))
                aux += mdstring("u%02d" % nm)
            return body, aux
        return f

    def region_bytes(j, size):
        # the fill of harness/src/bin/c14.rs: 32-bit CPUs every byte 0x70+j; 64-bit CPUs the word 0x70000100+16j, the tail zero
        if c.arch not in ARCH_WORD8:
            return bytes([0x70 + (j & 0xf)]) * size
        return u64(ANCHOR_WORD + 16 * j) * (size // 8) + bytes(size % 8)

    def memory_list(mems):
        def f(off):
            body, aux = u32(len(mems)), b""
            at = off + 4 + 16 * len(mems)
            for j, (base, size) in enumerate(mems):
                body += u64(base) + u32(size) + u32(at + len(aux))
                aux += region_bytes(j, size)
            return body, aux
        return f

    def memory64_list(mems):
        def f(off):
            body = u64(len(mems)) + u64(off + 16 + 16 * len(mems))
            aux = b""
            for j, (base, size) in enumerate(mems):
                body += u64(base) + u64(size)
                aux += region_bytes(j, size)
            return body, aux
        return f

    def misc_info(m):
        size, flags1, pid, ct = m
        return lambda off: ((u32(size) + u32(flags1) + u32(pid) + u32(ct) + u32(0) + u32(0) + bytes(max(0, size - 24)))[:size], b"")

    def breakpad_info(form, b):
        full = u32(b[0]) + u32(b[1]) + u32(b[2])
        return lambda off: (full[:8] if form == 2 else full + u32(0xdeadbeef) if form == 3 else full, b"")

    streams = []          # (type, builder, written unreadable?)
    lacks = None
    st = rng.below(40)
    if st != 0:
        streams.append((ST_THREADS, thread_list(c.threads)))
    else:
        lacks = "thread_list"
    if st != 1:
        streams.append((ST_SYSINFO, system_info))
    else:
        lacks = lacks or "system_info"
    if c.names or rng.chance(1, 2):
        streams.append((ST_TNAMES, thread_names(c.names)))
    if c.exc:
        streams.append((ST_EXCEPTION, exception(c.exc)))
    if c.mods or rng.chance(1, 2):
        streams.append((ST_MODULES, module_list(c.mods)))
    if c.unl or rng.chance(1, 2):
        streams.append((ST_UNLOADED, unloaded_list(c.unl)))
    if c.misc_raw:
        streams.append((ST_MISC, misc_info(c.misc_raw)))
    if c.bp_form:
        streams.append((ST_BREAKPAD, breakpad_info(c.bp_form, c.bp_raw)))
    if c.status:
        streams.append((ST_LXSTATUS, lambda off, b=c.status[2]: (b, b"")))
    if c.mems:
        # the regions get_memory() serves: a Memory64List, or a MemoryList - every thread has a null stack descriptor
        streams.append((9, memory64_list(c.mems)) if c.mem64 else (5, memory_list(c.mems)))
        if c.mem64 and rng.chance(3, 4):
            streams.append((5, memory_list([(b ^ 0x100000, sz) for b, sz in c.mems[:2]])))      # a MemoryList next to it is not consulted
    # any order in the file
    for i in range(len(streams) - 1, 0, -1):
        j = rng.below(i + 1)
        streams[i], streams[j] = streams[j], streams[i]
    # leading decoys: an EARLIER directory entry of a type that comes again is ignored (the last one is served); unknown stream types
    decoys = []
    if rng.chance(1, 3):
        for _ in range(rng.range(1, 3)):
            k = rng.below(5)
            if k == 0 and any(t == ST_THREADS for t, _ in streams):
                decoys.append((ST_THREADS, thread_list([dict(id=t["id"] ^ 1, ck=1, ip=t["sp"], sp=t["ip"], sbase=0) for t in c.threads[:3]] + [dict(id=4242, ck=0, ip=0, sp=0, sbase=0)])))
            elif k == 1 and c.exc:
                decoys.append((ST_EXCEPTION, exception(dict(c.exc, tid=c.exc["tid"] ^ 3, code=c.exc["code"] ^ 1, addr=0x1234, ck=1, ip=0x4444, sp=0x8888))))
            elif k == 2 and c.bp_form:
                decoys.append((ST_BREAKPAD, breakpad_info(1, (3, c.bp_raw[2], c.bp_raw[1]))))
            elif k == 3 and any(t == ST_MODULES for t, _ in streams):
                decoys.append((ST_MODULES, module_list([(0x1000, 0x1000)])))
            else:
                decoys.append((rng.choice([0x4d7a0b0b, 25, 0x8000, 0xffff, 0x12345678]), lambda off: (b"decoy-bytes!", b"")))
        dist["h_with_leading_duplicates"] = dist.get("h_with_leading_duplicates", 0) + 1
    entries = decoys + streams
    # an optional stream whose location lies outside the file is unreadable: the processor goes on without it
    broken = None
    if rng.chance(1, 8):
        cand = [t for t, _ in streams if t in (ST_TNAMES, ST_EXCEPTION, ST_MODULES, ST_UNLOADED, ST_MISC, ST_BREAKPAD)]
        if cand:
            broken = rng.choice(cand)
            dist["h_unreadable_optional_stream"] = dist.get("h_unreadable_optional_stream", 0) + 1
    pos = 32 + 12 * len(entries)
    directory, data = b"", b""
    for i, (ty, build) in enumerate(entries):
        b, aux = build(pos)
        directory += u32(ty) + u32(len(b)) + u32(pos)
        if ty == broken and i >= len(decoys):
            broken_at = len(directory)
        data += b + aux
        pos += len(b) + len(aux)
    if broken is not None:
        # ... so make sure it does: the location must end beyond the file, whatever follows it
        k = broken_at - 12
        rva = int.from_bytes(directory[k + 8:k + 12], bo)
        size = 32 + len(directory) + len(data) - rva + 1 + rng.below(16)
        directory = directory[:k + 4] + u32(size) + directory[k + 8:]
        # what the dump now says
        if broken == ST_TNAMES:
            c.names = []
        elif broken == ST_EXCEPTION:
            c.exc = None
        elif broken == ST_MODULES:
            c.mods = []
        elif broken == ST_UNLOADED:
            c.unl = []
        elif broken == ST_MISC:
            c.misc = None
        elif broken == ST_BREAKPAD:
            c.bp, c.bp_form = None, 0
    header = u32(0x504d444d) + u32(0xa793 | (rng.below(1 << 16) << 16)) + u32(len(entries)) + u32(32) + u32(0) + u32(c.time) + u64(0)
    c.lacks = lacks
    return header + directory + data


class C14(PropBase):
    pid = "C14"
    coq_dirs = ["Base", "C08", "C14"]
    translators = ["c14_names.py", "c14_reason.py", "format_layouts.py"]      # format_layouts.py: C02's reader model (imported by C14/Bytes.v) is built on Gen/Layouts.v
    bins = ["c14"]
    rule = ("a case describes a whole dump: CPU architecture x platform id, 0..32 threads (duplicate / missing ids, context valid / "
            "absent / wrong flags / truncated, own stack or null descriptor), thread names (duplicates, unreadable), exception record "
            "(thread absent / present / equal to the dump-writer thread, code, flags, 0..15 parameters, context), Breakpad info with every "
            "validity combination (also truncated / over-long streams), misc info flag combinations and stream lengths below / above the structure, Linux status stream as raw bytes (hostile texts), little- and big-endian dumps, regions in a MemoryList or a Memory64List, modules, overlapping unloaded modules, memory regions. "
            "The harness synthesizes it with minidump-synth and runs process_minidump. H cases carry the dump as BYTES written by the plugin's own writer "
            "(9 context layouts for the 10 architectures with a context reader, either byte order, streams in any order, leading duplicate directory entries, unknown stream types, an optional stream whose "
            "location runs past the file, a missing thread list / system info): the model side is C02's reader model composed with C14's, the implementation "
            "side Minidump::read + process_minidump. Non-trivial = at least two threads and an exception record or Breakpad info; distinct = distinct case lines")
    trusted_base = [
        "Coq 8.16.1 kernel (vm_compute in the non-vacuity Examples and in the three closed membership facts windows_code gen_lk 0xC0000005/6/409)",
        "hand-written model C14/Model.v of processor.rs into_process_state / get_exception_details, minidump.rs get_crash_address / "
        "CrashReason::from_exception, the /proc/self/status reader; tied to the code (a) by translate/c14_reason.py + C14/Source.v: the crash-reason "
        "and crash-address dispatch, Os / Cpu / pointer-width tables, context-reader architectures, flag bits, one iteration of the thread closure, "
        "pid / create time and the stack-memory choice are REGENERATED from the Rust source by a recursive-descent parser + symbolic execution and "
        "proved equal to the hand model, (b) by the correspondence run",
        "translate/c14_reason.py itself (parser for the Rust subset of those functions, the reading of Option::or / == / and_then / is_some, "
        "`?`, if-let, match arms in order; it aborts on anything else) and its regex pins of the statements around the translated expressions",
        "the C08 range-table model (module, memory and unloaded-module lookups) and its theorems",
        "membership tables MEM_* of all 30 error-code enumerations (~6000 values) regenerated into Gen/C14Reason.v (regex over `Name = literal`, "
        "aborts on anything else); the model run uses them (gen_lk); the oracle reads the same files independently in props/c14.py",
        "translate/c14_names.py: value -> Debug name tables of the 40 small error-code enumerations; reason_string mirrors Display for CrashReason "
        "over them (compared for 29 of 33 variants incl. the EXC_RESOURCE / EXC_GUARD bit-field renderings; literal prefixes tied to the source by c14_display_prefix_is_source)",
        "C02's reader model (C02/Model.v decode_dump, Gen/Layouts.v) and its theorem dump_roundtrip (C02/Proofs4.v), composed with C14's model in C14/Bytes.v; "
        "the names of the ip / sp fields of the 9 context structures (Bytes.ctx_regs_named over Gen/Layouts.v; compared on every H case); the plugin's own dump writer (props/c14.py write_dump)",
        "the names the two large Windows tables (winerror.h, ntstatus.h: ~5800 names, not translated into Coq) give the values a case consults are read from the "
        "checkout's windows.rs by the plugin and handed to the model per case (NM section); reason_string_nm renders over them",
        "extraction ExtrOcamlBasic; ocaml/c14/main.ml; harness/src/bin/c14.rs (minidump-synth dump writer, test-assembler)",
    ]
    assumptions = [
        "the text of WinError / WinErrorWithFacility / NTSTATUS / in-page reasons is rendered by the model over names handed over per case (read from the source's two ~2900-entry tables by the plugin, "
        "as the oracle does independently); H cases (bytes only) do not compare the text of these four families",
        "from the bytes of a dump the model reads the memory regions get_memory() serves but not a thread's OWN stack descriptor: the byte-level stack-memory choice is stated and compared for threads with a null "
        "stack descriptor (Memory64 / full-dump layout); with own descriptors over the case description only; "
        "CPU contexts from bytes: all nine structures (ten architectures) MinidumpContext::read has an arm for; positions of ip / sp found by field name in the regenerated layouts (the byte-level theorems hold for every context reader)",
        "u8::is_ascii_whitespace and str::parse::<u32> (standard library) are modelled by hand (is_ws, parse_u32); non-UTF-8 bytes never form a digit",
        "the stack memory chosen for a walk is observed through the first scanned frame on x86, amd64, arm (not iOS), arm64 and old arm64 (64-bit CPUs: 8-byte aligned sp only; 32-bit: any alignment); on other CPUs the model's choice is not compared",
        "frames beyond frame 0 (the unwinder) belong to C03-C07; unloaded-module attribution is compared for frame 0",
        "the readers of the module / unloaded-module / memory lists (filtering of bad entries) are modelled as in rounds 1-4 (C01 / C02 territory)",
    ]
    manifest = {
        "text": "Theorems (Coq, all dump records, any number of threads, both profiles): one call stack per thread-list entry in order with the same ids and "
                "names; the requesting thread is the last non-dump-writer entry whose id is named by the exception record, else by the Breakpad "
                "info, absent otherwise; its walk - and the walk of EVERY duplicate of that id - starts from the exception context when readable, every "
                "other walk from the thread context; crash address = information[1] for Windows access violation / in-page error with >= 2 parameters else "
                "the exception address, reduced mod 2^32 on 32-bit CPUs; the crash-reason dispatch, the crash address, the platform tables, the flag bits, the "
                "thread closure, pid / create time and the stack-memory choice are equal to decision trees regenerated from the Rust source on every run "
                "(c14_reason_is_source, c14_platform_is_source, c14_process_state_is_source); on the regenerated enumeration tables Windows 0xC0000409 is the "
                "fast-fail reason (shadowed by no earlier table), access violation / in-page error refine exactly for access types 0/1/8, the six Linux signals "
                "refine by their si_code tables; the values shared by consecutively consulted tables are pinned (c14_dispatch_overlaps_documented: a new value shadowing a later table breaks it); the process id of a /proc/self/status text of any length is the decimal value of its first Pid line (0 on "
                "overflow / absence; the general first-Pid-line form with str::parse::<u32> characterised exactly); on macOS / iOS and Linux / Android every reason has a "
                "predicted Display string whenever membership agrees with the name tables (EXC_RESOURCE / EXC_GUARD renderings included); pid / create time precedence; per-frame unloaded-module offsets are exactly instruction - base of the covering unloaded "
                "modules, never trapping (from C08). The model is compared with process_minidump on synthesized dumps (little- and big-endian, MemoryList or Memory64List, truncated Breakpad / misc "
                "info streams, hostile status texts) in debug and release builds; an independent "
                "oracle recomputes thread order, requesting thread, contexts, stack memory, crash address, crash reason (variant, payload, text where documented), "
                "pid (own status parser), times, modules and offsets from the case. "
                "FROM THE BYTES (second pass): for every well-formed dump model of C02 (any subset of streams, any item counts, either byte order, leading directory entries) the dump record the "
                "processor works on, computed from the serialized bytes through C02's reader model, is the record read off the model (c14_bytes_are_the_model, from c02 dump_roundtrip); hence, end to end "
                "from the bytes and for every context reader: modules / unloaded modules / dump time / process id / create time are those of the streams (c14_bytes_streams), one call stack per "
                "thread-list entry with the thread names stream's last name (c14_bytes_threads), the requesting thread is the last entry named by the exception stream else by the Breakpad info and "
                "not the dump-writer thread, starting from the exception context (c14_bytes_requesting_thread; c14_file_requesting_thread for ANY file the reader accepts, unreadable optional streams "
                "counting as absent), per-frame unloaded offsets (c14_bytes_unloaded_offsets); which streams are required / optional / defaulted is regenerated from MinidumpInfo::new "
                "(c14_stream_policy_is_source); crash address with no range hypothesis (c14_bytes_crash_address); stack memory of threads with a null stack descriptor over the regions get_memory() serves "
                "(c14_bytes_stack_memory); LE / BE encodings give the same record up to the contexts (c14_bytes_byte_order_independent); ip / sp of the nine context structures by field name "
                "(c14_context_registers_by_name). The text of all 33 reason variants is compared (c14_windows_reason_string).",
        "note": "Trusted: Coq kernel; the translator (parser + symbolic execution of a Rust subset) and the hand model it is proved equal to; C08 model; "
                "standard-library behaviours is_ascii_whitespace / parse::<u32> modelled by hand; frames beyond frame 0 not modelled. No axioms.",
    }

    # ------------------------------------------------------------------ generation
    def gen_exception(self, rng, osc, tids, dump_tid):
        en = load_enums()

        def member(name):
            return rng.choice(sorted(en[name]))

        def near(name):
            return (member(name) + rng.choice([1, -1, 0x10000])) & U32

        e = {}
        st = rng.below(6)
        if st == 0 and dump_tid is not None:
            e["tid"] = dump_tid
        elif st <= 3 and tids:
            e["tid"] = rng.choice(tids)
        elif st == 4:
            e["tid"] = rng.below(8)
        else:
            e["tid"] = rng.below(1 << 32)
        code = flags = 0
        if osc == OS_WIN or (osc == OS_OTHER and rng.chance(1, 3)):
            k = rng.below(14)
            overlap = lambda a, b: sorted(set(en[a]) & set(en[b]))
            if k == 12:      # values two enumerations share: the order in which the dispatch consults them decides
                code = rng.choice(overlap("WinErrorWindows", "NtStatusWindows") or [0])
            elif k == 13:
                code = rng.choice(overlap("ExceptionCodeWindows", "NtStatusWindows") + overlap("ExceptionCodeWindows", "WinErrorWindows") or [0])
            elif k <= 2:
                code = 0xC0000005
            elif k <= 4:
                code = 0xC0000006
            elif k == 5:
                code = 0xC0000409
            elif k == 6:
                code = member("ExceptionCodeWindows")
            elif k == 7:
                code = member("WinErrorWindows")
            elif k == 8:
                code = member("NtStatusWindows")
            elif k == 9:
                code = rng.choice([0x806D0000, 0x106D0000, 0x006D0000, 0x806E0000, 0xC06D0000]) | rng.choice([member("WinErrorWindows") & 0xffff, rng.below(1 << 16)])
            elif k == 10:
                code = near(rng.choice(["ExceptionCodeWindows", "NtStatusWindows", "WinErrorWindows"]))
            else:
                # also values with fewer than 8 hex digits: the zero-padded `unknown 0x........` rendering
                code = rng.choice([rng.below(1 << 32), rng.below(1 << 32), 0x10000000 | rng.below(1 << 16), 0x3ff0 + rng.below(16), rng.below(1 << 24)])
            flags = rng.choice([0, 1, rng.below(1 << 32)])
        elif osc == OS_MAC or (osc == OS_OTHER and rng.chance(1, 2)):
            code = rng.choice([1, 1, 2, 2, 3, 3, 5, 6, 6, 4, 7, 8, 9, 10, 11, 11, 12, 12, 13, 0, 0x43507378, rng.below(1 << 32)])
            k = rng.choice([0, 0, 0, 1, 2, 3, 4, 5])
            bycode = {1: "BadAccess", 2: "BadInstruction", 3: "Arithmetic", 5: "Software", 6: "Breakpoint"}
            if k == 0 and code in bycode:
                flags = member(rng.choice([n for n in ENUM_IDS if n.startswith("ExceptionCodeMac" + bycode[code])]))
            elif k == 0:
                flags = member(rng.choice([n for n in ENUM_IDS if n.startswith("ExceptionCodeMac") and n != "ExceptionCodeMac"]))
            elif k == 1:
                flags = member("ExceptionCodeMacBadAccessKernType")
            elif k == 2:
                flags = (rng.below(8) << 29) | rng.below(1 << 29)
            elif k == 3:
                flags = rng.below(64)
            elif k == 4:
                flags = rng.choice([0x101, 0x102, 0x103, 0x10003, 1, 2, 3, 4, 5, 13, 0xd])
            else:
                flags = rng.below(1 << 32)
        else:
            code = rng.choice([4, 5, 7, 8, 11, 31, 4, 5, 7, 8, 11, 31, 6, 9, 1, 30, 32, 0, 64, 0xffffffff, rng.below(1 << 32)])
            k = rng.below(5)
            if k == 0:
                flags = member(rng.choice(["ExceptionCodeLinuxSigillKind", "ExceptionCodeLinuxSigtrapKind", "ExceptionCodeLinuxSigfpeKind",
                                           "ExceptionCodeLinuxSigsegvKind", "ExceptionCodeLinuxSigbusKind", "ExceptionCodeLinuxSigsysKind"]))
            elif k == 1:
                flags = rng.below(12)
            elif k == 2:
                flags = rng.choice([0, 0x80, 0xfffffffa, 0xffffffff, 0xfffffffe])
            else:
                flags = rng.below(1 << 32) if rng.chance(1, 3) else rng.below(10)
        e["code"], e["flags"] = code & U32, flags & U32
        e["np"] = rng.choice([0, 1, 2, 3, 4, 15, rng.below(16)])
        e["i0"] = rng.choice([0, 1, 8, 2, 3, 0x100000000, 0x100000001, rng.below(1 << 64), rng.below(100), 0x1000 + rng.below(1 << 12)])
        e["i1"] = rng.choice([0, 0xdeadbeef, 0xffffffff80001234, 0x100000010, U64, rng.below(1 << 64), rng.below(1 << 32)])
        # information[2] of an in-page error: a named NTSTATUS, or a value rendered in hex - also with fewer than 8 digits (zero padding)
        e["i2"] = rng.choice([member("NtStatusWindows"), member("NtStatusWindows") | (rng.below(1 << 32) << 32), rng.below(1 << 64), 0,
                              near("NtStatusWindows"), 0x7ff0 + rng.below(16), (rng.below(1 << 32) << 32) | rng.below(1 << 20)])
        if code in (11, 12) and osc != OS_WIN and osc != OS_LINUX and rng.chance(3, 4):
            # EXC_RESOURCE / EXC_GUARD: information[1] carries a flavor (bits 58..60 resp. 32..60) and bit fields, [2] the subcode
            if code == 11:
                fl = rng.choice([1, 1, 2, 0, 3, 7])
                e["i1"] = (fl << 58) | rng.choice([rng.below(1 << 58), rng.below(1 << 32), 0, (1 << 58) - 1])
            else:
                fl = rng.choice(sorted(en[rng.choice(["ExceptionCodeMacGuardMachPortFlavor", "ExceptionCodeMacGuardFDFlavor", "ExceptionCodeMacGuardVNFlavor",
                                                       "ExceptionCodeMacGuardVirtMemoryFlavor", "ExceptionCodeMacGuardRejecteSysCallFlavor"])]) + [3, 0x1fffffff])
                e["i1"] = (rng.below(8) << 61) | (fl << 32) | rng.choice([rng.below(1 << 32), 0, 0xfffffff, 0x10000000, U32])
            e["i2"] = rng.choice([0, 1, 7, 0xfff, 0x1000, rng.below(1 << 64), U64, rng.below(1 << 16)])
            e["flags"] = (rng.below(8) << 29) | rng.below(1 << 29)          # the resource / guard type lives in bits 29..31
        e["addr"] = rng.choice([0, 0x401000, 0xffffffffc0001000, 0x1_0000_0040, U64, rng.below(1 << 64), rng.below(1 << 32)])
        return e

    def gen_status(self, rng):
        """(kind, pid, bytes of the /proc/self/status stream): well-formed texts, texts without / with an unparseable Pid, and hostile
        ones (several Pid lines, quotes, blanks of every ASCII kind, signs, overflow, non-UTF-8 bytes, no final line feed, empty)."""
        kind = rng.choice([0, 0, 0, 1, 2, 3, 3, 3])
        pid = rng.choice([0, 4242, U32, rng.below(1 << 32)])
        if kind == 0:
            text = "Name:\tx\nUmask:\t0022\nState:\tR (running)\nTgid:\t7\nPid:\t%d\nPPid:\t1\n" % pid
        elif kind == 1:
            text = "Name:\tx\nTgid:\t7\nPPid:\t1\n"
        elif kind == 2:
            text = "Name:\tx\nPid:\tx%d\nPPid:\t1\n" % pid
        else:
            big = rng.choice([U32, U32 + 1, 1 << 40, 10 ** 30])
            pool = ["Pid:\t%d" % pid, " Pid : %d " % pid, "\"Pid\":\"%d\"" % pid, "Pid:+%d" % pid, "Pid:-1", "Pid:%d" % big, "Pid:%d\r" % pid,
                    "PPid:\t9", "Pid", "Pid:", ":5", "pid:\t3", "Pid:\t0x10", "Pid: 00042", "Pid:\t12 3", "Pid:\t\xff", "Pid\x0b:5", "\x0bPid:6",
                    "\"Pid:7", "Pid:\"", "Pid:\"\"", "Pid:\"9", "Pid:\"\"8\"\"", "\x0c Pid\x0c:\x0c%d\x0c" % pid, "Pid::5", "Pid:5:6", "Name:\tPid:3",
                    "", "Tgid:\t7", "\"\"Pid\"\":4", "Pid:+", "Pid:++1", "Pid:\t1_0", "Pid:\u0661", "P\u0131d:9", "Pid:%s" % ("0" * 30 + "17")]
            lines = [rng.choice(pool) for _ in range(rng.choice([0, 1, 2, 3, 5]))]
            text = "\n".join(lines) + ("\n" if lines and rng.chance(1, 2) else "")
        raw = text.encode("utf-8", "surrogateescape") if "\xff" not in text else text.encode("latin-1", "replace")
        return (kind, pid, raw)

    def make_case(self, rng, dist, short_streams=False, archs=None):
        arch = rng.choice(archs) if archs else rng.choice(ARCHS[:10]) if rng.chance(4, 5) else rng.choice(ARCHS)
        platform = rng.choice(PLATFORMS[:6]) if rng.chance(4, 5) else rng.choice(PLATFORMS)
        osc = os_class(platform)
        trunc = arch in ARCH_TRUNC
        bits32 = arch not in ARCH_WORD8

        # memory regions
        mems = []
        for j in range(rng.choice([0, 1, 2, 3, 4, 6])):
            base = 0x10000000 + j * 0x10000
            if mems and rng.chance(1, 8):
                base = mems[-1][0] + rng.choice([0, 8, 16])
            mems.append((base, rng.choice([64, 64, 128, 32, 16, 8, 12, 4, 256])))

        # modules: the anchor plus others; unloaded modules overlapping each other
        mods = []
        for i in range(rng.choice([0, 1, 2, 3, 5])):
            base = 0x40000000 + i * 0x100000 if bits32 or rng.chance(1, 2) else 0x7ff000000000 + i * 0x100000
            if mods and rng.chance(1, 6):
                base = mods[-1][0] + rng.choice([0, 0x800])
            mods.append((base & U64, rng.choice([0x1000, 0x10000, 0x80000, 0, 1])))
        mods.insert(rng.below(len(mods) + 1), ANCHOR)
        unl = []
        for i in range(rng.choice([0, 0, 1, 2, 3, 5, 8])):
            st = rng.below(5)
            if st == 0 and mods:
                base = rng.choice(mods)[0] + rng.choice([0, 0x100])
            elif st == 1 and unl:
                base = unl[-1][0] + rng.choice([0, 0x10, 0x800, 0x1000])
            elif st == 2 and not bits32:
                base = rng.choice([0xfffffffffffff000, 0xffffffff00000000 + i * 0x1000])
            else:
                base = 0x50000000 + rng.below(4) * 0x1000
            unl.append((base & U64, rng.choice([0x1000, 0x2000, 0x800, 0, 1, 0xffffffff]) if rng.chance(1, 6) else rng.choice([0x1000, 0x2000, 0x800]), rng.below(3)))

        def pick_ip():
            st = rng.below(8)
            if st <= 2 and unl:
                u = rng.choice(unl)
                v = u[0] + rng.choice([0, 1, 0x7ff, 0x800, 0xfff, 0x1000, rng.below(0x2000)])
            elif st == 3 and mods:
                m = rng.choice(mods)
                v = m[0] + rng.choice([0, 1, max(0, m[1] - 1), m[1], 0x100])
            elif st == 4:
                v = rng.choice([0, 1, 0x1000, U32, U64])
            else:
                v = rng.below(1 << 32) if bits32 or rng.chance(1, 2) else rng.below(1 << 64)
            v &= U64
            return v & U32 if trunc else v

        def pick_sp():
            st = rng.below(6)
            if st <= 3 and mems:
                b, s = rng.choice(mems)
                v = b + rng.choice([0, 0, 8, 16, max(0, s - 8), max(0, s - 4), s, max(0, s - 16), 24, max(0, s - 6), max(0, s - 1), max(0, s - 7)])
            elif st == 4:
                v = rng.choice([0, 8, U32 - 7, U64 - 7, U64])
            else:
                v = rng.below(1 << 32)
            v &= U64
            return v & U32 if trunc else v

        # the memory regions live in a Memory64List (full-dump layout); the threads then have null stack descriptors
        mem64 = 1 if short_streams and rng.chance(1, 8) else 0
        n = rng.choice([0, 1, 2, 3, 4, 5, 8, 16, 32]) if rng.chance(1, 3) else rng.range(1, 6)
        idpool = [rng.below(1 << 32) if rng.chance(1, 4) else rng.range(1, 9) for _ in range(max(1, (n + 1) // 2 + rng.below(3)))]
        if rng.chance(1, 10):
            idpool.append(0)
        threads = []
        for _ in range(n):
            sidx = rng.below(len(mems)) if mems and rng.chance(3, 4) else -1
            if mem64:
                sidx = -1
            if sidx >= 0:
                sbase = mems[sidx][0]
            elif mems and rng.chance(2, 3):
                b, s = rng.choice(mems)
                sbase = b + rng.choice([0, 8, s - 1, s])
            else:
                sbase = rng.choice([0, 0x12345678])
            threads.append(dict(id=rng.choice(idpool), ck=rng.choice([1, 1, 1, 1, 1, 0, 2, 3]), ip=pick_ip(), sp=pick_sp(), sidx=sidx, sbase=sbase))
        tids = [t["id"] for t in threads]
        names = []
        for _ in range(rng.choice([0, 0, 1, 2, 4, n, n + 2])):
            names.append((rng.choice(idpool + [77]), 0 if rng.chance(1, 6) else 1, rng.below(1000)))

        bp = None
        dump_tid = None
        if rng.chance(1, 2):
            validity = rng.choice([0, 1, 2, 3, 3, 3, 7, 0xfffffffc])
            bp = (validity, rng.choice(idpool + [99]), rng.choice(idpool + [98]))
            if validity & 1:
                dump_tid = bp[1]
        exc = None
        if rng.chance(7, 10):
            exc = self.gen_exception(rng, osc, tids, dump_tid)
            exc["ck"] = rng.choice([1, 1, 1, 1, 0, 2, 3])
            exc["ip"], exc["sp"] = pick_ip(), pick_sp()
        misc = None
        if rng.chance(1, 2):
            misc = (rng.choice([24, 44]), rng.choice([0, 1, 2, 3, 3, 0xfffffffc, 0xfffffffd, 0xfffffffe, 4]), rng.choice([0, 1234, U32, rng.below(1 << 32)]),
                    rng.choice([0, 1262805309, U32, rng.below(1 << 32)]))
        status = None
        if rng.chance(1, 2):
            status = self.gen_status(rng)

        bp_form = 1
        if short_streams:          # Breakpad info / misc info streams shorter (unreadable) or longer than their structure
            if bp and rng.chance(1, 6):
                bp_form = rng.choice([2, 2, 3])
            if misc and rng.chance(1, 5):
                misc = (rng.choice([20, 23, 0, 4, 25, 45, 232, 1364]),) + misc[1:]
        c = Case()
        c.big_endian = 1 if short_streams and rng.chance(1, 8) else 0
        c.mem64 = mem64
        c.bp_form = bp_form
        c.arch, c.platform, c.time = arch, platform, rng.choice([0, 1262805309, U32, rng.below(1 << 32)])
        c.threads, c.names, c.exc, c.bp, c.misc, c.status, c.mods, c.unl, c.mems = threads, names, exc, bp, misc, status, mods, unl, mems
        dist["os_" + osc] = dist.get("os_" + osc, 0) + 1
        dist["arch_%d" % arch] = dist.get("arch_%d" % arch, 0) + 1
        dist["with_exception"] = dist.get("with_exception", 0) + (exc is not None)
        dist["with_breakpad"] = dist.get("with_breakpad", 0) + (bp is not None)
        dist["exc_thread_is_dump_thread"] = dist.get("exc_thread_is_dump_thread", 0) + (exc is not None and dump_tid == exc["tid"])
        dist["big_endian"] = dist.get("big_endian", 0) + c.big_endian
        dist["memory64_list"] = dist.get("memory64_list", 0) + mem64
        dist["duplicate_ids"] = dist.get("duplicate_ids", 0) + (len(set(tids)) < len(tids))
        c.bits32, c.trunc = bits32, trunc
        return c


    def format_case(self, c):
        threads, names, exc, bp, misc, status, mods, unl, mems = c.threads, c.names, c.exc, c.bp, c.misc, c.status, c.mods, c.unl, c.mems
        arch, platform, n = c.arch, c.platform, len(c.threads)
        z = dict(tid=0, code=0, flags=0, np=0, i0=0, i1=0, i2=0, addr=0, ck=0, ip=0, sp=0)
        e = exc or z
        lk = []          # membership is no longer handed to the model: it uses the tables regenerated from the source (gen_lk)
        parts = ["%d %d %d" % (arch + 65536 * getattr(c, "big_endian", 0) + 131072 * getattr(c, "mem64", 0), platform, c.time), "T %d" % n]
        parts += ["%d %d %d %d %d %d" % (t["id"], t["ck"], t["ip"], t["sp"], t["sidx"], t["sbase"]) for t in threads]
        parts.append("N %d" % len(names))
        parts += ["%d %d %d" % nm for nm in names]
        parts.append("E %d %d %d %d %d %d %d %d %d %d %d %d" % (1 if exc else 0, e["tid"], e["code"], e["flags"], e["np"], e["i0"], e["i1"], e["i2"],
                                                               e["addr"], e["ck"], e["ip"], e["sp"]))
        parts.append("B %d %d %d %d" % ((getattr(c, "bp_form", 1),) + bp if bp else (0, 0, 0, 0)))
        parts.append("M %d %d %d %d %d" % ((1,) + misc if misc else (0, 0, 0, 0, 0)))
        parts.append("L 1 %d %d %s" % (status[0], status[1], status[2].hex() or "-") if status else "L 0 0 0 -")
        parts.append("MOD %d" % len(mods))
        parts += ["%d %d" % m for m in mods]
        parts.append("UNL %d" % len(unl))
        parts += ["%d %d %d" % u for u in unl]
        parts.append("MEM %d" % len(mems))
        parts += ["%d %d" % m for m in mems]
        parts.append("LK %d" % len(lk))
        parts += ["%d %d" % p for p in lk]
        # the Debug names, in the two large Windows tables (not translated into Coq), of the values the rendering of this reason consults
        nm = []
        if exc and os_class(platform) == OS_WIN:
            en = load_enums()
            for enid, table, v in ((2, "WinErrorWindows", e["code"]), (2, "WinErrorWindows", e["code"] & 0xffff), (3, "NtStatusWindows", e["code"]),
                                   (3, "NtStatusWindows", e["i2"] & U32)):
                if v in en[table] and (enid, v) not in [(a, b) for a, b, _ in nm]:
                    nm.append((enid, v, en[table][v].encode().hex()))
        parts.append("NM %d" % len(nm))
        parts += ["%d %d %s" % x for x in nm]
        return " ".join(parts)

    def gen_case(self, rng, dist):
        return self.format_case(self.make_case(rng, dist, short_streams=True))

    def gen_hex_case(self, rng, dist):
        """`H <hex> <description>`: the dump as BYTES from the plugin's own writer (threads have null stack descriptors; the memory regions,
        if any, live in a MemoryList or a Memory64List); the model side is C02's reader model composed with C14's, the implementation
        side Minidump::read + process_minidump"""
        c = self.make_case(rng, dist, short_streams=True, archs=H_ARCHS)
        if rng.chance(1, 2):
            c.mems, c.mem64 = [], 0
        elif c.mems and rng.chance(1, 2):
            c.mem64 = 1                      # a Memory64List (get_memory() prefers it to a MemoryList) - all descriptors are null here anyway
        c.threads = c.threads[:rng.choice([8, 8, 8, 33])]
        for t in c.threads:
            t["sidx"] = -1
        c.misc_raw = c.misc
        c.bp_raw = c.bp
        c.bp_form = c.bp_form if c.bp else 0
        if c.misc and c.misc[0] < 24:
            c.misc = None
        if c.bp_form == 2:
            c.bp = None
        b = write_dump(c, rng, dist)
        if c.bp is None:
            c.bp_form = 0
        dist["h_cases"] = dist.get("h_cases", 0) + 1
        dist["h_bytes"] = dist.get("h_bytes", 0) + len(b)
        line = "H %s %s" % (b.hex(), self.format_case(c))
        if c.lacks:
            dist["h_unprocessable"] = dist.get("h_unprocessable", 0) + 1
            line += " %s NONE" % c.lacks
        return line

    def gen_cases(self, tier, seed):
        rng = Rng(seed)
        dist = {}
        n = 6000 if tier == "quick" else 150000
        nh = 500 if tier == "quick" else 6000
        cases = [self.gen_case(rng, dist) for _ in range(n)]
        hrng = Rng(seed * 7919 + 17)          # its own stream: the cases above stay what they were
        return cases + [self.gen_hex_case(hrng, dist) for _ in range(nh)], dist, False

    # ------------------------------------------------------------------ canonical forms
    @staticmethod
    def scan_observable(case, arch):
        # 32-bit ARM on iOS unwinds by frame pointer only (fp = 0 ends the walk): no scanned frame to observe;
        # a scanned return address is only accepted inside a loaded module: the anchor module must be in the module list the
        # processor sees (H cases may write the module list stream unreadable or leave it out)
        if not (arch in ARCH_SCAN and not (arch == 5 and case.split(" ", 2)[1] == "33026")):
            return False
        t = case.split()
        k = t.index("MOD")
        n = int(t[k + 1])
        return any((int(t[k + 2 + 2 * i]), int(t[k + 3 + 2 * i])) == ANCHOR for i in range(n))

    @staticmethod
    def f1_region(arch, nmems, f1):
        """which memory region the first recovered caller frame was read from ('-1' none, 'x..' unrecognised)"""
        if f1 == "-":
            return "-1"
        if arch in ARCH_WORD8:
            j, r = divmod(int(f1) + 8 - ANCHOR_WORD, 16)      # the frame's instruction is the word minus 1..8
            return str(j) if r < 8 and 0 <= j < nmems else "x" + f1
        v = int(f1) + 8                                       # 0x7j7j7j7j minus 1..8
        j = (v >> 24) - 0x70
        return str(j) if 0 <= j < nmems and 0 <= 0x01010101 * (0x70 + j) - int(f1) <= 8 else "x" + f1

    def canon_impl(self, case, ans, profile):
        if ans.startswith("P;;"):
            return "P;;"
        if ans == "NONE":
            return ans
        hexcase = case.startswith("H ")
        case = case_body(case)
        arch = int(case.split(" ", 1)[0]) & 0xffff
        c = parse_case(case)
        d = split_answer(ans)
        th = []
        for f in parse_threads(d["T"]):
            tid, name, info, ip, sp, nframes, f1, unl = f
            if self.scan_observable(case, arch) and ip != "-" and (arch not in ARCH_WORD8 or int(sp) % 8 == 0):
                reg = self.f1_region(arch, len(c.mems), f1)
            else:
                reg = "?"
            th.append(":".join([tid, name, info, ip, sp, reg, canon_unl_impl(unl)]))
        r = ("#" + d["reason"]) if self.reason_predicted(d["X"], hexcase) else ""
        return "T=%s;R=%s;X=%s;P=%s;C=%s;TM=%s;M=%s;U=%s%s" % (",".join(th), d["R"], d["X"], d["P"], d["C"], d["TM"], d["M"], d["U"], r)

    # families whose Display the model predicts: all 33 when the case line hands over the names the two large Windows tables give the
    # values it consults (NM section); without them (H cases: the model reads nothing but the bytes) all but WinError /
    # WinErrorWithFacility / NtStatus / InPageError
    @staticmethod
    def reason_predicted(x, without_names=False):
        return x != "-" and not (without_names and int(x.split(":")[1]) in (25, 26, 27, 29))

    def canon_model(self, case, ans):
        if ans == "NONE":
            return ans
        hexcase = case.startswith("H ")
        case = case_body(case)
        arch = int(case.split(" ", 1)[0]) & 0xffff
        wsize = 8 if arch in ARCH_WORD8 else 4
        d = split_answer(ans)
        th = []
        for f in parse_threads(d["T"]):
            tid, name, info, ip, sp, stack, room, unl = f
            if self.scan_observable(case, arch) and ip != "-" and (arch not in ARCH_WORD8 or int(sp) % 8 == 0):
                reg = stack if int(stack) >= 0 and int(room) >= wsize else "-1"
            else:
                reg = "?"
            th.append(":".join([tid, name, info, ip, sp, reg, canon_unl_model(unl)]))
        u = ",".join("%s:%s:u%02d" % tuple(x.split(":")[:2] + [int(x.split(":")[2])]) for x in d["U"].split(",")) if d["U"] else ""
        r = ("#" + d["reason"]) if self.reason_predicted(d["X"], hexcase) else ""
        return "T=%s;R=%s;X=%s;P=%s;C=%s;TM=%s;M=%s;U=%s%s" % (",".join(th), d["R"], d["X"], d["P"], d["C"], d["TM"], d["M"], u, r)

    # ------------------------------------------------------------------ oracle (independent of the model)
    def oracle(self, case, ans, profile):
        if ans.startswith("P;;"):
            return "processing panicked: " + ans[3:200]
        c = parse_case(case)
        case = case_body(case)
        if c.unprocessable or ans == "NONE":
            if c.unprocessable and ans == "NONE":
                return None
            return "a dump without %s was processed" % c.lacks if c.unprocessable else "processing failed on a dump with a thread list and a system info stream"
        d = split_answer(ans)
        th = parse_threads(d["T"])
        readable = lambda ck: ck == 1 and c.arch in ARCH_CTX
        # one call stack per thread-list entry, same order, same ids
        if len(th) != len(c.threads):
            return "%d call stacks for %d thread-list entries" % (len(th), len(c.threads))
        dump_tid = c.bp[1] if c.bp and c.bp[0] & 1 else None
        req_tid = c.bp[2] if c.bp and c.bp[0] & 2 else None
        target = c.exc["tid"] if c.exc else req_tid
        for i, (t, f) in enumerate(zip(c.threads, th)):
            if int(f[0]) != t["id"]:
                return "call stack %d has thread id %s, the thread list entry has %d" % (i, f[0], t["id"])
            skipped = dump_tid is not None and t["id"] == dump_tid
            if skipped != (f[2] == "1"):
                return "call stack %d: dump-writer thread %s skipped" % (i, "not" if skipped else "wrongly")
            want = None
            for (nid, rd, nm) in c.names:
                if nid == t["id"] and rd:
                    want = "n%d" % nm
            if (want or "-") != f[1]:
                return "call stack %d (thread id %d) is named %s, the thread names stream says %s" % (i, t["id"], f[1], want)
        # requesting thread
        eligible = [i for i, t in enumerate(c.threads) if target is not None and t["id"] == target and t["id"] != dump_tid]
        R = None if d["R"] == "-" else int(d["R"])
        if R is None and eligible:
            return "no requesting thread although thread index %d (id %d) is named by the %s" % (eligible[0], target, "exception record" if c.exc else "Breakpad info")
        if R is not None and R not in eligible:
            if R >= len(c.threads):
                return "requesting thread index %d out of range" % R
            return "requesting thread index %d (id %d) is not the non-dump-writer thread named by the exception record / Breakpad info (id %s, dump thread %s)" % (
                R, c.threads[R]["id"], target, dump_tid)
        # context each walk starts from
        for i, (t, f) in enumerate(zip(c.threads, th)):
            if f[2] == "1":
                continue
            own = (t["ip"], t["sp"]) if readable(t["ck"]) else None
            if i == R and c.exc and readable(c.exc["ck"]):
                want = (c.exc["ip"], c.exc["sp"])
            elif i in eligible and c.exc and readable(c.exc["ck"]):
                want = None   # duplicate id of the requesting thread: not judged by the oracle
                continue
            else:
                want = own
            got = None if f[3] == "-" else (int(f[3]), int(f[4]))
            if got != want:
                return "thread index %d starts from context (ip,sp)=%s, expected %s%s" % (i, got, want, " (the exception's context)" if i == R else "")
            if (got is None) != (f[2] == "2"):
                return "thread index %d: info %s inconsistent with context presence" % (i, f[2])
        # stack memory of each walk: when the starting context's stack pointer lies in exactly one memory region of the
        # dump (and that region intersects no other, so every lookup finds it), the walk must read THAT region — each
        # region holds its own distinguishable return address, so the first caller frame tells which one was used
        wsize = 8 if c.arch in ARCH_WORD8 else 4
        if self.scan_observable(case, c.arch):
            for i, f in enumerate(th):
                if f[3] == "-" or (c.arch in ARCH_WORD8 and int(f[4]) % 8 != 0):
                    continue
                sp = int(f[4])
                holders = [j for j, (b, sz) in enumerate(c.mems) if b <= sp < b + sz]
                if len(holders) != 1:
                    continue
                j = holders[0]
                b, sz = c.mems[j]
                if any(k != j and b2 < b + sz and b < b2 + sz2 for k, (b2, sz2) in enumerate(c.mems)):
                    continue
                if b + sz - sp < 8:          # fewer than 8 bytes at sp: which region is consulted first is not judged
                    continue
                got = self.f1_region(c.arch, len(c.mems), f[6])
                if got != str(j):
                    t = c.threads[i]
                    return ("thread index %d starts at sp %#x, which lies only in memory region %d [%#x,+%d), but its caller frame was read from %s "
                            "(the thread's own stack descriptor is %s)" % (
                                i, sp, j, b, sz, "no memory" if got == "-1" else "region " + got,
                                "region %d" % t["sidx"] if t["sidx"] >= 0 else "null"))
        # crash address
        if c.exc:
            if d["X"] == "-":
                return "exception record present but no exception info"
            e = c.exc
            a = e["i1"] if os_class(c.platform) == OS_WIN and e["code"] in (0xC0000005, 0xC0000006) and e["np"] >= 2 else e["addr"]
            if c.arch in ARCH_W32:
                a &= U32
            got = int(d["X"].split(":")[0])
            if got != a:
                return "crash address %#x, the documented function of the exception record gives %#x" % (got, a)
            # crash reason: the documented function of (OS, CPU, exception record)
            fam, payload, text = self.documented_reason(c)
            gx = d["X"].split(":")
            got_r = (int(gx[1]), [int(v) for v in gx[2].split("+")] if gx[2] else [])
            if got_r != (fam, payload):
                return "crash reason %s%s, the documented function of the exception record (OS %s, code %#x, flags %#x, %d parameters, information[0] %#x) gives %s%s" % (
                    FAMILY_NAMES[got_r[0]] if 0 <= got_r[0] < 33 else got_r[0], tuple(got_r[1]), os_class(c.platform), e["code"], e["flags"], e["np"], e["i0"],
                    FAMILY_NAMES[fam], tuple(payload))
            if text is not None and d["reason"] != text:
                return "crash reason %s%s is rendered as %r, documented text %r" % (FAMILY_NAMES[fam], tuple(payload), d["reason"], text)
        elif d["X"] != "-":
            return "exception info without an exception record"
        # pid / create time / dump time
        if c.misc:
            pid = c.misc[2] if c.misc[1] & 1 else None
            ct = c.misc[3] if c.misc[1] & 2 else None
        else:
            pid = status_pid(c.status[2]) if c.status else None
            ct = None
        if d["P"] != ("-" if pid is None else str(pid)):
            return "process id %s, the streams say %s" % (d["P"], pid)
        if d["C"] != ("-" if ct is None else str(ct)):
            return "process create time %s, the misc info says %s" % (d["C"], ct)
        if int(d["TM"]) != c.time:
            return "dump time %s, header says %d" % (d["TM"], c.time)
        # modules / unloaded modules mirror the streams
        good = lambda b, sz: sz != 0 and b + sz <= U64
        mods = [m for m in c.mods if good(*m)]                      # the reader skips bad image sizes
        unl = c.unl if all(good(b, sz) for (b, sz, _) in c.unl) else []   # ... and gives up on the unloaded list
        if d["M"] != ",".join("%d:%d" % m for m in mods):
            return "module list differs from the module stream"
        if d["U"] != ",".join("%d:%d:u%02d" % u for u in unl):
            return "unloaded module list differs from the stream"
        # per-frame unloaded-module offsets (frame 0)
        for i, f in enumerate(th):
            if f[3] == "-":
                continue
            ip = int(f[3])
            got = set()
            if f[7]:
                for ent in f[7].split("|"):
                    nm, _, offs = ent.partition("=")
                    for o in offs.split("+"):
                        got.add((nm, int(o)))
            cover = set()
            for (b, s, nm) in unl:
                if s != 0 and b + s <= U64 and b <= ip <= b + s - 1:
                    cover.add(("u%02d" % nm, ip - b))
            for g in got:
                if g not in cover:
                    return "frame 0 of thread index %d lists offset %#x in unloaded module %s, which does not cover %#x at that offset" % (i, g[1], g[0], ip)
            if got and got != cover:
                return "frame 0 of thread index %d misses unloaded modules covering %#x: %s" % (i, ip, sorted(cover - got))
            in_loaded = any(s != 0 and b + s <= U64 and b <= ip <= b + s - 1 for (b, s) in mods)
            if not got and cover and not in_loaded:
                return "frame 0 of thread index %d at %#x has no loaded module and lists no unloaded module although %s cover it" % (i, ip, sorted(cover))
        return None

    def documented_reason(self, c):
        """(variant index, numeric payload, text or None) of CrashReason::from_exception as DOCUMENTED: the refinements of the three Windows
        codes with parameters (winnt.h / MSDN: access violation and in-page error carry the access type 0 read / 1 write / 8 execute in
        information[0], the in-page error its NTSTATUS in information[2]; 0xC0000409 is __fastfail with the FAST_FAIL code in information[0]),
        the signal / Mach exception numbers and the order exception code -> winerror.h -> ntstatus.h -> facility are pinned HERE; only the
        membership of a value in an enumeration is read from the checkout's minidump-common/src/errors."""
        en = load_enums()
        e = c.exc
        code, flags, np, i0, i1, i2 = e["code"], e["flags"], e["np"], e["i0"], e["i1"], e["i2"]

        def isin(name, v):
            """membership as DOCUMENTED: a value the checkout's table `name` shares with a table the dispatch consults later, but which
            is not among the documented shared values (DOCUMENTED_SHARED), is a value the later table owns"""
            if v not in en[name]:
                return False
            for later in LATER_TABLES.get(name, ()):
                if v in en[later] and v not in DOCUMENTED_SHARED.get((name, later), ()):
                    return False
            if name in ("ExceptionCodeWindows", "WinErrorWindows", "NtStatusWindows") and v & 0xf0000000 and \
                    ((v & 0x0fff0000) >> 16) in en["WinErrorFacilityWindows"] and (v & 0xffff) in en["WinErrorWindows"]:
                return False          # no documented value of these tables is a facility / winerror.h composite
            return True
        hx = lambda v: "0x%08x" % v
        osc = os_class(c.platform)
        if osc == OS_WIN:
            if code == 0xC0000005:
                if np >= 1 and i0 in (0, 1, 8):
                    return 28, [i0], "EXCEPTION_ACCESS_VIOLATION_" + {0: "READ", 1: "WRITE", 8: "EXEC"}[i0]
                return 24, [code], "EXCEPTION_ACCESS_VIOLATION"
            if code == 0xC0000006:
                if np >= 3 and i0 in (0, 1, 8):
                    nt = i2 & U32
                    return 29, [i0, nt], "EXCEPTION_IN_PAGE_ERROR_%s / %s" % ({0: "READ", 1: "WRITE", 8: "EXEC"}[i0], en["NtStatusWindows"].get(nt, hx(nt)))
                return 24, [code], "EXCEPTION_IN_PAGE_ERROR"
            if code == 0xC0000409:
                if np >= 1:
                    ff = i0 & U32
                    return 30, [ff], "EXCEPTION_STACK_BUFFER_OVERRUN / " + en["FastFailCode"].get(ff, hx(ff))
                return 27, [code], "STATUS_STACK_BUFFER_OVERRUN"
            if isin("ExceptionCodeWindows", code):
                nm = en["ExceptionCodeWindows"][code]
                return 24, [code], {"OUT_OF_MEMORY": "Out of Memory", "UNHANDLED_CPP_EXCEPTION": "Unhandled C++ Exception",
                                    "SIMULATED": "Simulated Exception"}.get(nm, nm)
            if isin("WinErrorWindows", code):
                return 25, [code], en["WinErrorWindows"][code]
            if isin("NtStatusWindows", code):
                return 27, [code], en["NtStatusWindows"][code]
            fac, err = (code & 0x0fff0000) >> 16, code & 0xffff
            if code & 0xf0000000 and isin("WinErrorFacilityWindows", fac) and isin("WinErrorWindows", err):
                return 26, [fac, err], "%s / %s" % (en["WinErrorFacilityWindows"][fac], en["WinErrorWindows"][err])
            return 31, [code], "unknown " + hx(code)
        if osc == OS_LINUX:
            if not isin("ExceptionCodeLinux", code):
                return 32, [code, flags], "unknown %s / %s" % (hx(code), hx(flags))
            sig = {4: (18, "Sigill"), 5: (19, "Sigtrap"), 7: (20, "Sigbus"), 8: (21, "Sigfpe"), 11: (22, "Sigsegv"), 31: (23, "Sigsys")}.get(code)
            if sig and isin("ExceptionCodeLinux%sKind" % sig[1], flags):
                return sig[0], [flags], "SIG%s / %s" % (sig[1][3:].upper(), en["ExceptionCodeLinux%sKind" % sig[1]][flags])
            # write_signal: the signal, then the si_code (signed) by name, SI_USER suppressed, else the flags in hex
            name = en["ExceptionCodeLinux"][code]
            si = flags - (1 << 32) if flags >= 1 << 31 else flags
            if si in en["ExceptionCodeLinuxSicode"]:
                return 17, [code, flags], name if en["ExceptionCodeLinuxSicode"][si] == "SI_USER" else "%s / %s" % (name, en["ExceptionCodeLinuxSicode"][si])
            return 17, [code, flags], "%s / %s" % (name, hx(flags))
        if osc == OS_MAC:
            if not isin("ExceptionCodeMac", code):
                return 32, [code, flags], "unknown %s / %s" % (hx(code), hx(flags))
            cpu = {12: "Arm", 0x8003: "Arm", 3: "Ppc", 0: "X86", 10: "X86", 9: "X86"}.get(c.arch)
            kinds = {1: ("BadAccess", 2, "EXC_BAD_ACCESS"), 2: ("BadInstruction", 5, "EXC_BAD_INSTRUCTION"), 3: ("Arithmetic", 8, "EXC_ARITHMETIC"),
                     6: ("Breakpoint", 12, "EXC_BREAKPOINT")}
            if code == 1 and isin("ExceptionCodeMacBadAccessKernType", flags):
                return 1, [flags], "EXC_BAD_ACCESS / " + en["ExceptionCodeMacBadAccessKernType"][flags]
            if code in kinds and cpu:
                k, base, nm = kinds[code]
                name = "ExceptionCodeMac%s%sType" % (k, cpu)
                if isin(name, flags):
                    return base + ("Arm", "Ppc", "X86").index(cpu), [flags], "%s / %s" % (nm, en[name][flags])
            if code == 5 and isin("ExceptionCodeMacSoftwareType", flags):
                return 11, [flags], "EXC_SOFTWARE / " + en["ExceptionCodeMacSoftwareType"][flags]
            ty = (flags >> 29) & 7
            if code == 11 and isin("ExceptionCodeMacResourceType", ty):
                return 15, [ty, i1, i2], None
            if code == 12 and isin("ExceptionCodeMacGuardType", ty):
                return 16, [ty, i1, i2], None
            name = en["ExceptionCodeMac"][code]
            return 0, [code, flags], "Simulated Exception" if name == "SIMULATED" else "%s / %s" % (name, hx(flags))
        return 32, [code, flags], "unknown %s / %s" % (hx(code), hx(flags))

    def nontrivial(self, case, ans):
        c = parse_case(case)
        return len(c.threads) >= 2 and (c.exc is not None or c.bp is not None)

    # reason strings are a function of (variant, payload), the same in both profiles
    def extra(self, ctx):
        seen = {}
        out = []
        for prof, answers in ctx["impl"].items():
            for case, a in zip(ctx["cases"], answers):
                if not a or a.startswith("P;;") or a == "NONE":
                    continue
                d = split_answer(a)
                if d["X"] == "-":
                    continue
                key = d["X"].split(":", 1)[1]
                prev = seen.setdefault(key, (d["reason"], case))
                if prev[0] != d["reason"]:
                    out.append({"case": case, "profile": prof, "found_input": True,
                                "what": "crash reason %s rendered as %r here and as %r for another dump" % (key, d["reason"], prev[0])})
                    if len(out) > 3:
                        return out
        ctx["info"]["distinct_reasons"] = len(seen)
        return out


PROP = C14()
