(* C09/Properties.v — parsing a symbol file is total and bounded.
   Statements only; proofs are in C09/Proofs.v (driver) and C09/ProofsBytes.v (bytes <-> lines).
   [drive] is the loop of SymbolFile::parse over ANY line recogniser [recog] (C09/Model.v); the
   input is a list of complete lines ([llen l] bytes each, '\n' included) plus [tail] bytes
   without '\n'; the reader follows ANY schedule [sch] of read sizes. *)
From Coq Require Import ZArith List Bool.
From RM Require Import Base.Word C08.Model C11.Model C09.Model C09.Grammar C09.Driver C09.Proofs C09.ProofsBytes C09.ProofsFinish C09.ProofsFinal C09.ProofsTrace C09.Circular C09.ProofsCircular C09.ProofsLines C09.ProofsTable.
From RM Require C09.Pins C09.PinsMem C08.Proofs C09.PinsNum Gen.C09Numeric C09.ProofsText C09.ProofsRecord C09.ProofsRecord2 C09.ProofsRecord3 C09.ProofsRecord4 C09.ProofsRecord5 C09.ProofsRecord6 C09.ProofsRecord7 C09.PinsLines Gen.C09Lines.
Import ListNotations.
Open Scope Z_scope.

(* Every run ends with Ok or Err — no panic site is reached and the loop body runs at most
   6*|input|+24 times ([drive] gives OutOfFuel beyond that). *)
Theorem c09_total :
  forall (L : Type) (llen : L -> Z) (PS : Type) (init_ps : PS)
         (recog : PS -> L -> PS + Z) (bump : PS -> PS) (lineno : PS -> Z),
    (forall l, 1 <= llen l) ->
    forall (lines : list L) (tail : Z) (sch : list Z),
    exists r s, drive L llen PS init_ps recog bump lineno lines tail sch = Ret (r, s).
Proof. exact total_thm. Qed.
Print Assumptions c09_total.

(* The same for byte strings and the byte-level model of the line parsers: every byte string
   is a list of lines plus a rest ([split_bytes], inverse of [join_bytes]). *)
Theorem c09_total_bytes :
  forall (bytes : list Z) (sch : list Z),
    join_bytes (fst (split_bytes bytes [])) (snd (split_bytes bytes [])) = bytes /\
    exists r s, drive_c (map to_rle (fst (split_bytes bytes [])))
                        (Z.of_nat (length (snd (split_bytes bytes [])))) sch = Ret (r, s).
Proof. exact total_bytes. Qed.
Print Assumptions c09_total_bytes.

(* In every reachable state the capacity is one of 10/20/40/80/160 KiB, the unparsed window
   fits in it, and the reader was never offered more than 160 KiB. *)
Theorem c09_bounded_window :
  forall (L : Type) (llen : L -> Z) (PS : Type) (init_ps : PS)
         (recog : PS -> L -> PS + Z) (bump : PS -> PS) (lineno : PS -> Z),
    (forall l, 1 <= llen l) ->
    forall (lines : list L) (tail : Z) (sch : list Z) (p : positive) (s : st L PS),
    iter_pos L llen PS recog bump lineno p (init_st L llen PS init_ps lines tail sch) = Next s ->
    In (b_cap (buf s)) [10240; 20480; 40960; 81920; 163840] /\
    0 <= avail (buf s) <= b_cap (buf s) /\ b_cap (buf s) <= MAX_CAP /\ 0 <= maxsp s <= MAX_CAP.
Proof. exact bounded_window_thm. Qed.
Print Assumptions c09_bounded_window.

(* ... and also in the state the run ends in. *)
Theorem c09_bounded_window_final :
  forall (L : Type) (llen : L -> Z) (PS : Type) (init_ps : PS)
         (recog : PS -> L -> PS + Z) (bump : PS -> PS) (lineno : PS -> Z),
    (forall l, 1 <= llen l) ->
    forall (lines : list L) (tail : Z) (sch : list Z) r s,
    drive L llen PS init_ps recog bump lineno lines tail sch = Ret (r, s) ->
    In (b_cap (buf s)) [10240; 20480; 40960; 81920; 163840] /\ 0 <= maxsp s <= MAX_CAP.
Proof. exact bounded_window_final_thm. Qed.
Print Assumptions c09_bounded_window_final.

(* Over-long lines.  Whatever the input and the schedule, the run disposes of the lines in
   order, each either shown to the recogniser or dropped (line counter bumped, open FUNC /
   STACK CFI INIT item kept): [ds] is that list of decisions, [replay] folds it.
   - a line that is shown to the recogniser has at most 163840 bytes with its '\n', so a line of
     >= 163840 content bytes is never parsed: it can only be dropped ([dec_ok]);
   - only lines of more than 81920 bytes are ever dropped;
   - Ok: all lines were disposed of and the parser state is the replay of the decisions;
   - Err: the recogniser rejected a line that fits the buffer (not an over-long one), or it is one
     of the two end-of-input errors. *)
Theorem c09_long_line_dropped :
  forall (L : Type) (llen : L -> Z) (PS : Type) (init_ps : PS)
         (recog : PS -> L -> PS + Z) (bump : PS -> PS) (lineno : PS -> Z),
    (forall l, 1 <= llen l) ->
    forall (lines : list L) (tail : Z) (sch : list Z) r s,
    drive L llen PS init_ps recog bump lineno lines tail sch = Ret (r, s) ->
    exists ds : list (bool * L),
      Forall (fun d : bool * L => if fst d then HALF_CAP < llen (snd d) else llen (snd d) <= MAX_CAP) ds /\
      lines = map snd ds ++ rest s /\
      replay L PS recog bump lineno init_ps ds = inl (ps s) /\
      match r with
      | ROk p => p = ps s /\ rest s = []
      | RErr c ln =>
          (exists taken l r' p1,
              rest s = taken ++ l :: r' /\ fold_recog L PS recog lineno (ps s) taken = inl p1 /\
              recog p1 l = inr c /\ ln = lineno p1 /\ llen l <= MAX_CAP)
          \/ (c = 3 /\ ln = 0) \/ (c = 4 /\ ln = lineno (ps s))
      end.
Proof. exact drive_shape. Qed.
Print Assumptions c09_long_line_dropped.

Definition ex_module : rle := map (fun b => (b, 1)) [77;79;68;85;76;69;32;97;32;98;32;99;32;100].   (* MODULE a b c d *)
Definition ex_file : rle := map (fun b => (b, 1)) [70;73;76;69;32;49;32;120].                       (* FILE 1 x *)
(* The symbol table.  [recog_pst] (C09/Grammar.v) returns the parsed records and [finish] builds the
   canonical table (finish_item + SymbolParser::finish: C08's range-map builder, the sorts, the
   zero-size filters, insert_win_stack_info).  If no complete line is longer than 80 KiB, an Ok
   result under any schedule is the fold of the recogniser over all lines, and its table is
   [finish] of that fold. *)
Theorem c09_table_spec :
  forall (lines : list rle) (tail : Z) (sch : list Z) p s,
    Forall (fun l => cllen l <= HALF_CAP) lines ->
    drive_c lines tail sch = Ret (ROk p, s) ->
    fold_recog rle pst recog_pst lineno_pst init_pst lines = inl p /\
    table_of (ROk p) =
    match fold_recog rle pst recog_pst lineno_pst init_pst lines with
    | inl q => obind (finish q) (fun t => Ret (Some t))
    | inr _ => Ret None
    end.
Proof. exact table_spec. Qed.
Print Assumptions c09_table_spec.

(* non-vacuity: a file with overlapping FUNCs, zero-size lines and inlinees, a CFI group: the table *)
Example c09_nonvacuous_table :
  let o := run_case [ex_module;
                     map (fun b => (b, 1)) [70;85;78;67;32;49;48;32;56;32;48;32;102];      (* FUNC 10 8 0 f *)
                     map (fun b => (b, 1)) [49;48;32;52;32;55;32;49];                        (* 10 4 7 1 *)
                     map (fun b => (b, 1)) [49;52;32;48;32;56;32;49];                        (* 14 0 8 1 *)
                     map (fun b => (b, 1)) [70;85;78;67;32;49;52;32;56;32;48;32;103];      (* FUNC 14 8 0 g *)
                     ex_file] 0 [3; 5] in
  (o_kind o, o_files o, o_funcs o,
   match o_table o with Some t => map (fun e => (fst e, zlen (sf_lines (snd e)))) (t_funcs t) | None => [] end)
  = (0, 1, 1, [((16, 23), 1)]).
Proof. vm_compute. reflexivity. Qed.

(* non-vacuity: a 200000-byte line between valid records is dropped, the parse succeeds and
   the records after it are seen (1 FILE id); the buffer ends at 160 KiB *)
Example c09_nonvacuous_drop :
  let o := run_case [ex_module; [(97, 200000)]; ex_file] 0 [] in
  (o_kind o, o_dropped o, o_files o, o_cap o, o_cb o) = (0, 1, 1, 163840, 200025).
Proof. vm_compute. reflexivity. Qed.

(* non-vacuity: the recogniser does reject lines (so the Err branch is inhabited) *)
Example c09_nonvacuous_err :
  let o := run_case [ex_module; map (fun b => (b, 1)) [70;79;79]] 0 [5] in
  (o_kind o, o_code o, o_line o) = (1, 1, 1).
Proof. vm_compute. reflexivity. Qed.

(* Known finding F-C09a (recorded, not fixed): when the over-long line is the header of a group, dropping it
   orphans its sub-lines.  Here every line but the over-long FUNC header is a valid record, the header is
   dropped (o_dropped = 1) exactly as c09_long_line_dropped says, and the parse still fails at the line
   record that follows it ("failed to parse file", line 3): "dropped" is not "as if the group were absent".
   The theorems above state what the driver does (replay of the decisions); they do not claim Ok here. *)
Example c09_known_overlong_header_witness :
  let o := run_case [ex_module;
                     map (fun b => (b, 1)) [73;78;70;79;32;120];                               (* INFO x *)
                     map (fun b => (b, 1)) [70;85;78;67;32;49;48;32;52;32;48;32] ++ [(78, 163840)];   (* FUNC 10 4 0 NNN... *)
                     map (fun b => (b, 1)) [49;48;32;52;32;49;32;49];                          (* 10 4 1 1 *)
                     ex_file] 0 [] in
  (o_kind o, o_code o, o_line o, o_dropped o) = (1, 1, 3, 1).
Proof. vm_compute. reflexivity. Qed.
Print Assumptions c09_known_overlong_header_witness.
(* ... and when a FUNC is open in front of it, the orphaned line record is attributed to that FUNC *)
Example c09_known_overlong_header_misattributed :
  let o := run_case [ex_module;
                     map (fun b => (b, 1)) [70;85;78;67;32;49;48;32;52;32;48;32;102];           (* FUNC 10 4 0 f *)
                     map (fun b => (b, 1)) [70;85;78;67;32;50;48;32;52;32;48;32] ++ [(78, 163840)];   (* FUNC 20 4 0 NNN... *)
                     map (fun b => (b, 1)) [50;48;32;52;32;49;32;49];                          (* 20 4 1 1 *)
                     ex_file] 0 [] in
  (o_kind o, o_dropped o,
   match o_table o with Some t => map (fun e => (fst e, map fst (sf_lines (snd e)))) (t_funcs t) | None => [] end)
  = (0, 1, [((16, 19), [(32, 35)])]).
Proof. vm_compute. reflexivity. Qed.
Print Assumptions c09_known_overlong_header_misattributed.

(* ================================================================== round 4 *)

(* The WHOLE parse never panics: the loop ends with Ok or Err (c09_total) and, on Ok, SymbolParser::finish —
   finish_item for every FUNC / STACK CFI INIT item (line tables through C08's range-map builder), the sorts,
   insert_win_stack_info with its `last_info.memory_range().unwrap()`, the four `try_from_iter(..).unwrap()` —
   returns a table: no Panic site of [finish] is reachable from a parser state the line recognisers can build
   (hex_str <= 8 / 16 digits, decimal_u32 <= u32::MAX keep every numeric field in range: [pst_wf]). *)
Theorem c09_parse_never_panics :
  forall (lines : list rle) (tail : Z) (sch : list Z),
    exists r s t, drive_c lines tail sch = Ret (r, s) /\ table_of r = Ret t.
Proof. exact parse_total. Qed.
Print Assumptions c09_parse_never_panics.

Theorem c09_parse_never_panics_bytes :
  forall (bytes : list Z) (sch : list Z),
    exists r s t, drive_c (map to_rle (fst (split_bytes bytes [])))
                          (Z.of_nat (length (snd (split_bytes bytes [])))) sch = Ret (r, s) /\ table_of r = Ret t.
Proof. exact parse_total_bytes. Qed.
Print Assumptions c09_parse_never_panics_bytes.

(* [finish] is total on every well-formed parser state, and the recognisers only build well-formed states *)
Theorem c09_finish_total :
  (forall p, pst_wf p -> exists t, finish p = Ret t) /\
  pst_wf init_pst /\
  (forall p s p', pst_wf p -> recog_pst p s = inl p' -> pst_wf p' /\ p_lines p' = p_lines p + 1).
Proof.
  split; [exact finish_total|]. split; [exact init_pst_wf|].
  intros p s p' W H. split; [exact (recog_pst_wf p s p' W H)|exact (recog_pst_lines p s p' H)].
Qed.
Print Assumptions c09_finish_total.

(* The u64 counters.  `total_consumed += amount as u64` and `parser.lines += 1` are unbounded additions in the
   model; at every loop head and at the end total_consumed <= |input| and parser.lines <= number of lines <= |input|,
   and both only grow: for an input of fewer than 2^64 bytes no addition overflows in either build profile. *)
Theorem c09_counters_fit_u64 :
  forall (lines : list rle) (tail : Z) (sch : list Z),
    input_len rle cllen lines tail < two64 ->
    (forall p s,
        iter_pos rle cllen pst recog_pst bump_pst lineno_pst p (init_st rle cllen pst init_pst lines tail sch) = Next s ->
        0 <= total s < two64 /\ 0 <= p_lines (ps s) < two64) /\
    (forall r s, drive_c lines tail sch = Ret (r, s) ->
        0 <= total s < two64 /\ 0 <= p_lines (ps s) < two64 /\ cbsum s = total s).
Proof.
  intros lines tail sch Hlt. pose proof (lines_le_bytes lines tail) as Hl. split.
  - intros p s H. destruct (counters_reach lines tail sch p s H) as [[? ?] [? ?]]. repeat split; Lia.lia.
  - intros r s H. destruct (counters_final lines tail sch r s H) as [[? ?] [[? ?] ?]]. repeat split; Lia.lia.
Qed.
Print Assumptions c09_counters_fit_u64.

(* The traced run (what the correspondence compares event by event: every read() as (space offered, bytes
   returned), every callback as slice length) goes through exactly the states of the run the theorems are about. *)
Theorem c09_trace_is_run :
  forall p s a, fst (iter_tr p s a) = iter_pos rle cllen pst recog_pst bump_pst lineno_pst p s.
Proof. exact iter_tr_run. Qed.
Print Assumptions c09_trace_is_run.

(* The model against the source.  coq/Gen/SymFileLoop.v is regenerated from sym_file/mod.rs and from the circular
   crate that Cargo.lock pins on every run (translate/symfile_loop.py: constants, every condition and flag
   assignment of both loops, min / shift conditions of circular::Buffer; it aborts if the statement skeleton
   changes).  One iteration of the model's loop IS the iteration assembled from those pieces — for parse and for
   parse_async. *)
Theorem c09_source_pins :
  (INITIAL_CAP = Pins.G.INITIAL_BUFFER_CAPACITY /\ MAX_CAP = Pins.G.MAX_BUFFER_CAPACITY /\
   HALF_CAP = Pins.G.MAX_BUFFER_CAPACITY / 2) /\
  (forall b n, consume b n = Pins.consume_src b n /\ fill b n = Pins.fill_src b n /\
               grow b n = Pins.grow_src b n /\ shift b = Pins.shift_src b) /\
  (forall (L : Type) (llen : L -> Z) (PS : Type) (recog : PS -> L -> PS + Z) (bump : PS -> PS) (lineno : PS -> Z) s,
      step L llen PS recog bump lineno s = Pins.step_src L llen PS recog bump lineno s /\
      step_async L llen PS recog bump lineno s = Pins.step_async_src L llen PS recog bump lineno s).
Proof. split; [exact Pins.pin_constants|]. split; [exact Pins.pin_circular|exact Pins.pin_step]. Qed.
Print Assumptions c09_source_pins.

(* non-vacuity: STACK WIN records that overlap (the branch with the unwrap) and a FUNC whose line table needs the
   range-map builder: finish returns a table; 2 frame-data entries after the length fix-up *)
Example c09_nonvacuous_finish :
  let o := run_case [ex_module;
                     map (fun b => (b, 1)) [83;84;65;67;75;32;87;73;78;32;52;32;49;48;32;49;48;32;48;32;48;32;48;32;48;32;48;32;48;32;49;32;120];  (* STACK WIN 4 10 10 0 0 0 0 0 0 1 x *)
                     map (fun b => (b, 1)) [83;84;65;67;75;32;87;73;78;32;52;32;49;52;32;99;32;48;32;48;32;48;32;48;32;48;32;48;32;49;32;121]]     (* STACK WIN 4 14 c 0 0 0 0 0 0 1 y *)
                    0 [] in
  (o_kind o, match o_table o with Some t => map fst (t_win_fd t) | None => [] end) = (0, [(16, 19); (20, 31)]).
Proof. vm_compute. reflexivity. Qed.

(* non-vacuity of the trace: a 200000-byte line: 4 grows to 160 KiB, discard iterations, one recovery *)
Example c09_nonvacuous_trace :
  let t := run_trace [ex_module; [(97, 200000)]; ex_file] 0 [] in
  (tr_grows t, tr_recovered t, 0 <? tr_discards t, 0 <? tr_shifts t, 0 <? tr_full_reads t) = (4, 1, true, true, true).
Proof. vm_compute. reflexivity. Qed.

(* ------------------------------------------------------------------ round 5: the buffer WITH its bytes.
   C09/Circular.v: circular::Buffer 0.3.0 as memory + capacity/position/end (with_capacity zero-fills, data() / space()
   are slices of memory, shift is a memmove to the front, grow is resize(n, 0), the reader overwrites the start of space()).
   For ANY sequence of operations the code can perform (a read() puts at most space() bytes, consume takes at most
   available_data()): the indices are those of the index model of C09/Model.v, memory.len() == capacity and
   position <= end <= capacity persist, and data() is a FIFO queue of bytes — a write appends, consume(n) drops the first n,
   shift and grow change nothing.  This was the trusted "FIFO contract". *)
Theorem c09_buffer_refines_fifo :
  forall (ops : list bop) (b : bbuf),
    (zlength (m_mem b) = m_cap b /\ 0 <= m_pos b /\ m_pos b <= m_end b /\ m_end b <= m_cap b) ->
    ops_ok (idx b) ops = true ->
    let b' := fold_left bapply ops b in
    (zlength (m_mem b') = m_cap b' /\ 0 <= m_pos b' /\ m_pos b' <= m_end b' /\ m_end b' <= m_cap b') /\
    idx b' = fold_left capply ops (idx b) /\
    bdata b' = fold_left qapply ops (bdata b).
Proof. exact fifo_refinement. Qed.
Print Assumptions c09_buffer_refines_fifo.

(* The parse loop run on real bytes ([bstep]: the loop of Model.v, statement by statement, with the buffer above, a reader
   that copies the next bytes of the input [inp] into space(), and a callback that records the slices it is given).
   For every input (any lines, any unterminated rest, ANY bytes [inp] of that total length), every schedule and every
   number of iterations: the byte-level run takes the branches of the index model (its state projects onto it, [idx]), never
   reaches a slice panic, and
        callback bytes ++ data() ++ bytes not yet read = input,
   so the callback has been given exactly the first total_consumed bytes of the input, in order, and data() is exactly the
   window input[total_consumed .. total_consumed + available_data()] that Model.v assumed. *)
Theorem c09_window_is_input :
  forall (L : Type) (llen : L -> Z) (PS : Type) (init_ps : PS)
         (recog : PS -> L -> PS + Z) (bump : PS -> PS) (lineno : PS -> Z),
    (forall l, 1 <= llen l) ->
    forall (lines : list L) (tail : Z) (sch : list Z) (inp : list Z) (p : positive),
    zlength inp = input_len L llen lines tail ->
    let x0 := binit L PS (init_st L llen PS init_ps lines tail sch) inp in
    let good (x : bst L PS) (s : st L PS) :=
      x_s x = s /\
      idx (x_b x) = buf s /\
      x_cb x ++ bdata (x_b x) ++ x_in x = inp /\
      x_cb x = zfirstn (total s) inp /\
      bdata (x_b x) = zslice inp (total s) (total s + avail (buf s)) in
    match iter_pos L llen PS recog bump lineno p (init_st L llen PS init_ps lines tail sch) with
    | Next s => exists x, biter L llen PS recog bump lineno (Pos.to_nat p) x0 = BNext x /\ good x s
    | Done r s => exists x, biter L llen PS recog bump lineno (Pos.to_nat p) x0 = BDone r x /\ good x s
    | StPanic _ => False
    end.
Proof. exact window_is_input_thm. Qed.
Print Assumptions c09_window_is_input.

(* What Model.v says about the CONTENT of data() — [rest]/[off] ("the unconsumed lines minus the first off bytes"),
   [first_nl] ("the first newline is at llen - off - 1 if that is inside the window") and [pm] ("parse_more walks over the
   complete lines that fit") — is true of the real bytes: when every line [l] is its content (no '\n') followed by '\n' and
   the rest has no '\n', then in every state of the byte-level run
     - data() ++ unread bytes = the unconsumed lines and the rest, minus [off] bytes;
     - `data.iter().position(|b| b == '\n')` on the bytes of data() is Model.first_nl;
     - outside recovery, `&data[..=rposition('\n')]` (what parse_more keeps) is the concatenation of the lines that fit. *)
Theorem c09_data_is_the_lines :
  forall (L : Type) (llen : L -> Z) (PS : Type) (init_ps : PS)
         (recog : PS -> L -> PS + Z) (bump : PS -> PS) (lineno : PS -> Z) (bytes_of : L -> list Z),
    (forall l, exists body, bytes_of l = body ++ [10] /\ Forall (fun c => c <> 10) body /\ zlength (bytes_of l) = llen l) ->
    forall (lines : list L) (tl : list Z) (sch : list Z) (p : positive),
    Forall (fun c => c <> 10) tl ->
    let inp := flat_map bytes_of lines ++ tl in
    let s0 := init_st L llen PS init_ps lines (zlength tl) sch in
    let x0 := binit L PS s0 inp in
    let good (x : bst L PS) (s : st L PS) :=
      x_s x = s /\
      bdata (x_b x) ++ x_in x = zskipn (off s) (flat_map bytes_of (rest s) ++ tl) /\
      position_nl (bdata (x_b x)) 0 = first_nl L llen PS s /\
      (off s = 0 -> trim_nl (bdata (x_b x)) = flat_map bytes_of (fit llen (avail (buf s)) (rest s))) in
    match iter_pos L llen PS recog bump lineno p s0 with
    | Next s => exists x, biter L llen PS recog bump lineno (Pos.to_nat p) x0 = BNext x /\ good x s
    | Done r s => exists x, biter L llen PS recog bump lineno (Pos.to_nat p) x0 = BDone r x /\ good x s
    | StPanic _ => False
    end.
Proof. exact data_is_the_lines_thm. Qed.
Print Assumptions c09_data_is_the_lines.

(* non-vacuity: a capacity-8 buffer, a write, a consume past the half (shift = memmove: the stale bytes stay behind), a write
   that makes fill() shift, a grow.  The operations are admissible, data() is the queue, and the memory is what memmove /
   resize leave. *)
Example c09_nonvacuous_buffer :
  let ops := [OWrite [1;2;3;4;5;6]; OConsume 5; OWrite [7;8;9]; OConsume 1; OGrow 12; OWrite [10;11]] in
  let b := fold_left bapply ops (with_capacity 8) in
  ops_ok (idx (with_capacity 8)) ops = true /\
  bdata b = [7;8;9;10;11] /\ m_mem b = [7;8;9;10;11;11;0;0;0;0;0;0] /\ idx b = mkbuf 0 5 12.
Proof. vm_compute. repeat split. Qed.

(* non-vacuity: three lines and an unterminated rest, read 3 bytes at a time: the byte-level run ends with
   "unexpected EOF" after the callback has been given exactly the three lines. *)
Example c09_nonvacuous_bytes_run :
  let lines := [[77;79;68;10]; [70;10]; [10]] in
  let inp := flat_map (fun l => l) lines ++ [120;121] in
  let s0 := init_st (list Z) zlength (list Z) [] lines 2 [3;3;3;3] in
  match biter (list Z) zlength (list Z) (fun p l => inl (p ++ l)) (fun p => p) (fun _ => 0) 6 (binit _ _ s0 inp) with
  | BDone (RErr 4 _) x => x_cb x = [77;79;68;10;70;10;10] /\ bdata (x_b x) = [120;121] /\ ps (x_s x) = x_cb x
  | _ => False
  end.
Proof. vm_compute. repeat split. Qed.

(* The byte-level run of the correspondence ([run_bytes], whose hash of the space() slices is compared with the real
   buffer) goes through the states of [biter], and for every input it reports the outcome of [drive_c], with the callback
   bytes equal to the input's prefix and data() holding exactly what the index model says is left. *)
Theorem c09_bytes_trace_is_run :
  forall p x h, fst (biter_tr p x h) = biter rle cllen pst recog_pst bump_pst lineno_pst (Pos.to_nat p) x.
Proof. exact biter_tr_run. Qed.
Print Assumptions c09_bytes_trace_is_run.

Theorem c09_bytes_run_is_drive :
  forall (lines : list rle) (tail : Z) (sch : list Z) (inp : list Z),
    zlength inp = input_len rle cllen lines tail ->
    exists r s, drive_c lines tail sch = Ret (r, s) /\
      let bo := run_bytes lines tail sch inp in
      (bo_kind bo, bo_code bo, bo_line bo) = match r with ROk _ => (0, 0, 0) | RErr c l => (1, c, l) end /\
      bo_cb bo = cbsum s /\ bo_cbok bo = true /\ bo_left bo = avail (buf s).
Proof. exact run_bytes_is_drive. Qed.
Print Assumptions c09_bytes_run_is_drive.

(* The byte-level Buffer operations of C09/Circular.v are what the source of the pinned circular crate says: rebuilt from
   generic memory primitives (a Vec of a repeated value, slices, ptr::copy as memmove, Vec::resize) applied to the operands
   that translate/c09_circular_mem.py reads off with_capacity / data / space / shift / grow (coq/Gen/C09CircMem.v) and the
   conditions translate/symfile_loop.py reads off consume / fill / grow / shift, they are the model's operations. *)
Theorem c09_memory_ops_are_source :
  (forall c, PinsMem.with_capacity_src c = with_capacity c) /\
  (forall b, PinsMem.bdata_src b = bdata b /\ PinsMem.bspace_slice_src b = bspace_slice b) /\
  (forall b, PinsMem.bshift_src b = bshift b) /\
  (forall b k, PinsMem.bconsume_src b k = bconsume b k) /\
  (forall b k, PinsMem.bfill_src b k = bfill b k) /\
  (forall b n, zlength (m_mem b) = m_cap b -> PinsMem.bgrow_src b n = bgrow b n).
Proof. exact PinsMem.pin_memory_ops. Qed.
Print Assumptions c09_memory_ops_are_source.

(* The two amounts the loop hands to the callback and to consume() are determined by the real bytes of data(): in every
   state of the byte-level run, `match data.iter().position('\n') { Some(i) => i + 1, None => data.len() }` is what the
   recovery block of the index model consumes, and whenever parse_more succeeds in the index model ([pm] = inl) its
   [consumed] is the length of data() up to its last '\n' and the callback slice `&data[..consumed]` is exactly that prefix. *)
Theorem c09_amounts_from_bytes :
  forall (L : Type) (llen : L -> Z) (PS : Type) (init_ps : PS)
         (recog : PS -> L -> PS + Z) (bump : PS -> PS) (lineno : PS -> Z) (bytes_of : L -> list Z),
    (forall l, exists body, bytes_of l = body ++ [10] /\ Forall (fun c => c <> 10) body /\ zlength (bytes_of l) = llen l) ->
    forall (lines : list L) (tl : list Z) (sch : list Z) (p : positive),
    Forall (fun c => c <> 10) tl ->
    let inp := flat_map bytes_of lines ++ tl in
    let s0 := init_st L llen PS init_ps lines (zlength tl) sch in
    let x0 := binit L PS s0 inp in
    let good (x : bst L PS) (s : st L PS) :=
      x_s x = s /\
      (match position_nl (bdata (x_b x)) 0 with Some i => i + 1 | None => zlength (bdata (x_b x)) end
       = total (recovery L llen PS bump s) - total s) /\
      (off s = 0 -> forall p' r' c' lg',
         pm L llen PS recog lineno (avail (buf s)) (ps s) (rest s) 0 (log s) = inl (p', r', c', lg') ->
         c' = zlength (trim_nl (bdata (x_b x))) /\ zfirstn c' (bdata (x_b x)) = trim_nl (bdata (x_b x))) in
    match iter_pos L llen PS recog bump lineno p s0 with
    | Next s => exists x, biter L llen PS recog bump lineno (Pos.to_nat p) x0 = BNext x /\ good x s
    | Done r s => exists x, biter L llen PS recog bump lineno (Pos.to_nat p) x0 = BDone r x /\ good x s
    | StPanic _ => False
    end.
Proof. exact amounts_from_bytes_thm. Qed.
Print Assumptions c09_amounts_from_bytes.

(* non-vacuity of the hypothesis on [bytes_of] in c09_data_is_the_lines / c09_amounts_from_bytes: lines of n letters 'a' *)
Example c09_nonvacuous_bytes_of :
  forall n : nat, exists body,
    repeat 97 n ++ [10] = body ++ [10] /\ Forall (fun c => c <> 10) body /\
    zlength (repeat 97 n ++ [10]) = Z.of_nat n + 1.
Proof.
  intros n. exists (repeat 97 n). split; [reflexivity|]. split.
  - apply Forall_forall. intros c Hc. apply repeat_spec in Hc. subst c. discriminate.
  - unfold zlength. rewrite app_length, repeat_length. cbn [length]. rewrite Nat2Z.inj_add. reflexivity.
Qed.

(* A successful parse has handed the WHOLE input to the callback, byte for byte and in order (what the symbol cache
   stores is the file), and nothing is left in the buffer or in the reader. *)
Theorem c09_ok_callback_is_whole_input :
  forall (L : Type) (llen : L -> Z) (PS : Type) (init_ps : PS)
         (recog : PS -> L -> PS + Z) (bump : PS -> PS) (lineno : PS -> Z),
    (forall l, 1 <= llen l) ->
    forall (lines : list L) (tail : Z) (sch : list Z) (inp : list Z) (p : PS) (s : st L PS),
    zlength inp = input_len L llen lines tail ->
    drive L llen PS init_ps recog bump lineno lines tail sch = Ret (ROk p, s) ->
    exists x, biter L llen PS recog bump lineno (Pos.to_nat (fuel_for L llen lines tail))
                    (binit L PS (init_st L llen PS init_ps lines tail sch) inp) = BDone (ROk p) x /\
              x_s x = s /\ x_cb x = inp /\ bdata (x_b x) = [] /\ x_in x = [].
Proof. exact ok_callback_whole_thm. Qed.
Print Assumptions c09_ok_callback_is_whole_input.

(* [trim_nl] (what parse_more keeps of data(), c09_data_is_the_lines / c09_amounts_from_bytes) is what the head of
   SymbolParser::parse_more says: translate/c09_circular_mem.py reads off which newline is searched (`rposition`), what is kept
   (`&input[..idx + 1]`) and what is returned without a newline (`Ok(0)`); rebuilt from those, the slice is [trim_nl]. *)
Theorem c09_trim_is_source : forall d, PinsMem.trim_src d = trim_nl d.
Proof. exact PinsMem.pin_trim. Qed.
Print Assumptions c09_trim_is_source.

(* ================================================================== round 5, second pass *)

(* finish_item / finish composed with C08 (was: "finish never panics" only).  For EVERY byte string and every
   schedule of reads: the loop returns, finish returns, every (start, end) pair handed to `Range::new` on the
   way - line records `address .. address + size - 1`, memory_range() of FUNC / STACK CFI INIT / STACK WIN
   records, the STACK WIN record shortened by insert_win_stack_info ([finish_new_ranges]) - satisfies
   0 <= start <= end < 2^64 (Range::new asserts "Ranges must be ordered": the class of seeded C09-8), and the
   five range maps of the table (functions, each function's line table, CFI, STACK WIN frame data / fpo) are
   strictly sorted, pairwise disjoint, made of ordered ranges ([table_wf]; C08's builder theorems applied to
   what the recognisers produce). *)
Theorem c09_table_ranges_ordered :
  forall (bytes : list Z) (sch : list Z),
    exists r s t, drive_c (map to_rle (fst (split_bytes bytes [])))
                          (Z.of_nat (length (snd (split_bytes bytes [])))) sch = Ret (r, s) /\
                  table_of r = Ret t /\ table_opt_wf t /\ Forall C08.Proofs.wf_range (result_new_ranges r).
Proof. exact parse_table_wf_bytes. Qed.
Print Assumptions c09_table_ranges_ordered.

(* the same over the parser state, for all record sequences: any list of recognised / dropped lines replayed
   from the initial state (not only those a run of the loop produces) *)
Theorem c09_finish_ranges_ordered :
  (forall (ds : list (bool * rle)) p,
      replay rle pst recog_pst bump_pst lineno_pst init_pst ds = inl p ->
      Forall C08.Proofs.wf_range (finish_new_ranges p) /\ exists t, finish p = Ret t /\ table_wf t) /\
  (forall V (m : list (range * V)), map_wf m ->
      forall i j a b, (i < j)%nat -> nth_error m i = Some a -> nth_error m j = Some b ->
      fst (fst a) <= snd (fst a) /\ snd (fst a) < fst (fst b) /\ fst (fst b) <= snd (fst b)).
Proof. split; [exact replay_table_wf|exact @map_wf_disjoint]. Qed.
Print Assumptions c09_finish_ranges_ordered.

(* non-vacuity: two overlapping STACK WIN records (the fix-up shortens the first: a third Range::new), a FUNC at
   the top of the address space whose line record ends exactly at 2^64 - 1 and one that would end beyond it
   (checked_add = None: no Range::new), a zero-size line: the Range::new arguments and the resulting maps *)
Example c09_nonvacuous_ranges :
  let r := drive_c [ex_module;
                    map (fun b => (b, 1)) [83;84;65;67;75;32;87;73;78;32;52;32;49;48;32;49;48;32;48;32;48;32;48;32;48;32;48;32;48;32;49;32;120];  (* STACK WIN 4 10 10 0 0 0 0 0 0 1 x *)
                    map (fun b => (b, 1)) [83;84;65;67;75;32;87;73;78;32;52;32;49;52;32;99;32;48;32;48;32;48;32;48;32;48;32;48;32;49;32;121];     (* STACK WIN 4 14 c 0 0 0 0 0 0 1 y *)
                    map (fun b => (b, 1)) [70;85;78;67;32;102;102;102;102;102;102;102;102;102;102;102;102;102;102;102;48;32;102;32;48;32;102];  (* FUNC fffffffffffffff0 f 0 f *)
                    map (fun b => (b, 1)) [102;102;102;102;102;102;102;102;102;102;102;102;102;102;102;48;32;49;48;32;55;32;49];                    (* fffffffffffffff0 10 7 1 *)
                    map (fun b => (b, 1)) [102;102;102;102;102;102;102;102;102;102;102;102;102;102;102;56;32;57;32;55;32;49];                        (* fffffffffffffff8 9 7 1 *)
                    map (fun b => (b, 1)) [102;102;102;102;102;102;102;102;102;102;102;102;102;102;102;56;32;48;32;55;32;49]]                       (* fffffffffffffff8 0 7 1 *)
                   0 [7; 11] in
  (match r with
  | Ret (ROk p, _) =>
      (finish_new_ranges p,
       match finish p with
       | Ret t => (map fst (t_win_fd t), map (fun e => map fst (sf_lines (snd e))) (t_funcs t))
       | _ => ([], [])
       end)
  | _ => ([], ([], []))
  end) = ([(18446744073709551600, 18446744073709551615); (18446744073709551600, 18446744073709551614);
           (16, 31); (20, 31); (16, 19)],
          ([(16, 19); (20, 31)], [[(18446744073709551600, 18446744073709551615)]])).
Proof. vm_compute. reflexivity. Qed.

(* The numeric helpers of parser.rs, `hex_str::<u32>` / `hex_str::<u64>` / `decimal_u32`, COMPILED from the Rust source
   (translate/c09_numeric.py -> Gen/C09Numeric.v: every statement one `let` / `do`, `+` `*` `+=` as the checked operators of
   both build profiles, `&input[k..]` as a slice site) are, on the bytes of every run-length encoded line and in both
   profiles, the number recognisers of Grammar.v - in particular they never panic (`res * 10 + digit` stays below 2^64 within
   MAX_LEN digits, `res << 4` never loses a bit within size_of::<T>() * 2 digits, k <= input.len()). *)
Theorem c09_numeric_helpers_are_source :
  forall (p : profile) (s : rle),
    C09Numeric.hex_str_src p 4 (PinsNum.expand s) = Ret (PinsNum.lift (hex_str 8%nat s)) /\
    C09Numeric.hex_str_src p 8 (PinsNum.expand s) = Ret (PinsNum.lift (hex_str 16%nat s)) /\
    C09Numeric.decimal_u32_src p (PinsNum.expand s) = Ret (PinsNum.lift (decimal_u32 s)).
Proof.
  intros p s. split; [apply (PinsNum.hex_src_is_grammar p 4 8%nat); left; split; reflexivity|].
  split; [apply (PinsNum.hex_src_is_grammar p 8 16%nat); right; split; reflexivity|apply PinsNum.dec_src_is_grammar].
Qed.
Print Assumptions c09_numeric_helpers_are_source.

(* What the compiled functions accept, declaratively, for EVERY byte list (any integer as a byte) and both profiles:
   hex_str: an error iff the input does not start with a hex digit; otherwise exactly the longest prefix of at most 8 / 16 hex
   digits is consumed and the result is its positional value, below 2^32 / 2^64.  decimal_u32: an error iff the input does not
   start with a decimal digit or the value of the longest prefix of at most 10 digits exceeds u32::MAX (an eleventh digit is
   left in the input).  A byte >= 0x80 is not a digit of either kind (class of seeded C09-7). *)
Theorem c09_numeric_grammar :
  forall (p : profile) (input : list Z),
    (forall sz nd, (sz = 4 /\ nd = 8%nat) \/ (sz = 8 /\ nd = 16%nat) ->
       (C09Numeric.hex_str_src p sz input = Ret None /\ PinsNum.hex_stops input) \/
       (exists ds rest, C09Numeric.hex_str_src p sz input = Ret (Some (rest, PinsNum.dvalue hexval 16 0 ds)) /\
                        input = ds ++ rest /\ ds <> [] /\ (length ds <= nd)%nat /\ PinsNum.hexdigits ds /\
                        (length ds = nd \/ PinsNum.hex_stops rest) /\
                        0 <= PinsNum.dvalue hexval 16 0 ds < 2 ^ (8 * sz))) /\
    ((C09Numeric.decimal_u32_src p input = Ret None /\ PinsNum.dec_stops input) \/
     (exists ds rest, input = ds ++ rest /\ ds <> [] /\ (length ds <= 10)%nat /\ PinsNum.decdigits ds /\
                      (length ds = 10%nat \/ PinsNum.dec_stops rest) /\ 0 <= PinsNum.dvalue decval 10 0 ds < 10 ^ 10 /\
                      C09Numeric.decimal_u32_src p input =
                      Ret (if PinsNum.dvalue decval 10 0 ds <=? U32MAX
                           then Some (rest, PinsNum.dvalue decval 10 0 ds) else None))) /\
    (forall b, 128 <= b -> hexval b = None /\ decval b = None).
Proof.
  intros p input. split; [intros sz nd H; exact (PinsNum.hex_src_grammar p sz nd H input)|].
  split; [exact (PinsNum.dec_src_grammar p input)|exact PinsNum.non_ascii_no_digit].
Qed.
Print Assumptions c09_numeric_grammar.

(* non-vacuity: "1aF9z" -> 0x1af9, rest "z"; nine hex digits into a u32: eight consumed; a byte 0xC8 first: error;
   "4294967295 " accepted, "4294967296" too large, eleven digits: ten consumed (1 < u32::MAX), rest "1"; "" : error *)
Example c09_nonvacuous_numeric :
  (C09Numeric.hex_str_src Debug 4 [49; 97; 70; 57; 122],
   C09Numeric.hex_str_src Debug 4 [49; 50; 51; 52; 53; 54; 55; 56; 57],
   C09Numeric.hex_str_src Release 8 [200; 49],
   C09Numeric.decimal_u32_src Debug [52; 50; 57; 52; 57; 54; 55; 50; 57; 53; 32],
   C09Numeric.decimal_u32_src Debug [52; 50; 57; 52; 57; 54; 55; 50; 57; 54],
   C09Numeric.decimal_u32_src Release [48; 48; 48; 48; 48; 48; 48; 48; 48; 49; 49],
   C09Numeric.decimal_u32_src Debug [])
  = (Ret (Some ([122], 6905)), Ret (Some ([57], 305419896)), Ret None,
     Ret (Some ([32], 4294967295)), Ret None, Ret (Some ([49], 1)), Ret None).
Proof. vm_compute. reflexivity. Qed.

(* The text fields of a record on BYTES (Grammar.v works on run-length encoded lines).  `my_eol`: everything left of the
   line must be '\r'.  `terminated(map_res(not_my_eol, from_utf8), my_eol)` (names, rule strings, program strings, URL): the
   line splits - at its first '\r' - into a name without '\r' and a rest; the field is accepted iff the name is valid UTF-8
   and the rest consists of '\r' only, and the string returned has exactly the bytes of the name.  `str::from_utf8` validity:
   the run-length shortcut of the model is the byte-by-byte automaton, and that automaton accepts exactly the well-formed
   byte sequences of the Unicode standard (table 3-7: no overlong forms, no surrogates, nothing above U+10FFFF). *)
Theorem c09_text_fields_on_bytes :
  (forall s, eol s = true <-> Forall (fun b => b = 13) (PinsNum.expand s)) /\
  (forall s, exists name rest,
      PinsNum.expand s = name ++ rest /\ Forall (fun b => b <> 13) name /\ ProofsText.starts (fun b => b = 13) rest /\
      name_eol s = (if ProofsText.utf8_bytes name && forallb (fun b => b =? 13) rest
                    then Some (rle_norm (fst (span_not is_cr s))) else None) /\
      PinsNum.expand (rle_norm (fst (span_not is_cr s))) = name) /\
  (forall s, utf8_ok s = ProofsText.utf8_bytes (PinsNum.expand s)) /\
  (forall l, ProofsText.utf8_bytes l = true <-> ProofsText.wf8 l) /\
  (forall l, PinsNum.expand (to_rle l) = l).
Proof.
  split; [exact ProofsText.eol_bytes|]. split; [exact ProofsText.name_eol_bytes|].
  split; [exact ProofsText.utf8_ok_bytes|]. split; [exact ProofsText.utf8_run_wf|exact PinsNum.expand_to_rle].
Qed.
Print Assumptions c09_text_fields_on_bytes.

(* non-vacuity: "é€" + U+1F600 is well formed and accepted; an overlong form (C0 80), a surrogate (ED A0 80), a code point
   above U+10FFFF (F4 90 80 80) and a run of five continuation bytes are rejected; "ab\r\r" is the name "ab" *)
Example c09_nonvacuous_text :
  ProofsText.wf8 [195; 169; 226; 130; 172; 240; 159; 152; 128] /\
  (utf8_ok [(195, 1); (169, 1); (226, 1); (130, 1); (172, 1); (240, 1); (159, 1); (152, 1); (128, 1)],
   utf8_ok [(192, 1); (128, 1)], utf8_ok [(237, 1); (160, 1); (128, 1)], utf8_ok [(244, 1); (144, 1); (128, 2)],
   utf8_ok [(128, 5)], name_eol [(97, 1); (98, 1); (13, 2)], name_eol [(97, 1); (13, 1); (98, 1)])
  = (true, false, false, false, false, Some [(97, 1); (98, 1)], None).
Proof.
  split; [exact ProofsText.wf8_example|vm_compute; reflexivity].
Qed.

(* A whole record kind as a declarative grammar over BYTES, both directions (FILE and INLINE_ORIGIN; the other kinds are
   recognised by the same byte-level model but have no declarative counterpart yet):
       line ::= KEYWORD sp+ digit{1,10} sp+ name cr*     sp = ' ' | '\t', cr = '\r', value(digits) <= u32::MAX,
                                                          name: no '\r', not starting with sp, well-formed UTF-8
   ([ProofsRecord.id_name_line]).  The recogniser answers PErr (alt tries the next record kind) iff the line does not start
   with KEYWORD followed by a space or tab; it answers POk iff the line has this shape, the id being the value of the digits
   and the returned string having exactly the bytes of the name; everything else is PFail (cut: the whole parse fails). *)
Theorem c09_id_name_record_grammar :
  forall s : rle,
    (p_file s = PErr <-> ~ ProofsRecord.has_header T_FILE (PinsNum.expand s)) /\
    (forall it, p_file s = POk it ->
        exists id n name, it = IFile id n /\ ProofsRecord.id_name_line T_FILE (PinsNum.expand s) id name /\ PinsNum.expand n = name) /\
    (forall id name, ProofsRecord.id_name_line T_FILE (PinsNum.expand s) id name ->
        exists n, p_file s = POk (IFile id n) /\ PinsNum.expand n = name) /\
    (p_inline_origin s = PErr <-> ~ ProofsRecord.has_header T_INLINE_ORIGIN (PinsNum.expand s)) /\
    (forall it, p_inline_origin s = POk it ->
        exists id n name, it = IOrigin id n /\ ProofsRecord.id_name_line T_INLINE_ORIGIN (PinsNum.expand s) id name /\
                          PinsNum.expand n = name) /\
    (forall id name, ProofsRecord.id_name_line T_INLINE_ORIGIN (PinsNum.expand s) id name ->
        exists n, p_inline_origin s = POk (IOrigin id n) /\ PinsNum.expand n = name).
Proof.
  intros s. rewrite ProofsRecord.p_file_is, ProofsRecord.p_inline_origin_is.
  split; [apply ProofsRecord.p_id_name_err|]. split; [intros it; apply ProofsRecord.p_id_name_sound|].
  split; [intros id name; apply ProofsRecord.p_id_name_complete|].
  split; [apply ProofsRecord.p_id_name_err|]. split; [intros it; apply ProofsRecord.p_id_name_sound|].
  intros id name; apply ProofsRecord.p_id_name_complete.
Qed.
Print Assumptions c09_id_name_record_grammar.

(* non-vacuity: "FILE 12 \t a\xc3\xa9\r\r" has the shape (id 12, name "aé") and is recognised as such; "FILE 4294967296 x"
   and "FILE 1 \xff" have the header but not the shape: PFail; "FILEX 1 x" has no header: PErr *)
Example c09_nonvacuous_record :
  ProofsRecord.id_name_line T_FILE (PinsNum.expand (to_rle [70; 73; 76; 69; 32; 49; 50; 32; 9; 97; 195; 169; 13; 13])) 12 [97; 195; 169] /\
  (p_file (to_rle [70; 73; 76; 69; 32; 49; 50; 32; 9; 97; 195; 169; 13; 13]),
   p_file (to_rle [70; 73; 76; 69; 32; 52; 50; 57; 52; 57; 54; 55; 50; 57; 54; 32; 120]),
   p_file (to_rle [70; 73; 76; 69; 32; 49; 32; 255]),
   p_file (to_rle [70; 73; 76; 69; 88; 32; 49; 32; 120]))
  = (POk (IFile 12 [(97, 1); (195, 1); (169, 1)]), PFail, PFail, PErr).
Proof. split; [rewrite PinsNum.expand_to_rle; exact ProofsRecord.file_line_example|vm_compute; reflexivity]. Qed.

(* Three more record kinds as declarative grammars over BYTES, both directions: STACK CFI INIT records, STACK CFI delta
   sub-lines, and the line records of a FUNC (hex{1,16} / hex{1,8} fields, decimal fields <= u32::MAX, sp+ between fields,
   rules text without '\r' that is well-formed UTF-8, cr* before the newline).  Still without a declarative counterpart:
   MODULE, INFO, PUBLIC, FUNC (optional `m`), INLINE (separated_list1), STACK WIN. *)
Theorem c09_cfi_and_line_record_grammar :
  forall s : rle,
    (forall it, p_stack_cfi_init s = POk it ->
        exists a sz r rules, it = ICfiInit (mk_cfi (mk_rule a r) sz []) /\
                             ProofsRecord2.cfi_init_line (PinsNum.expand s) a sz rules /\ PinsNum.expand r = rules) /\
    (forall a sz rules, ProofsRecord2.cfi_init_line (PinsNum.expand s) a sz rules ->
        exists r, p_stack_cfi_init s = POk (ICfiInit (mk_cfi (mk_rule a r) sz [])) /\ PinsNum.expand r = rules) /\
    (forall x, sub_cfi s = Some x ->
        exists a r rules, x = mk_rule a r /\ ProofsRecord2.cfi_add_line (PinsNum.expand s) a rules /\ PinsNum.expand r = rules) /\
    (forall a rules, ProofsRecord2.cfi_add_line (PinsNum.expand s) a rules ->
        exists r, sub_cfi s = Some (mk_rule a r) /\ PinsNum.expand r = rules) /\
    (forall x, sub_line_data s = Some x ->
        exists a sz ln fl, x = mk_line a sz fl ln /\ ProofsRecord2.line_rec_line (PinsNum.expand s) a sz ln fl) /\
    (forall a sz ln fl, ProofsRecord2.line_rec_line (PinsNum.expand s) a sz ln fl -> sub_line_data s = Some (mk_line a sz fl ln)).
Proof.
  intros s. split; [apply ProofsRecord2.cfi_init_sound|]. split; [apply ProofsRecord2.cfi_init_complete|].
  split; [apply ProofsRecord2.cfi_add_sound|]. split; [apply ProofsRecord2.cfi_add_complete|].
  split; [apply ProofsRecord2.line_rec_sound|apply ProofsRecord2.line_rec_complete].
Qed.
Print Assumptions c09_cfi_and_line_record_grammar.

(* non-vacuity: "1000 10 7 1\r" has the shape of a line record and is recognised as address 0x1000, size 0x10, line 7,
   file 1; with an eleventh digit in the file field, or a byte 0xE9 after the digits, it is not *)
Example c09_nonvacuous_line_record :
  ProofsRecord2.line_rec_line (PinsNum.expand (to_rle [49; 48; 48; 48; 32; 49; 48; 32; 55; 32; 49; 13])) 4096 16 7 1 /\
  (sub_line_data (to_rle [49; 48; 48; 48; 32; 49; 48; 32; 55; 32; 49; 13]),
   sub_line_data (to_rle [49; 48; 48; 48; 32; 49; 48; 32; 55; 32; 48; 48; 48; 48; 48; 48; 48; 48; 48; 48; 49]),
   sub_line_data (to_rle [49; 48; 48; 48; 32; 49; 48; 32; 55; 32; 49; 233]))
  = (Some (mk_line 4096 16 1 7), None, None).
Proof. split; [rewrite PinsNum.expand_to_rle; exact ProofsRecord2.line_rec_example|vm_compute; reflexivity]. Qed.

(* PUBLIC and FUNC records (with the optional `m` marker) as declarative grammars over BYTES, both directions. *)
Theorem c09_public_func_record_grammar :
  forall s : rle,
    (forall it, p_public s = POk it ->
        exists a ps n name, it = IPublic (mk_pubs a n ps) /\ ProofsRecord3.public_line (PinsNum.expand s) a ps name /\
                            PinsNum.expand n = name) /\
    (forall a ps name, ProofsRecord3.public_line (PinsNum.expand s) a ps name ->
        exists n, p_public s = POk (IPublic (mk_pubs a n ps)) /\ PinsNum.expand n = name) /\
    (forall it, p_func s = POk it ->
        exists a sz ps n name, it = IFunc (mk_fr a sz ps n [] []) /\ ProofsRecord3.func_line (PinsNum.expand s) a sz ps name /\
                               PinsNum.expand n = name) /\
    (forall a sz ps name, ProofsRecord3.func_line (PinsNum.expand s) a sz ps name ->
        exists n, p_func s = POk (IFunc (mk_fr a sz ps n [] [])) /\ PinsNum.expand n = name).
Proof.
  intros s. split; [apply ProofsRecord3.public_sound|]. split; [apply ProofsRecord3.public_complete|].
  split; [apply ProofsRecord3.func_sound|apply ProofsRecord3.func_complete].
Qed.
Print Assumptions c09_public_func_record_grammar.

(* non-vacuity: "FUNC m 1000 10 4 f" has the shape; a ninth digit in the size field, or `m` not followed by a space, breaks it *)
Example c09_nonvacuous_func_record :
  ProofsRecord3.func_line (PinsNum.expand (to_rle [70; 85; 78; 67; 32; 109; 32; 49; 48; 48; 48; 32; 49; 48; 32; 52; 32; 102])) 4096 16 4 [102] /\
  (p_func (to_rle [70; 85; 78; 67; 32; 49; 48; 48; 48; 32; 49; 50; 51; 52; 53; 54; 55; 56; 57; 32; 52; 32; 102]),
   p_func (to_rle [70; 85; 78; 67; 32; 109; 49; 48; 48; 48; 32; 49; 48; 32; 52; 32; 102]))
  = (PFail, PFail).
Proof. split; [exact ProofsRecord3.func_line_example|vm_compute; reflexivity]. Qed.

(* INFO URL, INFO and MODULE records as declarative grammars over BYTES, both directions.  A MODULE field (os, cpu) is any
   run of bytes other than ' ' '\r' '\n' that is well-formed UTF-8 (a tab is part of the field), the separator after it is a
   ' ' followed by spaces / tabs; the id is one or more hex digits (no length limit); the file name is the rest of the line.
   With these, every top-level record kind except STACK WIN - and every sub-line kind except INLINE - has a declarative
   counterpart proved equal to the recogniser the correspondence run compares with the code. *)
Theorem c09_info_module_record_grammar :
  forall s : rle,
    (forall it, p_info_url s = POk it ->
        exists n u, it = IUrl n /\ ProofsRecord4.info_url_line (PinsNum.expand s) u /\ PinsNum.expand n = u) /\
    (forall u, ProofsRecord4.info_url_line (PinsNum.expand s) u -> exists n, p_info_url s = POk (IUrl n) /\ PinsNum.expand n = u) /\
    (forall it, p_info s = POk it -> it = IInfo /\ ProofsRecord4.info_line (PinsNum.expand s)) /\
    (ProofsRecord4.info_line (PinsNum.expand s) -> p_info s = POk IInfo) /\
    (forall it, p_module s = POk it ->
        exists i f id file, it = IModule i f /\ ProofsRecord4.module_line (PinsNum.expand s) id file /\
                            PinsNum.expand i = id /\ PinsNum.expand f = file) /\
    (forall id file, ProofsRecord4.module_line (PinsNum.expand s) id file ->
        exists i f, p_module s = POk (IModule i f) /\ PinsNum.expand i = id /\ PinsNum.expand f = file).
Proof.
  intros s. split; [apply ProofsRecord4.info_url_sound|]. split; [apply ProofsRecord4.info_url_complete|].
  split; [apply ProofsRecord4.info_sound|]. split; [apply ProofsRecord4.info_complete|].
  split; [apply ProofsRecord4.module_sound|apply ProofsRecord4.module_complete].
Qed.
Print Assumptions c09_info_module_record_grammar.

(* non-vacuity: "MODULE Linux x86 ABC1 a.pdb\r" has the shape; a tab instead of the space after the os field makes the tab part
   of the field ("Linux\tx86" is the os, "ABC1" the cpu, "a.pdb" is not a hex id): PFail *)
Example c09_nonvacuous_module_record :
  ProofsRecord4.module_line
    (PinsNum.expand (to_rle [77; 79; 68; 85; 76; 69; 32; 76; 105; 110; 117; 120; 32; 120; 56; 54; 32; 65; 66; 67; 49; 32; 97; 46; 112; 100; 98; 13]))
    [65; 66; 67; 49] [97; 46; 112; 100; 98] /\
  p_module (to_rle [77; 79; 68; 85; 76; 69; 32; 76; 105; 110; 117; 120; 9; 120; 56; 54; 32; 65; 66; 67; 49; 32; 97; 46; 112; 100; 98; 13]) = PFail.
Proof. split; [exact ProofsRecord4.module_line_example|vm_compute; reflexivity]. Qed.

(* STACK WIN records and INLINE sub-lines as declarative grammars over BYTES, both directions.  With the five theorems above,
   every record kind and every sub-line kind of the format has a declarative counterpart proved equal to the byte-level
   recogniser that the correspondence run compares with parser.rs. *)
Theorem c09_win_inline_record_grammar :
  forall s : rle,
    (forall it, p_stack_win s = POk it ->
        exists ty a sz pro epi par sav loc mx hp n rest,
          it = IWin (win_of_fields ty a sz pro epi par sav loc mx hp n) /\
          ProofsRecord5.win_line (PinsNum.expand s) ty a sz pro epi par sav loc mx hp rest /\ PinsNum.expand n = rest) /\
    (forall ty a sz pro epi par sav loc mx hp rest,
        ProofsRecord5.win_line (PinsNum.expand s) ty a sz pro epi par sav loc mx hp rest ->
        exists n, p_stack_win s = POk (IWin (win_of_fields ty a sz pro epi par sav loc mx hp n)) /\ PinsNum.expand n = rest) /\
    (forall x, sub_inline s = Some x ->
        exists depth cline cfile origin rs, x = ProofsRecord6.inlinees depth cline cfile origin rs /\
                                            ProofsRecord6.inline_line (PinsNum.expand s) depth cline cfile origin rs) /\
    (forall depth cline cfile origin rs, ProofsRecord6.inline_line (PinsNum.expand s) depth cline cfile origin rs ->
        sub_inline s = Some (ProofsRecord6.inlinees depth cline cfile origin rs)).
Proof.
  intros s. split; [apply ProofsRecord5.win_sound|]. split; [intros; eapply ProofsRecord5.win_complete; eassumption|].
  split; [apply ProofsRecord6.inline_sound|apply ProofsRecord6.inline_complete].
Qed.
Print Assumptions c09_win_inline_record_grammar.

(* non-vacuity: an INLINE line with two ranges has the shape; a trailing space after the last range (the separator that
   separated_list1 gives back) or a ninth digit in a size makes the line invalid *)
Example c09_nonvacuous_inline_record :
  ProofsRecord6.inline_line
    (PinsNum.expand (to_rle [73; 78; 76; 73; 78; 69; 32; 48; 32; 51; 32; 49; 32; 50; 32; 49; 48; 48; 48; 32; 49; 48; 32; 50; 48; 48; 48; 32; 52; 13]))
    0 3 1 2 [(4096, 16); (8192, 4)] /\
  (sub_inline (to_rle [73; 78; 76; 73; 78; 69; 32; 48; 32; 51; 32; 49; 32; 50; 32; 49; 48; 48; 48; 32; 49; 48; 32]),
   sub_inline (to_rle [73; 78; 76; 73; 78; 69; 32; 48; 32; 51; 32; 49; 32; 50; 32; 49; 48; 48; 48; 32; 49; 50; 51; 52; 53; 54; 55; 56; 57]))
  = (None, None).
Proof. split; [exact ProofsRecord6.inline_line_example|vm_compute; reflexivity]. Qed.

(* The dispatch between record kinds.  Every top-level line parser answers PErr (`alt` goes on to the next kind) iff the line
   does not start with its KEYWORD followed by a space or tab - after the keyword the parser is under `cut`: POk or PFail (the
   whole parse fails with "failed to parse file").  `line_top` = `alt` over the nine parsers in the order of parser.rs: the first
   parser that does not answer PErr decides. *)
Theorem c09_record_dispatch :
  forall s : rle,
    (p_info_url s = PErr <-> ~ ProofsRecord.has_header T_INFO_URL (PinsNum.expand s)) /\
    (p_info s = PErr <-> ~ ProofsRecord.has_header T_INFO (PinsNum.expand s)) /\
    (p_file s = PErr <-> ~ ProofsRecord.has_header T_FILE (PinsNum.expand s)) /\
    (p_inline_origin s = PErr <-> ~ ProofsRecord.has_header T_INLINE_ORIGIN (PinsNum.expand s)) /\
    (p_public s = PErr <-> ~ ProofsRecord.has_header T_PUBLIC (PinsNum.expand s)) /\
    (p_func s = PErr <-> ~ ProofsRecord.has_header T_FUNC (PinsNum.expand s)) /\
    (p_stack_win s = PErr <-> ~ ProofsRecord.has_header T_STACK_WIN (PinsNum.expand s)) /\
    (p_stack_cfi_init s = PErr <-> ~ ProofsRecord.has_header T_STACK_CFI_INIT (PinsNum.expand s)) /\
    (p_module s = PErr <-> ~ ProofsRecord.has_header T_MODULE (PinsNum.expand s)) /\
    (forall ps it, alt ps s = Some it <->
        exists pre p post, ps = pre ++ p :: post /\ Forall (fun q => q s = PErr) pre /\ p s = POk it) /\
    (forall ps, alt ps s = None <->
        Forall (fun q => q s = PErr) ps \/
        exists pre p post, ps = pre ++ p :: post /\ Forall (fun q => q s = PErr) pre /\ p s = PFail) /\
    line_top s = alt [p_info_url; p_info; p_file; p_inline_origin; p_public; p_func; p_stack_win; p_stack_cfi_init; p_module] s.
Proof.
  intros s.
  split; [apply ProofsRecord7.p_info_url_err|]. split; [apply ProofsRecord7.p_info_err|].
  split; [apply ProofsRecord7.p_file_err|]. split; [apply ProofsRecord7.p_inline_origin_err|].
  split; [apply ProofsRecord7.p_public_err|]. split; [apply ProofsRecord7.p_func_err|].
  split; [apply ProofsRecord7.p_stack_win_err|]. split; [apply ProofsRecord7.p_stack_cfi_init_err|].
  split; [apply ProofsRecord7.p_module_err|].
  split; [intros ps it; apply ProofsRecord7.alt_some|]. split; [intros ps; apply ProofsRecord7.alt_none|reflexivity].
Qed.
Print Assumptions c09_record_dispatch.

(* The line recognisers of Grammar.v are the interpretation of what a fourth translator (translate/c09_lines.py ->
   Gen/C09Lines.v) reads off the nom parsers of parser.rs: the keyword of `terminated(tag(..), space1)`, whether the fields are
   under `cut`, the order and kind of the field parsers inside `tuple((..))` (vocabulary: decimal_u32 / hex_str::<u64> /
   hex_str::<u32> followed by space1, opt(m), name + my_eol, not_my_eol + my_eol, non_space + space1, hex_digit1 + space1,
   decimal_u32 + my_eol, bare hex_str::<u32>), and the order of the alternatives of `line()`.  An edit to a keyword, to the
   position of `cut`, to a field or to the order of fields / alternatives changes Gen/C09Lines.v and breaks these equalities
   (stack_win_line and inline_line have bodies outside the translator's template and stay hand-written). *)
Theorem c09_line_parsers_are_source :
  forall s : rle,
    p_module s = match PinsLines.run_desc C09Lines.module_line_desc s with
                 | POk ([PinsLines.VStr id; PinsLines.VStr f], _) => POk (IModule id f) | POk _ => PFail | PFail => PFail | PErr => PErr end /\
    p_info_url s = match PinsLines.run_desc C09Lines.info_url_desc s with
                   | POk ([PinsLines.VStr u], _) => POk (IUrl u) | POk _ => PFail | PFail => PFail | PErr => PErr end /\
    p_info s = match PinsLines.run_desc C09Lines.info_line_desc s with
               | POk ([], _) => POk IInfo | POk _ => PFail | PFail => PFail | PErr => PErr end /\
    p_file s = match PinsLines.run_desc C09Lines.file_line_desc s with
               | POk ([PinsLines.VNum id; PinsLines.VStr n], _) => POk (IFile id n) | POk _ => PFail | PFail => PFail | PErr => PErr end /\
    p_inline_origin s = match PinsLines.run_desc C09Lines.inline_origin_line_desc s with
               | POk ([PinsLines.VNum id; PinsLines.VStr n], _) => POk (IOrigin id n) | POk _ => PFail | PFail => PFail | PErr => PErr end /\
    p_public s = match PinsLines.run_desc C09Lines.public_line_desc s with
               | POk ([PinsLines.VNum a; PinsLines.VNum ps; PinsLines.VStr n], _) => POk (IPublic (mk_pubs a n ps)) | POk _ => PFail
               | PFail => PFail | PErr => PErr end /\
    p_func s = match PinsLines.run_desc C09Lines.func_line_desc s with
               | POk ([PinsLines.VNum a; PinsLines.VNum sz; PinsLines.VNum ps; PinsLines.VStr n], _) => POk (IFunc (mk_fr a sz ps n [] []))
               | POk _ => PFail | PFail => PFail | PErr => PErr end /\
    p_stack_cfi_init s = match PinsLines.run_desc C09Lines.stack_cfi_init_desc s with
               | POk ([PinsLines.VNum a; PinsLines.VNum sz; PinsLines.VStr r], _) => POk (ICfiInit (mk_cfi (mk_rule a r) sz []))
               | POk _ => PFail | PFail => PFail | PErr => PErr end /\
    sub_cfi s = match PinsLines.run_desc C09Lines.stack_cfi_desc s with
                | POk ([PinsLines.VNum a; PinsLines.VStr r], _) => Some (mk_rule a r) | _ => None end /\
    sub_line_data s = match PinsLines.run_desc C09Lines.func_line_data_desc s with
                | POk ([PinsLines.VNum a; PinsLines.VNum sz; PinsLines.VNum ln; PinsLines.VNum fl], _) => Some (mk_line a sz fl ln)
                | _ => None end /\
    addr_range s = match PinsLines.run_desc C09Lines.inline_address_range_desc s with
                | POk ([PinsLines.VNum a; PinsLines.VNum sz], s') => Some (a, sz, s') | _ => None end /\
    line_top s = alt (map PinsLines.parser_of C09Lines.line_alt_order) s.
Proof.
  intros s. split; [apply PinsLines.pin_module|]. split; [apply PinsLines.pin_info_url|]. split; [apply PinsLines.pin_info|].
  split; [apply PinsLines.pin_file|]. split; [apply PinsLines.pin_inline_origin|]. split; [apply PinsLines.pin_public|].
  split; [apply PinsLines.pin_func|]. split; [apply PinsLines.pin_stack_cfi_init|]. split; [apply PinsLines.pin_stack_cfi|].
  split; [apply PinsLines.pin_func_line_data|]. split; [apply PinsLines.pin_addr_range|apply PinsLines.pin_line_order].
Qed.
Print Assumptions c09_line_parsers_are_source.
