(* C09/Properties.v — parsing a symbol file is total and bounded.
   Statements only; proofs are in C09/Proofs.v (driver) and C09/ProofsBytes.v (bytes <-> lines).
   [drive] is the loop of SymbolFile::parse over ANY line recogniser [recog] (C09/Model.v); the
   input is a list of complete lines ([llen l] bytes each, '\n' included) plus [tail] bytes
   without '\n'; the reader follows ANY schedule [sch] of read sizes. *)
From Coq Require Import ZArith List Bool.
From RM Require Import Base.Word C08.Model C11.Model C09.Model C09.Grammar C09.Driver C09.Proofs C09.ProofsBytes C09.ProofsFinish C09.ProofsFinal C09.ProofsTrace.
From RM Require C09.Pins.
Import ListNotations.
Open Scope Z_scope.

(* Every run ends with Ok or Err — no panic site is reached and the loop body runs at most
   6*|input|+24 times ([drive] gives OutOfFuel beyond that). *)
Theorem c09_total :
  forall (L : Type) (llen : L -> Z) (PS : Type) (init_ps : PS)
         (recog : PS -> L -> PS + Z) (bump : PS -> PS) (lineno : PS -> Z),
    (forall l, 1 <= llen l) ->
    forall (lines : list L) (tail : Z) (sch : list Z),
    exists r s, drive L llen PS init_ps recog bump lineno lines tail sch = Ret (r, s).
Proof. exact total_thm. Qed.
Print Assumptions c09_total.

(* The same for byte strings and the byte-level model of the line parsers: every byte string
   is a list of lines plus a rest ([split_bytes], inverse of [join_bytes]). *)
Theorem c09_total_bytes :
  forall (bytes : list Z) (sch : list Z),
    join_bytes (fst (split_bytes bytes [])) (snd (split_bytes bytes [])) = bytes /\
    exists r s, drive_c (map to_rle (fst (split_bytes bytes [])))
                        (Z.of_nat (length (snd (split_bytes bytes [])))) sch = Ret (r, s).
Proof. exact total_bytes. Qed.
Print Assumptions c09_total_bytes.

(* In every reachable state the capacity is one of 10/20/40/80/160 KiB, the unparsed window
   fits in it, and the reader was never offered more than 160 KiB. *)
Theorem c09_bounded_window :
  forall (L : Type) (llen : L -> Z) (PS : Type) (init_ps : PS)
         (recog : PS -> L -> PS + Z) (bump : PS -> PS) (lineno : PS -> Z),
    (forall l, 1 <= llen l) ->
    forall (lines : list L) (tail : Z) (sch : list Z) (p : positive) (s : st L PS),
    iter_pos L llen PS recog bump lineno p (init_st L llen PS init_ps lines tail sch) = Next s ->
    In (b_cap (buf s)) [10240; 20480; 40960; 81920; 163840] /\
    0 <= avail (buf s) <= b_cap (buf s) /\ b_cap (buf s) <= MAX_CAP /\ 0 <= maxsp s <= MAX_CAP.
Proof. exact bounded_window_thm. Qed.
Print Assumptions c09_bounded_window.

(* ... and also in the state the run ends in. *)
Theorem c09_bounded_window_final :
  forall (L : Type) (llen : L -> Z) (PS : Type) (init_ps : PS)
         (recog : PS -> L -> PS + Z) (bump : PS -> PS) (lineno : PS -> Z),
    (forall l, 1 <= llen l) ->
    forall (lines : list L) (tail : Z) (sch : list Z) r s,
    drive L llen PS init_ps recog bump lineno lines tail sch = Ret (r, s) ->
    In (b_cap (buf s)) [10240; 20480; 40960; 81920; 163840] /\ 0 <= maxsp s <= MAX_CAP.
Proof. exact bounded_window_final_thm. Qed.
Print Assumptions c09_bounded_window_final.

(* Over-long lines.  Whatever the input and the schedule, the run disposes of the lines in
   order, each either shown to the recogniser or dropped (line counter bumped, open FUNC /
   STACK CFI INIT item kept): [ds] is that list of decisions, [replay] folds it.
   - a line that is shown to the recogniser has at most 163840 bytes with its '\n', so a line of
     >= 163840 content bytes is never parsed: it can only be dropped ([dec_ok]);
   - only lines of more than 81920 bytes are ever dropped;
   - Ok: all lines were disposed of and the parser state is the replay of the decisions;
   - Err: the recogniser rejected a line that fits the buffer (not an over-long one), or it is one
     of the two end-of-input errors. *)
Theorem c09_long_line_dropped :
  forall (L : Type) (llen : L -> Z) (PS : Type) (init_ps : PS)
         (recog : PS -> L -> PS + Z) (bump : PS -> PS) (lineno : PS -> Z),
    (forall l, 1 <= llen l) ->
    forall (lines : list L) (tail : Z) (sch : list Z) r s,
    drive L llen PS init_ps recog bump lineno lines tail sch = Ret (r, s) ->
    exists ds : list (bool * L),
      Forall (fun d : bool * L => if fst d then HALF_CAP < llen (snd d) else llen (snd d) <= MAX_CAP) ds /\
      lines = map snd ds ++ rest s /\
      replay L PS recog bump lineno init_ps ds = inl (ps s) /\
      match r with
      | ROk p => p = ps s /\ rest s = []
      | RErr c ln =>
          (exists taken l r' p1,
              rest s = taken ++ l :: r' /\ fold_recog L PS recog lineno (ps s) taken = inl p1 /\
              recog p1 l = inr c /\ ln = lineno p1 /\ llen l <= MAX_CAP)
          \/ (c = 3 /\ ln = 0) \/ (c = 4 /\ ln = lineno (ps s))
      end.
Proof. exact drive_shape. Qed.
Print Assumptions c09_long_line_dropped.

Definition ex_module : rle := map (fun b => (b, 1)) [77;79;68;85;76;69;32;97;32;98;32;99;32;100].   (* MODULE a b c d *)
Definition ex_file : rle := map (fun b => (b, 1)) [70;73;76;69;32;49;32;120].                       (* FILE 1 x *)
(* The symbol table.  [recog_pst] (C09/Grammar.v) returns the parsed records and [finish] builds the
   canonical table (finish_item + SymbolParser::finish: C08's range-map builder, the sorts, the
   zero-size filters, insert_win_stack_info).  If no complete line is longer than 80 KiB, an Ok
   result under any schedule is the fold of the recogniser over all lines, and its table is
   [finish] of that fold. *)
Theorem c09_table_spec :
  forall (lines : list rle) (tail : Z) (sch : list Z) p s,
    Forall (fun l => cllen l <= HALF_CAP) lines ->
    drive_c lines tail sch = Ret (ROk p, s) ->
    fold_recog rle pst recog_pst lineno_pst init_pst lines = inl p /\
    table_of (ROk p) =
    match fold_recog rle pst recog_pst lineno_pst init_pst lines with
    | inl q => obind (finish q) (fun t => Ret (Some t))
    | inr _ => Ret None
    end.
Proof. exact table_spec. Qed.
Print Assumptions c09_table_spec.

(* non-vacuity: a file with overlapping FUNCs, zero-size lines and inlinees, a CFI group: the table *)
Example c09_nonvacuous_table :
  let o := run_case [ex_module;
                     map (fun b => (b, 1)) [70;85;78;67;32;49;48;32;56;32;48;32;102];      (* FUNC 10 8 0 f *)
                     map (fun b => (b, 1)) [49;48;32;52;32;55;32;49];                        (* 10 4 7 1 *)
                     map (fun b => (b, 1)) [49;52;32;48;32;56;32;49];                        (* 14 0 8 1 *)
                     map (fun b => (b, 1)) [70;85;78;67;32;49;52;32;56;32;48;32;103];      (* FUNC 14 8 0 g *)
                     ex_file] 0 [3; 5] in
  (o_kind o, o_files o, o_funcs o,
   match o_table o with Some t => map (fun e => (fst e, zlen (sf_lines (snd e)))) (t_funcs t) | None => [] end)
  = (0, 1, 1, [((16, 23), 1)]).
Proof. vm_compute. reflexivity. Qed.

(* non-vacuity: a 200000-byte line between valid records is dropped, the parse succeeds and
   the records after it are seen (1 FILE id); the buffer ends at 160 KiB *)
Example c09_nonvacuous_drop :
  let o := run_case [ex_module; [(97, 200000)]; ex_file] 0 [] in
  (o_kind o, o_dropped o, o_files o, o_cap o, o_cb o) = (0, 1, 1, 163840, 200025).
Proof. vm_compute. reflexivity. Qed.

(* non-vacuity: the recogniser does reject lines (so the Err branch is inhabited) *)
Example c09_nonvacuous_err :
  let o := run_case [ex_module; map (fun b => (b, 1)) [70;79;79]] 0 [5] in
  (o_kind o, o_code o, o_line o) = (1, 1, 1).
Proof. vm_compute. reflexivity. Qed.

(* Known finding F-C09a (recorded, not fixed): when the over-long line is the header of a group, dropping it
   orphans its sub-lines.  Here every line but the over-long FUNC header is a valid record, the header is
   dropped (o_dropped = 1) exactly as c09_long_line_dropped says, and the parse still fails at the line
   record that follows it ("failed to parse file", line 3): "dropped" is not "as if the group were absent".
   The theorems above state what the driver does (replay of the decisions); they do not claim Ok here. *)
Example c09_known_overlong_header_witness :
  let o := run_case [ex_module;
                     map (fun b => (b, 1)) [73;78;70;79;32;120];                               (* INFO x *)
                     map (fun b => (b, 1)) [70;85;78;67;32;49;48;32;52;32;48;32] ++ [(78, 163840)];   (* FUNC 10 4 0 NNN... *)
                     map (fun b => (b, 1)) [49;48;32;52;32;49;32;49];                          (* 10 4 1 1 *)
                     ex_file] 0 [] in
  (o_kind o, o_code o, o_line o, o_dropped o) = (1, 1, 3, 1).
Proof. vm_compute. reflexivity. Qed.
Print Assumptions c09_known_overlong_header_witness.
(* ... and when a FUNC is open in front of it, the orphaned line record is attributed to that FUNC *)
Example c09_known_overlong_header_misattributed :
  let o := run_case [ex_module;
                     map (fun b => (b, 1)) [70;85;78;67;32;49;48;32;52;32;48;32;102];           (* FUNC 10 4 0 f *)
                     map (fun b => (b, 1)) [70;85;78;67;32;50;48;32;52;32;48;32] ++ [(78, 163840)];   (* FUNC 20 4 0 NNN... *)
                     map (fun b => (b, 1)) [50;48;32;52;32;49;32;49];                          (* 20 4 1 1 *)
                     ex_file] 0 [] in
  (o_kind o, o_dropped o,
   match o_table o with Some t => map (fun e => (fst e, map fst (sf_lines (snd e)))) (t_funcs t) | None => [] end)
  = (0, 1, [((16, 19), [(32, 35)])]).
Proof. vm_compute. reflexivity. Qed.
Print Assumptions c09_known_overlong_header_misattributed.

(* ================================================================== round 4 *)

(* The WHOLE parse never panics: the loop ends with Ok or Err (c09_total) and, on Ok, SymbolParser::finish —
   finish_item for every FUNC / STACK CFI INIT item (line tables through C08's range-map builder), the sorts,
   insert_win_stack_info with its `last_info.memory_range().unwrap()`, the four `try_from_iter(..).unwrap()` —
   returns a table: no Panic site of [finish] is reachable from a parser state the line recognisers can build
   (hex_str <= 8 / 16 digits, decimal_u32 <= u32::MAX keep every numeric field in range: [pst_wf]). *)
Theorem c09_parse_never_panics :
  forall (lines : list rle) (tail : Z) (sch : list Z),
    exists r s t, drive_c lines tail sch = Ret (r, s) /\ table_of r = Ret t.
Proof. exact parse_total. Qed.
Print Assumptions c09_parse_never_panics.

Theorem c09_parse_never_panics_bytes :
  forall (bytes : list Z) (sch : list Z),
    exists r s t, drive_c (map to_rle (fst (split_bytes bytes [])))
                          (Z.of_nat (length (snd (split_bytes bytes [])))) sch = Ret (r, s) /\ table_of r = Ret t.
Proof. exact parse_total_bytes. Qed.
Print Assumptions c09_parse_never_panics_bytes.

(* [finish] is total on every well-formed parser state, and the recognisers only build well-formed states *)
Theorem c09_finish_total :
  (forall p, pst_wf p -> exists t, finish p = Ret t) /\
  pst_wf init_pst /\
  (forall p s p', pst_wf p -> recog_pst p s = inl p' -> pst_wf p' /\ p_lines p' = p_lines p + 1).
Proof.
  split; [exact finish_total|]. split; [exact init_pst_wf|].
  intros p s p' W H. split; [exact (recog_pst_wf p s p' W H)|exact (recog_pst_lines p s p' H)].
Qed.
Print Assumptions c09_finish_total.

(* The u64 counters.  `total_consumed += amount as u64` and `parser.lines += 1` are unbounded additions in the
   model; at every loop head and at the end total_consumed <= |input| and parser.lines <= number of lines <= |input|,
   and both only grow: for an input of fewer than 2^64 bytes no addition overflows in either build profile. *)
Theorem c09_counters_fit_u64 :
  forall (lines : list rle) (tail : Z) (sch : list Z),
    input_len rle cllen lines tail < two64 ->
    (forall p s,
        iter_pos rle cllen pst recog_pst bump_pst lineno_pst p (init_st rle cllen pst init_pst lines tail sch) = Next s ->
        0 <= total s < two64 /\ 0 <= p_lines (ps s) < two64) /\
    (forall r s, drive_c lines tail sch = Ret (r, s) ->
        0 <= total s < two64 /\ 0 <= p_lines (ps s) < two64 /\ cbsum s = total s).
Proof.
  intros lines tail sch Hlt. pose proof (lines_le_bytes lines tail) as Hl. split.
  - intros p s H. destruct (counters_reach lines tail sch p s H) as [[? ?] [? ?]]. repeat split; Lia.lia.
  - intros r s H. destruct (counters_final lines tail sch r s H) as [[? ?] [[? ?] ?]]. repeat split; Lia.lia.
Qed.
Print Assumptions c09_counters_fit_u64.

(* The traced run (what the correspondence compares event by event: every read() as (space offered, bytes
   returned), every callback as slice length) goes through exactly the states of the run the theorems are about. *)
Theorem c09_trace_is_run :
  forall p s a, fst (iter_tr p s a) = iter_pos rle cllen pst recog_pst bump_pst lineno_pst p s.
Proof. exact iter_tr_run. Qed.
Print Assumptions c09_trace_is_run.

(* The model against the source.  coq/Gen/SymFileLoop.v is regenerated from sym_file/mod.rs and from the circular
   crate that Cargo.lock pins on every run (translate/symfile_loop.py: constants, every condition and flag
   assignment of both loops, min / shift conditions of circular::Buffer; it aborts if the statement skeleton
   changes).  One iteration of the model's loop IS the iteration assembled from those pieces — for parse and for
   parse_async. *)
Theorem c09_source_pins :
  (INITIAL_CAP = Pins.G.INITIAL_BUFFER_CAPACITY /\ MAX_CAP = Pins.G.MAX_BUFFER_CAPACITY /\
   HALF_CAP = Pins.G.MAX_BUFFER_CAPACITY / 2) /\
  (forall b n, consume b n = Pins.consume_src b n /\ fill b n = Pins.fill_src b n /\
               grow b n = Pins.grow_src b n /\ shift b = Pins.shift_src b) /\
  (forall (L : Type) (llen : L -> Z) (PS : Type) (recog : PS -> L -> PS + Z) (bump : PS -> PS) (lineno : PS -> Z) s,
      step L llen PS recog bump lineno s = Pins.step_src L llen PS recog bump lineno s /\
      step_async L llen PS recog bump lineno s = Pins.step_async_src L llen PS recog bump lineno s).
Proof. split; [exact Pins.pin_constants|]. split; [exact Pins.pin_circular|exact Pins.pin_step]. Qed.
Print Assumptions c09_source_pins.

(* non-vacuity: STACK WIN records that overlap (the branch with the unwrap) and a FUNC whose line table needs the
   range-map builder: finish returns a table; 2 frame-data entries after the length fix-up *)
Example c09_nonvacuous_finish :
  let o := run_case [ex_module;
                     map (fun b => (b, 1)) [83;84;65;67;75;32;87;73;78;32;52;32;49;48;32;49;48;32;48;32;48;32;48;32;48;32;48;32;48;32;49;32;120];  (* STACK WIN 4 10 10 0 0 0 0 0 0 1 x *)
                     map (fun b => (b, 1)) [83;84;65;67;75;32;87;73;78;32;52;32;49;52;32;99;32;48;32;48;32;48;32;48;32;48;32;48;32;49;32;121]]     (* STACK WIN 4 14 c 0 0 0 0 0 0 1 y *)
                    0 [] in
  (o_kind o, match o_table o with Some t => map fst (t_win_fd t) | None => [] end) = (0, [(16, 19); (20, 31)]).
Proof. vm_compute. reflexivity. Qed.

(* non-vacuity of the trace: a 200000-byte line: 4 grows to 160 KiB, discard iterations, one recovery *)
Example c09_nonvacuous_trace :
  let t := run_trace [ex_module; [(97, 200000)]; ex_file] 0 [] in
  (tr_grows t, tr_recovered t, 0 <? tr_discards t, 0 <? tr_shifts t, 0 <? tr_full_reads t) = (4, 1, true, true, true).
Proof. vm_compute. reflexivity. Qed.
