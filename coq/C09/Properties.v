(* C09/Properties.v — parsing a symbol file is total and bounded.
   Statements only; proofs are in C09/Proofs.v (driver) and C09/ProofsBytes.v (bytes <-> lines).
   [drive] is the loop of SymbolFile::parse over ANY line recogniser [recog] (C09/Model.v); the
   input is a list of complete lines ([llen l] bytes each, '\n' included) plus [tail] bytes
   without '\n'; the reader follows ANY schedule [sch] of read sizes. *)
From Coq Require Import ZArith List Bool.
From RM Require Import Base.Word C08.Model C11.Model C09.Model C09.Grammar C09.Driver C09.Proofs C09.ProofsBytes.
Import ListNotations.
Open Scope Z_scope.

(* Every run ends with Ok or Err — no panic site is reached and the loop body runs at most
   6*|input|+24 times ([drive] gives OutOfFuel beyond that). *)
Theorem c09_total :
  forall (L : Type) (llen : L -> Z) (PS : Type) (init_ps : PS)
         (recog : PS -> L -> PS + Z) (bump : PS -> PS) (lineno : PS -> Z),
    (forall l, 1 <= llen l) ->
    forall (lines : list L) (tail : Z) (sch : list Z),
    exists r s, drive L llen PS init_ps recog bump lineno lines tail sch = Ret (r, s).
Proof. exact total_thm. Qed.
Print Assumptions c09_total.

(* The same for byte strings and the byte-level model of the line parsers: every byte string
   is a list of lines plus a rest ([split_bytes], inverse of [join_bytes]). *)
Theorem c09_total_bytes :
  forall (bytes : list Z) (sch : list Z),
    join_bytes (fst (split_bytes bytes [])) (snd (split_bytes bytes [])) = bytes /\
    exists r s, drive_c (map to_rle (fst (split_bytes bytes [])))
                        (Z.of_nat (length (snd (split_bytes bytes [])))) sch = Ret (r, s).
Proof. exact total_bytes. Qed.
Print Assumptions c09_total_bytes.

(* In every reachable state the capacity is one of 10/20/40/80/160 KiB, the unparsed window
   fits in it, and the reader was never offered more than 160 KiB. *)
Theorem c09_bounded_window :
  forall (L : Type) (llen : L -> Z) (PS : Type) (init_ps : PS)
         (recog : PS -> L -> PS + Z) (bump : PS -> PS) (lineno : PS -> Z),
    (forall l, 1 <= llen l) ->
    forall (lines : list L) (tail : Z) (sch : list Z) (p : positive) (s : st L PS),
    iter_pos L llen PS recog bump lineno p (init_st L llen PS init_ps lines tail sch) = Next s ->
    In (b_cap (buf s)) [10240; 20480; 40960; 81920; 163840] /\
    0 <= avail (buf s) <= b_cap (buf s) /\ b_cap (buf s) <= MAX_CAP /\ 0 <= maxsp s <= MAX_CAP.
Proof. exact bounded_window_thm. Qed.
Print Assumptions c09_bounded_window.

(* ... and also in the state the run ends in. *)
Theorem c09_bounded_window_final :
  forall (L : Type) (llen : L -> Z) (PS : Type) (init_ps : PS)
         (recog : PS -> L -> PS + Z) (bump : PS -> PS) (lineno : PS -> Z),
    (forall l, 1 <= llen l) ->
    forall (lines : list L) (tail : Z) (sch : list Z) r s,
    drive L llen PS init_ps recog bump lineno lines tail sch = Ret (r, s) ->
    In (b_cap (buf s)) [10240; 20480; 40960; 81920; 163840] /\ 0 <= maxsp s <= MAX_CAP.
Proof. exact bounded_window_final_thm. Qed.
Print Assumptions c09_bounded_window_final.

(* Over-long lines.  Whatever the input and the schedule, the run disposes of the lines in
   order, each either shown to the recogniser or dropped (line counter bumped, open FUNC /
   STACK CFI INIT item kept): [ds] is that list of decisions, [replay] folds it.
   - a line that is shown to the recogniser has at most 163840 bytes with its '\n', so a line of
     >= 163840 content bytes is never parsed: it can only be dropped ([dec_ok]);
   - only lines of more than 81920 bytes are ever dropped;
   - Ok: all lines were disposed of and the parser state is the replay of the decisions;
   - Err: the recogniser rejected a line that fits the buffer (not an over-long one), or it is one
     of the two end-of-input errors. *)
Theorem c09_long_line_dropped :
  forall (L : Type) (llen : L -> Z) (PS : Type) (init_ps : PS)
         (recog : PS -> L -> PS + Z) (bump : PS -> PS) (lineno : PS -> Z),
    (forall l, 1 <= llen l) ->
    forall (lines : list L) (tail : Z) (sch : list Z) r s,
    drive L llen PS init_ps recog bump lineno lines tail sch = Ret (r, s) ->
    exists ds : list (bool * L),
      Forall (fun d : bool * L => if fst d then HALF_CAP < llen (snd d) else llen (snd d) <= MAX_CAP) ds /\
      lines = map snd ds ++ rest s /\
      replay L PS recog bump lineno init_ps ds = inl (ps s) /\
      match r with
      | ROk p => p = ps s /\ rest s = []
      | RErr c ln =>
          (exists taken l r' p1,
              rest s = taken ++ l :: r' /\ fold_recog L PS recog lineno (ps s) taken = inl p1 /\
              recog p1 l = inr c /\ ln = lineno p1 /\ llen l <= MAX_CAP)
          \/ (c = 3 /\ ln = 0) \/ (c = 4 /\ ln = lineno (ps s))
      end.
Proof. exact drive_shape. Qed.
Print Assumptions c09_long_line_dropped.

Definition ex_module : rle := map (fun b => (b, 1)) [77;79;68;85;76;69;32;97;32;98;32;99;32;100].   (* MODULE a b c d *)
Definition ex_file : rle := map (fun b => (b, 1)) [70;73;76;69;32;49;32;120].                       (* FILE 1 x *)
(* The symbol table.  [recog_pst] (C09/Grammar.v) returns the parsed records and [finish] builds the
   canonical table (finish_item + SymbolParser::finish: C08's range-map builder, the sorts, the
   zero-size filters, insert_win_stack_info).  If no complete line is longer than 80 KiB, an Ok
   result under any schedule is the fold of the recogniser over all lines, and its table is
   [finish] of that fold. *)
Theorem c09_table_spec :
  forall (lines : list rle) (tail : Z) (sch : list Z) p s,
    Forall (fun l => cllen l <= HALF_CAP) lines ->
    drive_c lines tail sch = Ret (ROk p, s) ->
    fold_recog rle pst recog_pst lineno_pst init_pst lines = inl p /\
    table_of (ROk p) =
    match fold_recog rle pst recog_pst lineno_pst init_pst lines with
    | inl q => obind (finish q) (fun t => Ret (Some t))
    | inr _ => Ret None
    end.
Proof. exact table_spec. Qed.
Print Assumptions c09_table_spec.

(* non-vacuity: a file with overlapping FUNCs, zero-size lines and inlinees, a CFI group: the table *)
Example c09_nonvacuous_table :
  let o := run_case [ex_module;
                     map (fun b => (b, 1)) [70;85;78;67;32;49;48;32;56;32;48;32;102];      (* FUNC 10 8 0 f *)
                     map (fun b => (b, 1)) [49;48;32;52;32;55;32;49];                        (* 10 4 7 1 *)
                     map (fun b => (b, 1)) [49;52;32;48;32;56;32;49];                        (* 14 0 8 1 *)
                     map (fun b => (b, 1)) [70;85;78;67;32;49;52;32;56;32;48;32;103];      (* FUNC 14 8 0 g *)
                     ex_file] 0 [3; 5] in
  (o_kind o, o_files o, o_funcs o,
   match o_table o with Some t => map (fun e => (fst e, zlen (sf_lines (snd e)))) (t_funcs t) | None => [] end)
  = (0, 1, 1, [((16, 23), 1)]).
Proof. vm_compute. reflexivity. Qed.

(* non-vacuity: a 200000-byte line between valid records is dropped, the parse succeeds and
   the records after it are seen (1 FILE id); the buffer ends at 160 KiB *)
Example c09_nonvacuous_drop :
  let o := run_case [ex_module; [(97, 200000)]; ex_file] 0 [] in
  (o_kind o, o_dropped o, o_files o, o_cap o, o_cb o) = (0, 1, 1, 163840, 200025).
Proof. vm_compute. reflexivity. Qed.

(* non-vacuity: the recogniser does reject lines (so the Err branch is inhabited) *)
Example c09_nonvacuous_err :
  let o := run_case [ex_module; map (fun b => (b, 1)) [70;79;79]] 0 [5] in
  (o_kind o, o_code o, o_line o) = (1, 1, 1).
Proof. vm_compute. reflexivity. Qed.

(* Known finding F-C09a (recorded, not fixed): when the over-long line is the header of a group, dropping it
   orphans its sub-lines.  Here every line but the over-long FUNC header is a valid record, the header is
   dropped (o_dropped = 1) exactly as c09_long_line_dropped says, and the parse still fails at the line
   record that follows it ("failed to parse file", line 3): "dropped" is not "as if the group were absent".
   The theorems above state what the driver does (replay of the decisions); they do not claim Ok here. *)
Example c09_known_overlong_header_witness :
  let o := run_case [ex_module;
                     map (fun b => (b, 1)) [73;78;70;79;32;120];                               (* INFO x *)
                     map (fun b => (b, 1)) [70;85;78;67;32;49;48;32;52;32;48;32] ++ [(78, 163840)];   (* FUNC 10 4 0 NNN... *)
                     map (fun b => (b, 1)) [49;48;32;52;32;49;32;49];                          (* 10 4 1 1 *)
                     ex_file] 0 [] in
  (o_kind o, o_code o, o_line o, o_dropped o) = (1, 1, 3, 1).
Proof. vm_compute. reflexivity. Qed.
Print Assumptions c09_known_overlong_header_witness.
(* ... and when a FUNC is open in front of it, the orphaned line record is attributed to that FUNC *)
Example c09_known_overlong_header_misattributed :
  let o := run_case [ex_module;
                     map (fun b => (b, 1)) [70;85;78;67;32;49;48;32;52;32;48;32;102];           (* FUNC 10 4 0 f *)
                     map (fun b => (b, 1)) [70;85;78;67;32;50;48;32;52;32;48;32] ++ [(78, 163840)];   (* FUNC 20 4 0 NNN... *)
                     map (fun b => (b, 1)) [50;48;32;52;32;49;32;49];                          (* 20 4 1 1 *)
                     ex_file] 0 [] in
  (o_kind o, o_dropped o,
   match o_table o with Some t => map (fun e => (fst e, map fst (sf_lines (snd e)))) (t_funcs t) | None => [] end)
  = (0, 1, [((16, 19), [(32, 35)])]).
Proof. vm_compute. reflexivity. Qed.
Print Assumptions c09_known_overlong_header_misattributed.
