(* C09/ProofsRecord4.v — round 5, second pass: INFO URL, INFO and MODULE records as declarative grammars over BYTES.
       info_url ::= "INFO URL" sp+ url cr*                 (url: no '\r', not starting with sp, well-formed UTF-8)
       info     ::= "INFO" sp+ raw cr*                     (raw: any bytes but '\r', not starting with sp; no UTF-8 check)
       module   ::= "MODULE" sp+ field sep field sep hexdigit+ sp+ file cr*
                    field = bytes other than ' ' '\r' '\n' (a tab is part of the field), well-formed UTF-8
                    sep   = ' ' sp*                        (non_space stops at ' ' only; space1 then also eats tabs) *)
From Coq Require Import Lia ZArith List Bool.
From RM Require Import Base.Word C08.Model C11.Model C09.Grammar C09.PinsNum C09.ProofsText C09.ProofsRecord C09.ProofsRecord2.
Import ListNotations.
Open Scope Z_scope.

(* ------------------------------------------------------------------ terminated(not_my_eol, my_eol) *)
Lemma raw_eol_sound s : raw_eol s = true ->
  exists raw crs, expand s = raw ++ crs /\ Forall (fun b => b <> 13) raw /\ Forall (fun b => b = 13) crs.
Proof.
  unfold raw_eol. destruct (span_not_split is_cr s) as (pre & r & A & B & C & D). rewrite A. intros H.
  exists (expand pre), (expand r). split; [rewrite B at 1; apply expand_app|]. split; [|apply eol_bytes; exact H].
  apply Forall_expand. eapply Forall_impl; [|exact C]. intros [b c]. cbn [fst]. unfold is_cr. rewrite Z.eqb_neq. auto.
Qed.

Lemma raw_eol_complete s raw crs : expand s = raw ++ crs -> Forall (fun b => b <> 13) raw -> Forall (fun b => b = 13) crs ->
  raw_eol s = true.
Proof.
  intros E Fr Fc. unfold raw_eol. destruct (span_not_split is_cr s) as (pre & r & A & B & C & D). rewrite A.
  assert (X : expand pre = raw /\ expand r = crs).
  { rewrite B, expand_app in E. apply (split_unique (fun b => b <> 13)); try assumption.
    - apply Forall_expand. eapply Forall_impl; [|exact C]. intros [b c]. cbn [fst]. unfold is_cr. rewrite Z.eqb_neq. auto.
    - destruct r as [|[b c] t]; [exact I|]. destruct (expand_cons_head b c t) as [x X]. rewrite X. cbn.
      unfold is_cr in D. apply Z.eqb_eq in D. intros Q. apply Q. exact D.
    - destruct crs; [exact I|]. cbn. inversion Fc; subst. intros Q. apply Q. reflexivity. }
  destruct X as [_ X]. apply eol_bytes. rewrite X. exact Fc.
Qed.

Definition info_line (l : list Z) : Prop :=
  exists sp0 raw crs, l = T_INFO ++ sp0 ++ raw ++ crs /\ spaces sp0 /\ starts (fun b => ~ sp_byte b) (raw ++ crs) /\
                      Forall (fun b => b <> 13) raw /\ Forall (fun b => b = 13) crs.

Lemma info_sound s it : p_info s = POk it -> it = IInfo /\ info_line (expand s).
Proof.
  unfold p_info. destruct (hdr T_INFO s) as [s1|] eqn:Hh; [|discriminate].
  unfold cutp, guard. destruct (raw_eol s1) eqn:R; [|discriminate]. intros HH. inversion HH. split; [reflexivity|].
  destruct (hdr_sound _ _ _ Hh) as (sp0 & A0 & B0 & C0).
  destruct (raw_eol_sound s1 R) as (raw & crs & A & B & C).
  exists sp0, raw, crs. rewrite A0, A. rewrite A in C0.
  split; [reflexivity|]. split; [exact B0|]. split; [exact C0|]. split; [exact B|exact C].
Qed.

Lemma info_complete s : info_line (expand s) -> p_info s = POk IInfo.
Proof.
  intros (sp0 & raw & crs & E & S0 & St & Fr & Fc).
  destruct (hdr_complete _ _ _ _ E S0 St) as (s1 & H0 & X0).
  unfold p_info. rewrite H0. unfold cutp, guard. rewrite (raw_eol_complete s1 raw crs X0 Fr Fc). reflexivity.
Qed.

Definition info_url_line (l : list Z) (u : list Z) : Prop :=
  exists sp0 crs, l = T_INFO_URL ++ sp0 ++ u ++ crs /\ spaces sp0 /\ text_tail u crs.

Lemma info_url_sound s it : p_info_url s = POk it ->
  exists n u, it = IUrl n /\ info_url_line (expand s) u /\ expand n = u.
Proof.
  unfold p_info_url. destruct (hdr T_INFO_URL s) as [s1|] eqn:Hh; [|discriminate].
  unfold cutp. destruct (name_eol s1) as [n|] eqn:H3; [|discriminate]. intros HH. inversion HH; subst it. clear HH.
  destruct (hdr_sound _ _ _ Hh) as (sp0 & A0 & B0 & C0).
  destruct (name_tail_sound _ _ H3 C0) as (u & crs & A3 & B3 & C3).
  exists n, u. split; [reflexivity|]. split; [|exact C3]. exists sp0, crs. rewrite A0, A3.
  split; [reflexivity|]. split; [exact B0|exact B3].
Qed.

Lemma info_url_complete s u : info_url_line (expand s) u -> exists n, p_info_url s = POk (IUrl n) /\ expand n = u.
Proof.
  intros (sp0 & crs & E & S0 & T).
  destruct (hdr_complete _ _ _ _ E S0 (proj1 T)) as (s1 & H0 & X0).
  destruct (name_tail_complete _ _ _ X0 T) as (n & H3 & X3).
  exists n. split; [|exact X3]. unfold p_info_url. rewrite H0, H3. reflexivity.
Qed.

(* ------------------------------------------------------------------ MODULE *)
Definition ns_stop (b : Z) : bool := (b =? 32) || (b =? 13) || (b =? 10).
Definition ns_byte (b : Z) : Prop := b <> 32 /\ b <> 13 /\ b <> 10.
Definition ns_field (f : list Z) : Prop := Forall ns_byte f /\ wf8 f.
Definition sep32 (sp : list Z) : Prop := exists t, sp = 32 :: t /\ Forall sp_byte t.

Lemma ns_stop_iff b : ns_stop b = false <-> ns_byte b.
Proof. unfold ns_stop, ns_byte. rewrite !orb_false_iff, !Z.eqb_neq. tauto. Qed.

Lemma sep32_spaces sp : sep32 sp -> spaces sp.
Proof. intros (t & -> & F). split; [discriminate|]. constructor; [left; reflexivity|exact F]. Qed.

Lemma nonspace_sp_sound s s' : nonspace_sp s = Some s' ->
  exists f sp, expand s = f ++ sp ++ expand s' /\ ns_field f /\ sep32 sp /\ starts (fun b => ~ sp_byte b) (expand s').
Proof.
  unfold nonspace_sp. fold ns_stop. destruct (span_not_split ns_stop s) as (pre & r & A & B & C & D). rewrite A.
  destruct (utf8_ok pre) eqn:U; [|discriminate]. intros H.
  destruct (space1_sound r s' H) as (sp & A1 & B1 & C1 & D1).
  exists (expand pre), sp. split; [rewrite B at 1; rewrite expand_app, A1; reflexivity|]. split.
  { split; [|apply utf8_run_wf; rewrite <- utf8_ok_bytes; exact U].
    apply Forall_expand. eapply Forall_impl; [|exact C]. intros a Ha. apply ns_stop_iff. exact Ha. }
  split; [|exact D1].
  (* the byte the field stopped at is one of ' ' '\r' '\n' and a space1 byte: it is ' ' *)
  destruct r as [|[b c] t]; [cbn in A1; destruct sp; [contradiction|discriminate]|].
  destruct (expand_cons_head b c t) as [x X]. rewrite X in A1. destruct sp as [|y u]; [contradiction|].
  cbn [app] in A1. inversion A1; subst y. inversion C1; subst.
  exists u. split; [|assumption]. f_equal. unfold ns_stop in D. rewrite !orb_true_iff, !Z.eqb_eq in D.
  match goal with H : sp_byte b |- _ => destruct H end; lia.
Qed.

Lemma nonspace_sp_complete s f sp r : expand s = f ++ sp ++ r -> ns_field f -> sep32 sp -> starts (fun b => ~ sp_byte b) r ->
  exists s', nonspace_sp s = Some s' /\ expand s' = r.
Proof.
  intros E (Ff & Wf) Hsep Sr. pose proof (sep32_spaces sp Hsep) as (Ns & Fs). destruct Hsep as (t & -> & Ft).
  unfold nonspace_sp. fold ns_stop. destruct (span_not_split ns_stop s) as (pre & r0 & A & B & C & D). rewrite A.
  assert (X : expand pre = f /\ expand r0 = (32 :: t) ++ r).
  { rewrite B, expand_app in E. apply (split_unique ns_byte); try assumption.
    - apply Forall_expand. eapply Forall_impl; [|exact C]. intros a Ha. apply ns_stop_iff. exact Ha.
    - destruct r0 as [|[b c] t0]; [exact I|]. destruct (expand_cons_head b c t0) as [x X]. rewrite X. cbn.
      intros Q. apply ns_stop_iff in Q. congruence.
    - cbn. unfold ns_byte. intros Q. destruct Q as [Q _]. apply Q. reflexivity. }
  destruct X as [X1 X2].
  assert (U : utf8_ok pre = true) by (rewrite utf8_ok_bytes, X1; apply utf8_run_wf; exact Wf). rewrite U.
  exact (space1_complete r0 (32 :: t) r X2 Ns Fs Sr).
Qed.

(* hex_digit1 (one or more hex digits, no limit) then space1 *)
Lemma hexdigit1_sp_sound s d s' : hexdigit1_sp s = Some (d, s') ->
  exists ds sp, expand s = ds ++ sp ++ expand s' /\ ds <> [] /\ hex_digits ds /\ spaces sp /\
                starts (fun b => ~ sp_byte b) (expand s') /\ expand d = ds.
Proof.
  unfold hexdigit1_sp. destruct s as [|[b c] t]; [discriminate|]. destruct (is_hex b) eqn:Hb; [|discriminate].
  destruct (span_not_split (fun b => negb (is_hex b)) ((b, c) :: t)) as (pre & r & A & B & C & D). rewrite A.
  destruct (space1 r) as [r'|] eqn:S; [|discriminate]. intros HH. inversion HH; subst d s'. clear HH.
  destruct (space1_sound r r' S) as (sp & A1 & B1 & C1 & D1).
  exists (expand pre), sp. split; [rewrite B at 1; rewrite expand_app, A1; reflexivity|]. split.
  { destruct pre as [|[b0 c0] p']; [|destruct (expand_cons_head b0 c0 p') as [x X]; rewrite X; discriminate].
    cbn [app] in B. subst r. rewrite Hb in D. discriminate. }
  split. { apply Forall_expand. eapply Forall_impl; [|exact C]. intros [x cx]. cbn [fst]. unfold is_hex.
           destruct (hexval x); [intros _; discriminate|discriminate]. }
  split; [split; assumption|]. split; [exact D1|apply rle_norm_bytes].
Qed.

Lemma hexdigit1_sp_complete s ds sp r : expand s = ds ++ sp ++ r -> ds <> [] -> hex_digits ds -> spaces sp ->
  starts (fun b => ~ sp_byte b) r -> exists d s', hexdigit1_sp s = Some (d, s') /\ expand s' = r /\ expand d = ds.
Proof.
  intros E N Hd (Ns & Fs) Sr. unfold hexdigit1_sp.
  destruct s as [|[b c] t]; [destruct ds; [contradiction|discriminate]|].
  assert (Hb : is_hex b = true).
  { destruct (expand_cons_head b c t) as [x X]. rewrite X in E. destruct ds as [|d0 dt]; [contradiction|].
    cbn [app] in E. inversion E; subst. inversion Hd; subst. unfold is_hex. destruct (hexval d0); [reflexivity|contradiction]. }
  rewrite Hb.
  destruct (span_not_split (fun b => negb (is_hex b)) ((b, c) :: t)) as (pre & r0 & A & B & C & D). rewrite A.
  assert (X : expand pre = ds /\ expand r0 = sp ++ r).
  { rewrite B, expand_app in E. apply (split_unique (fun b => hexval b <> None)); try assumption.
    - apply Forall_expand. eapply Forall_impl; [|exact C]. intros [x cx]. cbn [fst]. unfold is_hex.
      destruct (hexval x); [intros _; discriminate|discriminate].
    - destruct r0 as [|[b1 c1] t0]; [exact I|]. destruct (expand_cons_head b1 c1 t0) as [x X]. rewrite X. cbn.
      unfold is_hex in D. destruct (hexval b1); [discriminate|]. intros Q. apply Q. reflexivity.
    - destruct sp as [|y u]; [contradiction|]. cbn. inversion Fs; subst. intros Q. apply Q. apply sp_not_hex. assumption. }
  destruct X as [X1 X2].
  destruct (space1_complete r0 sp r X2 Ns Fs Sr) as (s' & S1 & S2). rewrite S1.
  eexists _, s'. split; [reflexivity|]. split; [exact S2|]. rewrite rle_norm_bytes. exact X1.
Qed.

Definition module_line (l : list Z) (id file : list Z) : Prop :=
  exists sp0 os sep1 cpu sep2 sp3 crs,
    l = T_MODULE ++ sp0 ++ os ++ sep1 ++ cpu ++ sep2 ++ id ++ sp3 ++ file ++ crs /\
    spaces sp0 /\ starts (fun b => ~ sp_byte b) (os ++ sep1 ++ cpu ++ sep2 ++ id ++ sp3 ++ file ++ crs) /\
    ns_field os /\ sep32 sep1 /\ starts (fun b => ~ sp_byte b) (cpu ++ sep2 ++ id ++ sp3 ++ file ++ crs) /\
    ns_field cpu /\ sep32 sep2 /\ id <> [] /\ hex_digits id /\ spaces sp3 /\ text_tail file crs.

Lemma module_sound s it : p_module s = POk it ->
  exists i f id file, it = IModule i f /\ module_line (expand s) id file /\ expand i = id /\ expand f = file.
Proof.
  unfold p_module. destruct (hdr T_MODULE s) as [s1|] eqn:Hh; [|discriminate].
  unfold cutp. destruct (nonspace_sp s1) as [s2|] eqn:H1; [|discriminate].
  destruct (nonspace_sp s2) as [s3|] eqn:H2; [|discriminate].
  destruct (hexdigit1_sp s3) as [[i s4]|] eqn:H3; [|discriminate].
  destruct (name_eol s4) as [f|] eqn:H4; [|discriminate]. intros HH. inversion HH; subst it. clear HH.
  destruct (hdr_sound _ _ _ Hh) as (sp0 & A0 & B0 & C0).
  destruct (nonspace_sp_sound _ _ H1) as (os & sep1 & A1 & B1 & C1 & D1).
  destruct (nonspace_sp_sound _ _ H2) as (cpu & sep2 & A2 & B2 & C2 & D2).
  destruct (hexdigit1_sp_sound _ _ _ H3) as (id & sp3 & A3 & B3 & C3 & D3 & E3 & F3).
  destruct (name_tail_sound _ _ H4 E3) as (file & crs & A4 & B4 & C4).
  exists i, f, id, file. split; [reflexivity|]. split; [|split; assumption].
  exists sp0, os, sep1, cpu, sep2, sp3, crs. rewrite A0. rewrite A1 in C0 |- *. rewrite A2 in D1, C0 |- *.
  rewrite A3 in D1, C0 |- *. rewrite A4 in D1, C0 |- *.
  split; [reflexivity|]. split; [exact B0|]. split; [exact C0|]. split; [exact B1|]. split; [exact C1|]. split; [exact D1|].
  split; [exact B2|]. split; [exact C2|]. split; [exact B3|]. split; [exact C3|]. split; [exact D3|exact B4].
Qed.

Lemma module_complete s id file : module_line (expand s) id file ->
  exists i f, p_module s = POk (IModule i f) /\ expand i = id /\ expand f = file.
Proof.
  intros (sp0 & os & sep1 & cpu & sep2 & sp3 & crs & E & S0 & St0 & F1 & P1 & St1 & F2 & P2 & Ni & Hi & S3 & T).
  destruct (hdr_complete _ _ _ _ E S0 St0) as (s1 & H0 & X0).
  destruct (nonspace_sp_complete _ _ _ _ X0 F1 P1 St1) as (s2 & H1 & X1).
  assert (St2 : starts (fun b => ~ sp_byte b) (id ++ sp3 ++ file ++ crs)).
  { destruct id as [|d t]; [contradiction|]. cbn. inversion Hi; subst. intros Q. apply sp_not_hex in Q. contradiction. }
  destruct (nonspace_sp_complete _ _ _ _ X1 F2 P2 St2) as (s3 & H2 & X2).
  destruct (hexdigit1_sp_complete _ _ _ _ X2 Ni Hi S3 (proj1 T)) as (i & s4 & H3 & X3 & Y3).
  destruct (name_tail_complete _ _ _ X3 T) as (f & H4 & X4).
  exists i, f. split; [|split; assumption]. unfold p_module. rewrite H0, H1, H2, H3, H4. reflexivity.
Qed.

(* "MODULE Linux x86 ABC1 a.pdb\r" has the shape of a MODULE record with id "ABC1" and file "a.pdb" *)
Lemma module_line_example :
  module_line (expand (to_rle [77; 79; 68; 85; 76; 69; 32; 76; 105; 110; 117; 120; 32; 120; 56; 54; 32; 65; 66; 67; 49; 32; 97; 46; 112; 100; 98; 13]))
              [65; 66; 67; 49] [97; 46; 112; 100; 98].
Proof.
  destruct (module_sound (to_rle [77; 79; 68; 85; 76; 69; 32; 76; 105; 110; 117; 120; 32; 120; 56; 54; 32; 65; 66; 67; 49; 32; 97; 46; 112; 100; 98; 13])
                         (IModule [(65, 1); (66, 1); (67, 1); (49, 1)] [(97, 1); (46, 1); (112, 1); (100, 1); (98, 1)]))
    as (i & f & id & file & E & Hl & X & Y); [vm_compute; reflexivity|].
  inversion E; subst. exact Hl.
Qed.
