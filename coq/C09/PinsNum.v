(* C09/PinsNum.v — round 5, second pass: the numeric helpers of parser.rs.
   coq/Gen/C09Numeric.v is `hex_str` / `decimal_u32` COMPILED from the Rust source (translate/c09_numeric.py), over plain
   byte lists, with the checked operators of both build profiles and the slice site `&input[k..]`.  Here:
   * the compiled functions never panic, for every byte list (any Z as a byte), in both profiles;
   * they are equal to the number recognisers of Grammar.v (which work on run-length encoded lines);
   * a declarative description of what they accept: the longest prefix of at most N digit bytes, non-empty; the value is the
     positional value; decimal_u32 additionally rejects values above u32::MAX; a byte >= 0x80 is never a digit. *)
From Coq Require Import Lia ZArith List Bool.
From RM Require Import Base.Word C08.Model C11.Model C09.Grammar Gen.C09Numeric.
Import ListNotations.
Open Scope Z_scope.

(* the bytes of a run-length encoded line *)
Fixpoint expand (s : rle) : list Z :=
  match s with
  | [] => []
  | (b, c) :: t => repeat b (Z.to_nat (Z.max 1 c)) ++ expand t
  end.

Lemma expand_to_rle l : expand (to_rle l) = l.
Proof.
  unfold to_rle. induction l as [|b t IH]; cbn [map expand]; [reflexivity|].
  change (Z.to_nat (Z.max 1 1)) with 1%nat. cbn [repeat app]. rewrite IH. reflexivity.
Qed.

Lemma uncons_expand s :
  match uncons s with
  | None => expand s = []
  | Some (b, s') => expand s = b :: expand s'
  end.
Proof.
  destruct s as [|[b c] t]; cbn [uncons]; [reflexivity|].
  destruct (c <=? 1) eqn:E.
  - cbn [expand]. replace (Z.max 1 c) with 1 by lia. reflexivity.
  - cbn [expand]. replace (Z.max 1 c) with c by lia. replace (Z.max 1 (c - 1)) with (c - 1) by lia.
    replace (Z.to_nat c) with (S (Z.to_nat (c - 1))) by lia. reflexivity.
Qed.

(* ------------------------------------------------------------------ char::to_digit vs the digit tables of Grammar.v *)
Lemma to_digit_16 b : to_digit b 16 = hexval b.
Proof.
  unfold to_digit, hexval.
  destruct (Z.leb_spec 48 b), (Z.leb_spec b 57), (Z.leb_spec 97 b), (Z.leb_spec b 122), (Z.leb_spec b 102),
           (Z.leb_spec 65 b), (Z.leb_spec b 90), (Z.leb_spec b 70); cbn [andb]; try lia;
  match goal with |- (if ?x <? ?y then _ else _) = _ => destruct (Z.ltb_spec x y) end;
  try lia; try reflexivity; f_equal; lia.
Qed.

Lemma to_digit_10 b : to_digit b 10 = decval b.
Proof.
  unfold to_digit, decval.
  destruct (Z.leb_spec 48 b), (Z.leb_spec b 57), (Z.leb_spec 97 b), (Z.leb_spec b 122),
           (Z.leb_spec 65 b), (Z.leb_spec b 90); cbn [andb]; try lia;
  match goal with |- (if ?x <? ?y then _ else _) = _ => destruct (Z.ltb_spec x y) end;
  try lia; try reflexivity; f_equal; lia.
Qed.

Lemma hexval_range b d : hexval b = Some d -> 0 <= d < 16.
Proof.
  unfold hexval.
  destruct ((48 <=? b) && (b <=? 57)) eqn:E1; [intros H; inversion H; lia|].
  destruct ((97 <=? b) && (b <=? 102)) eqn:E2; [intros H; inversion H; lia|].
  destruct ((65 <=? b) && (b <=? 70)) eqn:E3; [intros H; inversion H; lia|discriminate].
Qed.
Lemma decval_range b d : decval b = Some d -> 0 <= d < 10.
Proof. unfold decval. destruct ((48 <=? b) && (b <=? 57)) eqn:E1; [intros H; inversion H; lia|discriminate]. Qed.

(* a byte outside ASCII is never a digit *)
Lemma non_ascii_no_digit b : 128 <= b -> hexval b = None /\ decval b = None.
Proof.
  intros H. unfold hexval, decval.
  destruct (Z.leb_spec b 57), (Z.leb_spec b 102), (Z.leb_spec b 70); try lia.
  rewrite !andb_false_r. split; reflexivity.
Qed.

(* ------------------------------------------------------------------ machine arithmetic *)
Lemma chk_ok p w tag x : 0 <= x < 2 ^ w -> chk p w tag x = Ret x.
Proof.
  intros H. unfold chk. destruct (Z.leb_spec 0 x); [|lia]. destruct (Z.ltb_spec x (2 ^ w)); [|lia]. reflexivity.
Qed.

Lemma land_low a d : 0 <= d < 16 -> Z.land (a * 16) d = 0.
Proof.
  intros Hd. apply Z.bits_inj'. intros n Hn. rewrite Z.land_spec, Z.bits_0.
  change (a * 16) with (a * 2 ^ 4). rewrite <- Z.shiftl_mul_pow2 by lia.
  destruct (Z.lt_ge_cases n 4) as [L|G].
  - rewrite Z.shiftl_spec_low by lia. reflexivity.
  - assert (E : Z.testbit d n = false).
    { destruct (Z.eq_dec d 0) as [->|N]; [apply Z.bits_0|].
      apply Z.bits_above_log2; [lia|]. assert (Z.log2 d < 4) by (apply Z.log2_lt_pow2; [lia|]; change (2 ^ 4) with 16; lia). lia. }
    rewrite E. apply andb_false_r.
Qed.

Lemma lor_low a d : 0 <= d < 16 -> Z.lor (a * 16) d = a * 16 + d.
Proof.
  intros Hd. pose proof (land_low a d Hd) as L.
  rewrite (Z.add_nocarry_lxor _ _ L). symmetry. apply Z.lxor_lor. exact L.
Qed.

(* ------------------------------------------------------------------ the loop *)
Section Loop.
Context (body : Z * Z -> Z -> outcome (option (Z * Z))) (val : Z -> option Z) (base lim : Z).
Hypothesis base_pos : 0 < base.
Hypothesis val_range : forall b d, val b = Some d -> 0 <= d < base.
Hypothesis body_ok : forall acc k b, 0 <= acc -> (acc + 1) * base <= lim -> 0 <= k -> k + 1 < 2 ^ 64 ->
  body (acc, k) b = Ret (match val b with Some d => Some (acc * base + d, k + 1) | None => None end).
Hypothesis body_none : forall acc k b, val b = None -> body (acc, k) b = Ret None.

Lemma loop_is_digits : forall n s acc k v k' s',
  digits val base n s acc k = (v, k', s') -> 0 <= acc -> (acc + 1) * base ^ Z.of_nat n <= lim -> 0 <= k ->
  k + Z.of_nat n < 2 ^ 64 ->
  for_take n (expand s) body (acc, k) = Ret (v, k') /\
  expand s' = skipn (Z.to_nat (k' - k)) (expand s) /\ k <= k' /\ k' - k <= Z.of_nat (length (expand s)).
Proof.
  induction n as [|n IH]; intros s acc k v k' s' H Ha Hl Hk Hk2.
  - cbn [digits] in H. inversion H; subst. cbn [for_take]. rewrite Z.sub_diag. cbn [Z.to_nat skipn].
    repeat split; try reflexivity; lia.
  - cbn [digits] in H. pose proof (uncons_expand s) as U.
    assert (HP : 0 < base ^ Z.of_nat n) by (apply Z.pow_pos_nonneg; lia).
    rewrite Nat2Z.inj_succ, Z.pow_succ_r in Hl by lia.
    destruct (uncons s) as [[b s1]|].
    + rewrite U. cbn [for_take].
      destruct (val b) as [d|] eqn:Ed.
      * pose proof (val_range _ _ Ed) as Hd.
        assert (Hstep : (acc + 1) * base <= lim).
        { assert ((acc + 1) * base * 1 <= (acc + 1) * base * base ^ Z.of_nat n) by (apply Z.mul_le_mono_nonneg_l; nia). nia. }
        rewrite body_ok by lia. rewrite Ed. cbn [obind].
        assert (Hl' : (acc * base + d + 1) * base ^ Z.of_nat n <= lim).
        { assert ((acc * base + d + 1) * base ^ Z.of_nat n <= ((acc + 1) * base) * base ^ Z.of_nat n)
            by (apply Z.mul_le_mono_nonneg_r; nia). nia. }
        assert (H0 : 0 <= acc * base + d) by nia.
        destruct (IH s1 (acc * base + d) (k + 1) v k' s' H H0 Hl' ltac:(lia) ltac:(lia)) as (A & B & C & D).
        split; [exact A|]. split.
        { replace (Z.to_nat (k' - k)) with (S (Z.to_nat (k' - (k + 1)))) by lia. cbn [skipn]. exact B. }
        split; [lia|]. cbn [length]. lia.
      * inversion H; subst. rewrite body_none by assumption. cbn [obind]. rewrite Z.sub_diag. cbn [Z.to_nat skipn].
        repeat split; try lia; try exact U.
    + inversion H; subst. rewrite U. cbn [for_take]. rewrite Z.sub_diag. cbn [Z.to_nat skipn].
      repeat split; try lia; try (symmetry; exact U).
Qed.

(* what [digits] accepts, declaratively: the longest prefix of at most n digit bytes *)
Definition is_digit (b : Z) : Prop := val b <> None.
Definition dvalue (acc : Z) (ds : list Z) : Z :=
  fold_left (fun a b => a * base + match val b with Some d => d | None => 0 end) ds acc.
Definition stops (l : list Z) : Prop := match l with [] => True | b :: _ => val b = None end.

Lemma digits_grammar : forall n s acc k v k' s',
  digits val base n s acc k = (v, k', s') ->
  exists ds, expand s = ds ++ expand s' /\ Z.of_nat (length ds) = k' - k /\ (length ds <= n)%nat /\
             Forall is_digit ds /\ v = dvalue acc ds /\ (length ds = n \/ stops (expand s')).
Proof.
  induction n as [|n IH]; intros s acc k v k' s' H.
  - cbn [digits] in H. inversion H; subst. exists []. cbn. repeat split; try lia; auto.
  - cbn [digits] in H. pose proof (uncons_expand s) as U.
    destruct (uncons s) as [[b s1]|].
    + destruct (val b) as [d|] eqn:Ed.
      * destruct (IH _ _ _ _ _ _ H) as (ds & A & B & C & D & E & F).
        exists (b :: ds). rewrite U, A. cbn [app length dvalue fold_left]. rewrite Ed.
        repeat split; try lia; auto.
        -- constructor; [unfold is_digit; congruence|assumption].
        -- destruct F as [F|F]; [left; lia|right; exact F].
      * inversion H; subst. exists []. cbn. repeat split; try lia; auto. right. rewrite U. exact Ed.
    + inversion H; subst. exists []. cbn. repeat split; try lia; auto. right. rewrite U. exact I.
Qed.

Lemma dvalue_bound : forall ds acc, 0 <= acc -> 0 <= dvalue acc ds /\ dvalue acc ds + 1 <= (acc + 1) * base ^ Z.of_nat (length ds).
Proof.
  induction ds as [|b t IH]; intros acc Ha; cbn [dvalue fold_left length].
  - change (base ^ Z.of_nat 0) with 1. lia.
  - assert (Hd : 0 <= match val b with Some d => d | None => 0 end < base).
    { destruct (val b) eqn:E; [eapply val_range; eassumption|lia]. }
    set (d := match val b with Some d => d | None => 0 end) in *.
    destruct (IH (acc * base + d)) as [A B]; [nia|]. fold (dvalue (acc * base + d) t). split; [exact A|].
    assert (HP : 0 < base ^ Z.of_nat (length t)) by (apply Z.pow_pos_nonneg; lia).
    rewrite Nat2Z.inj_succ, Z.pow_succ_r by lia.
    assert ((acc * base + d + 1) * base ^ Z.of_nat (length t) <= ((acc + 1) * base) * base ^ Z.of_nat (length t))
      by (apply Z.mul_le_mono_nonneg_r; nia).
    lia.
Qed.
End Loop.

(* ------------------------------------------------------------------ the two compiled bodies *)
Lemma hex_body_ok p sz : forall acc k b, 0 <= acc -> (acc + 1) * 16 <= 2 ^ (sz * 8) -> 0 <= k -> k + 1 < 2 ^ 64 ->
  hex_str_body p sz (acc, k) b = Ret (match hexval b with Some d => Some (acc * 16 + d, k + 1) | None => None end).
Proof.
  intros acc k b Ha Hl Hk Hk2. unfold hex_str_body. rewrite to_digit_16.
  destruct (hexval b) as [d|] eqn:Ed; [|reflexivity].
  pose proof (hexval_range _ _ Ed) as Hd.
  unfold chk_add. rewrite chk_ok by lia. cbn [obind].
  unfold shl_w. change (2 ^ 4) with 16. rewrite (Z.mod_small (acc * 16)) by lia.
  rewrite (Z.mod_small d 256) by lia. rewrite lor_low by assumption. reflexivity.
Qed.
Lemma hex_body_none p sz acc k b : hexval b = None -> hex_str_body p sz (acc, k) b = Ret None.
Proof. intros H. unfold hex_str_body. rewrite to_digit_16, H. reflexivity. Qed.

Lemma dec_body_ok p : forall acc k b, 0 <= acc -> (acc + 1) * 10 <= 2 ^ 64 -> 0 <= k -> k + 1 < 2 ^ 64 ->
  decimal_u32_body p (acc, k) b = Ret (match decval b with Some d => Some (acc * 10 + d, k + 1) | None => None end).
Proof.
  intros acc k b Ha Hl Hk Hk2. unfold decimal_u32_body. cbv zeta. rewrite to_digit_10.
  destruct (decval b) as [d|] eqn:Ed; [|reflexivity].
  pose proof (decval_range _ _ Ed) as Hd.
  unfold chk_mul, chk_add. rewrite (chk_ok p 64 _ (acc * 10)) by lia. cbn [obind].
  rewrite (chk_ok p 64 _ (acc * 10 + d)) by lia. cbn [obind].
  rewrite chk_ok by lia. reflexivity.
Qed.
Lemma dec_body_none p acc k b : decval b = None -> decimal_u32_body p (acc, k) b = Ret None.
Proof. intros H. unfold decimal_u32_body. cbv zeta. rewrite to_digit_10, H. reflexivity. Qed.

(* ------------------------------------------------------------------ compiled source = Grammar.v *)
Definition lift (o : option (Z * rle)) : option (list Z * Z) :=
  match o with Some (v, s') => Some (expand s', v) | None => None end.

Lemma hex_src_is_grammar p sz nd : (sz = 4 /\ nd = 8%nat) \/ (sz = 8 /\ nd = 16%nat) -> forall s,
  hex_str_src p sz (expand s) = Ret (lift (Grammar.hex_str nd s)).
Proof.
  intros Hsz s. unfold hex_str_src, Grammar.hex_str.
  assert (E2 : chk_mul p 64 9511 sz 2 = Ret (Z.of_nat nd)).
  { unfold chk_mul. destruct Hsz as [[-> ->]|[-> ->]]; apply chk_ok; cbn; lia. }
  rewrite E2. cbn [obind]. cbv zeta. rewrite Nat2Z.id.
  destruct (digits hexval 16 nd s 0 0) as [[v k'] s'] eqn:E.
  assert (P1 : (0 + 1) * 16 ^ Z.of_nat nd <= 2 ^ (sz * 8)) by (destruct Hsz as [[-> ->]|[-> ->]]; vm_compute; discriminate).
  assert (P2 : 0 + Z.of_nat nd < 2 ^ 64) by (destruct Hsz as [[_ ->]|[_ ->]]; vm_compute; reflexivity).
  destruct (loop_is_digits (hex_str_body p sz) hexval 16 (2 ^ (sz * 8)) ltac:(lia) hexval_range
              (hex_body_ok p sz) (hex_body_none p sz) nd s 0 0 v k' s' E ltac:(lia) P1 ltac:(lia) P2) as (A & B & C & D).
  rewrite A. cbn [obind]. rewrite Z.sub_0_r in B, D.
  destruct (k' =? 0); [reflexivity|].
  unfold slice_from. destruct (Z.leb_spec 0 k'); [|lia]. destruct (Z.leb_spec k' (Z.of_nat (length (expand s)))); [|lia].
  cbn [andb obind lift]. rewrite B. reflexivity.
Qed.

Lemma dec_src_is_grammar p : forall s, decimal_u32_src p (expand s) = Ret (lift (Grammar.decimal_u32 s)).
Proof.
  intros s. unfold decimal_u32_src, Grammar.decimal_u32. cbv zeta.
  change (Z.to_nat 10) with 10%nat.
  destruct (digits decval 10 10%nat s 0 0) as [[v k'] s'] eqn:E.
  assert (P1 : (0 + 1) * 10 ^ Z.of_nat 10 <= 2 ^ 64) by (vm_compute; discriminate).
  assert (P2 : 0 + Z.of_nat 10 < 2 ^ 64) by (vm_compute; reflexivity).
  destruct (loop_is_digits (decimal_u32_body p) decval 10 (2 ^ 64) ltac:(lia) decval_range
              (dec_body_ok p) (dec_body_none p) 10%nat s 0 0 v k' s' E ltac:(lia) P1 ltac:(lia) P2) as (A & B & C & D).
  rewrite A. cbn [obind]. rewrite Z.sub_0_r in B, D.
  destruct (k' =? 0); [reflexivity|].
  destruct (Z.leb_spec v U32MAX) as [L|G].
  - destruct (Z.ltb_spec U32MAX v); [lia|].
    unfold slice_from. destruct (Z.leb_spec 0 k'); [|lia]. destruct (Z.leb_spec k' (Z.of_nat (length (expand s)))); [|lia].
    cbn [andb obind lift]. rewrite B. reflexivity.
  - destruct (Z.ltb_spec U32MAX v); [|lia]. reflexivity.
Qed.

(* ------------------------------------------------------------------ declarative grammar of the compiled functions *)
Definition hexdigits (ds : list Z) : Prop := Forall (fun b => hexval b <> None) ds.
Definition decdigits (ds : list Z) : Prop := Forall (fun b => decval b <> None) ds.
Definition hex_stops (l : list Z) : Prop := match l with [] => True | b :: _ => hexval b = None end.
Definition dec_stops (l : list Z) : Prop := match l with [] => True | b :: _ => decval b = None end.

(* hex_str::<u32> (sz = 4, 8 digits) / hex_str::<u64> (sz = 8, 16 digits), any byte list, both profiles:
   never a panic; error iff the input does not start with a hex digit; otherwise the longest prefix of at most 2*sz hex
   digits is consumed and its positional value (< 2^(8*sz)) returned *)
Lemma hex_src_grammar p sz nd : (sz = 4 /\ nd = 8%nat) \/ (sz = 8 /\ nd = 16%nat) -> forall input,
  (hex_str_src p sz input = Ret None /\ hex_stops input) \/
  (exists ds rest, hex_str_src p sz input = Ret (Some (rest, dvalue hexval 16 0 ds)) /\ input = ds ++ rest /\ ds <> [] /\
                   (length ds <= nd)%nat /\ hexdigits ds /\ (length ds = nd \/ hex_stops rest) /\
                   0 <= dvalue hexval 16 0 ds < 2 ^ (8 * sz)).
Proof.
  intros Hsz input. rewrite <- (expand_to_rle input). set (s := to_rle input).
  rewrite (hex_src_is_grammar p sz nd Hsz). unfold Grammar.hex_str.
  destruct (digits hexval 16 nd s 0 0) as [[v k'] s'] eqn:E.
  destruct (digits_grammar hexval 16 nd s 0 0 v k' s' E) as (ds & A & B & C & D & V & F).
  destruct (Z.eqb_spec k' 0) as [K|K].
  - left. split; [reflexivity|]. destruct ds as [|? ?]; [|cbn [length] in B; lia].
    cbn [app] in A. rewrite A. destruct F as [F|F]; [|exact F].
    cbn [length] in F. subst nd. destruct Hsz as [[_ X]|[_ X]]; discriminate.
  - right. exists ds, (expand s'). cbn [lift]. rewrite V.
    split; [reflexivity|]. split; [exact A|]. split; [intros ->; cbn [length] in B; lia|].
    split; [exact C|]. split; [exact D|]. split; [exact F|].
    destruct (dvalue_bound hexval 16 ltac:(lia) hexval_range ds 0 ltac:(lia)) as [V0 V1]. split; [exact V0|].
    assert (16 ^ Z.of_nat (length ds) <= 16 ^ Z.of_nat nd) by (apply Z.pow_le_mono_r; lia).
    assert (16 ^ Z.of_nat nd = 2 ^ (8 * sz)) by (destruct Hsz as [[-> ->]|[-> ->]]; reflexivity).
    lia.
Qed.

(* decimal_u32, any byte list, both profiles: never a panic (the u64 accumulator cannot overflow within 10 digits);
   error iff the input does not start with a decimal digit or the value of the (at most 10) digits exceeds u32::MAX *)
Lemma dec_src_grammar p : forall input,
  (decimal_u32_src p input = Ret None /\ dec_stops input) \/
  (exists ds rest, input = ds ++ rest /\ ds <> [] /\ (length ds <= 10)%nat /\ decdigits ds /\
                   (length ds = 10%nat \/ dec_stops rest) /\ 0 <= dvalue decval 10 0 ds < 10 ^ 10 /\
                   decimal_u32_src p input =
                   Ret (if dvalue decval 10 0 ds <=? U32MAX then Some (rest, dvalue decval 10 0 ds) else None)).
Proof.
  intros input. rewrite <- (expand_to_rle input). set (s := to_rle input).
  rewrite (dec_src_is_grammar p). unfold Grammar.decimal_u32.
  destruct (digits decval 10 10%nat s 0 0) as [[v k'] s'] eqn:E.
  destruct (digits_grammar decval 10 10%nat s 0 0 v k' s' E) as (ds & A & B & C & D & V & F).
  destruct (Z.eqb_spec k' 0) as [K|K].
  - left. split; [reflexivity|]. destruct ds as [|? ?]; [|cbn [length] in B; lia].
    cbn [app] in A. rewrite A. destruct F as [F|F]; [discriminate|exact F].
  - right. exists ds, (expand s'). rewrite V.
    split; [exact A|]. split; [intros ->; cbn [length] in B; lia|].
    split; [exact C|]. split; [exact D|]. split; [exact F|].
    destruct (dvalue_bound decval 10 ltac:(lia) decval_range ds 0 ltac:(lia)) as [V0 V1].
    assert (10 ^ Z.of_nat (length ds) <= 10 ^ Z.of_nat 10) by (apply Z.pow_le_mono_r; lia).
    change (10 ^ Z.of_nat 10) with (10 ^ 10) in *.
    split; [lia|].
    destruct (Z.ltb_spec U32MAX (dvalue decval 10 0 ds)); destruct (Z.leb_spec (dvalue decval 10 0 ds) U32MAX); try lia; reflexivity.
Qed.
