(* C09/ProofsFinal.v — round 4: the whole parse (loop + SymbolParser::finish) never panics; the u64 counters
   total_consumed and parser.lines are bounded by the input. *)
From Coq Require Import Lia ZArith List Bool.
From RM Require Import Base.Word C08.Model C11.Model C09.Model C09.Grammar C09.Driver C09.Proofs C09.ProofsBytes C09.ProofsFinish.
Import ListNotations.
Open Scope Z_scope.

(* every parser state the loop can end in is well formed: it is the replay of a list of decisions *)
Lemma final_pst_wf : forall lines tail sch r s,
  drive_c lines tail sch = Ret (r, s) ->
  pst_wf (ps s) /\ 0 <= p_lines (ps s) <= Z.of_nat (length lines).
Proof.
  intros lines tail sch r s H. unfold drive_c in H.
  destruct (drive_shape rle cllen pst init_pst recog_pst bump_pst lineno_pst cllen_pos lines tail sch r s H)
    as [ds [_ [Hl [Hr _]]]].
  destruct (replay_wf ds init_pst (ps s) init_pst_wf Hr) as [W N].
  split; [exact W|]. rewrite N. cbn [init_pst p_lines].
  rewrite Hl, app_length, map_length. lia.
Qed.

(* loop + finish: Ok with a table, or Err — never Panic, never out of fuel *)
Lemma parse_total : forall lines tail sch,
  exists r s t, drive_c lines tail sch = Ret (r, s) /\ table_of r = Ret t.
Proof.
  intros lines tail sch.
  destruct (drive_fin rle cllen pst init_pst recog_pst bump_pst lineno_pst cllen_pos lines tail sch) as [r [s [H _]]].
  fold (drive_c lines tail sch) in H.
  destruct r as [p|c ln].
  - destruct (final_pst_wf lines tail sch (ROk p) s H) as [W _].
    destruct (drive_shape rle cllen pst init_pst recog_pst bump_pst lineno_pst cllen_pos lines tail sch (ROk p) s H)
      as [ds [_ [_ [_ [Hp _]]]]]. subst p.
    destruct (finish_total (ps s) W) as [t Ht].
    exists (ROk (ps s)), s, (Some t). split; [exact H|]. cbn [table_of]. rewrite Ht. reflexivity.
  - exists (RErr c ln), s, None. split; [exact H|reflexivity].
Qed.

Lemma parse_total_bytes : forall (bytes : list Z) (sch : list Z),
  exists r s t, drive_c (map to_rle (fst (split_bytes bytes [])))
                        (Z.of_nat (length (snd (split_bytes bytes [])))) sch = Ret (r, s) /\ table_of r = Ret t.
Proof. intros. apply parse_total. Qed.

(* total_consumed and parser.lines at every loop head and at the end *)
Lemma counters_reach : forall lines tail sch p s,
  iter_pos rle cllen pst recog_pst bump_pst lineno_pst p (init_st rle cllen pst init_pst lines tail sch) = Next s ->
  0 <= total s <= input_len rle cllen lines tail /\ 0 <= p_lines (ps s) <= Z.of_nat (length lines).
Proof.
  intros lines tail sch p s H.
  pose proof (reach_wf' rle cllen pst init_pst recog_pst bump_pst lineno_pst cllen_pos lines tail sch p s H) as W.
  destruct W as [M _ _ _].
  destruct M as [wf_geom0 _ _ wf_off0 _ wf_sum0 wf_unread0 _ _ _ _ _ wf_total0 _ wf_lines0 wf_replay0 _].
  pose proof (size_nonneg rle cllen pst init_pst recog_pst bump_pst lineno_pst cllen_pos (map snd (rev (log s)))).
  destruct wf_geom0 as [? [? ?]]. destruct wf_off0 as [? _]. unfold avail in *.
  split; [lia|].
  destruct (replay_wf (rev (log s)) init_pst (ps s) init_pst_wf wf_replay0) as [_ N].
  rewrite N. cbn [init_pst p_lines].
  assert (E : length lines = (length (rev (log s)) + length (rest s))%nat).
  { rewrite wf_lines0 at 1. rewrite app_length, map_length. reflexivity. }
  rewrite E. lia.
Qed.

Lemma counters_final : forall lines tail sch r s,
  drive_c lines tail sch = Ret (r, s) ->
  0 <= total s <= input_len rle cllen lines tail /\ 0 <= p_lines (ps s) <= Z.of_nat (length lines) /\
  cbsum s = total s.
Proof.
  intros lines tail sch r s H.
  destruct (drive_callback rle cllen pst init_pst recog_pst bump_pst lineno_pst cllen_pos lines tail sch r s H) as [C [T _]].
  destruct (final_pst_wf lines tail sch r s H) as [_ N]. repeat split; try lia.
Qed.

(* number of lines <= number of bytes: one '\n' each *)
Lemma lines_le_bytes : forall lines tail, Z.of_nat (length lines) <= input_len rle cllen lines tail.
Proof.
  intros lines tail. unfold input_len.
  assert (Z.of_nat (length lines) <= Model.size rle cllen lines).
  { induction lines as [|l t IH]; cbn [length Model.size]; [lia|]. pose proof (cllen_pos l). lia. }
  lia.
Qed.
