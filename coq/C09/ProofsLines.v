(* C09/ProofsLines.v — round 5: the description of data() that C09/Model.v works with ([rest], [off], [avail];
   "first newline at llen - off - 1"; "parse_more walks over the complete lines that fit") against the real bytes
   of the byte-level run (C09/Circular.v): searching '\n' in the bytes of data() gives Model.first_nl, and the
   prefix of data() up to its last '\n' is the concatenation of the lines Model.pm walks over. *)
From Coq Require Import Lia ZArith List Bool.
From RM Require Import Base.Word C09.Model C09.Circular C09.Proofs C09.ProofsCircular.
Import ListNotations.
Open Scope Z_scope.

Definition no_nl (d : list Z) : Prop := Forall (fun c => c <> 10) d.

Lemma no_nl_firstn : forall n d, no_nl d -> no_nl (firstn n d).
Proof.
  induction n as [|n IH]; intros d H; [constructor|]. destruct d as [|c t]; [constructor|].
  inversion H; subst. cbn [firstn]. constructor; [assumption|apply IH; assumption].
Qed.

Lemma no_nl_skipn : forall n d, no_nl d -> no_nl (skipn n d).
Proof.
  induction n as [|n IH]; intros d H; [exact H|]. destruct d as [|c t]; [constructor|].
  inversion H; subst. cbn [skipn]. apply IH. assumption.
Qed.

Lemma position_none : forall d i, no_nl d -> position_nl d i = None.
Proof.
  induction d as [|c t IH]; intros i H; [reflexivity|]. inversion H; subst. cbn [position_nl].
  destruct (c =? 10) eqn:E; [apply Z.eqb_eq in E; contradiction|]. apply IH. assumption.
Qed.

Lemma position_pre : forall pre post a i, no_nl pre ->
  position_nl (firstn a (pre ++ 10 :: post)) i =
  if (length pre <? a)%nat then Some (i + Z.of_nat (length pre)) else None.
Proof.
  induction pre as [|c t IH]; intros post a i H.
  - cbn [app length]. destruct a as [|a]; [reflexivity|]. cbn [firstn position_nl Z.eqb Pos.eqb Nat.ltb Nat.leb].
    f_equal. lia.
  - inversion H; subst. cbn [app length]. destruct a as [|a]; [reflexivity|].
    cbn [firstn position_nl]. destruct (c =? 10) eqn:E; [apply Z.eqb_eq in E; contradiction|].
    rewrite IH by assumption. change (S (length t) <? S a)%nat with (length t <? a)%nat.
    destruct (length t <? a)%nat; [f_equal; lia|reflexivity].
Qed.

Lemma trim_pre : forall pre d, trim_nl (pre ++ 10 :: d) = pre ++ 10 :: trim_nl d.
Proof.
  induction pre as [|c t IH]; intros d.
  - cbn [app trim_nl Z.eqb Pos.eqb]. destruct (trim_nl d); reflexivity.
  - cbn [app trim_nl]. rewrite IH. destruct t; reflexivity.
Qed.

Lemma trim_none : forall d, no_nl d -> trim_nl d = [].
Proof.
  induction d as [|c t IH]; intros H; [reflexivity|]. inversion H; subst. cbn [trim_nl]. rewrite IH by assumption.
  destruct (c =? 10) eqn:E; [apply Z.eqb_eq in E; contradiction|reflexivity].
Qed.

Lemma trim_prefix : forall d, exists r, d = trim_nl d ++ r.
Proof.
  induction d as [|c t [r IH]]; [exists []; reflexivity|]. cbn [trim_nl].
  destruct (trim_nl t) as [|y ys] eqn:E.
  - destruct (c =? 10); [exists t; reflexivity|exists (c :: t); reflexivity].
  - exists r. cbn [app]. f_equal. exact IH.
Qed.

Lemma zskipn_app_exact : forall A (a b : list A) k, 0 <= k ->
  zskipn (zlength a + k) (a ++ b) = zskipn k b.
Proof.
  intros A a b k Hk. unfold zskipn, zlength.
  replace (Z.to_nat (Z.of_nat (length a) + k)) with (length a + Z.to_nat k)%nat by lia.
  rewrite <- skipn_add. rewrite skipn_app, Nat.sub_diag, skipn_all. reflexivity.
Qed.

Section Lines.
  Variable L : Type.
  Variable llen : L -> Z.
  Variable bytes_of : L -> list Z.
  (* a line is its content, which has no '\n', followed by '\n'; [llen] is its length *)
  Hypothesis bytes_ok : forall l, exists body, bytes_of l = body ++ [10] /\ no_nl body /\ zlength (bytes_of l) = llen l.

  Definition cat (ls : list L) : list Z := flat_map bytes_of ls.

  Lemma llen_pos' : forall l, 1 <= llen l.
  Proof.
    intros l. destruct (bytes_ok l) as [body [E [_ HL]]]. rewrite <- HL, E, zlength_app.
    pose proof (zlength_nonneg _ body). unfold zlength at 2. cbn [length]. lia.
  Qed.

  Lemma cat_length : forall ls, zlength (cat ls) = size L llen ls.
  Proof.
    induction ls as [|l t IH]; [reflexivity|]. cbn [cat flat_map Model.size]. rewrite zlength_app.
    destruct (bytes_ok l) as [_ [_ [_ HL]]]. fold (cat t). rewrite IH, HL. reflexivity.
  Qed.

  Lemma cat_app : forall a b, cat (a ++ b) = cat a ++ cat b.
  Proof. intros. unfold cat. apply flat_map_app. Qed.

  (* the newline search on the bytes of data() *)
  Lemma position_window : forall (ls : list L) (tl : list Z) (off av : Z), no_nl tl ->
    0 <= off -> 0 <= av -> match ls with l :: _ => off < llen l | [] => True end ->
    position_nl (zfirstn av (zskipn off (cat ls ++ tl))) 0 =
    match ls with
    | l :: _ => let d := llen l - off in if d <=? av then Some (d - 1) else None
    | [] => None
    end.
  Proof.
    intros ls tl off av Htl Ho Ha Hoff. destruct ls as [|l t].
    - cbn [cat flat_map app]. apply position_none. apply no_nl_firstn, no_nl_skipn. exact Htl.
    - destruct (bytes_ok l) as [body [E [Hb HL]]]. cbn [cat flat_map]. rewrite E.
      rewrite E, zlength_app in HL. unfold zlength in HL. cbn [length] in HL.
      rewrite <- !app_assoc. cbn [app]. unfold zskipn, zfirstn.
      rewrite skipn_app. replace (Z.to_nat off - length body)%nat with 0%nat by lia. cbn [skipn].
      rewrite position_pre by (apply no_nl_skipn; exact Hb).
      rewrite skipn_length. cbv zeta.
      destruct (llen l - off <=? av) eqn:C.
      + apply Z.leb_le in C. replace (length body - Z.to_nat off <? Z.to_nat av)%nat with true
          by (symmetry; apply Nat.ltb_lt; lia). f_equal. lia.
      + apply Z.leb_gt in C. replace (length body - Z.to_nat off <? Z.to_nat av)%nat with false
          by (symmetry; apply Nat.ltb_ge; lia). reflexivity.
  Qed.

  (* what parse_more keeps of data(): the lines that fit *)
  Lemma trim_fit : forall (ls : list L) (tl : list Z) (av : Z), no_nl tl -> 0 <= av ->
    trim_nl (zfirstn av (cat ls ++ tl)) = cat (fit llen av ls).
  Proof.
    induction ls as [|l t IH]; intros tl av Htl Ha.
    - cbn [cat flat_map app fit]. apply trim_none. apply no_nl_firstn. exact Htl.
    - destruct (bytes_ok l) as [body [E [Hb HL]]]. cbn [cat flat_map fit]. fold (cat t).
      pose proof HL as HL'. rewrite E, zlength_app in HL'. unfold zlength in HL'. cbn [length] in HL'.
      destruct (llen l <=? av) eqn:C.
      + apply Z.leb_le in C. cbn [cat flat_map]. fold (cat (fit llen (av - llen l) t)).
        unfold zfirstn. rewrite <- app_assoc. rewrite firstn_app.
        rewrite firstn_all2 by (unfold zlength in HL; lia).
        replace (Z.to_nat av - length (bytes_of l))%nat with (Z.to_nat (av - llen l)) by (unfold zlength in HL; lia).
        rewrite E at 1. rewrite <- app_assoc. cbn [app]. rewrite trim_pre.
        specialize (IH tl (av - llen l) Htl ltac:(lia)). unfold zfirstn in IH. rewrite IH.
        rewrite E. rewrite <- app_assoc. reflexivity.
      + apply Z.leb_gt in C. cbn [cat flat_map]. apply trim_none.
        unfold zfirstn. rewrite <- app_assoc, E, <- app_assoc. rewrite firstn_app.
        replace (Z.to_nat av - length body)%nat with 0%nat by lia. cbn [firstn]. rewrite app_nil_r.
        apply no_nl_firstn. exact Hb.
  Qed.

  Lemma fit_unique : forall taken r budget,
    size L llen taken <= budget ->
    match r with l :: _ => budget - size L llen taken < llen l | [] => True end ->
    fit llen budget (taken ++ r) = taken.
  Proof.
    induction taken as [|l t IH]; intros r budget Hs Hr; cbn [app fit Model.size] in *.
    - destruct r as [|l r]; [reflexivity|]. cbn [fit]. replace (llen l <=? budget) with false; [reflexivity|].
      symmetry. apply Z.leb_gt. lia.
    - pose proof (size_nonneg L llen (list Z) [] (fun p _ => inl p) (fun p => p) (fun _ => 0) llen_pos' t) as Hn.
      replace (llen l <=? budget) with true by (symmetry; apply Z.leb_le; lia).
      f_equal. apply IH; [lia|]. destruct r; [exact I|]. lia.
  Qed.
End Lines.

Section LinesTop.
  Variable L : Type.
  Variable llen : L -> Z.
  Variable PS : Type.
  Variable init_ps : PS.
  Variable recog : PS -> L -> PS + Z.
  Variable bump : PS -> PS.
  Variable lineno : PS -> Z.
  Variable bytes_of : L -> list Z.
  Hypothesis bytes_ok : forall l, exists body, bytes_of l = body ++ [10] /\ no_nl body /\ zlength (bytes_of l) = llen l.

  Local Notation cat := (cat L bytes_of).
  Local Notation init_st := (init_st L llen PS init_ps).
  Local Notation iter_pos := (iter_pos L llen PS recog bump lineno).
  Local Notation biter := (biter L llen PS recog bump lineno).

  (* data() in terms of the lines: what Model.v says about it is true of the real bytes *)
  Definition content (tl : list Z) (x : bst L PS) : Prop :=
    let s := x_s x in
    bdata (x_b x) ++ x_in x = zskipn (off s) (cat (rest s) ++ tl) /\
    position_nl (bdata (x_b x)) 0 = first_nl L llen PS s /\
    (off s = 0 -> trim_nl (bdata (x_b x)) = cat (fit llen (avail (buf s)) (rest s))).

  Lemma binv_content : forall lines tl x, no_nl tl ->
    BInv L PS (cat lines ++ tl) x ->
    WFm L llen PS init_ps recog bump lineno (Z.max 0 (zlength tl)) (input_len L llen lines (zlength tl)) lines (x_s x) ->
    content tl x.
  Proof.
    intros lines tl x Htl I W. destruct I as [I1 I2 I3 I4 I5].
    pose proof (wf_cb _ _ _ _ _ _ _ _ _ _ _ W) as Hcb.
    pose proof (wf_total _ _ _ _ _ _ _ _ _ _ _ W) as Ht.
    pose proof (wf_lines _ _ _ _ _ _ _ _ _ _ _ W) as Hl.
    destruct (wf_off _ _ _ _ _ _ _ _ _ _ _ W) as [Ho1 Ho2].
    pose proof (bdata_length _ I2) as HL. rewrite <- avail_idx, I1 in HL.
    assert (Hav : 0 <= avail (buf (x_s x))) by (rewrite <- HL; apply zlength_nonneg).
    assert (A : bdata (x_b x) ++ x_in x = zskipn (off (x_s x)) (cat (rest (x_s x)) ++ tl)).
    { set (done := map snd (rev (log (x_s x)))) in *.
      assert (E : bdata (x_b x) ++ x_in x = zskipn (zlength (x_cb x) + 0) (x_cb x ++ bdata (x_b x) ++ x_in x))
        by (rewrite zskipn_app_exact by lia; reflexivity).
      rewrite E, I3, I5, Hcb, Ht, Hl. rewrite (cat_app L bytes_of), <- app_assoc.
      rewrite <- (cat_length L llen bytes_of bytes_ok done). rewrite Z.add_0_r.
      apply zskipn_app_exact. exact Ho1. }
    assert (B : bdata (x_b x) = zfirstn (avail (buf (x_s x))) (zskipn (off (x_s x)) (cat (rest (x_s x)) ++ tl))).
    { rewrite <- A, <- HL. unfold zfirstn, zlength. rewrite Nat2Z.id.
      rewrite firstn_app, Nat.sub_diag, firstn_all. cbn [firstn]. rewrite app_nil_r. reflexivity. }
    unfold content. cbv zeta. split; [exact A|]. split.
    - rewrite B. rewrite (position_window L llen bytes_of bytes_ok); try assumption.
      + unfold Model.first_nl. destruct (rest (x_s x)); reflexivity.
      + destruct (rest (x_s x)); [exact Logic.I|exact Ho2].
    - intros Ho. rewrite B, Ho. unfold zskipn at 1. cbn [Z.to_nat skipn].
      apply (trim_fit L llen bytes_of bytes_ok); assumption.
  Qed.

  Lemma lines_thm : forall (lines : list L) (tl : list Z) (sch : list Z) (p : positive), no_nl tl ->
    let inp := cat lines ++ tl in
    let s0 := init_st lines (zlength tl) sch in
    let x0 := binit L PS s0 inp in
    match iter_pos p s0 with
    | Next s => exists x, biter (Pos.to_nat p) x0 = BNext x /\ x_s x = s /\ window L PS inp x /\ content tl x
    | Done r s => exists x, biter (Pos.to_nat p) x0 = BDone r x /\ x_s x = s /\ window L PS inp x /\ content tl x
    | StPanic _ => False
    end.
  Proof.
    intros lines tl sch p Htl inp s0 x0.
    assert (Hlen : zlength inp = input_len L llen lines (zlength tl)).
    { unfold inp, Model.input_len. rewrite zlength_app, (cat_length L llen bytes_of bytes_ok).
      pose proof (zlength_nonneg _ tl). lia. }
    pose proof (reach_inv L llen PS init_ps recog bump lineno (llen_pos' L llen bytes_of bytes_ok)
                          lines (zlength tl) sch inp p Hlen) as R.
    cbv zeta in R. fold s0 in R. fold x0 in R.
    destruct (iter_pos p s0) as [s|r s|t]; [| |exact R].
    - destruct R as [x [A [B [C D]]]]. exists x. split; [exact A|]. split; [exact B|]. subst s. split.
      + apply (binv_window L llen PS init_ps recog bump lineno lines (zlength tl)); assumption.
      + apply (binv_content lines tl); assumption.
    - destruct R as [x [A [B [C D]]]]. exists x. split; [exact A|]. split; [exact B|]. subst s. split.
      + apply (binv_window L llen PS init_ps recog bump lineno lines (zlength tl)); assumption.
      + apply (binv_content lines tl); assumption.
  Qed.
End LinesTop.

(* ------------------------------------------------------------------ the amounts the loop consumes, from the real bytes *)
Section Amounts.
  Variable L : Type.
  Variable llen : L -> Z.
  Variable PS : Type.
  Variable init_ps : PS.
  Variable recog : PS -> L -> PS + Z.
  Variable bump : PS -> PS.
  Variable lineno : PS -> Z.
  Variable bytes_of : L -> list Z.
  Hypothesis bytes_ok : forall l, exists body, bytes_of l = body ++ [10] /\ no_nl body /\ zlength (bytes_of l) = llen l.

  Local Notation cat := (cat L bytes_of).

  (* recovery: `match input.iter().position(..) { Some(i) => i + 1, None => input.len() }` on the bytes of data()
     parse:    parse_more returns the length of data() up to its last newline, and the callback gets exactly those bytes *)
  Definition amounts (x : bst L PS) : Prop :=
    let s := x_s x in
    let d := bdata (x_b x) in
    (match position_nl d 0 with Some i => i + 1 | None => zlength d end
     = total (recovery L llen PS bump s) - total s) /\
    (off s = 0 -> forall p' r' c' lg',
       pm L llen PS recog lineno (avail (buf s)) (ps s) (rest s) 0 (log s) = inl (p', r', c', lg') ->
       c' = zlength (trim_nl d) /\ zfirstn c' d = trim_nl d).

  Lemma content_amounts : forall tl x, bwf (x_b x) -> idx (x_b x) = buf (x_s x) ->
    content L llen PS bytes_of tl x -> amounts x.
  Proof.
    intros tl x Wb Hi [_ [C2 C3]]. cbv zeta in *. unfold amounts. cbv zeta.
    pose proof (bdata_length _ Wb) as HL. rewrite <- avail_idx, Hi in HL.
    split.
    - rewrite C2. unfold Model.recovery, Model.first_nl.
      destruct (rest (x_s x)) as [|l t] eqn:Er.
      + unfold discard_all. cbn [total]. rewrite HL. lia.
      + cbv zeta. destruct (llen l - off (x_s x) <=? avail (buf (x_s x))).
        * cbn [total]. lia.
        * unfold discard_all. cbn [total]. rewrite HL. lia.
    - intros Ho p' r' c' lg' P. specialize (C3 Ho).
      assert (Hav : 0 <= avail (buf (x_s x))) by (rewrite <- HL; apply zlength_nonneg).
      apply (pm_inl L llen PS recog bump lineno (llen_pos' L llen bytes_of bytes_ok)) in P; [|exact Hav].
      destruct P as [tk [H1 [H2 [H3 [_ [_ [_ H7]]]]]]].
      rewrite H1 in C3. rewrite (fit_unique L llen bytes_of bytes_ok tk r' _ H3 H7) in C3.
      assert (Ec : c' = zlength (trim_nl (bdata (x_b x)))).
      { rewrite C3, (cat_length L llen bytes_of bytes_ok). lia. }
      split; [exact Ec|]. rewrite Ec.
      destruct (trim_prefix (bdata (x_b x))) as [r Hr]. rewrite Hr at 2.
      unfold zfirstn, zlength. rewrite Nat2Z.id. rewrite firstn_app, Nat.sub_diag, firstn_all. cbn [firstn].
      apply app_nil_r.
  Qed.
End Amounts.

Lemma amounts_from_bytes_thm :
  forall (L : Type) (llen : L -> Z) (PS : Type) (init_ps : PS)
         (recog : PS -> L -> PS + Z) (bump : PS -> PS) (lineno : PS -> Z) (bytes_of : L -> list Z),
    (forall l, exists body, bytes_of l = body ++ [10] /\ Forall (fun c => c <> 10) body /\ zlength (bytes_of l) = llen l) ->
    forall (lines : list L) (tl : list Z) (sch : list Z) (p : positive),
    Forall (fun c => c <> 10) tl ->
    let inp := flat_map bytes_of lines ++ tl in
    let s0 := init_st L llen PS init_ps lines (zlength tl) sch in
    let x0 := binit L PS s0 inp in
    let good (x : bst L PS) (s : st L PS) :=
      x_s x = s /\
      (match position_nl (bdata (x_b x)) 0 with Some i => i + 1 | None => zlength (bdata (x_b x)) end
       = total (recovery L llen PS bump s) - total s) /\
      (off s = 0 -> forall p' r' c' lg',
         pm L llen PS recog lineno (avail (buf s)) (ps s) (rest s) 0 (log s) = inl (p', r', c', lg') ->
         c' = zlength (trim_nl (bdata (x_b x))) /\ zfirstn c' (bdata (x_b x)) = trim_nl (bdata (x_b x))) in
    match iter_pos L llen PS recog bump lineno p s0 with
    | Next s => exists x, biter L llen PS recog bump lineno (Pos.to_nat p) x0 = BNext x /\ good x s
    | Done r s => exists x, biter L llen PS recog bump lineno (Pos.to_nat p) x0 = BDone r x /\ good x s
    | StPanic _ => False
    end.
Proof.
  intros L llen PS init_ps recog bump lineno bytes_of Hb lines tl sch p Htl inp s0 x0 good.
  assert (Hlen : zlength inp = input_len L llen lines (zlength tl)).
  { unfold inp, Model.input_len. fold (cat L bytes_of lines). rewrite zlength_app, (cat_length L llen bytes_of Hb).
    pose proof (zlength_nonneg _ tl). lia. }
  pose proof (reach_inv L llen PS init_ps recog bump lineno (llen_pos' L llen bytes_of Hb)
                        lines (zlength tl) sch inp p Hlen) as R.
  cbv zeta in R. fold s0 in R. fold x0 in R.
  destruct (iter_pos L llen PS recog bump lineno p s0) as [s|r s|t]; [| |exact R].
  - destruct R as [x [A [B [C D]]]]. exists x. split; [exact A|]. split; [exact B|]. subst s.
    apply (content_amounts L llen PS init_ps recog bump lineno bytes_of Hb tl x (bi_wf _ _ _ _ C) (bi_idx _ _ _ _ C)).
    apply (binv_content L llen PS init_ps recog bump lineno bytes_of Hb lines tl); assumption.
  - destruct R as [x [A [B [C D]]]]. exists x. split; [exact A|]. split; [exact B|]. subst s.
    apply (content_amounts L llen PS init_ps recog bump lineno bytes_of Hb tl x (bi_wf _ _ _ _ C) (bi_idx _ _ _ _ C)).
    apply (binv_content L llen PS init_ps recog bump lineno bytes_of Hb lines tl); assumption.
Qed.

(* ------------------------------------------------------------------ the statements of C09/Properties.v *)
Lemma window_is_input_thm :
  forall (L : Type) (llen : L -> Z) (PS : Type) (init_ps : PS)
         (recog : PS -> L -> PS + Z) (bump : PS -> PS) (lineno : PS -> Z),
    (forall l, 1 <= llen l) ->
    forall (lines : list L) (tail : Z) (sch : list Z) (inp : list Z) (p : positive),
    zlength inp = input_len L llen lines tail ->
    let x0 := binit L PS (init_st L llen PS init_ps lines tail sch) inp in
    let good (x : bst L PS) (s : st L PS) :=
      x_s x = s /\
      idx (x_b x) = buf s /\
      x_cb x ++ bdata (x_b x) ++ x_in x = inp /\
      x_cb x = zfirstn (total s) inp /\
      bdata (x_b x) = zslice inp (total s) (total s + avail (buf s)) in
    match iter_pos L llen PS recog bump lineno p (init_st L llen PS init_ps lines tail sch) with
    | Next s => exists x, biter L llen PS recog bump lineno (Pos.to_nat p) x0 = BNext x /\ good x s
    | Done r s => exists x, biter L llen PS recog bump lineno (Pos.to_nat p) x0 = BDone r x /\ good x s
    | StPanic _ => False
    end.
Proof.
  intros L llen PS init_ps recog bump lineno Hl lines tail sch inp p H x0 good.
  pose proof (window_thm L llen PS init_ps recog bump lineno Hl lines tail sch inp p H) as W. cbv zeta in W. fold x0 in W.
  destruct (iter_pos L llen PS recog bump lineno p (init_st L llen PS init_ps lines tail sch)) as [s|r s|t]; [| |exact W].
  - destruct W as [x [A [B C]]]. exists x. split; [exact A|]. split; [exact B|]. subst s. exact C.
  - destruct W as [x [A [B C]]]. exists x. split; [exact A|]. split; [exact B|]. subst s. exact C.
Qed.

Lemma data_is_the_lines_thm :
  forall (L : Type) (llen : L -> Z) (PS : Type) (init_ps : PS)
         (recog : PS -> L -> PS + Z) (bump : PS -> PS) (lineno : PS -> Z) (bytes_of : L -> list Z),
    (forall l, exists body, bytes_of l = body ++ [10] /\ Forall (fun c => c <> 10) body /\ zlength (bytes_of l) = llen l) ->
    forall (lines : list L) (tl : list Z) (sch : list Z) (p : positive),
    Forall (fun c => c <> 10) tl ->
    let inp := flat_map bytes_of lines ++ tl in
    let s0 := init_st L llen PS init_ps lines (zlength tl) sch in
    let x0 := binit L PS s0 inp in
    let good (x : bst L PS) (s : st L PS) :=
      x_s x = s /\
      bdata (x_b x) ++ x_in x = zskipn (off s) (flat_map bytes_of (rest s) ++ tl) /\
      position_nl (bdata (x_b x)) 0 = first_nl L llen PS s /\
      (off s = 0 -> trim_nl (bdata (x_b x)) = flat_map bytes_of (fit llen (avail (buf s)) (rest s))) in
    match iter_pos L llen PS recog bump lineno p s0 with
    | Next s => exists x, biter L llen PS recog bump lineno (Pos.to_nat p) x0 = BNext x /\ good x s
    | Done r s => exists x, biter L llen PS recog bump lineno (Pos.to_nat p) x0 = BDone r x /\ good x s
    | StPanic _ => False
    end.
Proof.
  intros L llen PS init_ps recog bump lineno bytes_of Hb lines tl sch p Htl inp s0 x0 good.
  pose proof (lines_thm L llen PS init_ps recog bump lineno bytes_of Hb lines tl sch p Htl) as W. cbv zeta in W.
  fold inp in W. fold s0 in W. fold x0 in W.
  destruct (iter_pos L llen PS recog bump lineno p s0) as [s|r s|t]; [| |exact W].
  - destruct W as [x [A [B [_ C]]]]. exists x. split; [exact A|]. split; [exact B|]. subst s. exact C.
  - destruct W as [x [A [B [_ C]]]]. exists x. split; [exact A|]. split; [exact B|]. subst s. exact C.
Qed.
