(* C09/ProofsTable.v — round 5, second pass: finish_item / finish composed with C08.
   Every range handed to `Range::new` while SymbolParser::finish runs (line records, FUNC / STACK CFI INIT /
   STACK WIN memory_range(), the shortened STACK WIN record of insert_win_stack_info) has start <= end < 2^64
   — `Range::new` asserts "Ranges must be ordered" — and the five range maps of the resulting symbol table
   (functions, every function's line table, CFI, STACK WIN frame data, STACK WIN fpo) are strictly sorted,
   pairwise disjoint and made of ordered ranges: for EVERY parser state the line recognisers can build, i.e.
   for all record sequences. *)
From Coq Require Import Lia ZArith List Bool Sorted Permutation.
From RM Require Import Base.Word C08.Model C11.Model C09.Model C09.Grammar C09.Driver C08.Proofs
                       C09.Proofs C09.ProofsBytes C09.ProofsFinish C09.ProofsFinal.
Import ListNotations.
Open Scope Z_scope.

(* ------------------------------------------------------------------ Range::new call sites *)
(* the (start, end) pairs given to Range::new by finish_item for one FUNC item *)
Definition func_new_ranges (fr : Grammar.func_raw) : list range :=
  keep_somes (map fst (line_entries (rev (Grammar.fr_lines fr)))) ++
  match mk_range (Grammar.fr_addr fr) (Grammar.fr_size fr) with Some r => [r] | None => [] end.
Definition cfi_new_ranges (c : cfi_raw) : list range :=
  match mk_range (cr_addr (ci_init c)) (ci_size c) with Some r => [r] | None => [] end.
(* insert_win_stack_info: info.memory_range(), and last_info.memory_range() after the size fix-up *)
Definition win_insert_new_ranges (acc : list (range * win_info)) (w : win_info) : list range :=
  match wi_range w with
  | None => []
  | Some mr =>
      mr :: match acc with
            | (lr, lw) :: _ =>
                if intersects lr mr && (wi_addr w >? wi_addr lw)
                then match wi_range (wi_set_size lw (wrap32 (wi_addr w - wi_addr lw))) with
                     | Some r => [r] | None => [] end
                else []
            | [] => []
            end
  end.
Fixpoint win_new_ranges (acc : list (range * win_info)) (ws : list win_info) : list range :=
  match ws with
  | [] => []
  | w :: t => win_insert_new_ranges acc w ++
              match win_insert acc w with Ret acc' => win_new_ranges acc' t | _ => [] end
  end.
(* every Range::new of SymbolParser::finish, in program order per kind *)
Definition finish_new_ranges (p0 : pst) : list range :=
  let p := close_cur p0 in
  flat_map func_new_ranges (rev (p_funcs p)) ++ flat_map cfi_new_ranges (rev (p_cfis p)) ++
  win_new_ranges [] (rev (p_win_fd p)) ++ win_new_ranges [] (rev (p_win_fpo p)).

(* ------------------------------------------------------------------ the resulting maps *)
Definition map_wf {V} (m : list (range * V)) : Prop :=
  StronglySorted strictly_before m /\ wf_ranges m.
Definition table_wf (t : table) : Prop :=
  map_wf (t_funcs t) /\ Forall (fun e => map_wf (sf_lines (snd e))) (t_funcs t) /\
  map_wf (t_cfi t) /\ map_wf (t_win_fd t) /\ map_wf (t_win_fpo t).

(* two different entries of a well-formed map never share an address *)
Lemma map_wf_disjoint {V} (m : list (range * V)) : map_wf m ->
  forall i j a b, (i < j)%nat -> nth_error m i = Some a -> nth_error m j = Some b ->
  fst (fst a) <= snd (fst a) /\ snd (fst a) < fst (fst b) /\ fst (fst b) <= snd (fst b).
Proof.
  intros [Hs Hw]. induction Hs as [|x t Ht IH Hx]; intros i j a b Hij Ha Hb.
  - destruct i; discriminate.
  - inversion Hw as [|? ? Hwx Hwt]; subst.
    destruct j as [|j]; [lia|]. cbn [nth_error] in Hb.
    destruct i as [|i].
    + cbn [nth_error] in Ha. inversion Ha; subst a.
      apply nth_error_In in Hb. rewrite Forall_forall in Hx. specialize (Hx _ Hb).
      unfold wf_ranges in Hwt. rewrite Forall_forall in Hwt. specialize (Hwt _ Hb).
      unfold strictly_before in Hx. cbv beta in *. unfold wf_range in *. lia.
    + cbn [nth_error] in Ha. apply (IH Hwt i j a b); [lia|assumption|assumption].
Qed.

(* ------------------------------------------------------------------ values of a built map come from its input *)
Section Vals.
Context {V : Type} (eqb : V -> V -> bool) (P : V -> Prop).
Let PV (e : range * V) : Prop := P (snd e).

Lemma merge_step_vals acc rv : Forall PV acc -> PV rv -> Forall PV (merge_step eqb acc rv).
Proof.
  intros Ha Hr. destruct acc as [|[lr lv] acc']; cbn [merge_step]; [constructor; [assumption|constructor]|].
  destruct rv as [r v].
  destruct ((fst r <=? snd lr) && negb (eqb v lv)); [assumption|].
  destruct ((fst r <=? sat_add 64 (snd lr) 1) && eqb v lv); [|constructor; assumption].
  inversion Ha; subst. constructor; assumption.
Qed.

Lemma fold_merge_vals l : forall acc, Forall PV acc -> Forall PV l -> Forall PV (fold_left (merge_step eqb) l acc).
Proof.
  induction l as [|rv t IH]; intros acc Ha Hl; cbn [fold_left]; [assumption|].
  inversion Hl; subst. apply IH; [apply merge_step_vals; assumption|assumption].
Qed.

Lemma safe_p_vals l : Forall PV l -> Forall PV (into_rangemap_safe_p eqb l).
Proof.
  intros H. unfold into_rangemap_safe_p, merge_sorted. apply Forall_rev. apply fold_merge_vals; [constructor|].
  eapply Permutation_Forall; [apply sort_perm|assumption].
Qed.
End Vals.

(* ------------------------------------------------------------------ finish_item *)
Lemma keep_somes_entries_wf {V} (l : list (option range * V)) :
  wf_entries l -> Forall wf_range (keep_somes (map fst l)).
Proof.
  unfold wf_entries. induction 1 as [|[o v] t Hx Ht IH]; cbn [map keep_somes fst]; [constructor|].
  destruct o as [r|]; [constructor; assumption|assumption].
Qed.

Lemma func_new_ranges_wf fr : fr_wf fr -> Forall wf_range (func_new_ranges fr).
Proof.
  intros (A & B & C). unfold func_new_ranges. apply Forall_app. split.
  - apply keep_somes_entries_wf. apply line_entries_wf. apply Forall_rev. assumption.
  - destruct (mk_range (Grammar.fr_addr fr) (Grammar.fr_size fr)) eqn:E; constructor; [|constructor].
    exact (mk_range_wf _ _ _ A B E).
Qed.

Lemma cfi_new_ranges_wf c : cfi_wf c -> Forall wf_range (cfi_new_ranges c).
Proof.
  intros [A B]. unfold cfi_new_ranges.
  destruct (mk_range (cr_addr (ci_init c)) (ci_size c)) eqn:E; constructor; [|constructor].
  exact (mk_range_wf _ _ _ A B E).
Qed.

Lemma finish_func_lines fr x : fr_wf fr -> finish_func fr = Ret (Some x) -> map_wf (sf_lines (snd x)).
Proof.
  intros (A & B & C). unfold finish_func.
  assert (W : wf_entries (line_entries (rev (Grammar.fr_lines fr)))) by (apply line_entries_wf; apply Forall_rev; assumption).
  rewrite (build_total line_eqb _ W). cbn [obind].
  destruct (mk_range (Grammar.fr_addr fr) (Grammar.fr_size fr)); intros H; inversion H; subst. cbn [snd sf_lines].
  exact (sorted_disjoint line_eqb _ W).
Qed.

Lemma finish_funcs_lines l : Forall fr_wf l -> forall fl, finish_funcs l = Ret fl ->
  Forall (fun e => map_wf (sf_lines (snd e))) fl.
Proof.
  induction 1 as [|fr t Hf Ht IH]; cbn [finish_funcs]; intros fl H.
  - inversion H; subst. constructor.
  - destruct (finish_func fr) as [x| | |] eqn:E; cbn [obind] in H; try discriminate.
    destruct (finish_funcs t) as [rest| | |] eqn:E2; cbn [obind] in H; try discriminate.
    inversion H; subst. specialize (IH rest eq_refl).
    destruct x as [e|]; [constructor; [|assumption]|assumption].
    eapply finish_func_lines; eauto.
Qed.

(* ------------------------------------------------------------------ insert_win_stack_info *)
Lemma win_insert_new_ranges_wf acc w : acc_inv acc -> wi_wf w -> Forall wf_range (win_insert_new_ranges acc w).
Proof.
  intros Hacc Hw. unfold win_insert_new_ranges.
  destruct (wi_range w) as [mr|] eqn:Em; [|constructor].
  assert (Hmr : wf_range mr) by (unfold wi_range in Em; destruct Hw as [A B]; refine (mk_range_wf _ _ _ A _ Em); lia).
  constructor; [assumption|].
  destruct acc as [|[lr lw] acc']; [constructor|].
  destruct (intersects lr mr && (wi_addr w >? wi_addr lw)) eqn:E; [|constructor].
  apply andb_true_iff in E. destruct E as [Ei Eg].
  (* the fix-up branch: win_insert returns the accumulator with the shortened record in second place *)
  destruct (win_insert_total _ w Hacc Hw) as (acc2 & Hins & [Hwf2 _]).
  unfold win_insert in Hins. rewrite Em, Ei, Eg in Hins.
  destruct (wi_range (wi_set_size lw (wrap32 (wi_addr w - wi_addr lw)))) as [r|]; [|constructor].
  inversion Hins; subst acc2. inversion Hwf2 as [|? ? _ Hrest]; subst. inversion Hrest; subst.
  constructor; [assumption|constructor].
Qed.

Lemma win_new_ranges_wf ws : Forall wi_wf ws -> forall acc, acc_inv acc -> Forall wf_range (win_new_ranges acc ws).
Proof.
  induction 1 as [|w t Hw Ht IH]; intros acc Hacc; cbn [win_new_ranges]; [constructor|].
  apply Forall_app. split; [apply win_insert_new_ranges_wf; assumption|].
  destruct (win_insert_total acc w Hacc Hw) as (acc' & E & Hacc'). rewrite E. apply IH. assumption.
Qed.

(* ------------------------------------------------------------------ finish *)
Lemma flat_map_forall {A B} (f : A -> list B) (P : B -> Prop) (Q : A -> Prop) l :
  (forall a, Q a -> Forall P (f a)) -> Forall Q l -> Forall P (flat_map f l).
Proof.
  intros H. induction 1 as [|a t Ha Ht IH]; cbn [flat_map]; [constructor|].
  apply Forall_app. split; [apply H; assumption|assumption].
Qed.

Lemma finish_new_ranges_ordered : forall p, pst_wf p -> Forall wf_range (finish_new_ranges p).
Proof.
  intros p0 Hwf0. unfold finish_new_ranges. cbv zeta.
  destruct (close_cur_wf p0 Hwf0) as [Hwf _]. set (p := close_cur p0) in *.
  destruct Hwf as (_ & Hf & Hc & Hfd & Hfpo).
  repeat (apply Forall_app; split).
  - eapply flat_map_forall; [apply func_new_ranges_wf|apply Forall_rev; assumption].
  - eapply flat_map_forall; [apply cfi_new_ranges_wf|apply Forall_rev; assumption].
  - apply win_new_ranges_wf; [apply Forall_rev; assumption|apply acc_inv_nil].
  - apply win_new_ranges_wf; [apply Forall_rev; assumption|apply acc_inv_nil].
Qed.

Lemma finish_table_wf : forall p, pst_wf p -> exists t, finish p = Ret t /\ table_wf t.
Proof.
  intros p0 Hwf0. unfold finish. cbv zeta.
  destruct (close_cur_wf p0 Hwf0) as [Hwf _]. set (p := close_cur p0) in *.
  destruct Hwf as (_ & Hf & Hc & Hfd & Hfpo).
  assert (Hf' : Forall fr_wf (rev (p_funcs p))) by (apply Forall_rev; assumption).
  destruct (finish_funcs_total (rev (p_funcs p)) Hf') as (fl & E1 & W1).
  rewrite E1. cbn [obind].
  rewrite (build_total_p sfunc_eqb fl W1). cbn [obind].
  assert (Wc : wf_ranges (keep_somes (map finish_cfi (rev (p_cfis p))))) by (apply finish_cfis_wf; apply Forall_rev; assumption).
  rewrite (build_total_p scfi_eqb _ Wc). cbn [obind].
  destruct (win_collect_total (rev (p_win_fd p))) with (acc := @nil (range * win_info)) as (wfd & E2 & W2);
    [apply Forall_rev; assumption|apply acc_inv_nil|].
  rewrite E2. cbn [obind]. rewrite (build_total_p wi_eqb wfd W2). cbn [obind].
  destruct (win_collect_total (rev (p_win_fpo p))) with (acc := @nil (range * win_info)) as (wfpo & E3 & W3);
    [apply Forall_rev; assumption|apply acc_inv_nil|].
  rewrite E3. cbn [obind]. rewrite (build_total_p wi_eqb wfpo W3). cbn [obind].
  eexists; split; [reflexivity|].
  unfold table_wf; cbn [t_funcs t_cfi t_win_fd t_win_fpo].
  split; [exact (sorted_disjoint_p sfunc_eqb fl W1)|].
  split; [apply (safe_p_vals sfunc_eqb (fun f => map_wf (sf_lines f))); exact (finish_funcs_lines _ Hf' fl E1)|].
  split; [exact (sorted_disjoint_p scfi_eqb _ Wc)|].
  split; [exact (sorted_disjoint_p wi_eqb wfd W2)|exact (sorted_disjoint_p wi_eqb wfpo W3)].
Qed.

(* ------------------------------------------------------------------ all record sequences, all inputs *)
(* any sequence of recognised / dropped lines, from the initial parser state *)
Lemma replay_table_wf : forall (ds : list (bool * rle)) p,
  replay rle pst recog_pst bump_pst lineno_pst init_pst ds = inl p ->
  Forall wf_range (finish_new_ranges p) /\ exists t, finish p = Ret t /\ table_wf t.
Proof.
  intros ds p H. destruct (replay_wf ds init_pst p init_pst_wf H) as [W _].
  split; [apply finish_new_ranges_ordered; assumption|apply finish_table_wf; assumption].
Qed.

Definition table_opt_wf (o : option table) : Prop := match o with Some t => table_wf t | None => True end.
Definition result_new_ranges (r : result pst) : list range :=
  match r with ROk p => finish_new_ranges p | RErr _ _ => [] end.

Lemma parse_table_wf : forall lines tail sch,
  exists r s t, drive_c lines tail sch = Ret (r, s) /\ table_of r = Ret t /\ table_opt_wf t /\
                Forall wf_range (result_new_ranges r).
Proof.
  intros lines tail sch.
  destruct (drive_fin rle cllen pst init_pst recog_pst bump_pst lineno_pst cllen_pos lines tail sch) as [r [s [H _]]].
  fold (drive_c lines tail sch) in H.
  destruct r as [p|c ln].
  - destruct (final_pst_wf lines tail sch (ROk p) s H) as [W _].
    destruct (drive_shape rle cllen pst init_pst recog_pst bump_pst lineno_pst cllen_pos lines tail sch (ROk p) s H)
      as [ds [_ [_ [_ [Hp _]]]]]. subst p.
    destruct (finish_table_wf (ps s) W) as [t [Ht Htw]].
    exists (ROk (ps s)), s, (Some t). split; [exact H|]. cbn [table_of]. rewrite Ht.
    split; [reflexivity|]. split; [exact Htw|]. cbn [result_new_ranges]. apply finish_new_ranges_ordered. exact W.
  - exists (RErr c ln), s, None. split; [exact H|]. split; [reflexivity|]. split; [exact I|constructor].
Qed.

Lemma parse_table_wf_bytes : forall (bytes : list Z) (sch : list Z),
  exists r s t, drive_c (map to_rle (fst (split_bytes bytes [])))
                        (Z.of_nat (length (snd (split_bytes bytes [])))) sch = Ret (r, s) /\
                table_of r = Ret t /\ table_opt_wf t /\ Forall wf_range (result_new_ranges r).
Proof. intros. apply parse_table_wf. Qed.
