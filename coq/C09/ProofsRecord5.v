(* C09/ProofsRecord5.v — round 5, second pass: STACK WIN records as a declarative grammar over BYTES, both directions.
       stack_win ::= "STACK WIN" sp+ hexdigit sp+ hex{1,16} sp+ (hex{1,8} sp+){7} digit sp+ rest cr*
   (type, address, code size, prologue, epilogue, parameter size, saved registers, locals, max stack, has_program_string,
   program string or allocates_base_pointer); what is built from the fields is [win_of_fields] (the tail of stack_win_line). *)
From Coq Require Import Lia ZArith List Bool.
From RM Require Import Base.Word C08.Model C11.Model C09.Grammar C09.PinsNum C09.ProofsText C09.ProofsRecord C09.ProofsRecord2.
Import ListNotations.
Open Scope Z_scope.

(* terminated(single(pred), space1) *)
Lemma single_sp_sound pred s b s2 : single_sp pred s = Some (b, s2) ->
  exists sp, expand s = [b] ++ sp ++ expand s2 /\ pred b = true /\ spaces sp /\ starts (fun b => ~ sp_byte b) (expand s2).
Proof.
  unfold single_sp. pose proof (uncons_expand s) as U. destruct (uncons s) as [[x s1]|]; [|discriminate].
  destruct (pred x) eqn:P; [|discriminate]. destruct (space1 s1) as [s3|] eqn:S; [|discriminate].
  intros HH. inversion HH; subst. clear HH. destruct (space1_sound s1 s2 S) as (sp & A & B & C & D).
  exists sp. rewrite U, A. repeat split; assumption.
Qed.

Lemma single_sp_complete pred s b sp r : expand s = [b] ++ sp ++ r -> pred b = true -> spaces sp ->
  starts (fun b => ~ sp_byte b) r -> exists s2, single_sp pred s = Some (b, s2) /\ expand s2 = r.
Proof.
  intros E P (Ns & Fs) Sr. unfold single_sp. pose proof (uncons_expand s) as U.
  destruct (uncons s) as [[x s1]|]; [|rewrite U in E; discriminate].
  rewrite U in E. cbn [app] in E. inversion E; subst x. rewrite P.
  destruct (space1_complete s1 sp r ltac:(assumption) Ns Fs Sr) as (s2 & S1 & S2). rewrite S1. exists s2. split; [reflexivity|exact S2].
Qed.

Lemma single_starts_nonsp pred b rest : pred b = true -> (forall x, sp_byte x -> pred x = false) ->
  starts (fun b => ~ sp_byte b) ([b] ++ rest).
Proof. intros P N. cbn. intros Q. apply N in Q. congruence. Qed.
Lemma sp_not_is_hex x : sp_byte x -> is_hex x = false.
Proof. intros [->| ->]; reflexivity. Qed.
Lemma sp_not_is_dec x : sp_byte x -> is_dec x = false.
Proof. intros [->| ->]; reflexivity. Qed.

Definition win_line (l : list Z) (ty a sz pro epi par sav loc mx hp : Z) (rest : list Z) : Prop :=
  exists sp0 spt d1 sp1 d2 sp2 d3 sp3 d4 sp4 d5 sp5 d6 sp6 d7 sp7 d8 sp8 sph crs,
    l = T_STACK_WIN ++ sp0 ++ [ty] ++ spt ++ d1 ++ sp1 ++ d2 ++ sp2 ++ d3 ++ sp3 ++ d4 ++ sp4 ++ d5 ++ sp5 ++ d6 ++ sp6 ++
        d7 ++ sp7 ++ d8 ++ sp8 ++ [hp] ++ sph ++ rest ++ crs /\
    spaces sp0 /\ is_hex ty = true /\ spaces spt /\
    hex_field 16 d1 a /\ spaces sp1 /\ hex_field 8 d2 sz /\ spaces sp2 /\ hex_field 8 d3 pro /\ spaces sp3 /\
    hex_field 8 d4 epi /\ spaces sp4 /\ hex_field 8 d5 par /\ spaces sp5 /\ hex_field 8 d6 sav /\ spaces sp6 /\
    hex_field 8 d7 loc /\ spaces sp7 /\ hex_field 8 d8 mx /\ spaces sp8 /\
    is_dec hp = true /\ spaces sph /\ text_tail rest crs.

Lemma win_sound s it : p_stack_win s = POk it ->
  exists ty a sz pro epi par sav loc mx hp n rest,
    it = IWin (win_of_fields ty a sz pro epi par sav loc mx hp n) /\
    win_line (expand s) ty a sz pro epi par sav loc mx hp rest /\ expand n = rest.
Proof.
  unfold p_stack_win. destruct (hdr T_STACK_WIN s) as [s0|] eqn:Hh; [|discriminate]. unfold cutp.
  destruct (single_sp is_hex s0) as [[ty s1]|] eqn:Ht; [|discriminate].
  destruct (hex64sp s1) as [[a s2]|] eqn:H1; [|discriminate].
  destruct (hex32sp s2) as [[sz s3]|] eqn:H2; [|discriminate].
  destruct (hex32sp s3) as [[pro s4]|] eqn:H3; [|discriminate].
  destruct (hex32sp s4) as [[epi s5]|] eqn:H4; [|discriminate].
  destruct (hex32sp s5) as [[par s6]|] eqn:H5; [|discriminate].
  destruct (hex32sp s6) as [[sav s7]|] eqn:H6; [|discriminate].
  destruct (hex32sp s7) as [[loc s8]|] eqn:H7; [|discriminate].
  destruct (hex32sp s8) as [[mx s9]|] eqn:H8; [|discriminate].
  destruct (single_sp is_dec s9) as [[hp s10]|] eqn:Hp; [|discriminate].
  destruct (name_eol s10) as [n|] eqn:Hn; [|discriminate]. intros HH. inversion HH; subst it. clear HH.
  destruct (hdr_sound _ _ _ Hh) as (sp0 & A0 & B0 & C0).
  destruct (single_sp_sound _ _ _ _ Ht) as (spt & At & Bt & Ct & Dt).
  destruct (hexsp_sound _ _ _ _ H1) as (d1 & sp1 & A1 & B1 & C1 & D1).
  destruct (hexsp_sound _ _ _ _ H2) as (d2 & sp2 & A2 & B2 & C2 & D2).
  destruct (hexsp_sound _ _ _ _ H3) as (d3 & sp3 & A3 & B3 & C3 & D3).
  destruct (hexsp_sound _ _ _ _ H4) as (d4 & sp4 & A4 & B4 & C4 & D4).
  destruct (hexsp_sound _ _ _ _ H5) as (d5 & sp5 & A5 & B5 & C5 & D5).
  destruct (hexsp_sound _ _ _ _ H6) as (d6 & sp6 & A6 & B6 & C6 & D6).
  destruct (hexsp_sound _ _ _ _ H7) as (d7 & sp7 & A7 & B7 & C7 & D7).
  destruct (hexsp_sound _ _ _ _ H8) as (d8 & sp8 & A8 & B8 & C8 & D8).
  destruct (single_sp_sound _ _ _ _ Hp) as (sph & Ap & Bp & Cp & Dp).
  destruct (name_tail_sound _ _ Hn Dp) as (rest & crs & An & Bn & Cn).
  exists ty, a, sz, pro, epi, par, sav, loc, mx, hp, n, rest. split; [reflexivity|]. split; [|exact Cn].
  exists sp0, spt, d1, sp1, d2, sp2, d3, sp3, d4, sp4, d5, sp5, d6, sp6, d7, sp7, d8, sp8, sph, crs.
  rewrite A0, At, A1, A2, A3, A4, A5, A6, A7, A8, Ap, An.
  split; [reflexivity|]. split; [exact B0|]. split; [exact Bt|]. split; [exact Ct|].
  split; [exact B1|]. split; [exact C1|]. split; [exact B2|]. split; [exact C2|]. split; [exact B3|]. split; [exact C3|].
  split; [exact B4|]. split; [exact C4|]. split; [exact B5|]. split; [exact C5|]. split; [exact B6|]. split; [exact C6|].
  split; [exact B7|]. split; [exact C7|]. split; [exact B8|]. split; [exact C8|]. split; [exact Bp|]. split; [exact Cp|exact Bn].
Qed.

Lemma win_complete s ty a sz pro epi par sav loc mx hp rest : win_line (expand s) ty a sz pro epi par sav loc mx hp rest ->
  exists n, p_stack_win s = POk (IWin (win_of_fields ty a sz pro epi par sav loc mx hp n)) /\ expand n = rest.
Proof.
  intros (sp0 & spt & d1 & sp1 & d2 & sp2 & d3 & sp3 & d4 & sp4 & d5 & sp5 & d6 & sp6 & d7 & sp7 & d8 & sp8 & sph & crs &
          E & S0 & Pt & St & F1 & S1 & F2 & S2 & F3 & S3 & F4 & S4 & F5 & S5 & F6 & S6 & F7 & S7 & F8 & S8 & Pp & Sp & T).
  destruct (hdr_complete _ _ _ _ E S0 (single_starts_nonsp is_hex ty _ Pt sp_not_is_hex)) as (s0 & H0 & X0).
  destruct (single_sp_complete _ _ _ _ _ X0 Pt St (hex_starts_nonsp _ _ _ _ F1)) as (s1 & Ht & Xt).
  destruct (hexsp_complete _ _ _ _ _ _ Xt F1 S1 (hex_starts_nonsp _ _ _ _ F2)) as (s2 & H1 & X1).
  destruct (hexsp_complete _ _ _ _ _ _ X1 F2 S2 (hex_starts_nonsp _ _ _ _ F3)) as (s3 & H2 & X2).
  destruct (hexsp_complete _ _ _ _ _ _ X2 F3 S3 (hex_starts_nonsp _ _ _ _ F4)) as (s4 & H3 & X3).
  destruct (hexsp_complete _ _ _ _ _ _ X3 F4 S4 (hex_starts_nonsp _ _ _ _ F5)) as (s5 & H4 & X4).
  destruct (hexsp_complete _ _ _ _ _ _ X4 F5 S5 (hex_starts_nonsp _ _ _ _ F6)) as (s6 & H5 & X5).
  destruct (hexsp_complete _ _ _ _ _ _ X5 F6 S6 (hex_starts_nonsp _ _ _ _ F7)) as (s7 & H6 & X6).
  destruct (hexsp_complete _ _ _ _ _ _ X6 F7 S7 (hex_starts_nonsp _ _ _ _ F8)) as (s8 & H7 & X7).
  destruct (hexsp_complete _ _ _ _ _ _ X7 F8 S8 (single_starts_nonsp is_dec hp _ Pp sp_not_is_dec)) as (s9 & H8 & X8).
  destruct (single_sp_complete _ _ _ _ _ X8 Pp Sp (proj1 T)) as (s10 & Hp & Xp).
  destruct (name_tail_complete _ _ _ Xp T) as (n & Hn & Xn).
  exists n. split; [|exact Xn]. unfold p_stack_win, hex64sp, hex32sp. rewrite H0, Ht, H1, H2, H3, H4, H5, H6, H7, H8, Hp, Hn. reflexivity.
Qed.
