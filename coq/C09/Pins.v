(* C09/Pins.v — the hand-written model of C09/Model.v against what translate/symfile_loop.py extracts from the
   source (coq/Gen/SymFileLoop.v, regenerated on every run): the capacity constants, every condition and every
   flag assignment of the loops of SymbolFile::parse and SymbolFile::parse_async, and the index arithmetic of
   circular::Buffer.  The statement skeleton (order of callback / consume / total_consumed, slices, messages) is
   matched by the translator itself, which aborts when it changes.  Here: the model's functions, rebuilt from the
   extracted conditions, are the model's functions.  A change of a condition in the source changes the generated
   file and breaks these lemmas. *)
From Coq Require Import ZArith List Bool.
From RM Require Import Base.Word C09.Model.
From RM Require Gen.SymFileLoop.
Import ListNotations.
Open Scope Z_scope.
Module G := RM.Gen.SymFileLoop.

(* ---------------------------------------------------------------- circular::Buffer from the extracted pieces *)
Definition shift_src (b : cbuf) : cbuf :=
  if G.circ_shift_cond (b_pos b) then mkbuf 0 (b_end b - b_pos b) (b_cap b) else b.
Definition consume_src (b : cbuf) (count : Z) : cbuf :=
  let cnt := G.circ_consume_cnt count (avail b) in
  let b1 := mkbuf (b_pos b + cnt) (b_end b) (b_cap b) in
  if G.circ_consume_shift (b_pos b1) (b_cap b1) then shift_src b1 else b1.
Definition fill_src (b : cbuf) (count : Z) : cbuf :=
  let cnt := G.circ_fill_cnt count (space b) in
  let b1 := mkbuf (b_pos b) (b_end b + cnt) (b_cap b) in
  if G.circ_fill_shift (space b1) (avail b1) cnt then shift_src b1 else b1.
Definition grow_src (b : cbuf) (n : Z) : cbuf :=
  if G.circ_grow_noop (b_cap b) n then b else mkbuf (b_pos b) (b_end b) n.

(* the conditions of one loop (parse or parse_async) *)
Record conds := mk_conds {
  k_fc_rec : G.obs -> bool; k_fc_disc : G.obs -> bool; k_bfull : G.obs -> bool; k_resume : G.obs -> bool;
  k_ok : G.obs -> bool; k_grow : G.obs -> bool; k_factor : G.obs -> Z; k_recover : G.obs -> bool;
  k_empty : G.obs -> bool; k_tg_read : G.obs -> bool; k_jf_parse : G.obs -> bool; k_fc_parse : G.obs -> bool }.
Definition sync_conds : conds :=
  mk_conds G.sync_fc_rec G.sync_fc_disc G.sync_bfull G.sync_c_resume G.sync_c_ok G.sync_c_grow G.sync_factor
           G.sync_c_recover G.sync_c_empty G.sync_tg_read G.sync_jf_parse G.sync_fc_parse.
Definition async_conds : conds :=
  mk_conds G.async_fc_rec G.async_fc_disc G.async_bfull G.async_c_resume G.async_c_ok G.async_c_grow G.async_factor
           G.async_c_recover G.async_c_empty G.async_tg_read G.async_jf_parse G.async_fc_parse.

Section Pins.
  Variable L : Type.
  Variable llen : L -> Z.
  Variable PS : Type.
  Variable recog : PS -> L -> PS + Z.
  Variable bump : PS -> PS.
  Variable lineno : PS -> Z.
  Variable k : conds.

  Definition obs_of (s : st L PS) (b : cbuf) (bfull : bool) (tot newcap len consumed : Z) : G.obs :=
    G.mk_obs (jf s) (fc s) (tg s) (pr s) bfull (avail b) (space b) (b_cap b) tot newcap len consumed.

  Definition recovery_src (s : st L PS) : st L PS :=
    match first_nl L llen PS s, rest s with
    | Some idx, l :: t =>
        let amount := idx + 1 in
        let b' := consume_src (buf s) amount in
        mkst b' (k_fc_rec k (obs_of s b' false (total s + amount) 0 0 0)) (tg s) false true (total s + amount)
             (bump (ps s)) t 0 (unread s) (sched s) (ncb s + 1) (cbsum s + amount) (nrd s) (maxsp s) ((true, l) :: log s)
    | _, _ =>
        let amount := avail (buf s) in
        let b' := consume_src (buf s) amount in
        mkst b' (k_fc_disc k (obs_of s b' false (total s + amount) 0 0 0)) (tg s) (pr s) (jf s) (total s + amount)
             (ps s) (rest s) (off s + amount) (unread s) (sched s) (ncb s + 1) (cbsum s + amount) (nrd s) (maxsp s) (log s)
    end.

  Definition parse_phase_src (s : st L PS) : stepres L PS :=
    if pr s then Next s else
    if negb (geom_ok (buf s)) then StPanic 2 else
    if negb (off s =? 0) then StPanic 99
    else
      let len := avail (buf s) in
      match pm L llen PS recog lineno len (ps s) (rest s) 0 (log s) with
      | inr (c, ln) => Done (RErr c ln) s
      | inl (p', rest', consumed, lg') =>
          let o := obs_of s (buf s) false (total s + consumed) 0 len consumed in
          Next (mkst (consume_src (buf s) consumed) (k_fc_parse k o) (tg s) false (k_jf_parse k o)
                     (total s + consumed) p' rest' 0 (unread s) (sched s)
                     (ncb s + 1) (cbsum s + consumed) (nrd s) (maxsp s) lg')
      end.

  Definition step_after_read_src (n : Z) (sch' : list Z) (sp : Z) (s1 : st L PS) : stepres L PS :=
    let b := buf s1 in
    let buffer_full := k_bfull k (G.mk_obs (jf s1) (fc s1) (tg s1) (pr s1) false (avail b) sp (b_cap b) (total s1) 0 0 0) in
    let b2 := fill_src b n in
    let s2 := mkst b2 (fc s1) (tg s1) (pr s1) (jf s1) (total s1) (ps s1) (rest s1) (off s1)
                   (unread s1 - n) sch' (ncb s1) (cbsum s1) (nrd s1 + 1) (Z.max (maxsp s1) sp) (log s1) in
    let o2 := obs_of s2 b2 buffer_full (total s2) 0 0 0 in
    if n =? 0 then
      if k_resume k o2 then parse_phase_src s2
      else if k_ok k o2 then Done (ROk (ps s2)) s2
      else if k_grow k o2 then
        let new_cap := Z.min (b_cap b2 * k_factor k o2) U64MAX in        (* saturating_mul *)
        if k_recover k (obs_of s2 b2 buffer_full (total s2) new_cap 0 0) then Next (set_pr L PS s2 true)
        else Next (set_buf_tg L PS s2 (grow_src b2 new_cap) true)
      else if k_empty k o2 then Done (RErr 3 0) s2
      else Done (RErr 4 (lineno (ps s2))) s2
    else parse_phase_src (set_tg L PS s2 (k_tg_read k o2)).
End Pins.

Lemma pin_constants :
  INITIAL_CAP = G.INITIAL_BUFFER_CAPACITY /\ MAX_CAP = G.MAX_BUFFER_CAPACITY /\ HALF_CAP = G.MAX_BUFFER_CAPACITY / 2.
Proof. repeat split; reflexivity. Qed.

Lemma pin_circular : forall b n,
  consume b n = consume_src b n /\ fill b n = fill_src b n /\ grow b n = grow_src b n /\ shift b = shift_src b.
Proof. intros; repeat split; reflexivity. Qed.

Lemma pin_recovery : forall L llen PS bump s,
  recovery L llen PS bump s = recovery_src L llen PS bump sync_conds s /\
  recovery L llen PS bump s = recovery_src L llen PS bump async_conds s.
Proof.
  intros. unfold recovery, recovery_src, discard_all.
  destruct (first_nl L llen PS s); destruct (rest s); split; reflexivity.
Qed.

Lemma pin_parse_phase : forall L llen PS recog lineno s,
  parse_phase L llen PS recog lineno s = parse_phase_src L llen PS recog lineno sync_conds s /\
  parse_phase L llen PS recog lineno s = parse_phase_src L llen PS recog lineno async_conds s.
Proof.
  intros. unfold parse_phase, parse_phase_src.
  destruct (pr s); [split; reflexivity|]. destruct (negb (geom_ok (buf s))); [split; reflexivity|].
  destruct (negb (off s =? 0)); [split; reflexivity|].
  destruct (pm L llen PS recog lineno (avail (buf s)) (ps s) (rest s) 0 (log s)) as [[[[p' r'] c] lg]|[c ln]]; split; reflexivity.
Qed.

Lemma pin_step_after_read : forall L llen PS recog lineno n sch' sp s1,
  step_after_read L llen PS recog lineno n sch' sp s1 = step_after_read_src L llen PS recog lineno sync_conds n sch' sp s1 /\
  step_after_read L llen PS recog lineno n sch' sp s1 = step_after_read_src L llen PS recog lineno async_conds n sch' sp s1.
Proof. intros. split; reflexivity. Qed.

(* one iteration of `loop { .. }` of parse and of parse_async, assembled from the extracted conditions *)
Section Steps.
  Variable L : Type.
  Variable llen : L -> Z.
  Variable PS : Type.
  Variable recog : PS -> L -> PS + Z.
  Variable bump : PS -> PS.
  Variable lineno : PS -> Z.

  Definition step_src (s0 : st L PS) : stepres L PS :=
    if pr s0 && negb (geom_ok (buf s0)) then StPanic 2 else
    let s1 := if pr s0 then recovery_src L llen PS bump sync_conds s0 else s0 in
    let b := buf s1 in
    if negb (geom_ok b) then StPanic 1 else
    let sp := space b in
    let '(n, sch') := read_n L PS sp s1 in
    step_after_read_src L llen PS recog lineno sync_conds n sch' sp s1.

  Definition step_async_src (s0 : st L PS) : stepres L PS :=
    if pr s0 && negb (geom_ok (buf s0)) then StPanic 2 else
    let s1 := if pr s0 then recovery_src L llen PS bump async_conds s0 else s0 in
    let b := buf s1 in
    if negb (geom_ok b) then StPanic 1 else
    let sp := space b in
    let '(n, sch') := read_async L PS sp s1 in
    step_after_read_src L llen PS recog lineno async_conds n sch' sp s1.
End Steps.

Lemma pin_step : forall L llen PS recog bump lineno s,
  step L llen PS recog bump lineno s = step_src L llen PS recog bump lineno s /\
  step_async L llen PS recog bump lineno s = step_async_src L llen PS recog bump lineno s.
Proof.
  intros. unfold step, step_src, step_rest, step_async, step_async_src, step_rest_async.
  destruct (pin_recovery L llen PS bump s) as [R1 R2]. rewrite <- R1, <- R2.
  split.
  - destruct (pr s && negb (geom_ok (buf s))); [reflexivity|].
    set (s1 := if pr s then recovery L llen PS bump s else s).
    destruct (negb (geom_ok (buf s1))); [reflexivity|].
    destruct (read_n L PS (space (buf s1)) s1) as [n sch']. apply pin_step_after_read.
  - destruct (pr s && negb (geom_ok (buf s))); [reflexivity|].
    set (s1 := if pr s then recovery L llen PS bump s else s).
    destruct (negb (geom_ok (buf s1))); [reflexivity|].
    destruct (read_async L PS (space (buf s1)) s1) as [n sch']. apply pin_step_after_read.
Qed.

Lemma pin_init : forall L llen PS init_ps lines tail sch,
  buf (init_st L llen PS init_ps lines tail sch) = mkbuf 0 0 G.INITIAL_BUFFER_CAPACITY.
Proof. reflexivity. Qed.
