(* C09/ProofsCircular.v — round 5: the byte-level circular::Buffer (C09/Circular.v) refines (a) the index model of
   C09/Model.v and (b) a FIFO queue of bytes; the parse loop run on real bytes keeps
        callback bytes ++ data() ++ bytes not yet read  =  input
   so the "window of the input at total_consumed" that Model.v assumes for data() is a theorem. *)
From Coq Require Import Lia ZArith List Bool.
From RM Require Import Base.Word C09.Model C09.Circular C09.Proofs.
Import ListNotations.
Open Scope Z_scope.

(* ------------------------------------------------------------------ lists *)
Lemma zlength_nonneg : forall A (l : list A), 0 <= zlength l.
Proof. intros. unfold zlength. lia. Qed.

Lemma zlength_app : forall A (a b : list A), zlength (a ++ b) = zlength a + zlength b.
Proof. intros. unfold zlength. rewrite app_length. lia. Qed.

Lemma zlength_zfirstn : forall A (l : list A) n, 0 <= n <= zlength l -> zlength (zfirstn n l) = n.
Proof. intros A l n H. unfold zlength, zfirstn in *. rewrite firstn_length. lia. Qed.

Lemma zlength_zskipn : forall A (l : list A) n, 0 <= n <= zlength l -> zlength (zskipn n l) = zlength l - n.
Proof. intros A l n H. unfold zlength, zskipn in *. rewrite skipn_length. lia. Qed.

Lemma zlength_zeros : forall n, 0 <= n -> zlength (zeros n) = n.
Proof. intros n H. unfold zlength, zeros. rewrite repeat_length. lia. Qed.

Lemma zfirstn_zskipn : forall A (l : list A) n, zfirstn n l ++ zskipn n l = l.
Proof. intros. apply firstn_skipn. Qed.

(* firstn n (skipn a _) only looks at the first a + n elements *)
Lemma sub_app_l : forall A (l r : list A) a n, (a + n <= length l)%nat ->
  firstn n (skipn a (l ++ r)) = firstn n (skipn a l).
Proof.
  intros A l r a n H. rewrite skipn_app, firstn_app.
  replace (n - length (skipn a l))%nat with 0%nat by (rewrite skipn_length; lia).
  cbn [firstn]. apply app_nil_r.
Qed.

Lemma sub_length : forall A (l : list A) a n, (a + n <= length l)%nat -> length (firstn n (skipn a l)) = n.
Proof. intros. rewrite firstn_length, skipn_length. lia. Qed.

Lemma skipn_add : forall A a c (l : list A), skipn c (skipn a l) = skipn (a + c) l.
Proof.
  induction a as [|a IH]; intros c l; [reflexivity|].
  destruct l as [|x t]; [rewrite !skipn_nil; reflexivity|]. cbn [skipn Nat.add]. apply IH.
Qed.

Lemma sub_skip : forall A (l : list A) a n c,
  skipn c (firstn n (skipn a l)) = firstn (n - c) (skipn (a + c) l).
Proof.
  intros. rewrite skipn_firstn_comm, skipn_add. reflexivity.
Qed.

(* the reader overwrote memory[e .. e + k] *)
Lemma sub_write : forall A (l bytes : list A) p e, (p <= e)%nat -> (e + length bytes <= length l)%nat ->
  firstn (e + length bytes - p) (skipn p (firstn e l ++ bytes ++ skipn (e + length bytes) l))
  = firstn (e - p) (skipn p l) ++ bytes.
Proof.
  intros A l bytes p e Hp He.
  assert (Hfe : length (firstn e l) = e) by (rewrite firstn_length; lia).
  rewrite skipn_app. rewrite Hfe. replace (p - e)%nat with 0%nat by lia. cbn [skipn].
  rewrite skipn_firstn_comm.
  assert (Hd : length (firstn (e - p) (skipn p l)) = (e - p)%nat) by (apply sub_length; lia).
  rewrite firstn_app. rewrite Hd.
  rewrite (firstn_all2 (firstn (e - p) (skipn p l))) by lia.
  f_equal.
  replace (e + length bytes - p - (e - p))%nat with (length bytes) by lia.
  rewrite firstn_app. rewrite Nat.sub_diag. cbn [firstn]. rewrite firstn_all. apply app_nil_r.
Qed.

(* ------------------------------------------------------------------ one Buffer operation *)
Definition bwf (b : bbuf) : Prop :=
  zlength (m_mem b) = m_cap b /\ 0 <= m_pos b /\ m_pos b <= m_end b /\ m_end b <= m_cap b.

Lemma bwf_geom : forall b, bwf b -> geom (idx b).
Proof. intros b [H0 [H1 [H2 H3]]]. unfold geom, idx. cbn [b_pos b_end b_cap]. lia. Qed.

Lemma bwf_geom_ok : forall b, bwf b -> bgeom_ok b = true.
Proof.
  intros b H. unfold bgeom_ok. rewrite (geom_ok_true _ (bwf_geom b H)). destruct H as [H0 _].
  cbn [andb]. apply Z.leb_le. lia.
Qed.

Lemma bwf_with_capacity : forall c, 0 <= c -> bwf (with_capacity c).
Proof. intros c H. unfold bwf, with_capacity. cbn [m_mem m_pos m_end m_cap]. rewrite zlength_zeros; lia. Qed.

Lemma bdata_length : forall b, bwf b -> zlength (bdata b) = bavail b.
Proof.
  intros [m p e c] [H0 [H1 [H2 H3]]]. unfold bdata, bavail, zslice, zlength, zfirstn, zskipn in *.
  cbn [m_mem m_pos m_end m_cap] in *. rewrite sub_length; lia.
Qed.

Lemma idx_shift : forall b, idx (bshift b) = shift (idx b).
Proof.
  intros [m p e c]. unfold bshift, shift, idx. cbn [m_mem m_pos m_end m_cap b_pos b_end b_cap].
  destruct (0 <? p); reflexivity.
Qed.

Lemma idx_consume : forall b k, idx (bconsume b k) = consume (idx b) k.
Proof.
  intros [m p e c] k. unfold bconsume, consume, bshift, shift, idx, bavail, avail.
  cbn [m_mem m_pos m_end m_cap b_pos b_end b_cap].
  repeat match goal with |- context [if ?c then _ else _] => destruct c end; reflexivity.
Qed.

Lemma idx_fill : forall b k, idx (bfill b k) = fill (idx b) k.
Proof.
  intros [m p e c] k. unfold bfill, fill, bshift, shift, idx, bavail, avail, bspace, space.
  cbn [m_mem m_pos m_end m_cap b_pos b_end b_cap].
  repeat match goal with |- context [if ?c then _ else _] => destruct c end; reflexivity.
Qed.

Lemma idx_grow : forall b n, idx (bgrow b n) = grow (idx b) n.
Proof.
  intros [m p e c] n. unfold bgrow, grow, idx. cbn [m_mem m_pos m_end m_cap b_pos b_end b_cap].
  destruct (n <=? c); reflexivity.
Qed.

Lemma idx_write : forall b bytes, idx (bwrite b bytes) = idx b.
Proof. intros. reflexivity. Qed.

(* shift(): memmove; data() unchanged *)
Lemma bshift_spec : forall b, bwf b -> bwf (bshift b) /\ bdata (bshift b) = bdata b.
Proof.
  intros b W. pose proof (bdata_length b W) as HL. destruct b as [m p e c].
  destruct W as [H0 [H1 [H2 H3]]]. unfold bshift. cbn [m_mem m_pos m_end m_cap] in *.
  destruct (0 <? p) eqn:E; [|split; [unfold bwf; cbn [m_mem m_pos m_end m_cap]; lia|reflexivity]].
  unfold bavail in HL. cbn [m_pos m_end] in HL.
  split.
  - unfold bwf. cbn [m_mem m_pos m_end m_cap]. rewrite zlength_app, HL, zlength_zskipn; lia.
  - unfold bdata at 1. unfold zslice. cbn [m_mem m_pos m_end m_cap].
    unfold zskipn at 1. cbn [Z.to_nat skipn]. unfold zfirstn. rewrite firstn_app.
    unfold zlength in HL.
    replace (Z.to_nat (e - p - 0) - length (bdata (mkbb m p e c)))%nat with 0%nat by lia.
    cbn [firstn]. rewrite app_nil_r. apply firstn_all2. lia.
Qed.

(* consume(k): the first min(k, available_data) bytes leave the queue *)
Lemma bconsume_spec : forall b k, bwf b -> 0 <= k ->
  bwf (bconsume b k) /\ bdata (bconsume b k) = zskipn (Z.min k (bavail b)) (bdata b).
Proof.
  intros [m p e c] k W Hk. destruct W as [H0 [H1 [H2 H3]]]. cbn [m_mem m_pos m_end m_cap] in *.
  unfold bconsume. unfold bavail. cbn [m_mem m_pos m_end m_cap].
  set (cnt := Z.min k (e - p)).
  assert (Hc : 0 <= cnt <= e - p) by (unfold cnt; lia).
  assert (W1 : bwf (mkbb m (p + cnt) e c)) by (unfold bwf; cbn [m_mem m_pos m_end m_cap]; lia).
  assert (D1 : bdata (mkbb m (p + cnt) e c) = zskipn cnt (bdata (mkbb m p e c))).
  { unfold bdata, zslice, zskipn, zfirstn. cbn [m_mem m_pos m_end m_cap]. rewrite sub_skip.
    f_equal; [lia|]. f_equal. lia. }
  destruct (c / 2 <? p + cnt).
  - destruct (bshift_spec _ W1) as [W2 D2]. split; [exact W2|]. rewrite D2. exact D1.
  - split; [exact W1|exact D1].
Qed.

(* read() wrote [bytes] into space(), then fill(len): they join the queue at the back *)
Lemma bwrite_fill_spec : forall b bytes, bwf b -> zlength bytes <= bspace b ->
  let b' := bfill (bwrite b bytes) (zlength bytes) in
  bwf b' /\ bdata b' = bdata b ++ bytes.
Proof.
  intros [m p e c] bytes W Hs. destruct W as [H0 [H1 [H2 H3]]]. unfold bspace in Hs.
  cbn [m_mem m_pos m_end m_cap] in *. pose proof (zlength_nonneg _ bytes) as Hb.
  unfold bwrite, bfill. cbn [m_mem m_pos m_end m_cap].
  set (m' := zfirstn e m ++ bytes ++ zskipn (e + zlength bytes) m).
  assert (Hmin : Z.min (zlength bytes) (bspace (mkbb m' p e c)) = zlength bytes)
    by (unfold bspace; cbn [m_mem m_pos m_end m_cap]; lia).
  rewrite Hmin.
  assert (Lm : zlength m' = c).
  { unfold m'. rewrite !zlength_app, zlength_zfirstn, zlength_zskipn; lia. }
  assert (W1 : bwf (mkbb m' p (e + zlength bytes) c)) by (unfold bwf; cbn [m_mem m_pos m_end m_cap]; lia).
  assert (D1 : bdata (mkbb m' p (e + zlength bytes) c) = bdata (mkbb m p e c) ++ bytes).
  { unfold bdata, zslice, m', zskipn, zfirstn, zlength in *. cbn [m_mem m_pos m_end m_cap].
    replace (Z.to_nat (e + Z.of_nat (length bytes))) with (Z.to_nat e + length bytes)%nat by lia.
    replace (Z.to_nat (e + Z.of_nat (length bytes) - p)) with (Z.to_nat e + length bytes - Z.to_nat p)%nat by lia.
    replace (Z.to_nat (e - p)) with (Z.to_nat e - Z.to_nat p)%nat by lia.
    apply sub_write; lia. }
  cbv zeta.
  match goal with |- context [if ?c then _ else _] => destruct c end.
  - destruct (bshift_spec _ W1) as [W2 D2]. split; [exact W2|]. rewrite D2. exact D1.
  - split; [exact W1|exact D1].
Qed.

(* grow(n): memory.resize(n, 0) *)
Lemma bgrow_spec : forall b n, bwf b -> bwf (bgrow b n) /\ bdata (bgrow b n) = bdata b.
Proof.
  intros [m p e c] n W. destruct W as [H0 [H1 [H2 H3]]]. cbn [m_mem m_pos m_end m_cap] in *.
  unfold bgrow. cbn [m_mem m_pos m_end m_cap]. destruct (n <=? c) eqn:E.
  - split; [unfold bwf; cbn [m_mem m_pos m_end m_cap]; lia|reflexivity].
  - apply Z.leb_gt in E. split.
    + unfold bwf. cbn [m_mem m_pos m_end m_cap]. rewrite zlength_app, zlength_zeros; lia.
    + unfold bdata, zslice, zfirstn, zskipn, zlength in *. cbn [m_mem m_pos m_end m_cap].
      apply sub_app_l. lia.
Qed.

(* ------------------------------------------------------------------ any sequence of operations *)
Lemma bapply_spec : forall b o, bwf b -> bop_ok (idx b) o = true ->
  bwf (bapply b o) /\ idx (bapply b o) = capply (idx b) o /\ bdata (bapply b o) = qapply (bdata b) o.
Proof.
  intros b o W Hok. destruct o as [bytes|n|n|]; cbn [bapply capply qapply bop_ok] in *.
  - apply Z.leb_le in Hok.
    destruct (bwrite_fill_spec b bytes W) as [W' D']; [exact Hok|].
    split; [exact W'|]. split; [|exact D']. rewrite idx_fill, idx_write. reflexivity.
  - apply andb_true_iff in Hok. destruct Hok as [Ha Hb]. apply Z.leb_le in Ha. apply Z.leb_le in Hb.
    destruct (bconsume_spec b n W Ha) as [W' D']. split; [exact W'|]. split; [apply idx_consume|].
    rewrite D'. f_equal. unfold avail, idx, bavail in *. cbn [b_pos b_end] in Hb. lia.
  - destruct (bgrow_spec b n W) as [W' D']. split; [exact W'|]. split; [apply idx_grow|exact D'].
  - destruct (bshift_spec b W) as [W' D']. split; [exact W'|]. split; [apply idx_shift|exact D'].
Qed.

Theorem fifo_refinement : forall ops b, bwf b -> ops_ok (idx b) ops = true ->
  let b' := fold_left bapply ops b in
  bwf b' /\ idx b' = fold_left capply ops (idx b) /\ bdata b' = fold_left qapply ops (bdata b).
Proof.
  induction ops as [|o t IH]; intros b W Hok; cbn [fold_left].
  - split; [exact W|split; reflexivity].
  - cbn [ops_ok] in Hok. apply andb_true_iff in Hok. destruct Hok as [Ho Ht].
    destruct (bapply_spec b o W Ho) as [W' [I' D']].
    rewrite <- I' in Ht. specialize (IH (bapply b o) W' Ht). cbv zeta in IH.
    destruct IH as [A [B C]]. cbv zeta. rewrite <- I', <- D'. split; [exact A|split; [exact B|exact C]].
Qed.
