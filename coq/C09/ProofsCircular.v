(* C09/ProofsCircular.v — round 5: the byte-level circular::Buffer (C09/Circular.v) refines (a) the index model of
   C09/Model.v and (b) a FIFO queue of bytes; the parse loop run on real bytes keeps
        callback bytes ++ data() ++ bytes not yet read  =  input
   so the "window of the input at total_consumed" that Model.v assumes for data() is a theorem. *)
From Coq Require Import Lia ZArith List Bool.
From RM Require Import Base.Word C09.Model C09.Circular C09.Proofs.
Import ListNotations.
Open Scope Z_scope.

(* ------------------------------------------------------------------ lists *)
Lemma zlength_nonneg : forall A (l : list A), 0 <= zlength l.
Proof. intros. unfold zlength. lia. Qed.

Lemma zlength_app : forall A (a b : list A), zlength (a ++ b) = zlength a + zlength b.
Proof. intros. unfold zlength. rewrite app_length. lia. Qed.

Lemma zlength_zfirstn : forall A (l : list A) n, 0 <= n <= zlength l -> zlength (zfirstn n l) = n.
Proof. intros A l n H. unfold zlength, zfirstn in *. rewrite firstn_length. lia. Qed.

Lemma zlength_zskipn : forall A (l : list A) n, 0 <= n <= zlength l -> zlength (zskipn n l) = zlength l - n.
Proof. intros A l n H. unfold zlength, zskipn in *. rewrite skipn_length. lia. Qed.

Lemma zlength_zeros : forall n, 0 <= n -> zlength (zeros n) = n.
Proof. intros n H. unfold zlength, zeros. rewrite repeat_length. lia. Qed.

Lemma zfirstn_zskipn : forall A (l : list A) n, zfirstn n l ++ zskipn n l = l.
Proof. intros. apply firstn_skipn. Qed.

(* firstn n (skipn a _) only looks at the first a + n elements *)
Lemma sub_app_l : forall A (l r : list A) a n, (a + n <= length l)%nat ->
  firstn n (skipn a (l ++ r)) = firstn n (skipn a l).
Proof.
  intros A l r a n H. rewrite skipn_app, firstn_app.
  replace (n - length (skipn a l))%nat with 0%nat by (rewrite skipn_length; lia).
  cbn [firstn]. apply app_nil_r.
Qed.

Lemma sub_length : forall A (l : list A) a n, (a + n <= length l)%nat -> length (firstn n (skipn a l)) = n.
Proof. intros. rewrite firstn_length, skipn_length. lia. Qed.

Lemma skipn_add : forall A a c (l : list A), skipn c (skipn a l) = skipn (a + c) l.
Proof.
  induction a as [|a IH]; intros c l; [reflexivity|].
  destruct l as [|x t]; [rewrite !skipn_nil; reflexivity|]. cbn [skipn Nat.add]. apply IH.
Qed.

Lemma sub_skip : forall A (l : list A) a n c,
  skipn c (firstn n (skipn a l)) = firstn (n - c) (skipn (a + c) l).
Proof.
  intros. rewrite skipn_firstn_comm, skipn_add. reflexivity.
Qed.

(* the reader overwrote memory[e .. e + k] *)
Lemma sub_write : forall A (l bytes : list A) p e, (p <= e)%nat -> (e + length bytes <= length l)%nat ->
  firstn (e + length bytes - p) (skipn p (firstn e l ++ bytes ++ skipn (e + length bytes) l))
  = firstn (e - p) (skipn p l) ++ bytes.
Proof.
  intros A l bytes p e Hp He.
  assert (Hfe : length (firstn e l) = e) by (rewrite firstn_length; lia).
  rewrite skipn_app. rewrite Hfe. replace (p - e)%nat with 0%nat by lia. cbn [skipn].
  rewrite skipn_firstn_comm.
  assert (Hd : length (firstn (e - p) (skipn p l)) = (e - p)%nat) by (apply sub_length; lia).
  rewrite firstn_app. rewrite Hd.
  rewrite (firstn_all2 (firstn (e - p) (skipn p l))) by lia.
  f_equal.
  replace (e + length bytes - p - (e - p))%nat with (length bytes) by lia.
  rewrite firstn_app. rewrite Nat.sub_diag. cbn [firstn]. rewrite firstn_all. apply app_nil_r.
Qed.

(* ------------------------------------------------------------------ one Buffer operation *)
Definition bwf (b : bbuf) : Prop :=
  zlength (m_mem b) = m_cap b /\ 0 <= m_pos b /\ m_pos b <= m_end b /\ m_end b <= m_cap b.

Lemma bwf_geom : forall b, bwf b -> geom (idx b).
Proof. intros b [H0 [H1 [H2 H3]]]. unfold geom, idx. cbn [b_pos b_end b_cap]. lia. Qed.

Lemma bwf_geom_ok : forall b, bwf b -> bgeom_ok b = true.
Proof.
  intros b H. unfold bgeom_ok. rewrite (geom_ok_true _ (bwf_geom b H)). destruct H as [H0 _].
  cbn [andb]. apply Z.leb_le. lia.
Qed.

Lemma bwf_with_capacity : forall c, 0 <= c -> bwf (with_capacity c).
Proof. intros c H. unfold bwf, with_capacity. cbn [m_mem m_pos m_end m_cap]. rewrite zlength_zeros; lia. Qed.

Lemma bdata_length : forall b, bwf b -> zlength (bdata b) = bavail b.
Proof.
  intros [m p e c] [H0 [H1 [H2 H3]]]. unfold bdata, bavail, zslice, zlength, zfirstn, zskipn in *.
  cbn [m_mem m_pos m_end m_cap] in *. rewrite sub_length; lia.
Qed.

Lemma idx_shift : forall b, idx (bshift b) = shift (idx b).
Proof.
  intros [m p e c]. unfold bshift, shift, idx. cbn [m_mem m_pos m_end m_cap b_pos b_end b_cap].
  destruct (0 <? p); reflexivity.
Qed.

Lemma idx_consume : forall b k, idx (bconsume b k) = consume (idx b) k.
Proof.
  intros [m p e c] k. unfold bconsume, consume, bshift, shift, idx, bavail, avail.
  cbn [m_mem m_pos m_end m_cap b_pos b_end b_cap].
  repeat match goal with |- context [if ?c then _ else _] => destruct c end; reflexivity.
Qed.

Lemma idx_fill : forall b k, idx (bfill b k) = fill (idx b) k.
Proof.
  intros [m p e c] k. unfold bfill, fill, bshift, shift, idx, bavail, avail, bspace, space.
  cbn [m_mem m_pos m_end m_cap b_pos b_end b_cap].
  repeat match goal with |- context [if ?c then _ else _] => destruct c end; reflexivity.
Qed.

Lemma idx_grow : forall b n, idx (bgrow b n) = grow (idx b) n.
Proof.
  intros [m p e c] n. unfold bgrow, grow, idx. cbn [m_mem m_pos m_end m_cap b_pos b_end b_cap].
  destruct (n <=? c); reflexivity.
Qed.

Lemma idx_write : forall b bytes, idx (bwrite b bytes) = idx b.
Proof. intros. reflexivity. Qed.

(* shift(): memmove; data() unchanged *)
Lemma bshift_spec : forall b, bwf b -> bwf (bshift b) /\ bdata (bshift b) = bdata b.
Proof.
  intros b W. pose proof (bdata_length b W) as HL. destruct b as [m p e c].
  destruct W as [H0 [H1 [H2 H3]]]. unfold bshift. cbn [m_mem m_pos m_end m_cap] in *.
  destruct (0 <? p) eqn:E; [|split; [unfold bwf; cbn [m_mem m_pos m_end m_cap]; lia|reflexivity]].
  unfold bavail in HL. cbn [m_pos m_end] in HL.
  split.
  - unfold bwf. cbn [m_mem m_pos m_end m_cap]. rewrite zlength_app, HL, zlength_zskipn; lia.
  - unfold bdata at 1. unfold zslice. cbn [m_mem m_pos m_end m_cap].
    unfold zskipn at 1. cbn [Z.to_nat skipn]. unfold zfirstn. rewrite firstn_app.
    unfold zlength in HL.
    replace (Z.to_nat (e - p - 0) - length (bdata (mkbb m p e c)))%nat with 0%nat by lia.
    cbn [firstn]. rewrite app_nil_r. apply firstn_all2. lia.
Qed.

(* consume(k): the first min(k, available_data) bytes leave the queue *)
Lemma bconsume_spec : forall b k, bwf b -> 0 <= k ->
  bwf (bconsume b k) /\ bdata (bconsume b k) = zskipn (Z.min k (bavail b)) (bdata b).
Proof.
  intros [m p e c] k W Hk. destruct W as [H0 [H1 [H2 H3]]]. cbn [m_mem m_pos m_end m_cap] in *.
  unfold bconsume. unfold bavail. cbn [m_mem m_pos m_end m_cap].
  set (cnt := Z.min k (e - p)).
  assert (Hc : 0 <= cnt <= e - p) by (unfold cnt; lia).
  assert (W1 : bwf (mkbb m (p + cnt) e c)) by (unfold bwf; cbn [m_mem m_pos m_end m_cap]; lia).
  assert (D1 : bdata (mkbb m (p + cnt) e c) = zskipn cnt (bdata (mkbb m p e c))).
  { unfold bdata, zslice, zskipn, zfirstn. cbn [m_mem m_pos m_end m_cap]. rewrite sub_skip.
    f_equal; [lia|]. f_equal. lia. }
  destruct (c / 2 <? p + cnt).
  - destruct (bshift_spec _ W1) as [W2 D2]. split; [exact W2|]. rewrite D2. exact D1.
  - split; [exact W1|exact D1].
Qed.

(* read() wrote [bytes] into space(), then fill(len): they join the queue at the back *)
Lemma bwrite_fill_spec : forall b bytes, bwf b -> zlength bytes <= bspace b ->
  let b' := bfill (bwrite b bytes) (zlength bytes) in
  bwf b' /\ bdata b' = bdata b ++ bytes.
Proof.
  intros [m p e c] bytes W Hs. destruct W as [H0 [H1 [H2 H3]]]. unfold bspace in Hs.
  cbn [m_mem m_pos m_end m_cap] in *. pose proof (zlength_nonneg _ bytes) as Hb.
  unfold bwrite, bfill. cbn [m_mem m_pos m_end m_cap].
  set (m' := zfirstn e m ++ bytes ++ zskipn (e + zlength bytes) m).
  assert (Hmin : Z.min (zlength bytes) (bspace (mkbb m' p e c)) = zlength bytes)
    by (unfold bspace; cbn [m_mem m_pos m_end m_cap]; lia).
  rewrite Hmin.
  assert (Lm : zlength m' = c).
  { unfold m'. rewrite !zlength_app, zlength_zfirstn, zlength_zskipn; lia. }
  assert (W1 : bwf (mkbb m' p (e + zlength bytes) c)) by (unfold bwf; cbn [m_mem m_pos m_end m_cap]; lia).
  assert (D1 : bdata (mkbb m' p (e + zlength bytes) c) = bdata (mkbb m p e c) ++ bytes).
  { unfold bdata, zslice, m', zskipn, zfirstn, zlength in *. cbn [m_mem m_pos m_end m_cap].
    replace (Z.to_nat (e + Z.of_nat (length bytes))) with (Z.to_nat e + length bytes)%nat by lia.
    replace (Z.to_nat (e + Z.of_nat (length bytes) - p)) with (Z.to_nat e + length bytes - Z.to_nat p)%nat by lia.
    replace (Z.to_nat (e - p)) with (Z.to_nat e - Z.to_nat p)%nat by lia.
    apply sub_write; lia. }
  cbv zeta.
  match goal with |- context [if ?c then _ else _] => destruct c end.
  - destruct (bshift_spec _ W1) as [W2 D2]. split; [exact W2|]. rewrite D2. exact D1.
  - split; [exact W1|exact D1].
Qed.

(* grow(n): memory.resize(n, 0) *)
Lemma bgrow_spec : forall b n, bwf b -> bwf (bgrow b n) /\ bdata (bgrow b n) = bdata b.
Proof.
  intros [m p e c] n W. destruct W as [H0 [H1 [H2 H3]]]. cbn [m_mem m_pos m_end m_cap] in *.
  unfold bgrow. cbn [m_mem m_pos m_end m_cap]. destruct (n <=? c) eqn:E.
  - split; [unfold bwf; cbn [m_mem m_pos m_end m_cap]; lia|reflexivity].
  - apply Z.leb_gt in E. split.
    + unfold bwf. cbn [m_mem m_pos m_end m_cap]. rewrite zlength_app, zlength_zeros; lia.
    + unfold bdata, zslice, zfirstn, zskipn, zlength in *. cbn [m_mem m_pos m_end m_cap].
      apply sub_app_l. lia.
Qed.

(* ------------------------------------------------------------------ any sequence of operations *)
Lemma bapply_spec : forall b o, bwf b -> bop_ok (idx b) o = true ->
  bwf (bapply b o) /\ idx (bapply b o) = capply (idx b) o /\ bdata (bapply b o) = qapply (bdata b) o.
Proof.
  intros b o W Hok. destruct o as [bytes|n|n|]; cbn [bapply capply qapply bop_ok] in *.
  - apply Z.leb_le in Hok.
    destruct (bwrite_fill_spec b bytes W) as [W' D']; [exact Hok|].
    split; [exact W'|]. split; [|exact D']. rewrite idx_fill, idx_write. reflexivity.
  - apply andb_true_iff in Hok. destruct Hok as [Ha Hb]. apply Z.leb_le in Ha. apply Z.leb_le in Hb.
    destruct (bconsume_spec b n W Ha) as [W' D']. split; [exact W'|]. split; [apply idx_consume|].
    rewrite D'. f_equal. unfold avail, idx, bavail in *. cbn [b_pos b_end] in Hb. lia.
  - destruct (bgrow_spec b n W) as [W' D']. split; [exact W'|]. split; [apply idx_grow|exact D'].
  - destruct (bshift_spec b W) as [W' D']. split; [exact W'|]. split; [apply idx_shift|exact D'].
Qed.

Theorem fifo_refinement : forall ops b, bwf b -> ops_ok (idx b) ops = true ->
  let b' := fold_left bapply ops b in
  bwf b' /\ idx b' = fold_left capply ops (idx b) /\ bdata b' = fold_left qapply ops (bdata b).
Proof.
  induction ops as [|o t IH]; intros b W Hok; cbn [fold_left].
  - split; [exact W|split; reflexivity].
  - cbn [ops_ok] in Hok. apply andb_true_iff in Hok. destruct Hok as [Ho Ht].
    destruct (bapply_spec b o W Ho) as [W' [I' D']].
    rewrite <- I' in Ht. specialize (IH (bapply b o) W' Ht). cbv zeta in IH.
    destruct IH as [A [B C]]. cbv zeta. rewrite <- I', <- D'. split; [exact A|split; [exact B|exact C]].
Qed.

Lemma avail_idx : forall b, avail (idx b) = bavail b.
Proof. reflexivity. Qed.
Lemma space_idx : forall b, space (idx b) = bspace b.
Proof. reflexivity. Qed.

(* a ++ b ++ c = inp: a and b are slices of inp *)
Lemma app3_slices : forall A (a b c inp : list A), a ++ b ++ c = inp ->
  a = zfirstn (zlength a) inp /\ b = zslice inp (zlength a) (zlength a + zlength b).
Proof.
  intros A a b c inp H. subst inp. unfold zfirstn, zslice, zskipn, zfirstn, zlength. split.
  - rewrite Nat2Z.id. rewrite firstn_app, Nat.sub_diag, firstn_all. cbn [firstn]. rewrite app_nil_r. reflexivity.
  - rewrite Nat2Z.id. rewrite skipn_app, Nat.sub_diag, skipn_all. cbn [skipn app].
    replace (Z.to_nat (Z.of_nat (length a) + Z.of_nat (length b) - Z.of_nat (length a))) with (length b) by lia.
    rewrite firstn_app, Nat.sub_diag, firstn_all. cbn [firstn]. rewrite app_nil_r. reflexivity.
Qed.

(* ------------------------------------------------------------------ the parse loop on real bytes *)
Section BSim.
  Variable L : Type.
  Variable llen : L -> Z.
  Variable PS : Type.
  Variable init_ps : PS.
  Variable recog : PS -> L -> PS + Z.
  Variable bump : PS -> PS.
  Variable lineno : PS -> Z.
  Hypothesis llen_pos : forall l, 1 <= llen l.
  Variable tail : Z.
  Hypothesis tail_nonneg : 0 <= tail.
  Variable ilen : Z.
  Variable lines : list L.
  Variable inp : list Z.                         (* the bytes of the input *)

  Local Notation St := (st L PS).
  Local Notation Bst := (bst L PS).
  Local Notation WFm := (WFm L llen PS init_ps recog bump lineno tail ilen lines).
  Local Notation WF := (WF L llen PS init_ps recog bump lineno tail ilen lines).
  Local Notation step := (step L llen PS recog bump lineno).
  Local Notation step_rest := (step_rest L llen PS recog lineno).
  Local Notation step_after_read := (step_after_read L llen PS recog lineno).
  Local Notation recovery := (recovery L llen PS bump).
  Local Notation parse_phase := (parse_phase L llen PS recog lineno).
  Local Notation bstep := (bstep L llen PS recog bump lineno).
  Local Notation b_step_rest := (b_step_rest L llen PS recog lineno).
  Local Notation b_step_after_read := (b_step_after_read L llen PS recog lineno).
  Local Notation b_recovery := (b_recovery L llen PS bump).
  Local Notation b_parse_phase := (b_parse_phase L llen PS recog lineno).
  Local Notation iter_nat := (iter_nat L llen PS recog bump lineno).
  Local Notation biter := (biter L llen PS recog bump lineno).

  (* the representation invariant *)
  Record BInv (x : Bst) : Prop := {
    bi_idx : idx (x_b x) = buf (x_s x);                         (* Model.v's indices are the real ones *)
    bi_wf : bwf (x_b x);
    bi_all : x_cb x ++ bdata (x_b x) ++ x_in x = inp;           (* nothing lost, nothing reordered *)
    bi_in : zlength (x_in x) = unread (x_s x);
    bi_cb : zlength (x_cb x) = cbsum (x_s x)
  }.

  Lemma binv_geom : forall x, BInv x -> geom (buf (x_s x)).
  Proof. intros x I. rewrite <- (bi_idx x I). apply bwf_geom. apply (bi_wf x I). Qed.

  Lemma consume_inv : forall x a s', BInv x -> 0 <= a <= avail (buf (x_s x)) ->
    buf s' = consume (buf (x_s x)) a -> unread s' = unread (x_s x) -> cbsum s' = cbsum (x_s x) + a ->
    BInv (mkb s' (bconsume (x_b x) a) (x_in x) (x_cb x ++ zfirstn a (bdata (x_b x)))).
  Proof.
    intros x a s' I Ha Hb Hu Hc. destruct I as [I1 I2 I3 I4 I5].
    rewrite <- I1, avail_idx in Ha.
    destruct (bconsume_spec (x_b x) a I2 (proj1 Ha)) as [W D].
    pose proof (bdata_length _ I2) as HL.
    constructor; cbn [x_s x_b x_in x_cb].
    - rewrite idx_consume, I1. symmetry. exact Hb.
    - exact W.
    - rewrite D. replace (Z.min a (bavail (x_b x))) with a by lia.
      rewrite <- app_assoc. rewrite (app_assoc (zfirstn a _)). rewrite zfirstn_zskipn. exact I3.
    - rewrite Hu. exact I4.
    - rewrite zlength_app, zlength_zfirstn, I5, Hc; lia.
  Qed.

  Lemma write_inv : forall x n s', BInv x -> 0 <= n <= space (buf (x_s x)) -> n <= unread (x_s x) ->
    buf s' = fill (buf (x_s x)) n -> unread s' = unread (x_s x) - n -> cbsum s' = cbsum (x_s x) ->
    BInv (mkb s' (bfill (bwrite (x_b x) (zfirstn n (x_in x))) n) (zskipn n (x_in x)) (x_cb x)).
  Proof.
    intros x n s' I Hn Hun Hb Hu Hc. destruct I as [I1 I2 I3 I4 I5].
    rewrite <- I1, space_idx in Hn.
    assert (HL : zlength (zfirstn n (x_in x)) = n) by (apply zlength_zfirstn; lia).
    pose proof (bwrite_fill_spec (x_b x) (zfirstn n (x_in x)) I2) as S. rewrite HL in S.
    destruct (S (proj2 Hn)) as [W D].
    constructor; cbn [x_s x_b x_in x_cb].
    - rewrite idx_fill, idx_write, I1. symmetry. exact Hb.
    - exact W.
    - rewrite D. rewrite <- app_assoc. rewrite zfirstn_zskipn. exact I3.
    - rewrite zlength_zskipn, Hu; lia.
    - rewrite Hc. exact I5.
  Qed.

  Lemma grow_inv : forall x n s', BInv x ->
    buf s' = grow (buf (x_s x)) n -> unread s' = unread (x_s x) -> cbsum s' = cbsum (x_s x) ->
    BInv (mkb s' (bgrow (x_b x) n) (x_in x) (x_cb x)).
  Proof.
    intros x n s' I Hb Hu Hc. destruct I as [I1 I2 I3 I4 I5].
    destruct (bgrow_spec (x_b x) n I2) as [W D].
    constructor; cbn [x_s x_b x_in x_cb].
    - rewrite idx_grow, I1. symmetry. exact Hb.
    - exact W.
    - rewrite D. exact I3.
    - rewrite Hu. exact I4.
    - rewrite Hc. exact I5.
  Qed.

  Lemma with_s_inv : forall x s', BInv x ->
    buf s' = buf (x_s x) -> unread s' = unread (x_s x) -> cbsum s' = cbsum (x_s x) ->
    BInv (with_s L PS x s').
  Proof.
    intros x s' I Hb Hu Hc. destruct I as [I1 I2 I3 I4 I5].
    constructor; cbn [with_s x_s x_b x_in x_cb]; try assumption; congruence.
  Qed.

  (* lock step: the byte-level loop and the index model take the same branch *)
  Definition sim (br : bres L PS) (r : stepres L PS) : Prop :=
    match br, r with
    | BNext x', Next s' => x_s x' = s' /\ BInv x'
    | BDone r1 x', Done r2 s' => r1 = r2 /\ x_s x' = s' /\ BInv x'
    | BPanic _, StPanic _ => True
    | _, _ => False
    end.

  Lemma b_recovery_inv : forall x, WFm (x_s x) -> BInv x ->
    x_s (b_recovery x) = recovery (x_s x) /\ BInv (b_recovery x).
  Proof.
    intros x W I. split; [reflexivity|].
    pose proof (binv_geom x I) as G.
    unfold Circular.b_recovery. destruct (Model.first_nl L llen PS (x_s x)) as [i|] eqn:F.
    - pose proof F as F'. apply (first_nl_some L llen PS init_ps recog bump lineno llen_pos) in F'. destruct F' as [l [t [Hr [Hi Hle]]]].
      rewrite Hr. cbv iota. destruct (wf_off _ _ _ _ _ _ _ _ _ _ _ W) as [Wo1 Wo2]. rewrite Hr in Wo2.
      apply consume_inv; try exact I; try lia.
      all: unfold Model.recovery; rewrite F, Hr; reflexivity.
    - assert (E : recovery (x_s x) = discard_all L PS (x_s x)).
      { unfold Model.recovery. rewrite F. reflexivity. }
      cbv iota. change (bavail (x_b x)) with (avail (idx (x_b x))). rewrite (bi_idx x I).
      rewrite E. destruct G as [G1 [G2 G3]].
      apply consume_inv; try exact I; try reflexivity. unfold avail. lia.
  Qed.

  Lemma b_parse_phase_sim : forall x, BInv x -> sim (b_parse_phase x) (parse_phase (x_s x)).
  Proof.
    intros x I. unfold Circular.b_parse_phase, Model.parse_phase.
    destruct (pr (x_s x)) eqn:Ep; [cbn [sim]; split; [reflexivity|exact I]|].
    rewrite (bwf_geom_ok _ (bi_wf x I)). rewrite (geom_ok_true _ (binv_geom x I)). cbn [negb].
    destruct (off (x_s x) =? 0); cbn [negb]; [|exact Logic.I].
    rewrite <- avail_idx, (bi_idx x I).
    pose proof (binv_geom x I) as G.
    assert (Hav : 0 <= avail (buf (x_s x))) by (destruct G as [? [? ?]]; unfold avail; lia).
    destruct (pm L llen PS recog lineno (avail (buf (x_s x))) (ps (x_s x)) (rest (x_s x)) 0 (log (x_s x)))
      as [[[[p' r'] c'] lg']|[c ln]] eqn:P.
    - apply (pm_inl L llen PS recog bump lineno llen_pos) in P; [|exact Hav].
      destruct P as [tk [H1 [H2 [H3 _]]]].
      pose proof (size_nonneg L llen PS init_ps recog bump lineno llen_pos tk) as Hsz.
      replace (avail (buf (x_s x)) <? c') with false by (symmetry; apply Z.ltb_ge; lia).
      cbn [sim]. split; [reflexivity|].
      apply consume_inv; try exact I; try reflexivity. lia.
    - cbn [sim]. split; [reflexivity|split; [reflexivity|exact I]].
  Qed.

  Lemma b_step_after_read_sim : forall x1 n sch' sp, BInv x1 ->
    sp = space (buf (x_s x1)) -> 0 <= n <= sp -> n <= unread (x_s x1) ->
    sim (b_step_after_read n sch' sp x1) (step_after_read n sch' sp (x_s x1)).
  Proof.
    intros x1 n sch' sp I Hsp Hn Hu. subst sp.
    unfold Circular.b_step_after_read, Model.step_after_read. cbv zeta.
    match goal with |- context [mkb ?s2 (bfill ?w n) ?i ?c] =>
      assert (I2 : BInv (mkb s2 (bfill w n) i c)) by (apply write_inv; try exact I; try reflexivity; lia);
      set (S2 := s2) in *; set (X2 := mkb S2 (bfill w n) i c) in *
    end.
    destruct (n =? 0).
    - destruct (jf S2 && negb (avail (fill (buf (x_s x1)) n) =? 0)).
      + exact (b_parse_phase_sim X2 I2).
      + destruct (fc S2); [cbn [sim]; split; [reflexivity|split; [reflexivity|exact I2]]|].
        destruct ((space (buf (x_s x1)) =? 0) && negb (tg S2)).
        * destruct (MAX_CAP <? Z.min (b_cap (fill (buf (x_s x1)) n) * 2) U64MAX).
          { cbn [sim]. split; [reflexivity|]. apply with_s_inv; try exact I2; reflexivity. }
          { cbn [sim]. split; [reflexivity|]. apply (grow_inv X2); try exact I2; reflexivity. }
        * destruct (total S2 =? 0); cbn [sim]; (split; [reflexivity|split; [reflexivity|exact I2]]).
    - apply (b_parse_phase_sim (with_s L PS X2 (set_tg L PS S2 false))).
      apply with_s_inv; try exact I2; reflexivity.
  Qed.

  Lemma b_step_rest_sim : forall x1, BInv x1 -> sim (b_step_rest x1) (step_rest (x_s x1)).
  Proof.
    intros x1 I. unfold Circular.b_step_rest, Model.step_rest.
    rewrite (bwf_geom_ok _ (bi_wf x1 I)). rewrite (geom_ok_true _ (binv_geom x1 I)). cbn [negb].
    rewrite <- space_idx, (bi_idx x1 I).
    destruct (read_n L PS (space (buf (x_s x1))) (x_s x1)) as [n sch'] eqn:R.
    pose proof (binv_geom x1 I) as G.
    assert (Hs : 0 <= space (buf (x_s x1))) by (destruct G as [? [? ?]]; unfold space; lia).
    assert (Hu : 0 <= unread (x_s x1)) by (rewrite <- (bi_in x1 I); apply zlength_nonneg).
    destruct (read_n_spec L PS init_ps recog bump lineno _ _ _ _ R Hs Hu) as [A [B _]].
    apply b_step_after_read_sim; try assumption. reflexivity.
  Qed.

  Lemma bstep_sim : forall x0, WFm (x_s x0) -> BInv x0 -> sim (bstep x0) (step (x_s x0)).
  Proof.
    intros x0 W I. unfold Circular.bstep, Model.step.
    rewrite (bwf_geom_ok _ (bi_wf x0 I)). rewrite (geom_ok_true _ (binv_geom x0 I)). cbn [negb].
    rewrite andb_false_r.
    destruct (pr (x_s x0)) eqn:Ep.
    - destruct (b_recovery_inv x0 W I) as [E I1]. rewrite <- E. apply b_step_rest_sim. exact I1.
    - apply b_step_rest_sim. exact I.
  Qed.

  (* any number of iterations *)
  Lemma biter_sim : forall n x0, WF (x_s x0) -> BInv x0 -> sim (biter n x0) (iter_nat n (x_s x0)).
  Proof.
    induction n as [|n IH]; intros x0 W I; cbn [Circular.biter Proofs.iter_nat].
    - cbn [sim]. split; [reflexivity|exact I].
    - pose proof (bstep_sim x0 (wf_m _ _ _ _ _ _ _ _ _ _ _ W) I) as S.
      pose proof (step_wf L llen PS init_ps recog bump lineno llen_pos tail tail_nonneg ilen lines (x_s x0) W) as SW.
      destruct (bstep x0) as [x1|r1 x1|t1]; destruct (step (x_s x0)) as [s1|r2 s1|t2]; cbn [sim] in S; try contradiction.
      + destruct S as [E I1]. subst s1. destruct SW as [W1 _]. apply IH; assumption.
      + cbn [sim]. exact S.
  Qed.
End BSim.

(* ------------------------------------------------------------------ from the initial state *)
Section BTop.
  Variable L : Type.
  Variable llen : L -> Z.
  Variable PS : Type.
  Variable init_ps : PS.
  Variable recog : PS -> L -> PS + Z.
  Variable bump : PS -> PS.
  Variable lineno : PS -> Z.
  Hypothesis llen_pos : forall l, 1 <= llen l.

  Local Notation init_st := (init_st L llen PS init_ps).
  Local Notation iter_pos := (iter_pos L llen PS recog bump lineno).
  Local Notation iter_nat := (iter_nat L llen PS recog bump lineno).
  Local Notation biter := (biter L llen PS recog bump lineno).
  Local Notation input_len := (input_len L llen).
  Local Notation WF' lines t0 := (WF L llen PS init_ps recog bump lineno (Z.max 0 t0) (input_len lines t0) lines).
  Local Notation WFm' lines t0 := (WFm L llen PS init_ps recog bump lineno (Z.max 0 t0) (input_len lines t0) lines).

  (* what the buffer, the callback and the reader hold, in terms of the input *)
  Definition window (inp : list Z) (x : bst L PS) : Prop :=
    let s := x_s x in
    idx (x_b x) = buf s /\
    x_cb x ++ bdata (x_b x) ++ x_in x = inp /\
    x_cb x = zfirstn (total s) inp /\
    bdata (x_b x) = zslice inp (total s) (total s + avail (buf s)).

  Lemma binv_window : forall lines t0 inp x, BInv L PS inp x -> WFm' lines t0 (x_s x) -> window inp x.
  Proof.
    intros lines t0 inp x I W. destruct I as [I1 I2 I3 I4 I5].
    pose proof (wf_cb _ _ _ _ _ _ _ _ _ _ _ W) as Hcb.
    pose proof (bdata_length _ I2) as HL. rewrite <- avail_idx, I1 in HL.
    destruct (app3_slices _ _ _ _ _ I3) as [A B]. rewrite I5, Hcb in A. rewrite I5, Hcb, HL in B.
    unfold window. cbv zeta. repeat split; assumption.
  Qed.

  Lemma iter_nat_wfm : forall lines t0 n s0, WF' lines t0 s0 ->
    match iter_nat n s0 with
    | Next s => WF' lines t0 s
    | Done _ s => WFm' lines t0 s
    | StPanic _ => False
    end.
  Proof.
    intros lines t0. induction n as [|n IH]; intros s0 W; cbn [Proofs.iter_nat]; [exact W|].
    pose proof (step_wf L llen PS init_ps recog bump lineno llen_pos (Z.max 0 t0) ltac:(lia)
                        (input_len lines t0) lines s0 W) as SW.
    destruct (step L llen PS recog bump lineno s0) as [s1|r s1|t].
    - apply IH. apply SW.
    - apply SW.
    - exact SW.
  Qed.

  Lemma binit_inv : forall lines t0 sch inp, zlength inp = input_len lines t0 ->
    BInv L PS inp (binit L PS (init_st lines t0 sch) inp).
  Proof.
    intros lines t0 sch inp H. unfold binit, Model.init_st.
    constructor; cbn [x_s x_b x_in x_cb buf unread cbsum b_cap].
    - reflexivity.
    - apply bwf_with_capacity. unfold INITIAL_CAP. lia.
    - reflexivity.
    - exact H.
    - reflexivity.
  Qed.

  Lemma reach_inv : forall lines t0 sch inp p, zlength inp = input_len lines t0 ->
    let x0 := binit L PS (init_st lines t0 sch) inp in
    match iter_pos p (init_st lines t0 sch) with
    | Next s => exists x, biter (Pos.to_nat p) x0 = BNext x /\ x_s x = s /\ BInv L PS inp x /\ WFm' lines t0 s
    | Done r s => exists x, biter (Pos.to_nat p) x0 = BDone r x /\ x_s x = s /\ BInv L PS inp x /\ WFm' lines t0 s
    | StPanic _ => False
    end.
  Proof.
    intros lines t0 sch inp p H x0.
    rewrite iter_pos_nat.
    pose proof (init_wf' L llen PS init_ps recog bump lineno llen_pos lines t0 sch) as W0.
    pose proof (binit_inv lines t0 sch inp H) as I0.
    pose proof (biter_sim L llen PS init_ps recog bump lineno llen_pos (Z.max 0 t0) ltac:(lia)
                          (input_len lines t0) lines inp (Pos.to_nat p) x0 W0 I0) as S.
    pose proof (iter_nat_wfm lines t0 (Pos.to_nat p) _ W0) as W.
    change (x_s x0) with (init_st lines t0 sch) in S.
    destruct (iter_nat (Pos.to_nat p) (init_st lines t0 sch)) as [s|r s|t];
      destruct (biter (Pos.to_nat p) x0) as [x|r1 x|t1]; cbn [sim] in S; try contradiction.
    - destruct S as [E I]. exists x. split; [reflexivity|]. split; [exact E|]. split; [exact I|apply W].
    - destruct S as [Er [E I]]. subst r1. exists x. split; [reflexivity|]. split; [exact E|]. split; [exact I|exact W].
  Qed.

  Lemma window_thm : forall lines t0 sch inp p, zlength inp = input_len lines t0 ->
    let x0 := binit L PS (init_st lines t0 sch) inp in
    match iter_pos p (init_st lines t0 sch) with
    | Next s => exists x, biter (Pos.to_nat p) x0 = BNext x /\ x_s x = s /\ window inp x
    | Done r s => exists x, biter (Pos.to_nat p) x0 = BDone r x /\ x_s x = s /\ window inp x
    | StPanic _ => False
    end.
  Proof.
    intros lines t0 sch inp p H x0. pose proof (reach_inv lines t0 sch inp p H) as R. cbv zeta in R. fold x0 in R.
    destruct (iter_pos p (init_st lines t0 sch)) as [s|r s|t]; [| |exact R].
    - destruct R as [x [A [B [C D]]]]. exists x. split; [exact A|]. split; [exact B|]. subst s.
      apply (binv_window lines t0); assumption.
    - destruct R as [x [A [B [C D]]]]. exists x. split; [exact A|]. split; [exact B|]. subst s.
      apply (binv_window lines t0); assumption.
  Qed.
  Lemma zlength_zero_nil : forall A (l : list A), zlength l = 0 -> l = [].
  Proof. intros A l H. destruct l; [reflexivity|]. unfold zlength in H. cbn [length] in H. lia. Qed.

  (* a successful parse has handed the WHOLE input to the callback, byte for byte, and left nothing in the buffer *)
  Lemma ok_callback_whole_thm : forall lines t0 sch inp p s, zlength inp = input_len lines t0 ->
    drive L llen PS init_ps recog bump lineno lines t0 sch = Ret (ROk p, s) ->
    exists x, biter (Pos.to_nat (fuel_for L llen lines t0)) (binit L PS (init_st lines t0 sch) inp) = BDone (ROk p) x /\
              x_s x = s /\ x_cb x = inp /\ bdata (x_b x) = [] /\ x_in x = [].
  Proof.
    intros lines t0 sch inp p s H D.
    destruct (drive_fin L llen PS init_ps recog bump lineno llen_pos lines t0 sch) as [r' [s' [D' F]]].
    rewrite D in D'. inversion D'; subst r' s'. clear D'.
    destruct F as [_ [_ [Fa [Fu _]]]].
    unfold Model.drive in D.
    pose proof (reach_inv lines t0 sch inp (fuel_for L llen lines t0) H) as R. cbv zeta in R.
    destruct (iter_pos (fuel_for L llen lines t0) (init_st lines t0 sch)) as [s1|r1 s1|t1]; try discriminate.
    inversion D; subst r1 s1. clear D.
    destruct R as [x [B [E [I W]]]]. exists x. split; [exact B|]. split; [exact E|].
    destruct I as [I1 I2 I3 I4 I5]. rewrite E in *.
    pose proof (bdata_length _ I2) as HL. rewrite <- avail_idx, I1, Fa in HL.
    rewrite Fu in I4.
    apply zlength_zero_nil in HL. apply zlength_zero_nil in I4.
    rewrite HL, I4, !app_nil_r in I3. repeat split; assumption.
  Qed.
End BTop.
