(* C09/Circular.v — round 5: circular::Buffer 0.3.0 WITH its memory, and the parse loop run on real bytes.
   Definitions only (extracted).

   C09/Model.v keeps only the three indices of the buffer and *assumes* what data() contains (the window of the
   input that starts at total_consumed).  Here the buffer is what the crate has:

       memory: Vec<u8>, capacity, position, end          (memory.len() == capacity)

   with_capacity  = `repeat(0).take(capacity)`
   data()         = &memory[position..end]
   space()        = &mut memory[end..capacity]            (the reader writes into its first n bytes)
   shift()        = ptr::copy(memory[position..end] -> memory[..length])   (memmove: overlapping allowed;
                    the bytes behind the moved block keep their old values)
   grow(n)        = memory.resize(n, 0)
   consume / fill = index arithmetic + shift, as in Model.v

   [idx] forgets the memory; ProofsCircular.v proves that every operation commutes with [idx] (so the index model
   of Model.v is the projection of this one) and that data() behaves as a FIFO queue of bytes. *)
From RM Require Import Base.Word C09.Model.
Open Scope Z_scope.

Record bbuf := mkbb { m_mem : list Z; m_pos : Z; m_end : Z; m_cap : Z }.

Definition idx (b : bbuf) : cbuf := mkbuf (m_pos b) (m_end b) (m_cap b).

Definition zfirstn {A} (n : Z) (l : list A) : list A := firstn (Z.to_nat n) l.
Definition zskipn {A} (n : Z) (l : list A) : list A := skipn (Z.to_nat n) l.
Definition zlength {A} (l : list A) : Z := Z.of_nat (length l).
Definition zeros (n : Z) : list Z := repeat 0 (Z.to_nat n).

(* &l[a..b] *)
Definition zslice {A} (l : list A) (a b : Z) : list A := zfirstn (b - a) (zskipn a l).

Definition with_capacity (c : Z) : bbuf := mkbb (zeros c) 0 0 c.

Definition bavail (b : bbuf) : Z := m_end b - m_pos b.
Definition bspace (b : bbuf) : Z := m_cap b - m_end b.

Definition bdata (b : bbuf) : list Z := zslice (m_mem b) (m_pos b) (m_end b).
Definition bspace_slice (b : bbuf) : list Z := zslice (m_mem b) (m_end b) (m_cap b).

Definition bshift (b : bbuf) : bbuf :=
  if 0 <? m_pos b then
    let length := m_end b - m_pos b in
    mkbb (bdata b ++ zskipn length (m_mem b)) 0 length (m_cap b)
  else b.

Definition bconsume (b : bbuf) (count : Z) : bbuf :=
  let cnt := Z.min count (bavail b) in
  let b1 := mkbb (m_mem b) (m_pos b + cnt) (m_end b) (m_cap b) in
  if m_cap b1 / 2 <? m_pos b1 then bshift b1 else b1.

Definition bfill (b : bbuf) (count : Z) : bbuf :=
  let cnt := Z.min count (bspace b) in
  let b1 := mkbb (m_mem b) (m_pos b) (m_end b + cnt) (m_cap b) in
  if bspace b1 <? bavail b1 + cnt then bshift b1 else b1.

Definition bgrow (b : bbuf) (n : Z) : bbuf :=
  if n <=? m_cap b then b else mkbb (m_mem b ++ zeros (n - m_cap b)) (m_pos b) (m_end b) n.

(* what a reader does with `buf.space()`: it overwrites the first [length bytes] bytes of the slice *)
Definition bwrite (b : bbuf) (bytes : list Z) : bbuf :=
  mkbb (zfirstn (m_end b) (m_mem b) ++ bytes ++ zskipn (m_end b + zlength bytes) (m_mem b))
       (m_pos b) (m_end b) (m_cap b).

(* the slice sites: data() and space() index memory; both need position <= end <= capacity <= memory.len() *)
Definition bgeom_ok (b : bbuf) : bool :=
  geom_ok (idx b) && (m_cap b <=? zlength (m_mem b)).

(* ------------------------------------------------------------------ the FIFO the driver model assumes *)
Inductive bop :=
| OWrite (bytes : list Z)       (* read() put these bytes into space(), then fill(len) *)
| OConsume (n : Z)
| OGrow (n : Z)
| OShift.

Definition bapply (b : bbuf) (o : bop) : bbuf :=
  match o with
  | OWrite bytes => bfill (bwrite b bytes) (zlength bytes)
  | OConsume n => bconsume b n
  | OGrow n => bgrow b n
  | OShift => bshift b
  end.

(* the same operation on the indices alone (Model.v) *)
Definition capply (b : cbuf) (o : bop) : cbuf :=
  match o with
  | OWrite bytes => fill b (zlength bytes)
  | OConsume n => consume b n
  | OGrow n => grow b n
  | OShift => shift b
  end.

(* ... and on a queue of bytes *)
Definition qapply (q : list Z) (o : bop) : list Z :=
  match o with
  | OWrite bytes => q ++ bytes
  | OConsume n => zskipn n q
  | OGrow _ => q
  | OShift => q
  end.

(* an operation the code can perform in this state: a read() returns at most space() bytes, consume is called
   with at most available_data() *)
Definition bop_ok (b : cbuf) (o : bop) : bool :=
  match o with
  | OWrite bytes => zlength bytes <=? space b
  | OConsume n => (0 <=? n) && (n <=? avail b)
  | OGrow _ => true
  | OShift => true
  end.

Fixpoint ops_ok (b : cbuf) (ops : list bop) : bool :=
  match ops with
  | nil => true
  | cons o t => bop_ok b o && ops_ok (capply b o) t
  end.

(* ------------------------------------------------------------------ newlines in the real bytes *)
(* input.iter().position(|b| b == '\n'), counting from [i] *)
Fixpoint position_nl (d : list Z) (i : Z) : option Z :=
  match d with
  | nil => None
  | cons c t => if c =? 10 then Some i else position_nl t (i + 1)
  end.

(* parse_more: `input = match input.iter().rposition(|&x| x == b'\n') { Some(idx) => &input[..idx + 1], None => return Ok(0) }`
   — the prefix up to and including the last '\n' (empty when there is none) *)
Fixpoint trim_nl (d : list Z) : list Z :=
  match d with
  | nil => nil
  | cons c t => match trim_nl t with
                | nil => if c =? 10 then cons c nil else nil
                | r => cons c r
                end
  end.

(* the complete lines that fit into [budget] bytes (the lines Model.pm walks over) *)
Fixpoint fit {L : Type} (llen : L -> Z) (budget : Z) (ls : list L) : list L :=
  match ls with
  | nil => nil
  | cons l t => if llen l <=? budget then cons l (fit llen (budget - llen l) t) else nil
  end.

(* ------------------------------------------------------------------ the parse loop on real bytes *)
Section BDriver.
  Variable L : Type.
  Variable llen : L -> Z.
  Variable PS : Type.
  Variable recog : PS -> L -> PS + Z.
  Variable bump : PS -> PS.
  Variable lineno : PS -> Z.

  (* the loop state of Model.v together with the real buffer, the bytes the reader has not handed out yet and
     everything the callback has been given so far *)
  Record bst := mkb {
    x_s : st L PS;
    x_b : bbuf;
    x_in : list Z;
    x_cb : list Z
  }.

  Inductive bres :=
  | BNext (x : bst)
  | BDone (r : result PS) (x : bst)
  | BPanic (tag : Z).

  (* the recovery block: `callback(&input[..amount]); buf.consume(amount);` *)
  Definition b_recovery (x : bst) : bst :=
    let s := x_s x in
    let amount := match first_nl L llen PS s, rest s with
                  | Some i, cons _ _ => i + 1
                  | _, _ => bavail (x_b x)
                  end in
    mkb (recovery L llen PS bump s) (bconsume (x_b x) amount) (x_in x)
        (x_cb x ++ zfirstn amount (bdata (x_b x))).

  (* Model.parse_phase with `callback(&data[..consumed]); buf.consume(consumed);` on the bytes *)
  Definition b_parse_phase (x : bst) : bres :=
    let s := x_s x in
    if pr s then BNext x else
    if negb (bgeom_ok (x_b x)) then BPanic 2 else
    if negb (off s =? 0) then BPanic 99
    else
      let len := bavail (x_b x) in
      match pm L llen PS recog lineno len (ps s) (rest s) 0 (log s) with
      | inr (c, ln) => BDone (RErr c ln) x
      | inl (p', rest', consumed, lg') =>
          if len <? consumed then BPanic 13                      (* &data[..consumed] out of range *)
          else
          BNext (mkb (mkst (consume (buf s) consumed) (len =? consumed) (tg s) false false
                           (total s + consumed) p' rest' 0 (unread s) (sched s)
                           (ncb s + 1) (cbsum s + consumed) (nrd s) (maxsp s) lg')
                     (bconsume (x_b x) consumed) (x_in x)
                     (x_cb x ++ zfirstn consumed (bdata (x_b x))))
      end.

  Definition with_s (x : bst) (s : st L PS) : bst := mkb s (x_b x) (x_in x) (x_cb x).

  (* Model.step_after_read: the reader has copied [n] bytes of the input into space(); buf.fill(n) *)
  Definition b_step_after_read (n : Z) (sch' : list Z) (sp : Z) (x1 : bst) : bres :=
    let s1 := x_s x1 in
    let b := buf s1 in
    let buffer_full := sp =? 0 in
    let chunk := zfirstn n (x_in x1) in
    let bb2 := bfill (bwrite (x_b x1) chunk) n in
    let b2 := fill b n in
    let s2 := mkst b2 (fc s1) (tg s1) (pr s1) (jf s1) (total s1) (ps s1) (rest s1) (off s1)
                   (unread s1 - n) sch' (ncb s1) (cbsum s1) (nrd s1 + 1) (Z.max (maxsp s1) sp) (log s1) in
    let x2 := mkb s2 bb2 (zskipn n (x_in x1)) (x_cb x1) in
    if n =? 0 then
      if jf s2 && negb (avail b2 =? 0) then b_parse_phase x2
      else if fc s2 then BDone (ROk (ps s2)) x2
      else if buffer_full && negb (tg s2) then
        let new_cap := Z.min (b_cap b2 * 2) U64MAX in
        if MAX_CAP <? new_cap then BNext (with_s x2 (set_pr L PS s2 true))
        else BNext (mkb (set_buf_tg L PS s2 (grow b2 new_cap) true) (bgrow bb2 new_cap) (x_in x2) (x_cb x2))
      else if total s2 =? 0 then BDone (RErr 3 0) x2
      else BDone (RErr 4 (lineno (ps s2))) x2
    else b_parse_phase (with_s x2 (set_tg L PS s2 false)).

  Definition b_step_rest (x1 : bst) : bres :=
    if negb (bgeom_ok (x_b x1)) then BPanic 1 else
    let sp := bspace (x_b x1) in
    let '(n, sch') := read_n L PS sp (x_s x1) in
    b_step_after_read n sch' sp x1.

  Definition bstep (x0 : bst) : bres :=
    if pr (x_s x0) && negb (bgeom_ok (x_b x0)) then BPanic 2 else
    b_step_rest (if pr (x_s x0) then b_recovery x0 else x0).

  Fixpoint biter (n : nat) (x : bst) : bres :=
    match n with
    | O => BNext x
    | S n' => match bstep x with BNext x1 => biter n' x1 | r => r end
    end.

  Definition binit (s : st L PS) (input : list Z) : bst :=
    mkb s (with_capacity (b_cap (buf s))) input nil.
End BDriver.

Arguments x_s {L PS} _.
Arguments x_b {L PS} _.
Arguments x_in {L PS} _.
Arguments x_cb {L PS} _.
Arguments mkb {L PS}.
Arguments BNext {L PS} x.
Arguments BDone {L PS} r x.
Arguments BPanic {L PS} tag.
