(* C09/ProofsFinish.v — SymbolParser::finish never panics on a parser state the recogniser can
   reach: the numeric fields the number recognisers produce are in range, the invariant is kept
   by every line, and under it every range-map builder and insert_win_stack_info return. *)
From Coq Require Import Lia ZArith List Bool.
From RM Require Import Base.Word C08.Model C11.Model C09.Model C09.Grammar C09.Driver C08.Proofs.
Import ListNotations.
Open Scope Z_scope.

(* ------------------------------------------------------------------ the invariant *)
(* numeric fields produced by the number recognisers are in range *)
Definition fr_wf (f : Grammar.func_raw) : Prop :=
  0 <= Grammar.fr_addr f /\ 0 <= Grammar.fr_size f /\ Forall (fun l => 0 <= l_addr l) (Grammar.fr_lines f).
Definition cfi_wf (c : cfi_raw) : Prop := 0 <= cr_addr (ci_init c) /\ 0 <= ci_size c.
Definition wi_wf (w : win_info) : Prop := 0 <= wi_addr w /\ 0 <= wi_size w < 4294967296.
Definition pst_wf (p : pst) : Prop :=
  match p_cur p with CFunc f => fr_wf f | CCfi c => cfi_wf c | CNone => True end /\
  Forall fr_wf (p_funcs p) /\ Forall cfi_wf (p_cfis p) /\ Forall wi_wf (p_win_fd p) /\ Forall wi_wf (p_win_fpo p).

(* ------------------------------------------------------------------ numbers *)
Lemma digits_bound val base :
  0 < base -> (forall b d, val b = Some d -> 0 <= d < base) ->
  forall n s acc k v k' s', digits val base n s acc k = (v, k', s') -> 0 <= acc ->
  0 <= v /\ v + 1 <= (acc + 1) * base ^ Z.of_nat n.
Proof.
  intros Hb Hv. induction n as [|n IH]; intros s acc k v k' s' H Ha.
  - cbn [digits] in H. inversion H; subst. change (base ^ Z.of_nat 0) with 1. lia.
  - cbn [digits] in H.
    assert (HP : 0 < base ^ Z.of_nat n) by (apply Z.pow_pos_nonneg; lia).
    rewrite Nat2Z.inj_succ, Z.pow_succ_r by lia.
    destruct (uncons s) as [[b s1]|]; [destruct (val b) as [d|] eqn:E|].
    + specialize (Hv _ _ E). apply IH in H; [|nia]. destruct H as [H0 H1]. split; [lia|].
      assert ((acc * base + d + 1) * base ^ Z.of_nat n <= ((acc + 1) * base) * base ^ Z.of_nat n)
        by (apply Z.mul_le_mono_nonneg_r; nia).
      lia.
    + inversion H; subst. split; [lia|]. nia.
    + inversion H; subst. split; [lia|]. nia.
Qed.

Lemma hexval_range b d : hexval b = Some d -> 0 <= d < 16.
Proof.
  unfold hexval.
  destruct ((48 <=? b) && (b <=? 57)) eqn:E1; [intros H; inversion H; lia|].
  destruct ((97 <=? b) && (b <=? 102)) eqn:E2; [intros H; inversion H; lia|].
  destruct ((65 <=? b) && (b <=? 70)) eqn:E3; [intros H; inversion H; lia|discriminate].
Qed.

Lemma hex_str_bound n s v s' : hex_str n s = Some (v, s') -> 0 <= v < 16 ^ Z.of_nat n.
Proof.
  unfold hex_str. destruct (digits hexval 16 n s 0 0) as [[v0 k] s0] eqn:E.
  destruct (k =? 0); [discriminate|]. intros H; inversion H; subst.
  apply digits_bound in E; [lia|lia|apply hexval_range|lia].
Qed.

Lemma osp_some {A} (o : option (A * rle)) v s' : osp o = Some (v, s') -> exists s1, o = Some (v, s1).
Proof.
  unfold osp. destruct o as [[v0 s1]|]; [|discriminate]. destruct (space1 s1); [|discriminate].
  intros H; inversion H; subst. eexists; reflexivity.
Qed.

Lemma hex64sp_bound s v s' : hex64sp s = Some (v, s') -> 0 <= v < two64.
Proof.
  unfold hex64sp. intros H. apply osp_some in H. destruct H as [s1 H]. apply hex_str_bound in H.
  assert (E : 16 ^ Z.of_nat 16 = two64) by reflexivity. lia.
Qed.

Lemma hex32sp_bound s v s' : hex32sp s = Some (v, s') -> 0 <= v < 4294967296.
Proof.
  unfold hex32sp. intros H. apply osp_some in H. destruct H as [s1 H]. apply hex_str_bound in H.
  assert (E : 16 ^ Z.of_nat 8 = 4294967296) by reflexivity. lia.
Qed.

(* ------------------------------------------------------------------ records *)
Definition item_wf (it : item) : Prop :=
  match it with
  | IFunc f => fr_wf f /\ Grammar.fr_lines f = []
  | ICfiInit c => cfi_wf c
  | IWin (FrameData i) => wi_wf i
  | IWin (Fpo i) => wi_wf i
  | _ => True
  end.

Ltac brk :=
  repeat match goal with
         | H : context [match ?e with _ => _ end] |- _ => destruct e eqn:?; try discriminate
         end.
Ltac bounds :=
  repeat match goal with
         | H : hex64sp _ = Some (_, _) |- _ => apply hex64sp_bound in H
         | H : hex32sp _ = Some (_, _) |- _ => apply hex32sp_bound in H
         end.
Ltac crack :=
  brk;
  repeat match goal with
         | H : POk _ = POk _ |- _ => inversion H; clear H
         | H : Some _ = Some _ |- _ => inversion H; clear H
         end;
  subst; bounds.

Lemma p_func_wf s it : p_func s = POk it -> item_wf it.
Proof.
  unfold p_func, cutp. cbv zeta. intros H. crack.
  cbn. unfold fr_wf. cbn. repeat split; try lia. constructor.
Qed.

Lemma p_cfi_wf s it : p_stack_cfi_init s = POk it -> item_wf it.
Proof.
  unfold p_stack_cfi_init, cutp. intros H. crack.
  cbn. unfold cfi_wf. cbn. lia.
Qed.

Lemma p_win_wf s it : p_stack_win s = POk it -> item_wf it.
Proof.
  unfold p_stack_win, cutp. intros H. crack.
  unfold win_of_fields. cbv zeta.
  repeat match goal with |- context [if ?c then _ else _] => destruct c end; cbn; auto;
    unfold wi_wf; cbn; lia.
Qed.

Lemma p_public_wf s it : p_public s = POk it -> item_wf it.
Proof. unfold p_public, cutp. cbv zeta. intros H. crack. exact I. Qed.
Lemma p_module_wf s it : p_module s = POk it -> item_wf it.
Proof. unfold p_module, cutp. intros H. crack. exact I. Qed.
Lemma p_file_wf s it : p_file s = POk it -> item_wf it.
Proof. unfold p_file, cutp. intros H. crack. exact I. Qed.
Lemma p_origin_wf s it : p_inline_origin s = POk it -> item_wf it.
Proof. unfold p_inline_origin, cutp. intros H. crack. exact I. Qed.
Lemma p_info_wf s it : p_info s = POk it -> item_wf it.
Proof. unfold p_info, cutp, guard. intros H. crack. exact I. Qed.
Lemma p_info_url_wf s it : p_info_url s = POk it -> item_wf it.
Proof. unfold p_info_url, cutp. intros H. crack. exact I. Qed.

Lemma line_top_wf s it : line_top s = Some it -> item_wf it.
Proof.
  unfold line_top, alt. intros H.
  destruct (p_info_url s) eqn:E1; try discriminate; [|inversion H; subst; eapply p_info_url_wf; eauto].
  destruct (p_info s) eqn:E2; try discriminate; [|inversion H; subst; eapply p_info_wf; eauto].
  destruct (p_file s) eqn:E3; try discriminate; [|inversion H; subst; eapply p_file_wf; eauto].
  destruct (p_inline_origin s) eqn:E4; try discriminate; [|inversion H; subst; eapply p_origin_wf; eauto].
  destruct (p_public s) eqn:E5; try discriminate; [|inversion H; subst; eapply p_public_wf; eauto].
  destruct (p_func s) eqn:E6; try discriminate; [|inversion H; subst; eapply p_func_wf; eauto].
  destruct (p_stack_win s) eqn:E7; try discriminate; [|inversion H; subst; eapply p_win_wf; eauto].
  destruct (p_stack_cfi_init s) eqn:E8; try discriminate; [|inversion H; subst; eapply p_cfi_wf; eauto].
  destruct (p_module s) eqn:E9; try discriminate. inversion H; subst; eapply p_module_wf; eauto.
Qed.

Lemma sub_line_data_wf s l : sub_line_data s = Some l -> 0 <= l_addr l.
Proof.
  unfold sub_line_data, guard. intros H. crack. cbn. lia.
Qed.

Lemma sub_func_line_wf s l : sub_func s = Some (SLine l) -> 0 <= l_addr l.
Proof.
  unfold sub_func. intros H.
  destruct (tag T_INLINE_ORIGIN_SP s).
  - destruct (p_inline_origin s) as [| |[]]; discriminate.
  - destruct (tag T_INLINE_SP s).
    + destruct (sub_inline s); discriminate.
    + destruct (sub_line_data s) eqn:E; [|discriminate]. inversion H; subst.
      eapply sub_line_data_wf; eauto.
Qed.

(* ------------------------------------------------------------------ one line *)
Lemma close_cur_wf p : pst_wf p -> pst_wf (close_cur p) /\ p_cur (close_cur p) = CNone.
Proof.
  unfold pst_wf, close_cur. intros (Hc & Hf & Hci & Hfd & Hfpo).
  destruct (p_cur p) eqn:E; cbn; rewrite ?E; repeat split; auto.
Qed.

Lemma close_cur_lines p : p_lines (close_cur p) = p_lines p.
Proof. unfold close_cur. destruct (p_cur p); reflexivity. Qed.

Lemma top_wf p s p' : pst_wf p -> top p s = inl p' -> pst_wf p'.
Proof.
  unfold pst_wf, top. intros (Hc & Hf & Hci & Hfd & Hfpo) H.
  destruct (eol s).
  { inversion H; subst; cbn; auto. }
  destruct (line_top s) as [it|] eqn:E; [|discriminate].
  apply line_top_wf in E.
  destruct it as [id f|u| |id nm|id nm|pb|f|w|c]; cbn in E.
  - destruct (p_lines p =? 0); [|discriminate]. inversion H; subst; cbn; auto.
  - inversion H; subst; cbn; auto.
  - inversion H; subst; cbn; auto.
  - inversion H; subst; cbn; auto.
  - inversion H; subst; cbn; auto.
  - inversion H; subst; cbn; auto.
  - inversion H; subst; cbn. destruct E; auto.
  - destruct w as [i|i|]; inversion H; subst; cbn; auto 10.
  - inversion H; subst; cbn; auto.
Qed.

Lemma top_lines p s p' : top p s = inl p' -> p_lines p' = p_lines p + 1.
Proof.
  unfold top. intros H.
  destruct (eol s).
  { inversion H; subst; reflexivity. }
  destruct (line_top s) as [it|]; [|discriminate].
  destruct it as [id f|u| |id nm|id nm|pb|f|w|c].
  - destruct (p_lines p =? 0); [|discriminate]. inversion H; subst; reflexivity.
  - inversion H; subst; reflexivity.
  - inversion H; subst; reflexivity.
  - inversion H; subst; reflexivity.
  - inversion H; subst; reflexivity.
  - inversion H; subst; reflexivity.
  - inversion H; subst; reflexivity.
  - destruct w as [i|i|]; inversion H; subst; reflexivity.
  - inversion H; subst; reflexivity.
Qed.

Lemma recog_pst_wf : forall p s p', pst_wf p -> recog_pst p s = inl p' -> pst_wf p'.
Proof.
  intros p s p' Hwf H. unfold recog_pst in H.
  destruct (p_cur p) as [|f|c] eqn:Ec.
  - eapply top_wf; eauto.
  - destruct (sub_func s) as [[id nm|l|l]|] eqn:Es.
    + inversion H; subst. destruct Hwf as (Hc & Hf & Hci & Hfd & Hfpo). rewrite Ec in Hc.
      unfold pst_wf; cbn; auto.
    + inversion H; subst. destruct Hwf as (Hc & Hf & Hci & Hfd & Hfpo). rewrite Ec in Hc.
      unfold pst_wf; cbn. repeat split; auto; apply Hc.
    + inversion H; subst. destruct Hwf as (Hc & Hf & Hci & Hfd & Hfpo). rewrite Ec in Hc.
      apply sub_func_line_wf in Es.
      unfold pst_wf, fr_wf; cbn. destruct Hc as (A & B & C). repeat split; auto.
    + eapply top_wf; [|eassumption]. apply close_cur_wf; assumption.
  - destruct (sub_cfi s) as [r|].
    + inversion H; subst. destruct Hwf as (Hc & Hf & Hci & Hfd & Hfpo). rewrite Ec in Hc.
      unfold pst_wf; cbn. repeat split; auto; apply Hc.
    + eapply top_wf; [|eassumption]. apply close_cur_wf; assumption.
Qed.

Lemma recog_pst_lines : forall p s p', recog_pst p s = inl p' -> p_lines p' = p_lines p + 1.
Proof.
  intros p s p' H. unfold recog_pst in H.
  destruct (p_cur p) as [|f|c].
  - apply top_lines in H; assumption.
  - destruct (sub_func s) as [[id nm|l|l]|].
    + inversion H; subst; reflexivity.
    + inversion H; subst; reflexivity.
    + inversion H; subst; reflexivity.
    + apply top_lines in H. rewrite close_cur_lines in H. assumption.
  - destruct (sub_cfi s) as [r|].
    + inversion H; subst; reflexivity.
    + apply top_lines in H. rewrite close_cur_lines in H. assumption.
Qed.

Lemma bump_pst_wf p : pst_wf p -> pst_wf (bump_pst p).
Proof. unfold pst_wf, bump_pst, set_lines_cur; cbn; auto. Qed.

Lemma replay_wf : forall (ds : list (bool * rle)) p p',
  pst_wf p -> replay rle pst recog_pst bump_pst lineno_pst p ds = inl p' ->
  pst_wf p' /\ p_lines p' = p_lines p + Z.of_nat (length ds).
Proof.
  induction ds as [|[b l] t IH]; intros p p' Hwf H.
  - cbn in H. inversion H; subst. cbn. split; [assumption|lia].
  - cbn [replay] in H. cbn [length]. rewrite Nat2Z.inj_succ. destruct b.
    + apply IH in H; [|apply bump_pst_wf; assumption]. destruct H as [A B]. split; [assumption|].
      rewrite B. cbn. lia.
    + destruct (recog_pst p l) as [p1|c] eqn:E; [|discriminate].
      apply IH in H; [|eapply recog_pst_wf; eauto]. destruct H as [A B]. split; [assumption|].
      rewrite B. apply recog_pst_lines in E. lia.
Qed.

Lemma init_pst_wf : pst_wf init_pst.
Proof. unfold pst_wf, init_pst; cbn; auto. Qed.

(* ------------------------------------------------------------------ finish *)
Lemma line_entries_wf ls : Forall (fun l => 0 <= l_addr l) ls -> wf_entries (line_entries ls).
Proof.
  unfold wf_entries, line_entries. induction 1 as [|l t Hl Ht IH]; cbn [filter map].
  - constructor.
  - destruct (0 <? l_size l) eqn:E; [|assumption]. cbn [map]. constructor; [|assumption].
    cbn [fst]. unfold mk_range_line, checked_add.
    destruct (l_addr l + (l_size l - 1) <? 2 ^ 64) eqn:E1; [|exact I].
    unfold wf_range; cbn [fst snd]. rewrite two64_val. lia.
Qed.

Lemma finish_func_total fr : fr_wf fr ->
  exists x, finish_func fr = Ret x /\ match x with Some e => wf_range (fst e) | None => True end.
Proof.
  intros (A & B & C). unfold finish_func.
  rewrite (build_total line_eqb).
  2:{ apply line_entries_wf. apply Forall_rev. assumption. }
  cbn [obind]. eexists. split; [reflexivity|].
  destruct (mk_range (Grammar.fr_addr fr) (Grammar.fr_size fr)) eqn:E; [|exact I].
  cbn [fst]. exact (mk_range_wf _ _ _ A B E).
Qed.

Lemma finish_funcs_total l : Forall fr_wf l -> exists fl, finish_funcs l = Ret fl /\ wf_ranges fl.
Proof.
  induction 1 as [|fr t Hf Ht IH]; cbn [finish_funcs].
  - eexists; split; [reflexivity|constructor].
  - destruct (finish_func_total fr Hf) as (x & Hx & Hw). destruct IH as (rest & Hr & Hrw).
    rewrite Hx. cbn [obind]. rewrite Hr. cbn [obind]. eexists; split; [reflexivity|].
    destruct x; [constructor|]; assumption.
Qed.

Lemma finish_cfis_wf l : Forall cfi_wf l -> wf_ranges (keep_somes (map finish_cfi l)).
Proof.
  induction 1 as [|c t Hc Ht IH]; cbn [map keep_somes].
  - constructor.
  - unfold finish_cfi at 1. destruct (mk_range (cr_addr (ci_init c)) (ci_size c)) eqn:E; [|assumption].
    constructor; [|assumption]. cbn [fst]. destruct Hc as [A B]. exact (mk_range_wf _ _ _ A B E).
Qed.

Definition acc_inv (acc : list (range * win_info)) : Prop :=
  wf_ranges acc /\
  match acc with
  | (lr, lw) :: _ => wi_range lw = Some lr /\ wi_wf lw
  | [] => True
  end.

Lemma win_insert_total acc w : acc_inv acc -> wi_wf w ->
  exists acc', win_insert acc w = Ret acc' /\ acc_inv acc'.
Proof.
  intros [Hwf Hh] Hw. unfold win_insert.
  destruct (wi_range w) as [mr|] eqn:Em.
  2:{ eexists; split; [reflexivity|split; assumption]. }
  assert (Hmr : wf_range mr) by (unfold wi_range in Em; destruct Hw as [A B]; refine (mk_range_wf _ _ _ A _ Em); lia).
  assert (Hnew : forall a, wf_ranges a -> acc_inv ((mr, w) :: a)).
  { intros a Ha. split; [constructor; assumption|]. split; assumption. }
  destruct acc as [|[lr lw] acc'].
  { eexists; split; [reflexivity|]. apply Hnew. constructor. }
  destruct Hh as [Hl Hlw].
  destruct (intersects lr mr) eqn:Ei.
  2:{ eexists; split; [reflexivity|]. apply Hnew. assumption. }
  destruct (wi_addr w >? wi_addr lw) eqn:Eg.
  2:{ destruct (negb (range_eqb lr mr)); eexists; (split; [reflexivity|]).
      - split; [assumption|]. split; assumption.
      - apply Hnew. assumption. }
  (* the shrink branch *)
  assert (Hd : 0 < wi_addr w - wi_addr lw < wi_size lw /\ wi_addr w < two64).
  { unfold wi_range, mk_range, checked_add in Hl, Em. rewrite <- two64_val in Hl, Em.
    destruct (wi_size lw =? 0); [discriminate|].
    destruct (wi_addr lw + wi_size lw <? two64) eqn:E1; [|discriminate].
    destruct (wi_size w =? 0) eqn:E0; [discriminate|].
    destruct (wi_addr w + wi_size w <? two64) eqn:E2; [|discriminate].
    inversion Hl; subst lr. inversion Em; subst mr.
    unfold intersects in Ei. cbn [fst snd] in Ei. apply andb_true_iff in Ei. destruct Ei as [I1 I2].
    destruct Hw as [W1 W2]. lia. }
  destruct Hlw as [L1 L2].
  assert (Hwr : wrap32 (wi_addr w - wi_addr lw) = wi_addr w - wi_addr lw).
  { unfold wrap32, two32. apply Z.mod_small. lia. }
  rewrite Hwr.
  unfold wi_range at 1. unfold wi_set_size; cbn [wi_addr wi_size].
  unfold mk_range, checked_add. rewrite <- two64_val.
  destruct (wi_addr w - wi_addr lw =? 0) eqn:E0; [lia|].
  destruct (wi_addr lw + (wi_addr w - wi_addr lw) <? two64) eqn:E1; [|lia].
  eexists; split; [reflexivity|]. apply Hnew.
  inversion Hwf; subst. constructor; [|assumption]. cbn [fst]. unfold wf_range; cbn [fst snd]. lia.
Qed.

Lemma win_collect_total ws : Forall wi_wf ws -> forall acc, acc_inv acc ->
  exists r, win_collect acc ws = Ret r /\ wf_ranges r.
Proof.
  induction 1 as [|w t Hw Ht IH]; intros acc Hacc; cbn [win_collect].
  - eexists; split; [reflexivity|]. apply Forall_rev. apply Hacc.
  - destruct (win_insert_total acc w Hacc Hw) as (acc' & E & Hacc'). rewrite E. cbn [obind].
    apply IH; assumption.
Qed.

Lemma acc_inv_nil : acc_inv [].
Proof. split; [constructor|exact I]. Qed.

Lemma finish_total : forall p, pst_wf p -> exists t, finish p = Ret t.
Proof.
  intros p0 Hwf0. unfold finish. cbv zeta.
  destruct (close_cur_wf p0 Hwf0) as [Hwf _]. set (p := close_cur p0) in *.
  destruct Hwf as (_ & Hf & Hc & Hfd & Hfpo).
  destruct (finish_funcs_total (rev (p_funcs p))) as (fl & E1 & W1); [apply Forall_rev; assumption|].
  rewrite E1. cbn [obind].
  rewrite (build_total_p sfunc_eqb fl W1). cbn [obind].
  rewrite (build_total_p scfi_eqb); [|apply finish_cfis_wf; apply Forall_rev; assumption]. cbn [obind].
  destruct (win_collect_total (rev (p_win_fd p))) with (acc := @nil (range * win_info)) as (wfd & E2 & W2);
    [apply Forall_rev; assumption|apply acc_inv_nil|].
  rewrite E2. cbn [obind]. rewrite (build_total_p wi_eqb wfd W2). cbn [obind].
  destruct (win_collect_total (rev (p_win_fpo p))) with (acc := @nil (range * win_info)) as (wfpo & E3 & W3);
    [apply Forall_rev; assumption|apply acc_inv_nil|].
  rewrite E3. cbn [obind]. rewrite (build_total_p wi_eqb wfpo W3). cbn [obind].
  eexists; reflexivity.
Qed.

