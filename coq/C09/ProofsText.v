(* C09/ProofsText.v — round 5, second pass: the text fields of a record (names, rule strings, line endings) on BYTES.
   Grammar.v works on run-length encoded lines; here its string recognisers are described over the expanded byte list:
   * `my_eol` = `\r*` before the '\n' ([eol_bytes]);
   * `terminated(map_res(not_my_eol, from_utf8), my_eol)` ([name_eol_bytes]): the bytes up to the first '\r' are the name,
     everything after must be '\r', the name must be valid UTF-8 and is returned unchanged (normalising the runs keeps the bytes);
   * `str::from_utf8` validity: the run-length shortcut of [utf8_from] (a run of five equal non-ASCII bytes is rejected at
     once) is the plain byte-by-byte automaton ([utf8_ok_bytes]), and that automaton accepts exactly the well-formed
     byte sequences of the Unicode standard, table 3-7 ([utf8_run_wf]). *)
From Coq Require Import Lia ZArith List Bool.
From RM Require Import Base.Word C08.Model C11.Model C09.Grammar C09.PinsNum.
Import ListNotations.
Open Scope Z_scope.

(* ------------------------------------------------------------------ expand *)
Lemma expand_app a b : expand (a ++ b) = expand a ++ expand b.
Proof.
  induction a as [|[x c] t IH]; cbn [app expand]; [reflexivity|]. rewrite IH, app_assoc. reflexivity.
Qed.

Lemma expand_cons_head b c t : exists r, expand ((b, c) :: t) = b :: r.
Proof.
  cbn [expand]. destruct (Z.to_nat (Z.max 1 c)) as [|n] eqn:E; [lia|]. cbn [repeat app]. eexists; reflexivity.
Qed.

Lemma Forall_repeat {A} (P : A -> Prop) x n : P x -> Forall P (repeat x n).
Proof. intros H. induction n; cbn; constructor; assumption. Qed.

Lemma Forall_expand (P : Z -> Prop) s : Forall (fun bc => P (fst bc)) s -> Forall P (expand s).
Proof.
  induction 1 as [|[b c] t Hb Ht IH]; cbn [expand]; [constructor|].
  apply Forall_app. split; [apply Forall_repeat; exact Hb|exact IH].
Qed.

Lemma expand_Forall (P : Z -> Prop) s : Forall P (expand s) -> Forall (fun bc => P (fst bc)) s.
Proof.
  induction s as [|[b c] t IH]; intros H; [constructor|].
  destruct (expand_cons_head b c t) as [r E]. cbn [expand] in H. apply Forall_app in H. destruct H as [H1 H2].
  constructor; [|apply IH; exact H2]. cbn [fst].
  destruct (Z.to_nat (Z.max 1 c)) as [|n] eqn:En; [lia|]. cbn [repeat] in H1. inversion H1; assumption.
Qed.

Definition starts (P : Z -> Prop) (l : list Z) : Prop := match l with [] => True | b :: _ => P b end.

(* ------------------------------------------------------------------ skip_while / span_not split the list of runs *)
Lemma skip_while_split p s :
  exists pre, s = pre ++ skip_while p s /\ Forall (fun bc => p (fst bc) = true) pre /\
              match skip_while p s with [] => True | (b, _) :: _ => p b = false end.
Proof.
  induction s as [|[b c] t IH]; cbn [skip_while].
  - exists []. repeat split; constructor.
  - destruct (p b) eqn:E.
    + destruct IH as (pre & A & B & C). exists ((b, c) :: pre). cbn [app]. rewrite <- A.
      repeat split; [constructor; assumption|exact C].
    + exists []. repeat split; [constructor|exact E].
Qed.

Lemma span_acc_split stop s : forall acc,
  exists pre r, span_acc stop s acc = (rev acc ++ pre, r) /\ s = pre ++ r /\
                Forall (fun bc => stop (fst bc) = false) pre /\
                match r with [] => True | (b, _) :: _ => stop b = true end.
Proof.
  induction s as [|[b c] t IH]; intros acc; cbn [span_acc].
  - exists [], []. rewrite rev_append_rev, !app_nil_r. repeat split; constructor.
  - destruct (stop b) eqn:E.
    + exists [], ((b, c) :: t). rewrite rev_append_rev, !app_nil_r. repeat split; [constructor|exact E].
    + destruct (IH ((b, c) :: acc)) as (pre & r & A & B & C & D).
      exists ((b, c) :: pre), r. rewrite A. cbn [rev app]. rewrite <- app_assoc. cbn [app].
      repeat split; [rewrite B; reflexivity|constructor; assumption|exact D].
Qed.

Lemma span_not_split stop s :
  exists pre r, span_not stop s = (pre, r) /\ s = pre ++ r /\
                Forall (fun bc => stop (fst bc) = false) pre /\
                match r with [] => True | (b, _) :: _ => stop b = true end.
Proof. unfold span_not. destruct (span_acc_split stop s []) as (pre & r & A & B); exists pre, r. split; [exact A|exact B]. Qed.

(* ------------------------------------------------------------------ my_eol *)
Lemma eol_cons b c t : eol ((b, c) :: t) = is_cr b && eol t.
Proof. unfold eol. cbn [skip_while]. destruct (is_cr b); reflexivity. Qed.

(* `\r*` (the '\n' is the end of the line): every remaining byte is a carriage return *)
Lemma eol_bytes s : eol s = true <-> Forall (fun b => b = 13) (expand s).
Proof.
  induction s as [|[b c] t IH].
  - cbn. split; [constructor|reflexivity].
  - rewrite eol_cons, andb_true_iff, IH. unfold is_cr. rewrite Z.eqb_eq. split.
    + intros [A B]. apply Forall_expand. constructor; [exact A|]. apply (expand_Forall (fun b => b = 13)). exact B.
    + intros H. apply (expand_Forall (fun b => b = 13)) in H. inversion H; subst. split; [assumption|].
      apply Forall_expand. assumption.
Qed.

(* ------------------------------------------------------------------ rle_norm keeps the bytes *)
Definition counts_pos (s : rle) : Prop := Forall (fun bc => 1 <= snd bc) s.

Lemma repeat_add {A} (x : A) n m : repeat x (n + m) = repeat x n ++ repeat x m.
Proof. induction n; cbn; [reflexivity|]. rewrite IHn. reflexivity. Qed.

Lemma rle_norm_acc_bytes s : forall acc, counts_pos acc ->
  expand (rle_norm_acc s acc) = expand (rev acc) ++ expand s.
Proof.
  induction s as [|[b c] t IH]; intros acc Hacc; cbn [rle_norm_acc].
  - rewrite rev_append_rev, !app_nil_r. reflexivity.
  - cbv zeta. destruct acc as [|[b0 c0] acc'].
    + rewrite IH by (constructor; [cbn; lia|constructor]). cbn [rev app expand].
      replace (Z.max 1 (Z.max 1 c)) with (Z.max 1 c) by lia. rewrite !app_nil_r. reflexivity.
    + inversion Hacc as [|? ? H0 Hacc']; subst. cbn [snd] in H0.
      destruct (Z.eqb_spec b0 b) as [->|N].
      * rewrite IH by (constructor; [cbn; lia|assumption]). cbn [rev]. rewrite !expand_app. cbn [expand].
        rewrite !app_nil_r, <- !app_assoc. f_equal.
        replace (Z.max 1 (c0 + Z.max 1 c)) with (c0 + Z.max 1 c) by lia. replace (Z.max 1 c0) with c0 by lia.
        rewrite Z2Nat.inj_add by lia. rewrite repeat_add, <- app_assoc. reflexivity.
      * rewrite IH by (constructor; [cbn; lia|constructor; [cbn; lia|assumption]]).
        cbn [rev]. rewrite !expand_app. cbn [expand]. rewrite !app_nil_r, <- !app_assoc.
        replace (Z.max 1 (Z.max 1 c)) with (Z.max 1 c) by lia. reflexivity.
Qed.

Lemma rle_norm_bytes s : expand (rle_norm s) = expand s.
Proof. unfold rle_norm. rewrite rle_norm_acc_bytes by constructor. reflexivity. Qed.

(* ------------------------------------------------------------------ str::from_utf8 on bytes *)
Definition ust := (Z * Z * Z)%type.
Definition u_init : ust := (0, 128, 191).
Fixpoint utf8_run (st : ust) (l : list Z) : option ust :=
  match l with
  | [] => Some st
  | b :: t => match u8_step st b with Some st' => utf8_run st' t | None => None end
  end.
Definition utf8_done (o : option ust) : bool :=
  match o with Some (need, _, _) => need =? 0 | None => false end.
(* the plain automaton: one step per byte *)
Definition utf8_bytes (l : list Z) : bool := utf8_done (utf8_run u_init l).

(* states the automaton can be in *)
Definition st_ok (st : ust) : Prop := let '(need, lo, hi) := st in 0 <= need <= 3 /\ 128 <= lo /\ hi <= 191.

Lemma u8_step_ok st b st' : st_ok st -> u8_step st b = Some st' -> st_ok st'.
Proof.
  destruct st as [[need lo] hi]. intros (A & B & C). unfold u8_step.
  destruct (Z.eqb_spec need 0) as [E|E].
  - repeat match goal with
           | |- (if ?c then _ else _) = _ -> _ => destruct c
           end; intros H; inversion H; subst; cbn; lia.
  - destruct ((lo <=? b) && (b <=? hi)); intros H; inversion H; subst. cbn. lia.
Qed.

Lemma u8_rep_is_run n : forall st b, u8_rep n st b = utf8_run st (repeat b n).
Proof.
  induction n as [|n IH]; intros st b; cbn [u8_rep repeat utf8_run]; [reflexivity|].
  destruct (u8_step st b); [apply IH|reflexivity].
Qed.

Lemma utf8_run_app a : forall st b, utf8_run st (a ++ b) = match utf8_run st a with Some st' => utf8_run st' b | None => None end.
Proof.
  induction a as [|x t IH]; intros st b; cbn [app utf8_run]; [reflexivity|].
  destruct (u8_step st x); [apply IH|reflexivity].
Qed.

(* a lead byte cannot follow itself, and at most three continuation bytes follow a lead: five equal non-ASCII bytes
   are rejected from every state *)
Lemma lead_then_same st b st' : st_ok st -> 128 <= b -> u8_step st b = Some st' ->
  (let '(need, _, _) := st in need = 0) -> u8_step st' b = None.
Proof.
  destruct st as [[need lo] hi]. intros (A & B & C) Hb H E. subst need. unfold u8_step in H. cbn [Z.eqb] in H.
  destruct (Z.ltb_spec b 128); [lia|].
  repeat match type of H with
         | (if ?c then _ else _) = _ => destruct c eqn:?
         end; inversion H; subst; unfold u8_step; cbn [Z.eqb];
  match goal with |- (if ?c then _ else _) = None => destruct c eqn:X; [lia|reflexivity] end.
Qed.

Lemma cont_step st b st' : st_ok st -> (let '(need, _, _) := st in need <> 0) -> u8_step st b = Some st' ->
  128 <= b <= 191 /\ st' = (fst (fst st) - 1, 128, 191).
Proof.
  destruct st as [[need lo] hi]. intros (A & B & C) E H. unfold u8_step in H.
  destruct (Z.eqb_spec need 0); [contradiction|].
  destruct (Z.leb_spec lo b), (Z.leb_spec b hi); cbn [andb] in H; try discriminate.
  inversion H; subst. cbn. split; [lia|reflexivity].
Qed.

Lemma lead_range b st' : u8_step (0, 128, 191) b = Some st' -> 128 <= b -> 194 <= b.
Proof.
  unfold u8_step. cbn [Z.eqb]. intros H Hb. destruct (Z.ltb_spec b 128); [lia|].
  destruct (Z.leb_spec 194 b); [assumption|]. cbn [andb] in H.
  repeat match type of H with
         | (if ?c then _ else _) = _ => destruct c eqn:?; try lia
         end; discriminate.
Qed.

Lemma five_same_rejected : forall st b, st_ok st -> 128 <= b -> utf8_run st (repeat b 5) = None.
Proof.
  intros [[need lo] hi] b Hok Hb.
  assert (Hinit : forall lo hi st1, u8_step (0, lo, hi) b = Some st1 -> u8_step st1 b = None).
  { intros lo0 hi0 st1 H. assert (H' : u8_step (0, 128, 191) b = Some st1) by exact H.
    eapply (lead_then_same (0, 128, 191)); [cbn; lia|exact Hb|exact H'|reflexivity]. }
  (* at most three continuation steps, then the byte would have to be a lead byte *)
  assert (Hcont : forall k st, (k <= 3)%nat -> st_ok st -> fst (fst st) = Z.of_nat k ->
                               utf8_run st (repeat b (S (S k))) = None).
  { induction k as [|k IH]; intros [[n l] h] Hk Hs Hn; cbn [fst] in Hn; subst n.
    - cbn [repeat utf8_run]. destruct (u8_step (Z.of_nat 0, l, h) b) as [st1|] eqn:E; [|reflexivity].
      change (Z.of_nat 0) with 0 in E. rewrite (Hinit l h st1 E). reflexivity.
    - change (repeat b (S (S (S k)))) with (b :: repeat b (S (S k))). cbn [utf8_run].
      destruct (u8_step (Z.of_nat (S k), l, h) b) as [st1|] eqn:E; [|reflexivity].
      destruct (cont_step _ _ _ Hs ltac:(cbn; lia) E) as [Hr ->]. cbn [fst].
      apply IH; [lia|change (0 <= Z.of_nat (S k) - 1 <= 3 /\ 128 <= 128 /\ 191 <= 191); lia|cbn [fst]; lia]. }
  destruct Hok as (A & B & C).
  assert (Hn : need = 0 \/ need = 1 \/ need = 2 \/ need = 3) by lia.
  destruct Hn as [-> | [-> | [-> | ->]]].
  - change (repeat b 5) with (repeat b 2 ++ repeat b 3). rewrite utf8_run_app.
    rewrite (Hcont 0%nat (0, lo, hi)); [reflexivity|lia|cbn; lia|reflexivity].
  - change (repeat b 5) with (repeat b 3 ++ repeat b 2). rewrite utf8_run_app.
    rewrite (Hcont 1%nat (1, lo, hi)); [reflexivity|lia|cbn; lia|reflexivity].
  - change (repeat b 5) with (repeat b 4 ++ repeat b 1). rewrite utf8_run_app.
    rewrite (Hcont 2%nat (2, lo, hi)); [reflexivity|lia|cbn; lia|reflexivity].
  - exact (Hcont 3%nat (3, lo, hi) ltac:(lia) ltac:(cbn; lia) eq_refl).
Qed.

Lemma utf8_run_ok l : forall st st', st_ok st -> utf8_run st l = Some st' -> st_ok st'.
Proof.
  induction l as [|b t IH]; intros st st' Hs H; cbn [utf8_run] in H.
  - inversion H; subst; assumption.
  - destruct (u8_step st b) as [st1|] eqn:E; [|discriminate]. eapply IH; [eapply u8_step_ok; eassumption|exact H].
Qed.

Lemma ascii_run st b n : (let '(need, _, _) := st in need = 0) -> b < 128 ->
  utf8_run st (repeat b (S n)) = Some (0, 128, 191).
Proof.
  destruct st as [[need lo] hi]. intros -> Hb.
  assert (S1 : forall l h, u8_step (0, l, h) b = Some (0, 128, 191)).
  { intros. unfold u8_step. cbn [Z.eqb]. destruct (Z.ltb_spec b 128); [reflexivity|lia]. }
  cbn [repeat utf8_run]. rewrite S1. induction n as [|n IH]; cbn [repeat utf8_run]; [reflexivity|]. rewrite S1. exact IH.
Qed.

(* with no continuation byte pending the rest of the state is not looked at *)
Lemma utf8_from_need0 s : forall lo hi, utf8_from (0, lo, hi) s = utf8_from (0, 128, 191) s.
Proof.
  induction s as [|[b c] t IH]; intros lo hi; cbn [utf8_from]; [reflexivity|].
  destruct (b <? 128); [cbn [Z.eqb]; apply IH|]. destruct (4 <? c); [reflexivity|].
  destruct (Z.to_nat (Z.max 1 c)) as [|m]; [cbn [u8_rep]; apply IH|].
  cbn [u8_rep]. assert (E : u8_step (0, lo, hi) b = u8_step (0, 128, 191) b) by reflexivity. rewrite E. reflexivity.
Qed.

(* the run-length shortcut is the byte-by-byte automaton *)
Lemma utf8_from_bytes s : forall st, st_ok st -> utf8_from st s = utf8_done (utf8_run st (expand s)).
Proof.
  induction s as [|[b c] t IH]; intros st Hs.
  - cbn [utf8_from expand utf8_run utf8_done]. destruct st as [[need lo] hi]. reflexivity.
  - cbn [utf8_from expand]. rewrite utf8_run_app.
    destruct (Z.ltb_spec b 128) as [L|G].
    + destruct st as [[need lo] hi]. destruct (Z.eqb_spec need 0) as [->|N].
      * destruct (Z.to_nat (Z.max 1 c)) as [|n] eqn:En; [lia|].
        rewrite (ascii_run (0, lo, hi) b n eq_refl L). rewrite <- IH by (cbn; lia).
        apply utf8_from_need0.
      * destruct (Z.to_nat (Z.max 1 c)) as [|n] eqn:En; [lia|]. cbn [repeat utf8_run].
        assert (E : u8_step (need, lo, hi) b = None).
        { unfold u8_step. destruct (Z.eqb_spec need 0); [contradiction|]. destruct Hs as (A & B & C).
          destruct (Z.leb_spec lo b); [lia|]. reflexivity. }
        rewrite E. reflexivity.
    + destruct (Z.ltb_spec 4 c) as [L4|G4].
      * (* five or more equal non-ASCII bytes *)
        replace (Z.to_nat (Z.max 1 c)) with (5 + (Z.to_nat c - 5))%nat by lia.
        rewrite repeat_add, utf8_run_app, five_same_rejected by assumption. reflexivity.
      * rewrite u8_rep_is_run. destruct (utf8_run st (repeat b (Z.to_nat (Z.max 1 c)))) as [st'|] eqn:E; [|reflexivity].
        apply IH. eapply utf8_run_ok; eassumption.
Qed.

Lemma utf8_ok_bytes s : utf8_ok s = utf8_bytes (expand s).
Proof. unfold utf8_ok, utf8_bytes, u_init. apply utf8_from_bytes. cbn. lia. Qed.

(* ------------------------------------------------------------------ terminated(map_res(not_my_eol, from_utf8), my_eol) *)
Lemma name_eol_bytes s :
  exists name rest, expand s = name ++ rest /\ Forall (fun b => b <> 13) name /\ starts (fun b => b = 13) rest /\
    name_eol s = (if utf8_bytes name && forallb (fun b => b =? 13) rest then Some (rle_norm (fst (span_not is_cr s))) else None) /\
    expand (rle_norm (fst (span_not is_cr s))) = name.
Proof.
  destruct (span_not_split is_cr s) as (pre & r & A & B & C & D).
  exists (expand pre), (expand r). unfold name_eol. rewrite A. cbn [fst].
  split; [rewrite B at 1; apply expand_app|].
  split. { apply Forall_expand. eapply Forall_impl; [|exact C]. intros [b c]. cbn [fst]. unfold is_cr. rewrite Z.eqb_neq. auto. }
  split. { destruct r as [|[b c] t]; [exact I|]. destruct (expand_cons_head b c t) as [x E]. rewrite E. cbn.
           unfold is_cr in D. apply Z.eqb_eq. exact D. }
  split; [|apply rle_norm_bytes].
  assert (E : eol r = forallb (fun b => b =? 13) (expand r)).
  { destruct (eol r) eqn:E1; symmetry.
    - apply forallb_forall. apply eol_bytes in E1. rewrite Forall_forall in E1. intros x Hx. apply Z.eqb_eq. auto.
    - destruct (forallb (fun b => b =? 13) (expand r)) eqn:E2; [|reflexivity].
      assert (eol r = true); [|congruence]. apply eol_bytes. rewrite Forall_forall. intros x Hx.
      rewrite forallb_forall in E2. apply Z.eqb_eq. auto. }
  cbv iota beta. rewrite utf8_ok_bytes, E. reflexivity.
Qed.

(* ------------------------------------------------------------------ well-formed UTF-8 (Unicode standard, table 3-7) *)
Definition cont (b : Z) : Prop := 128 <= b <= 191.
Definition lead3 (b1 b2 : Z) : Prop :=
  (b1 = 224 /\ 160 <= b2 <= 191) \/ (225 <= b1 <= 236 /\ cont b2) \/ (b1 = 237 /\ 128 <= b2 <= 159) \/
  (238 <= b1 <= 239 /\ cont b2).
Definition lead4 (b1 b2 : Z) : Prop :=
  (b1 = 240 /\ 144 <= b2 <= 191) \/ (241 <= b1 <= 243 /\ cont b2) \/ (b1 = 244 /\ 128 <= b2 <= 143).
Inductive wf8 : list Z -> Prop :=
| wf8_nil : wf8 []
| wf8_1 b t : b < 128 -> wf8 t -> wf8 (b :: t)
| wf8_2 b1 b2 t : 194 <= b1 <= 223 -> cont b2 -> wf8 t -> wf8 (b1 :: b2 :: t)
| wf8_3 b1 b2 b3 t : lead3 b1 b2 -> cont b3 -> wf8 t -> wf8 (b1 :: b2 :: b3 :: t)
| wf8_4 b1 b2 b3 b4 t : lead4 b1 b2 -> cont b3 -> cont b4 -> wf8 t -> wf8 (b1 :: b2 :: b3 :: b4 :: t).

Lemma step_cont need lo hi b : need <> 0 -> lo <= b <= hi -> u8_step (need, lo, hi) b = Some (need - 1, 128, 191).
Proof.
  intros N H. unfold u8_step. destruct (Z.eqb_spec need 0); [contradiction|].
  destruct (Z.leb_spec lo b); [|lia]. destruct (Z.leb_spec b hi); [|lia]. reflexivity.
Qed.

Lemma lead_cases b st : u8_step u_init b = Some st ->
  (b < 128 /\ st = u_init) \/ (194 <= b <= 223 /\ st = (1, 128, 191)) \/ (b = 224 /\ st = (2, 160, 191)) \/
  (b = 237 /\ st = (2, 128, 159)) \/ ((225 <= b <= 236 \/ 238 <= b <= 239) /\ st = (2, 128, 191)) \/
  (b = 240 /\ st = (3, 144, 191)) \/ (241 <= b <= 243 /\ st = (3, 128, 191)) \/ (b = 244 /\ st = (3, 128, 143)).
Proof.
  unfold u8_step, u_init. cbn [Z.eqb].
  destruct (Z.ltb_spec b 128); [intros HH; inversion HH; auto|].
  destruct (Z.leb_spec 194 b), (Z.leb_spec b 223); cbn [andb]; try (intros HH; inversion HH; right; left; split; [lia|reflexivity]).
  all: destruct (Z.eqb_spec b 224); [intros HH; inversion HH; subst; auto 10|].
  all: destruct (Z.eqb_spec b 237); [intros HH; inversion HH; subst; auto 10|].
  all: destruct (Z.leb_spec 225 b), (Z.leb_spec b 239); cbn [andb];
       try (intros HH; inversion HH; do 4 right; left; split; [lia|reflexivity]).
  all: destruct (Z.eqb_spec b 240); [intros HH; inversion HH; subst; auto 10|].
  all: destruct (Z.leb_spec 241 b), (Z.leb_spec b 243); cbn [andb];
       try (intros HH; inversion HH; do 6 right; left; split; [lia|reflexivity]).
  all: destruct (Z.eqb_spec b 244); [intros HH; inversion HH; subst; auto 10|discriminate].
Qed.

Lemma cont_run need lo hi l : need <> 0 -> utf8_done (utf8_run (need, lo, hi) l) = true ->
  exists b t, l = b :: t /\ lo <= b <= hi /\ utf8_done (utf8_run (need - 1, 128, 191) t) = true.
Proof.
  intros N H. destruct l as [|b t]; cbn [utf8_run utf8_done] in H.
  - destruct (Z.eqb_spec need 0); [contradiction|discriminate].
  - unfold u8_step in H. destruct (Z.eqb_spec need 0); [contradiction|].
    destruct (Z.leb_spec lo b), (Z.leb_spec b hi); cbn [andb] in H; try discriminate.
    exists b, t. repeat split; try lia. exact H.
Qed.

Lemma wf8_accepted l : wf8 l -> utf8_run u_init l = Some u_init.
Proof.
  induction 1 as [|b t Hb _ IH|b1 b2 t H1 H2 _ IH|b1 b2 b3 t H1 H3 _ IH|b1 b2 b3 b4 t H1 H3 H4 _ IH]; unfold cont in *.
  - reflexivity.
  - cbn [utf8_run]. unfold u8_step, u_init at 1. cbn [Z.eqb]. destruct (Z.ltb_spec b 128); [exact IH|lia].
  - cbn [utf8_run].
    assert (E : u8_step u_init b1 = Some (1, 128, 191)).
    { unfold u8_step, u_init. cbn [Z.eqb]. destruct (Z.ltb_spec b1 128); [lia|].
      destruct (Z.leb_spec 194 b1); [|lia]. destruct (Z.leb_spec b1 223); [|lia]. reflexivity. }
    rewrite E, step_cont by lia. exact IH.
  - cbn [utf8_run].
    assert (E : exists lo hi, u8_step u_init b1 = Some (2, lo, hi) /\ lo <= b2 <= hi).
    { unfold u8_step, u_init. cbn [Z.eqb]. unfold lead3, cont in H1. destruct (Z.ltb_spec b1 128); [lia|].
      destruct (Z.leb_spec 194 b1), (Z.leb_spec b1 223); cbn [andb]; try lia.
      all: destruct (Z.eqb_spec b1 224); [exists 160, 191; split; [reflexivity|lia]|].
      all: destruct (Z.eqb_spec b1 237); [exists 128, 159; split; [reflexivity|lia]|].
      all: destruct (Z.leb_spec 225 b1), (Z.leb_spec b1 239); cbn [andb]; try lia.
      all: exists 128, 191; split; [reflexivity|lia]. }
    destruct E as (lo & hi & E & R). rewrite E, step_cont by lia. cbn [Z.sub]. rewrite step_cont by lia. exact IH.
  - cbn [utf8_run].
    assert (E : exists lo hi, u8_step u_init b1 = Some (3, lo, hi) /\ lo <= b2 <= hi).
    { unfold u8_step, u_init. cbn [Z.eqb]. unfold lead4, cont in H1. destruct (Z.ltb_spec b1 128); [lia|].
      destruct (Z.leb_spec 194 b1), (Z.leb_spec b1 223); cbn [andb]; try lia.
      all: destruct (Z.eqb_spec b1 224); [lia|].
      all: destruct (Z.eqb_spec b1 237); [lia|].
      all: destruct (Z.leb_spec 225 b1), (Z.leb_spec b1 239); cbn [andb]; try lia.
      all: destruct (Z.eqb_spec b1 240); [exists 144, 191; split; [reflexivity|lia]|].
      all: destruct (Z.leb_spec 241 b1), (Z.leb_spec b1 243); cbn [andb]; try (exists 128, 191; split; [reflexivity|lia]).
      all: destruct (Z.eqb_spec b1 244); [exists 128, 143; split; [reflexivity|lia]|lia]. }
    destruct E as (lo & hi & E & R). rewrite E, step_cont by lia. cbn [Z.sub]. rewrite step_cont by lia.
    cbn [Z.sub]. rewrite step_cont by lia. exact IH.
Qed.

Lemma accepted_wf8 : forall n l, (length l <= n)%nat -> utf8_done (utf8_run u_init l) = true -> wf8 l.
Proof.
  induction n as [|n IH]; intros l Hl H.
  - destruct l; [constructor|cbn in Hl; lia].
  - destruct l as [|b t]; [constructor|]. cbn [length] in Hl. cbn [utf8_run] in H.
    destruct (u8_step u_init b) as [st|] eqn:E; [|discriminate].
    destruct (lead_cases b st E) as [[A ->]|[[A ->]|[[A ->]|[[A ->]|[[A ->]|[[A ->]|[[A ->]|[A ->]]]]]]]].
    + apply wf8_1; [exact A|]. apply IH; [lia|exact H].
    + apply cont_run in H; [|lia]. destruct H as (b2 & t2 & -> & R2 & H2). cbn [length] in Hl.
      apply wf8_2; [exact A|exact R2|]. apply IH; [lia|exact H2].
    + apply cont_run in H; [|lia]. destruct H as (b2 & t2 & -> & R2 & H2).
      apply cont_run in H2; [|lia]. destruct H2 as (b3 & t3 & -> & R3 & H3). cbn [length] in Hl.
      apply wf8_3; [left; lia|exact R3|]. apply IH; [lia|exact H3].
    + apply cont_run in H; [|lia]. destruct H as (b2 & t2 & -> & R2 & H2).
      apply cont_run in H2; [|lia]. destruct H2 as (b3 & t3 & -> & R3 & H3). cbn [length] in Hl.
      apply wf8_3; [right; right; left; lia|exact R3|]. apply IH; [lia|exact H3].
    + apply cont_run in H; [|lia]. destruct H as (b2 & t2 & -> & R2 & H2).
      apply cont_run in H2; [|lia]. destruct H2 as (b3 & t3 & -> & R3 & H3). cbn [length] in Hl.
      apply wf8_3; [unfold lead3, cont; lia|exact R3|]. apply IH; [lia|exact H3].
    + apply cont_run in H; [|lia]. destruct H as (b2 & t2 & -> & R2 & H2).
      apply cont_run in H2; [|lia]. destruct H2 as (b3 & t3 & -> & R3 & H3).
      apply cont_run in H3; [|lia]. destruct H3 as (b4 & t4 & -> & R4 & H4). cbn [length] in Hl.
      apply wf8_4; [left; lia|exact R3|exact R4|]. apply IH; [lia|exact H4].
    + apply cont_run in H; [|lia]. destruct H as (b2 & t2 & -> & R2 & H2).
      apply cont_run in H2; [|lia]. destruct H2 as (b3 & t3 & -> & R3 & H3).
      apply cont_run in H3; [|lia]. destruct H3 as (b4 & t4 & -> & R4 & H4). cbn [length] in Hl.
      apply wf8_4; [right; left; unfold cont; lia|exact R3|exact R4|]. apply IH; [lia|exact H4].
    + apply cont_run in H; [|lia]. destruct H as (b2 & t2 & -> & R2 & H2).
      apply cont_run in H2; [|lia]. destruct H2 as (b3 & t3 & -> & R3 & H3).
      apply cont_run in H3; [|lia]. destruct H3 as (b4 & t4 & -> & R4 & H4). cbn [length] in Hl.
      apply wf8_4; [right; right; lia|exact R3|exact R4|]. apply IH; [lia|exact H4].
Qed.

(* the automaton accepts exactly the well-formed sequences *)
Lemma utf8_run_wf l : utf8_bytes l = true <-> wf8 l.
Proof.
  unfold utf8_bytes. split.
  - apply (accepted_wf8 (length l)). lia.
  - intros H. rewrite (wf8_accepted l H). reflexivity.
Qed.

Lemma wf8_example : wf8 [195; 169; 226; 130; 172; 240; 159; 152; 128].
Proof.
  apply wf8_2; [lia|unfold cont; lia|].
  apply wf8_3; [right; left; unfold cont; lia|unfold cont; lia|].
  apply wf8_4; [left; lia|unfold cont; lia|unfold cont; lia|constructor].
Qed.
