(* C09/PinsLines.v — round 5, second pass: the line recognisers of Grammar.v are the interpretation of the descriptions
   translate/c09_lines.py reads off parser.rs (Gen/C09Lines.v): keyword of `terminated(tag(..), space1)`, position of `cut`,
   order and kind of the field parsers inside `tuple((..))`, order of the alternatives of `line()`. *)
From Coq Require Import ZArith List Bool.
From RM Require Import Base.Word C08.Model C11.Model C09.Grammar Gen.C09Lines.
Import ListNotations.
Open Scope Z_scope.

Inductive val := VNum (z : Z) | VStr (s : rle).

(* one field parser: the values it yields and the rest of the line (a field ending in my_eol ends the line) *)
Definition run_field (f : field) (s : rle) : option (list val * rle) :=
  match f with
  | FDecSp => match decsp s with Some (v, s') => Some ([VNum v], s') | None => None end
  | FHex64Sp => match hex64sp s with Some (v, s') => Some ([VNum v], s') | None => None end
  | FHex32Sp => match hex32sp s with Some (v, s') => Some ([VNum v], s') | None => None end
  | FOptM => Some ([], opt_m s)
  | FNameEol => match name_eol s with Some n => Some ([VStr n], []) | None => None end
  | FRawEol => if raw_eol s then Some ([], []) else None
  | FNonSpaceSp => match nonspace_sp s with Some s' => Some ([], s') | None => None end
  | FHexDigit1Sp => match hexdigit1_sp s with Some (d, s') => Some ([VStr d], s') | None => None end
  | FDecEol => match Grammar.decimal_u32 s with Some (v, s') => if eol s' then Some ([VNum v], []) else None | None => None end
  | FHex32 => match hex_str 8%nat s with Some (v, s') => Some ([VNum v], s') | None => None end
  end.

(* tuple((..)) *)
Fixpoint run_fields (fs : list field) (s : rle) : option (list val * rle) :=
  match fs with
  | [] => Some ([], s)
  | f :: t => match run_field f s with
              | Some (v1, s1) => match run_fields t s1 with Some (v2, s2) => Some (v1 ++ v2, s2) | None => None end
              | None => None
              end
  end.

(* [terminated(tag(kw), space1)(input)?;]  [cut](tuple(fields))(input) *)
Definition run_desc (d : line_desc) (s : rle) : pres (list val * rle) :=
  match (match ld_keyword d with Some kw => hdr kw s | None => Some s end) with
  | None => PErr
  | Some s1 => match run_fields (ld_fields d) s1 with
               | Some r => POk r
               | None => if ld_cut d then PFail else PErr
               end
  end.

Ltac crunch :=
  repeat match goal with
         | |- context [match ?x with _ => _ end] =>
             match x with
             | context [match _ with _ => _ end] => fail 1
             | _ => destruct x eqn:?
             end
         end; cbn [app] in *; try reflexivity; try discriminate; try congruence.
Ltac kws := unfold T_MODULE, T_INFO_URL, T_INFO, T_FILE, T_INLINE_ORIGIN, T_PUBLIC, T_FUNC, T_STACK_CFI, T_STACK_CFI_INIT.

Lemma pin_file s : p_file s = match run_desc file_line_desc s with
                              | POk ([VNum id; VStr n], _) => POk (IFile id n) | POk _ => PFail | PFail => PFail | PErr => PErr end.
Proof. unfold p_file, id_name, run_desc, file_line_desc, cutp. kws. cbn -[hdr decsp name_eol]. crunch. Qed.

Lemma pin_inline_origin s : p_inline_origin s = match run_desc inline_origin_line_desc s with
                              | POk ([VNum id; VStr n], _) => POk (IOrigin id n) | POk _ => PFail | PFail => PFail | PErr => PErr end.
Proof. unfold p_inline_origin, id_name, run_desc, inline_origin_line_desc, cutp. kws. cbn -[hdr decsp name_eol]. crunch. Qed.

Lemma pin_info_url s : p_info_url s = match run_desc info_url_desc s with
                              | POk ([VStr u], _) => POk (IUrl u) | POk _ => PFail | PFail => PFail | PErr => PErr end.
Proof. unfold p_info_url, run_desc, info_url_desc, cutp. kws. cbn -[hdr name_eol]. crunch. Qed.

Lemma pin_info s : p_info s = match run_desc info_line_desc s with
                              | POk ([], _) => POk IInfo | POk _ => PFail | PFail => PFail | PErr => PErr end.
Proof. unfold p_info, run_desc, info_line_desc, cutp, guard. kws. cbn -[hdr raw_eol]. crunch. Qed.

Lemma pin_public s : p_public s = match run_desc public_line_desc s with
                              | POk ([VNum a; VNum ps; VStr n], _) => POk (IPublic (mk_pubs a n ps)) | POk _ => PFail
                              | PFail => PFail | PErr => PErr end.
Proof. unfold p_public, run_desc, public_line_desc, cutp. kws. cbn -[hdr opt_m hex64sp hex32sp name_eol]. crunch. Qed.

Lemma pin_func s : p_func s = match run_desc func_line_desc s with
                              | POk ([VNum a; VNum sz; VNum ps; VStr n], _) => POk (IFunc (mk_fr a sz ps n [] [])) | POk _ => PFail
                              | PFail => PFail | PErr => PErr end.
Proof. unfold p_func, run_desc, func_line_desc, cutp. kws. cbn -[hdr opt_m hex64sp hex32sp name_eol]. crunch. Qed.

Lemma pin_stack_cfi_init s : p_stack_cfi_init s = match run_desc stack_cfi_init_desc s with
                              | POk ([VNum a; VNum sz; VStr r], _) => POk (ICfiInit (mk_cfi (mk_rule a r) sz [])) | POk _ => PFail
                              | PFail => PFail | PErr => PErr end.
Proof. unfold p_stack_cfi_init, run_desc, stack_cfi_init_desc, cutp. kws. cbn -[hdr hex64sp hex32sp name_eol]. crunch. Qed.

Lemma pin_module s : p_module s = match run_desc module_line_desc s with
                              | POk ([VStr id; VStr f], _) => POk (IModule id f) | POk _ => PFail | PFail => PFail | PErr => PErr end.
Proof. unfold p_module, run_desc, module_line_desc, cutp. kws. cbn -[hdr nonspace_sp hexdigit1_sp name_eol]. crunch. Qed.

(* sub-line parsers: any nom error sends the line to the top-level parser, so Error and Failure are both None *)
Lemma pin_stack_cfi s : sub_cfi s = match run_desc stack_cfi_desc s with
                              | POk ([VNum a; VStr r], _) => Some (mk_rule a r) | _ => None end.
Proof. unfold sub_cfi, run_desc, stack_cfi_desc. kws. cbn -[hdr hex64sp name_eol]. crunch. Qed.

Lemma pin_func_line_data s : sub_line_data s = match run_desc func_line_data_desc s with
                              | POk ([VNum a; VNum sz; VNum ln; VNum fl], _) => Some (mk_line a sz fl ln) | _ => None end.
Proof. unfold sub_line_data, run_desc, func_line_data_desc, guard. kws. cbn -[hex64sp hex32sp decsp Grammar.decimal_u32 eol]. crunch. Qed.

Lemma pin_addr_range s : addr_range s = match run_desc inline_address_range_desc s with
                              | POk ([VNum a; VNum sz], s') => Some (a, sz, s') | _ => None end.
Proof. unfold addr_range, run_desc, inline_address_range_desc. kws. cbn -[hex64sp hex_str]. crunch. Qed.

(* the alternatives of line(), in the order of the source *)
Definition parser_of (a : alt_parser) : rle -> pres item :=
  match a with
  | AInfoUrl => p_info_url | AInfoLine => p_info | AFileLine => p_file | AInlineOriginLine => p_inline_origin
  | APublicLine => p_public | AFuncLine => p_func | AStackWinLine => p_stack_win | AStackCfiInit => p_stack_cfi_init
  | AModuleLine => p_module
  end.
Lemma pin_line_order s : line_top s = alt (map parser_of line_alt_order) s.
Proof. reflexivity. Qed.
