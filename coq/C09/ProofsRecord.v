(* C09/ProofsRecord.v — round 5, second pass: a whole record as a declarative grammar over BYTES, both directions.
   FILE and INLINE_ORIGIN records (the top-level parsers [p_file] / [p_inline_origin] of Grammar.v, which work on run-length
   encoded lines):
       line ::= KEYWORD sp+ digit{1,10} sp+ name cr*        sp = ' ' | '\t',  cr = '\r',  value(digits) <= u32::MAX,
                                                             name: no '\r', does not start with sp, well-formed UTF-8
   The recogniser answers POk (id, name) iff the bytes of the line have this shape with id = value(digits) and the bytes of the
   returned string = name; PErr (alt tries the next parser) iff the line does not start with KEYWORD sp; PFail (cut) otherwise. *)
From Coq Require Import Lia ZArith List Bool.
From RM Require Import Base.Word C08.Model C11.Model C09.Grammar C09.PinsNum C09.ProofsText.
Import ListNotations.
Open Scope Z_scope.

Definition sp_byte (b : Z) : Prop := b = 32 \/ b = 9.
Lemma is_sp_iff b : is_sp b = true <-> sp_byte b.
Proof. unfold is_sp, sp_byte. rewrite orb_true_iff, !Z.eqb_eq. reflexivity. Qed.

(* ------------------------------------------------------------------ a maximal prefix is unique *)
Lemma split_unique (P : Z -> Prop) : forall a1 r1 a2 r2,
  Forall P a1 -> starts (fun b => ~ P b) r1 -> Forall P a2 -> starts (fun b => ~ P b) r2 ->
  a1 ++ r1 = a2 ++ r2 -> a1 = a2 /\ r1 = r2.
Proof.
  induction a1 as [|x t IH]; intros r1 a2 r2 H1 S1 H2 S2 E.
  - destruct a2 as [|y u]; [split; [reflexivity|exact E]|].
    cbn [app] in E. subst r1. cbn in S1. inversion H2; subst. contradiction.
  - destruct a2 as [|y u].
    + cbn [app] in E. subst r2. cbn in S2. inversion H1; subst. contradiction.
    + cbn [app] in E. inversion E; subst. inversion H1; subst. inversion H2; subst.
      destruct (IH r1 u r2) as [A B]; try assumption. subst. split; reflexivity.
Qed.

(* the longer of two all-P prefixes, when the shorter one is followed by a non-P byte, is the shorter one *)
Lemma prefix_unique (P : Z -> Prop) : forall a1 r1 a2 r2,
  Forall P a1 -> Forall P a2 -> starts (fun b => ~ P b) r2 -> a1 ++ r1 = a2 ++ r2 ->
  (length a2 <= length a1)%nat -> a1 = a2 /\ r1 = r2.
Proof.
  induction a1 as [|x t IH]; intros r1 a2 r2 H1 H2 S2 E L.
  - destruct a2 as [|y u]; [split; [reflexivity|exact E]|cbn in L; lia].
  - destruct a2 as [|y u].
    + cbn [app] in E. subst r2. cbn in S2. inversion H1; subst. contradiction.
    + cbn [app] in E. inversion E; subst. inversion H1; subst. inversion H2; subst. cbn [length] in L.
      destruct (IH r1 u r2) as [A B]; try assumption; [lia|]. subst. split; reflexivity.
Qed.

(* ------------------------------------------------------------------ tag *)
Lemma tag_sound bs : forall s s', tag bs s = Some s' -> expand s = bs ++ expand s'.
Proof.
  induction bs as [|x t IH]; intros s s' H; cbn [tag] in H.
  - inversion H; subst. reflexivity.
  - pose proof (uncons_expand s) as U. destruct (uncons s) as [[b s1]|]; [|discriminate].
    destruct (Z.eqb_spec b x); [|discriminate]. subst. rewrite U. cbn [app]. f_equal. apply IH. exact H.
Qed.

Lemma tag_complete bs : forall s r, expand s = bs ++ r -> exists s', tag bs s = Some s' /\ expand s' = r.
Proof.
  induction bs as [|x t IH]; intros s r H; cbn [tag].
  - exists s. split; [reflexivity|exact H].
  - pose proof (uncons_expand s) as U. destruct (uncons s) as [[b s1]|].
    + rewrite U in H. cbn [app] in H. inversion H; subst. rewrite Z.eqb_refl. apply IH. assumption.
    + rewrite U in H. discriminate.
Qed.

(* ------------------------------------------------------------------ space1 *)
Lemma skip_while_length p s : (length (skip_while p s) <= length s)%nat.
Proof. induction s as [|[b c] t IH]; cbn [skip_while length]; [lia|]. destruct (p b); cbn [length]; lia. Qed.

Lemma space1_sound s s' : space1 s = Some s' ->
  exists sp, expand s = sp ++ expand s' /\ sp <> [] /\ Forall sp_byte sp /\ starts (fun b => ~ sp_byte b) (expand s').
Proof.
  intros H.
  assert (Hs : s' = skip_while is_sp s /\ (length s' < length s)%nat).
  { unfold space1 in H. destruct s as [|[b c] t]; [discriminate|]. destruct (is_sp b) eqn:E; [|discriminate].
    inversion H. split; [reflexivity|]. cbn [skip_while]. rewrite E. pose proof (skip_while_length is_sp t). cbn [length]. lia. }
  destruct Hs as [-> Hlen].
  destruct (skip_while_split is_sp s) as (pre & A & B & C).
  remember (skip_while is_sp s) as r. clear Heqr H.
  exists (expand pre). split; [rewrite A at 1; apply expand_app|]. split.
  { destruct pre as [|[b0 c0] pre']; [cbn [app] in A; subst s; lia|].
    destruct (expand_cons_head b0 c0 pre') as [x X]. rewrite X. discriminate. }
  split. { apply Forall_expand. eapply Forall_impl; [|exact B]. intros a Ha. apply is_sp_iff. exact Ha. }
  destruct r as [|[b1 c1] t1]; [exact I|].
  destruct (expand_cons_head b1 c1 t1) as [x X]. rewrite X. cbn. intros Hs. apply is_sp_iff in Hs. congruence.
Qed.

Lemma space1_none s : space1 s = None -> starts (fun b => ~ sp_byte b) (expand s).
Proof.
  unfold space1. destruct s as [|[b c] t]; [intros; exact I|]. destruct (is_sp b) eqn:E; [discriminate|]. intros _.
  destruct (expand_cons_head b c t) as [x X]. rewrite X. cbn. intros Hs. apply is_sp_iff in Hs. congruence.
Qed.

Lemma space1_complete s sp r : expand s = sp ++ r -> sp <> [] -> Forall sp_byte sp -> starts (fun b => ~ sp_byte b) r ->
  exists s', space1 s = Some s' /\ expand s' = r.
Proof.
  intros E N F S. destruct (space1 s) as [s'|] eqn:H.
  - exists s'. split; [reflexivity|]. destruct (space1_sound s s' H) as (sp' & A & B & C & D).
    rewrite A in E. destruct (split_unique sp_byte sp' (expand s') sp r C D F S E) as [_ R]. exact R.
  - exfalso. apply space1_none in H. rewrite E in H. destruct sp as [|x t]; [contradiction|].
    cbn in H. inversion F; subst. contradiction.
Qed.

(* ------------------------------------------------------------------ terminated(decimal_u32, space1) *)
Definition dec_digits (ds : list Z) : Prop := Forall (fun b => decval b <> None) ds.
Definition dec_value (ds : list Z) : Z := dvalue decval 10 0 ds.

Lemma sp_not_digit b : sp_byte b -> decval b = None.
Proof. intros [->| ->]; reflexivity. Qed.

Lemma decsp_sound s v s' : decsp s = Some (v, s') ->
  exists ds sp, expand s = ds ++ sp ++ expand s' /\ ds <> [] /\ (length ds <= 10)%nat /\ dec_digits ds /\
                v = dec_value ds /\ v <= U32MAX /\ sp <> [] /\ Forall sp_byte sp /\
                starts (fun b => ~ sp_byte b) (expand s').
Proof.
  unfold decsp, osp, Grammar.decimal_u32.
  destruct (digits decval 10 10%nat s 0 0) as [[v0 k] s0] eqn:E.
  destruct (Z.eqb_spec k 0); [discriminate|]. destruct (Z.ltb_spec U32MAX v0); [discriminate|].
  destruct (space1 s0) as [s2|] eqn:E2; [|discriminate]. intros HH. inversion HH; subst. clear HH.
  destruct (digits_grammar decval 10 10%nat s 0 0 v k s0 E) as (ds & A & B & C & D & V & F).
  destruct (space1_sound s0 s' E2) as (sp & A2 & B2 & C2 & D2).
  exists ds, sp. rewrite A, A2. repeat split; try assumption; try lia.
  intros ->. cbn [length] in B. lia.
Qed.

Lemma decsp_complete s ds sp r : expand s = ds ++ sp ++ r -> ds <> [] -> (length ds <= 10)%nat -> dec_digits ds ->
  dec_value ds <= U32MAX -> sp <> [] -> Forall sp_byte sp -> starts (fun b => ~ sp_byte b) r ->
  exists s', decsp s = Some (dec_value ds, s') /\ expand s' = r.
Proof.
  intros E N L D V Ns Fs Sr. unfold decsp, osp, Grammar.decimal_u32.
  destruct (digits decval 10 10%nat s 0 0) as [[v0 k] s0] eqn:Ed.
  destruct (digits_grammar decval 10 10%nat s 0 0 v0 k s0 Ed) as (ds' & A & B & C & D' & V' & F).
  assert (Hstop : starts (fun b => ~ (decval b <> None)) (sp ++ r)).
  { destruct sp as [|x t]; [contradiction|]. cbn. inversion Fs; subst. intros Q. apply Q. apply sp_not_digit. assumption. }
  assert (X : ds' = ds /\ expand s0 = sp ++ r).
  { rewrite A in E. destruct F as [F|F].
    - apply (prefix_unique (fun b => decval b <> None)); try assumption. lia.
    - apply (split_unique (fun b => decval b <> None)); try assumption.
      unfold stops in F. destruct (expand s0); [exact I|]. cbn. intros Q. apply Q. exact F. }
  destruct X as [-> X].
  assert (K : k <> 0). { destruct ds; [contradiction|]. cbn [length] in B. lia. }
  destruct (Z.eqb_spec k 0); [contradiction|]. fold (dec_value ds) in V'. subst v0.
  destruct (Z.ltb_spec U32MAX (dec_value ds)); [lia|].
  destruct (space1_complete s0 sp r X Ns Fs Sr) as (s' & S1 & S2). rewrite S1. exists s'. split; [reflexivity|exact S2].
Qed.

(* ------------------------------------------------------------------ the name field *)
Lemma name_eol_sound s n : name_eol s = Some n ->
  exists name crs, expand s = name ++ crs /\ Forall (fun b => b <> 13) name /\ Forall (fun b => b = 13) crs /\
                   wf8 name /\ expand n = name.
Proof.
  intros H. destruct (name_eol_bytes s) as (name & rest & A & B & C & D & E). rewrite D in H.
  destruct (utf8_bytes name) eqn:U; [|discriminate]. destruct (forallb (fun b => b =? 13) rest) eqn:R; [|discriminate].
  cbn [andb] in H. inversion H as [Hn]. exists name, rest.
  split; [exact A|]. split; [exact B|].
  split. { apply Forall_forall. intros x Hx. rewrite forallb_forall in R. apply Z.eqb_eq. auto. }
  split; [apply utf8_run_wf; exact U|]. exact E.
Qed.

Lemma name_eol_complete s name crs : expand s = name ++ crs -> Forall (fun b => b <> 13) name ->
  Forall (fun b => b = 13) crs -> wf8 name -> exists n, name_eol s = Some n /\ expand n = name.
Proof.
  intros E Fn Fc W. destruct (name_eol_bytes s) as (name' & rest' & A & B & C & D & E').
  assert (X : name' = name /\ rest' = crs).
  { rewrite A in E. apply (split_unique (fun b => b <> 13)); try assumption.
    - destruct rest'; [exact I|]. cbn in *. intros Q. apply Q. exact C.
    - destruct crs; [exact I|]. cbn. inversion Fc; subst. intros Q. apply Q. reflexivity. }
  destruct X as [-> ->]. rewrite D. apply utf8_run_wf in W. rewrite W.
  assert (R : forallb (fun b => b =? 13) crs = true).
  { apply forallb_forall. intros x Hx. rewrite Forall_forall in Fc. apply Z.eqb_eq. auto. }
  rewrite R. cbn [andb]. eexists. split; [reflexivity|exact E'].
Qed.

(* ------------------------------------------------------------------ KEYWORD sp+ id sp+ name cr* *)
Definition id_name_line (kw l : list Z) (id : Z) (name : list Z) : Prop :=
  exists sp1 ds sp2 crs,
    l = kw ++ sp1 ++ ds ++ sp2 ++ name ++ crs /\
    sp1 <> [] /\ Forall sp_byte sp1 /\
    ds <> [] /\ (length ds <= 10)%nat /\ dec_digits ds /\ id = dec_value ds /\ id <= U32MAX /\
    sp2 <> [] /\ Forall sp_byte sp2 /\
    starts (fun b => ~ sp_byte b) (name ++ crs) /\ Forall (fun b => b <> 13) name /\ wf8 name /\
    Forall (fun b => b = 13) crs.

(* does the line start with KEYWORD followed by a space or tab? *)
Definition has_header (kw l : list Z) : Prop := exists b r, l = kw ++ b :: r /\ sp_byte b.

Lemma hdr_some kw s s1 : hdr kw s = Some s1 -> has_header kw (expand s).
Proof.
  unfold hdr. destruct (tag kw s) as [s0|] eqn:T; [|discriminate]. intros H.
  destruct (space1_sound s0 s1 H) as (sp & A & B & C & D). apply tag_sound in T.
  destruct sp as [|x t]; [contradiction|]. inversion C; subst.
  exists x, (t ++ expand s1). split; [|assumption]. rewrite T, A. reflexivity.
Qed.

Lemma hdr_none kw s : hdr kw s = None -> ~ has_header kw (expand s).
Proof.
  unfold hdr. intros H (b & r & E & S).
  destruct (tag_complete kw s (b :: r) E) as (s0 & T & X). rewrite T in H.
  apply space1_none in H. rewrite X in H. cbn in H. contradiction.
Qed.

Section IdName.
Context (kw : list Z) (mk : Z -> rle -> item).
(* p_file / p_inline_origin *)
Definition p_id_name (s : rle) : pres item :=
  match hdr kw s with
  | None => PErr
  | Some s1 => cutp (match id_name s1 with Some (id, n) => Some (mk id n) | None => None end)
  end.

Lemma p_id_name_err s : p_id_name s = PErr <-> ~ has_header kw (expand s).
Proof.
  unfold p_id_name. destruct (hdr kw s) as [s1|] eqn:H.
  - split; [|intros N; exfalso; apply N; eapply hdr_some; eassumption].
    unfold cutp. destruct (id_name s1) as [[? ?]|]; discriminate.
  - split; [intros _; apply hdr_none; exact H|reflexivity].
Qed.

Lemma p_id_name_sound s it : p_id_name s = POk it ->
  exists id n name, it = mk id n /\ id_name_line kw (expand s) id name /\ expand n = name.
Proof.
  unfold p_id_name. destruct (hdr kw s) as [s1|] eqn:Hh; [|discriminate].
  unfold cutp. destruct (id_name s1) as [[id n]|] eqn:Hi; [|discriminate].
  intros H. inversion H; subst it. clear H.
  unfold hdr in Hh. destruct (tag kw s) as [s0|] eqn:T; [|discriminate].
  apply tag_sound in T. destruct (space1_sound s0 s1 Hh) as (sp1 & A1 & B1 & C1 & D1).
  unfold id_name in Hi. destruct (decsp s1) as [[v s2]|] eqn:Hd; [|discriminate].
  destruct (name_eol s2) as [nm|] eqn:Hn; [|discriminate]. inversion Hi; subst v nm.
  destruct (decsp_sound s1 id s2 Hd) as (ds & sp2 & A2 & N2 & L2 & D2 & V2 & U2 & Ns & Fs & Ss).
  destruct (name_eol_sound s2 n Hn) as (name & crs & A3 & F3 & C3 & W3 & E3).
  exists id, n, name. split; [reflexivity|]. split; [|exact E3].
  exists sp1, ds, sp2, crs. rewrite T, A1, A2, A3. rewrite A3 in Ss. repeat split; assumption.
Qed.

Lemma p_id_name_complete s id name : id_name_line kw (expand s) id name ->
  exists n, p_id_name s = POk (mk id n) /\ expand n = name.
Proof.
  intros (sp1 & ds & sp2 & crs & E & N1 & F1 & Nd & Ld & Dd & Vd & Ud & N2 & F2 & Sn & Fn & Wn & Fc).
  destruct (tag_complete kw s _ E) as (s0 & T & X0).
  assert (S1 : starts (fun b => ~ sp_byte b) (ds ++ sp2 ++ name ++ crs)).
  { destruct ds as [|d t]; [contradiction|]. cbn. inversion Dd; subst. intros Q. apply sp_not_digit in Q. contradiction. }
  destruct (space1_complete s0 sp1 _ X0 N1 F1 S1) as (s1 & Sp & X1).
  subst id.
  destruct (decsp_complete s1 ds sp2 (name ++ crs) X1 Nd Ld Dd Ud N2 F2 Sn) as (s2 & Dc & X2).
  destruct (name_eol_complete s2 name crs X2 Fn Fc Wn) as (n & Ne & En).
  exists n. split; [|exact En].
  unfold p_id_name, hdr. rewrite T, Sp. unfold id_name. rewrite Dc, Ne. reflexivity.
Qed.
End IdName.

Lemma p_file_is : forall s, p_file s = p_id_name T_FILE IFile s.
Proof. intros s. unfold p_file, p_id_name. destruct (hdr T_FILE s) as [s1|]; [|reflexivity]. destruct (id_name s1) as [[? ?]|]; reflexivity. Qed.
Lemma p_inline_origin_is : forall s, p_inline_origin s = p_id_name T_INLINE_ORIGIN IOrigin s.
Proof. intros s. unfold p_inline_origin, p_id_name. destruct (hdr T_INLINE_ORIGIN s) as [s1|]; [|reflexivity]. destruct (id_name s1) as [[? ?]|]; reflexivity. Qed.

(* "FILE 12 \t a\xc3\xa9\r\r" is a FILE line with id 12 and name "aé" *)
Lemma file_line_example :
  id_name_line T_FILE ([70; 73; 76; 69] ++ [32] ++ [49; 50] ++ [32; 9] ++ [97; 195; 169] ++ [13; 13]) 12 [97; 195; 169].
Proof.
  exists [32], [49; 50], [32; 9], [13; 13].
  split; [reflexivity|]. split; [discriminate|]. split; [constructor; [left; reflexivity|constructor]|].
  split; [discriminate|]. split; [cbn; lia|].
  split; [unfold dec_digits; repeat constructor; cbn; discriminate|].
  split; [reflexivity|]. split; [vm_compute; discriminate|]. split; [discriminate|].
  split; [constructor; [left; reflexivity|constructor; [right; reflexivity|constructor]]|].
  split; [cbn; unfold sp_byte; lia|]. split; [repeat constructor; lia|].
  split; [apply wf8_1; [lia|]; apply wf8_2; [lia|unfold cont; lia|constructor]|].
  repeat constructor.
Qed.
