(* C09/Proofs.v — invariants of the SymbolFile::parse state machine (C09/Model.v). *)
From Coq Require Import Lia ZArith List Bool.
From RM Require Import Base.Word C09.Model.
Import ListNotations.
Open Scope Z_scope.

Ltac Zify.zify_post_hook ::= Z.div_mod_to_equations.

(* ------------------------------------------------------------------ circular::Buffer *)
Definition geom (b : cbuf) : Prop := 0 <= b_pos b /\ b_pos b <= b_end b /\ b_end b <= b_cap b.

Lemma geom_ok_true : forall b, geom b -> geom_ok b = true.
Proof.
  intros b [H1 [H2 H3]]. unfold geom_ok.
  apply andb_true_intro; split; [apply andb_true_intro; split|]; apply Z.leb_le; assumption.
Qed.

Lemma shift_spec : forall b, geom b ->
  geom (shift b) /\ avail (shift b) = avail b /\ b_cap (shift b) = b_cap b /\
  b_pos (shift b) = 0 /\ b_end (shift b) <= b_end b.
Proof.
  intros [p e c] [H1 [H2 H3]]. unfold shift, geom, avail in *. cbn [b_pos b_end b_cap] in *.
  destruct (0 <? p) eqn:E; cbn [b_pos b_end b_cap].
  - apply Z.ltb_lt in E. lia.
  - apply Z.ltb_ge in E. lia.
Qed.

Lemma consume_spec : forall b k, geom b -> 0 <= k <= avail b ->
  let b' := consume b k in
  geom b' /\ avail b' = avail b - k /\ b_cap b' = b_cap b /\ b_pos b' <= b_cap b / 2 /\
  b_end b' <= b_end b.
Proof.
  intros [p e c] k [H1 [H2 H3]] Hk. unfold avail in Hk. cbn [b_pos b_end b_cap] in *.
  unfold consume. cbn [b_pos b_end b_cap avail].
  replace (Z.min k (avail (mkbuf p e c))) with k by (unfold avail; cbn [b_pos b_end]; lia).
  destruct (c / 2 <? p + k) eqn:E.
  - destruct (shift_spec (mkbuf (p + k) e c)) as [G [A [C [P En]]]].
    { unfold geom; cbn [b_pos b_end b_cap]; lia. }
    cbn zeta. rewrite A, C, P. unfold avail in *. cbn [b_pos b_end b_cap] in *.
    repeat split; try apply G; try lia.
  - apply Z.ltb_ge in E. cbn zeta. unfold geom, avail. cbn [b_pos b_end b_cap]. lia.
Qed.

Lemma fill_spec : forall b n, geom b -> 0 <= n <= space b ->
  let b' := fill b n in
  geom b' /\ avail b' = avail b + n /\ b_cap b' = b_cap b /\ b_pos b' <= b_pos b /\
  b_end b' <= b_end b + n.
Proof.
  intros [p e c] n [H1 [H2 H3]] Hn. unfold space in Hn. cbn [b_pos b_end b_cap] in *.
  unfold fill. cbn [b_pos b_end b_cap].
  replace (Z.min n (space (mkbuf p e c))) with n by (unfold space; cbn [b_cap b_end]; lia).
  match goal with |- context [if ?c then _ else _] => destruct c eqn:E end.
  - destruct (shift_spec (mkbuf p (e + n) c)) as [G [A [C [P En]]]].
    { unfold geom; cbn [b_pos b_end b_cap]; lia. }
    cbn zeta. rewrite A, C, P. unfold avail in *. cbn [b_pos b_end b_cap] in *.
    repeat split; try apply G; try lia.
  - cbn zeta. unfold geom, avail. cbn [b_pos b_end b_cap]. lia.
Qed.

Definition caps (c : Z) : Prop :=
  c = 10240 \/ c = 20480 \/ c = 40960 \/ c = 81920 \/ c = 163840.

(* doublings still possible *)
Definition gsteps (c : Z) : Z :=
  if c <=? 10240 then 4 else if c <=? 20480 then 3 else if c <=? 40960 then 2
  else if c <=? 81920 then 1 else 0.

Section Driver.
  Variable L : Type.
  Variable llen : L -> Z.
  Variable PS : Type.
  Variable init_ps : PS.
  Variable recog : PS -> L -> PS + Z.
  Variable bump : PS -> PS.
  Variable lineno : PS -> Z.
  Hypothesis llen_pos : forall l, 1 <= llen l.

  Local Notation St := (st L PS).
  Local Notation step := (step L llen PS recog bump lineno).
  Local Notation recovery := (recovery L llen PS bump).
  Local Notation parse_phase := (parse_phase L llen PS recog lineno).
  Local Notation pm := (pm L llen PS recog lineno).
  Local Notation size := (size L llen).
  Local Notation iter_pos := (iter_pos L llen PS recog bump lineno).
  Local Notation first_nl := (first_nl L llen PS).
  Local Notation read_n := (read_n L PS).
  Local Notation fold_recog := (fold_recog L PS recog lineno).

  Lemma size_nonneg : forall ls, 0 <= size ls.
  Proof. induction ls as [|l t IH]; cbn [Model.size]; [lia|]. pose proof (llen_pos l). lia. Qed.

  Lemma size_app : forall a b, size (a ++ b) = size a + size b.
  Proof. induction a as [|l t IH]; intros b; cbn [Model.size app]; [lia|]. rewrite IH. lia. Qed.

  (* ---------------------------------------------------------------- unary iteration *)
  Fixpoint iter_nat (n : nat) (s : St) : stepres L PS :=
    match n with
    | O => Next s
    | S n' => match step s with Next s1 => iter_nat n' s1 | r => r end
    end.

  Lemma iter_nat_add : forall a b s,
    iter_nat (a + b) s = match iter_nat a s with Next s1 => iter_nat b s1 | r => r end.
  Proof.
    induction a as [|a IH]; intros b s; cbn [iter_nat Nat.add]; [reflexivity|].
    destruct (step s); try reflexivity. apply IH.
  Qed.

  Lemma iter_pos_nat : forall p s, iter_pos p s = iter_nat (Pos.to_nat p) s.
  Proof.
    induction p as [q IH|q IH|]; intros s; cbn [Model.iter_pos].
    - rewrite Pos2Nat.inj_xI. replace (S (2 * Pos.to_nat q))%nat with (1 + (Pos.to_nat q + Pos.to_nat q))%nat by lia.
      rewrite iter_nat_add. cbn [iter_nat]. destruct (step s) as [s1| |]; try reflexivity.
      rewrite iter_nat_add. rewrite IH. destruct (iter_nat (Pos.to_nat q) s1); try reflexivity. apply IH.
    - rewrite Pos2Nat.inj_xO. replace (2 * Pos.to_nat q)%nat with (Pos.to_nat q + Pos.to_nat q)%nat by lia.
      rewrite iter_nat_add. rewrite IH. destruct (iter_nat (Pos.to_nat q) s); try reflexivity. apply IH.
    - rewrite Pos2Nat.inj_1. cbn [iter_nat]. destruct (step s); reflexivity.
  Qed.

  (* ---------------------------------------------------------------- parse_more *)
  Lemma pm_inl : forall ls budget p c lg p' r' c' lg', 0 <= budget ->
    pm budget p ls c lg = inl (p', r', c', lg') ->
    exists taken,
      ls = taken ++ r' /\ c' = c + size taken /\ size taken <= budget /\
      lg' = rev (map (pair false) taken) ++ lg /\
      fold_recog p taken = inl p' /\
      Forall (fun l => llen l <= budget) taken /\
      match r' with l :: _ => budget - size taken < llen l | [] => True end.
  Proof.
    induction ls as [|l t IH]; intros budget p c lg p' r' c' lg' Hb H; cbn [Model.pm] in H.
    - inversion H; subst. exists []. cbn. repeat split; try lia; constructor.
    - destruct (llen l <=? budget) eqn:E.
      + apply Z.leb_le in E. destruct (recog p l) as [p1|e] eqn:R; [|discriminate].
        apply IH in H; [|lia]. destruct H as [tk [H1 [H2 [H3 [H4 [H5 [H6 H7]]]]]]].
        exists (l :: tk). cbn [app Model.size map rev Model.fold_recog]. rewrite R.
        repeat split; try lia.
        * rewrite H1 at 1. reflexivity.
        * rewrite H4. rewrite <- app_assoc. reflexivity.
        * assumption.
        * constructor; [lia|]. eapply Forall_impl; [|exact H6]. cbn. intros a Ha.
          pose proof (llen_pos l). lia.
        * destruct r'; [exact I|]. lia.
      + apply Z.leb_gt in E. inversion H; subst. exists []. cbn. repeat split; try lia; constructor.
  Qed.

  Lemma fold_recog_app : forall a b p,
    fold_recog p (a ++ b) = match fold_recog p a with inl p' => fold_recog p' b | inr e => inr e end.
  Proof.
    induction a as [|l t IH]; intros b p; cbn [app Model.fold_recog]; [reflexivity|].
    destruct (recog p l); [apply IH|reflexivity].
  Qed.

  Lemma pm_inr : forall ls budget p c lg e,
    pm budget p ls c lg = inr e ->
    exists taken l r p1,
      ls = taken ++ l :: r /\ fold_recog p taken = inl p1 /\
      recog p1 l = inr (fst e) /\ snd e = lineno p1 /\ llen l <= budget.
  Proof.
    induction ls as [|l t IH]; intros budget p c lg e H; cbn [Model.pm] in H; [discriminate|].
    destruct (llen l <=? budget) eqn:E; [|discriminate]. apply Z.leb_le in E.
    destruct (recog p l) as [p1|c1] eqn:R.
    - apply IH in H. destruct H as [tk [l1 [r [p2 [H1 [H2 [H3 [H4 H5]]]]]]]].
      exists (l :: tk), l1, r, p2. cbn [app Model.fold_recog]. rewrite R.
      pose proof (llen_pos l). repeat split; try assumption; try lia. rewrite H1. reflexivity.
    - inversion H; subst. exists [], l, t, p. cbn. repeat split; try assumption; try lia.
  Qed.

  Lemma fold_recog_err : forall taken l r p p1 c,
    fold_recog p taken = inl p1 -> recog p1 l = inr c ->
    fold_recog p (taken ++ l :: r) = inr (c, lineno p1).
  Proof.
    intros taken l r p p1 c H1 H2. rewrite fold_recog_app, H1. cbn [Model.fold_recog]. rewrite H2. reflexivity.
  Qed.

  (* ---------------------------------------------------------------- the invariant *)
  Variable tail : Z.            (* bytes after the last '\n' *)
  Hypothesis tail_nonneg : 0 <= tail.
  Variable ilen : Z.            (* input length *)
  Variable lines : list L.      (* all complete lines of the input *)
  Local Notation replay := (replay L PS recog bump lineno).

  Definition dec_ok (d : bool * L) : Prop :=
    if fst d then HALF_CAP < llen (snd d) else llen (snd d) <= MAX_CAP.

  (* holds at every point of the loop body *)
  Record WFm (s : St) : Prop := {
    wf_geom : geom (buf s);
    wf_cap : caps (b_cap (buf s));
    wf_half : b_pos (buf s) <= b_cap (buf s) / 2;
    wf_off : 0 <= off s /\ match rest s with l :: _ => off s < llen l | [] => off s <= tail end;
    wf_acct : avail (buf s) + unread s = size (rest s) - off s + tail;
    wf_sum : total s + avail (buf s) + unread s = ilen;
    wf_unread : 0 <= unread s;
    wf_pr_off : pr s = false -> off s = 0;
    wf_pr_cap : pr s = true -> b_cap (buf s) = MAX_CAP;
    wf_tg : tg s = true -> b_end (buf s) < b_cap (buf s);
    wf_cb : cbsum s = total s;
    wf_maxsp : 0 <= maxsp s <= MAX_CAP;
    wf_total : total s = size (map snd (rev (log s))) + off s;
    wf_pr_long : pr s = true -> match rest s with l :: _ => HALF_CAP < llen l | [] => True end;
    wf_lines : lines = map snd (rev (log s)) ++ rest s;
    wf_replay : replay init_ps (rev (log s)) = inl (ps s);
    wf_decs : Forall dec_ok (log s)
  }.

  (* holds at the head of the loop *)
  Definition partial (s : St) : Prop :=
    match rest s with l :: _ => avail (buf s) < llen l | [] => True end.

  Record WF (s : St) : Prop := {
    wf_m : WFm s;
    wf_partial : pr s = false -> partial s;
    wf_fc : pr s = false -> fc s = true -> avail (buf s) = 0;
    wf_jf : pr s = false -> jf s = false
  }.

  Lemma replay_app : forall a b p,
    replay p (a ++ b) = match replay p a with inl p' => replay p' b | inr e => inr e end.
  Proof.
    induction a as [|[d l] t IH]; intros b p; cbn [app Model.replay]; [reflexivity|].
    destruct d; [apply IH|]. destruct (recog p l); [apply IH|reflexivity].
  Qed.

  Definition b2z (b : bool) : Z := if b then 1 else 0.
  Definition phi (s : St) : Z :=
    6 * unread s + 3 * avail (buf s) + 4 * gsteps (b_cap (buf s)) + b2z (negb (pr s)) + b2z (jf s).

  Lemma phi_nonneg : forall s, WFm s -> 0 <= phi s.
  Proof.
    intros s W. destruct W. unfold phi, geom, avail, gsteps in *.
    destruct (pr s), (jf s); cbn [b2z negb];
    repeat match goal with |- context [if ?c then _ else _] => destruct c end; lia.
  Qed.

  Lemma first_nl_some : forall s idx, first_nl s = Some idx ->
    exists l t, rest s = l :: t /\ idx = llen l - off s - 1 /\ llen l - off s <= avail (buf s).
  Proof.
    intros s idx H. unfold Model.first_nl in H. destruct (rest s) as [|l t]; [discriminate|].
    destruct (llen l - off s <=? avail (buf s)) eqn:E; [|discriminate].
    apply Z.leb_le in E. inversion H. exists l, t. repeat split; lia.
  Qed.

  Lemma first_nl_none : forall s, first_nl s = None ->
    match rest s with l :: _ => avail (buf s) < llen l - off s | [] => True end.
  Proof.
    intros s H. unfold Model.first_nl in H. destruct (rest s) as [|l t]; [exact I|].
    destruct (llen l - off s <=? avail (buf s)) eqn:E; [discriminate|]. apply Z.leb_gt in E. lia.
  Qed.

  (* the recovery block *)
  Lemma recovery_wfm : forall s, WFm s -> pr s = true ->
    let s1 := recovery s in
    WFm s1 /\ (fc s1 = true -> avail (buf s1) = 0) /\
    ((pr s1 = true /\ fc s1 = true /\ avail (buf s1) = 0 /\ phi s1 <= phi s /\ jf s1 = jf s) \/
     (pr s1 = false /\ jf s1 = true /\ phi s1 < phi s /\ (avail (buf s1) = 0 -> fc s1 = true))).
  Proof.
    intros s W Hpr. destruct W as [Wg Wc Wh [Wo1 Wo2] Wa Ws Wu Wpo Wpc Wtg Wcb Wms Wt Wpl Wl Wr Wd].
    unfold Model.recovery. destruct (first_nl s) as [idx|] eqn:F.
    - apply first_nl_some in F. destruct F as [l [t [Hr [Hi Hle]]]]. rewrite Hr in *.
      assert (K : 0 <= idx + 1 <= avail (buf s)) by lia.
      destruct (consume_spec (buf s) (idx + 1) Wg K) as [G [A [C [P E]]]].
      cbn zeta. split; [|split].
      + constructor.
        all: cbn [buf fc tg pr jf total ps rest off unread sched ncb cbsum nrd maxsp log].
        all: rewrite ?A, ?C.
        all: cbn [Model.size] in Wa.
        all: try assumption; try lia; try discriminate.
        * split; [lia|]. destruct t as [|l2 t2]; [lia|]. pose proof (llen_pos l2). lia.
        * cbn [rev]. rewrite map_app, size_app. cbn [map snd Model.size]. lia.
        * cbn [rev]. rewrite map_app, <- app_assoc. cbn [map snd app]. exact Wl.
        * cbn [rev]. rewrite replay_app, Wr. reflexivity.
        * constructor; [|exact Wd]. unfold dec_ok. cbn [fst snd]. exact (Wpl Hpr).
      + cbn [fc buf]. intros H. apply Z.eqb_eq in H. exact H.
      + right. cbn [pr jf]. split; [reflexivity|]. split; [reflexivity|]. split.
        * unfold phi. cbn [buf fc tg pr jf total ps rest off unread sched]. rewrite A, C, Hpr.
          destruct (jf s); cbn [b2z negb]; lia.
        * cbn [fc buf]. intros H0. apply Z.eqb_eq. exact H0.
    - pose proof (first_nl_none s F) as Fn.
      assert (K : 0 <= avail (buf s) <= avail (buf s)) by (destruct Wg; unfold avail; lia).
      destruct (consume_spec (buf s) (avail (buf s)) Wg K) as [G [A [C [P E]]]].
      replace (match rest s with [] => discard_all L PS s | _ :: _ => discard_all L PS s end)
        with (discard_all L PS s) by (destruct (rest s); reflexivity).
      unfold discard_all.
      cbn zeta. split; [|split].
      + constructor.
        all: cbn [buf fc tg pr jf total ps rest off unread sched ncb cbsum nrd maxsp log].
        all: rewrite ?A, ?C.
        all: try assumption; try lia; try congruence.
        * split; [lia|]. destruct (rest s) as [|l t]; [|lia]. cbn [Model.size] in Wa. lia.
      + cbn [fc buf]. intros _. rewrite A. lia.
      + left. cbn [pr fc buf jf]. repeat split; try assumption; try (rewrite A; lia).
        unfold phi. cbn [buf fc tg pr jf total ps rest off unread sched]. rewrite A, C. lia.
  Qed.

  Lemma read_n_spec : forall sp (s : St) n sch', read_n sp s = (n, sch') -> 0 <= sp -> 0 <= unread s ->
    0 <= n <= sp /\ n <= unread s /\ (n = 0 -> sp = 0 \/ unread s = 0).
  Proof.
    intros sp s n sch' H Hsp Hu. unfold Model.read_n in H.
    destruct ((sp <=? 0) || (unread s <=? 0)) eqn:E.
    - inversion H; subst. apply orb_true_iff in E. destruct E as [E|E]; apply Z.leb_le in E; lia.
    - apply orb_false_iff in E. destruct E as [E1 E2]. apply Z.leb_gt in E1. apply Z.leb_gt in E2.
      destruct (sched s); inversion H; subst; lia.
  Qed.

  Lemma caps_bounds : forall c, caps c -> 10240 <= c <= 163840.
  Proof. unfold caps. intros. lia. Qed.

  (* parse_more failed: on a line that was completely inside the buffer *)
  Definition pm_err (s : St) (c ln : Z) : Prop :=
    exists taken l r p1,
      rest s = taken ++ l :: r /\ fold_recog (ps s) taken = inl p1 /\
      recog p1 l = inr c /\ ln = lineno p1 /\ llen l <= MAX_CAP.

  (* from `if in_panic_recovery { continue }` to the end of the loop body, recovery being off *)
  Lemma parse_phase_wf : forall s2, WFm s2 -> pr s2 = false ->
    match parse_phase s2 with
    | Next s' => WF s' /\ phi s' <= phi s2 - b2z (jf s2) /\ pr s' = false
    | Done r s' => s' = s2 /\ exists c ln, r = RErr c ln /\ pm_err s2 c ln
    | StPanic _ => False
    end.
  Proof.
    intros s W Hpr. destruct W as [Wg Wc Wh [Wo1 Wo2] Wa Ws Wu Wpo Wpc Wtg Wcb Wms Wt Wpl Wl Wr Wd].
    unfold Model.parse_phase. rewrite Hpr. rewrite (geom_ok_true _ Wg). cbn [negb].
    rewrite (Wpo Hpr). cbn [Z.eqb negb].
    assert (Hav : 0 <= avail (buf s)) by (destruct Wg; unfold avail; lia).
    destruct (pm (avail (buf s)) (ps s) (rest s) 0 (log s)) as [[[[p' r'] c'] lg']|[c ln]] eqn:P.
    - apply pm_inl in P; [|exact Hav]. destruct P as [tk [H1 [H2 [H3 [H4 [H5 [H6 H7]]]]]]].
      pose proof (size_nonneg tk) as Hsz.
      assert (K : 0 <= c' <= avail (buf s)) by lia.
      destruct (consume_spec (buf s) c' Wg K) as [G [A [C [P E]]]].
      pose proof (caps_bounds _ Wc) as Hcb.
      split; [|split].
      + constructor; [constructor|..].
        all: cbn [buf fc tg pr jf total ps rest off unread sched ncb cbsum nrd maxsp log].
        all: rewrite ?A, ?C.
        all: try assumption; try lia; try discriminate.
        * split; [lia|]. destruct r' as [|l2 t2]; [lia|]. pose proof (llen_pos l2). lia.
        * rewrite H1 in Wa. rewrite size_app in Wa. rewrite (Wpo Hpr) in Wa. lia.
        * rewrite H4. rewrite rev_app_distr, rev_involutive, map_app, size_app, map_map. cbn [snd].
          rewrite map_id. rewrite (Wpo Hpr) in Wt. lia.
        * rewrite H4. rewrite rev_app_distr, rev_involutive, map_app, map_map. cbn [snd]. rewrite map_id.
          rewrite <- app_assoc. rewrite <- H1. exact Wl.
        * rewrite H4. rewrite rev_app_distr, rev_involutive, replay_app, Wr.
          clear - H5. revert H5. generalize (ps s). induction tk as [|l t IH]; intros p0 H5; cbn [map Model.replay Model.fold_recog] in *.
          { exact H5. }
          { destruct (recog p0 l); [apply IH; exact H5|discriminate]. }
        * rewrite H4. apply Forall_app. split; [|exact Wd]. apply Forall_rev.
          apply Forall_map. eapply Forall_impl; [|exact H6]. intros a Ha. unfold dec_ok. cbn [fst snd].
          destruct Wg as [? [? ?]]. unfold avail in Ha. unfold MAX_CAP. lia.
        * intros _. unfold partial. cbn [rest buf]. rewrite A. destruct r'; [exact I|]. lia.
      + unfold phi. cbn [buf fc tg pr jf total ps rest off unread sched]. rewrite A, C, Hpr.
        destruct (jf s); cbn [b2z negb]; lia.
      + reflexivity.
    - apply pm_inr in P. destruct P as [tk [l1 [r [p1 [H1 [H2 [H3 [H4 H5]]]]]]]]. cbn [fst snd] in *.
      split; [reflexivity|]. exists c, ln. split; [reflexivity|].
      exists tk, l1, r, p1. repeat split; try assumption.
      pose proof (caps_bounds _ Wc). destruct Wg as [? [? ?]]. unfold avail in H5. unfold MAX_CAP. lia.
  Qed.

  Definition Pre (s1 : St) : Prop :=
    WFm s1 /\ (fc s1 = true -> avail (buf s1) = 0) /\ (pr s1 = true -> fc s1 = true) /\
    (pr s1 = false -> jf s1 = false -> partial s1) /\
    (pr s1 = false -> jf s1 = true -> avail (buf s1) = 0 -> fc s1 = true).

  Definition Fin (r : result PS) (s' : St) : Prop :=
    WFm s' /\
    match r with
    | ROk p => p = ps s' /\ avail (buf s') = 0 /\ unread s' = 0 /\ fc s' = true
    | RErr c ln =>
        (pr s' = false /\ pm_err s' c ln) \/
        (unread s' = 0 /\ fc s' = false /\ (pr s' = false -> jf s' = false -> partial s') /\
         ((c = 3 /\ ln = 0 /\ total s' = 0) \/ (c = 4 /\ ln = lineno (ps s') /\ total s' <> 0)))
    end.

  Lemma step_rest_wf : forall s1, Pre s1 ->
    match step_rest L llen PS recog lineno s1 with
    | Next s' => WF s' /\ phi s' < phi s1
    | Done r s' => Fin r s'
    | StPanic _ => False
    end.
  Proof.
    intros s1 [W [Hfc [Hprfc [Hpart Hjfc]]]].
    pose proof W as W0.
    destruct W as [Wg Wc Wh [Wo1 Wo2] Wa Ws Wu Wpo Wpc Wtg Wcb Wms Wt Wpl Wl Wr Wd].
    unfold Model.step_rest, Model.step_after_read. rewrite (geom_ok_true _ Wg). cbn [negb].
    pose proof (caps_bounds _ Wc) as Hcb.
    assert (Hsp : 0 <= space (buf s1)) by (destruct Wg as [? [? ?]]; unfold space; lia).
    destruct (read_n (space (buf s1)) s1) as [n sch'] eqn:R.
    destruct (read_n_spec _ _ _ _ R Hsp Wu) as [Hn1 [Hn2 Hn0]].
    destruct (fill_spec (buf s1) n Wg Hn1) as [G [A [C [P E]]]].
    assert (Hav : 0 <= avail (buf s1)) by (destruct Wg as [? [? ?]]; unfold avail; lia).
    assert (W2 : forall tgv, (tgv = true -> tg s1 = true /\ n = 0) ->
               WFm (mkst (fill (buf s1) n) (fc s1) tgv (pr s1) (jf s1) (total s1) (ps s1) (rest s1) (off s1)
                         (unread s1 - n) sch' (ncb s1) (cbsum s1) (nrd s1 + 1)
                         (Z.max (maxsp s1) (space (buf s1))) (log s1))).
    { intros tgv Htg. constructor.
      all: cbn [buf fc tg pr jf total ps rest off unread sched ncb cbsum nrd maxsp log].
      all: rewrite ?A, ?C.
      all: try assumption; try lia.
      - split; assumption.
      - intros Ht. destruct (Htg Ht) as [Ht1 Ht2]. specialize (Wtg Ht1). lia.
      - unfold space in *. destruct Wg as [? [? ?]]. unfold MAX_CAP in *. lia. }
    destruct (n =? 0) eqn:En.
    - apply Z.eqb_eq in En. subst n.
      specialize (W2 (tg s1) (fun H => conj H eq_refl)).
      set (s2 := mkst (fill (buf s1) 0) (fc s1) (tg s1) (pr s1) (jf s1) (total s1) (ps s1) (rest s1) (off s1)
                      (unread s1 - 0) sch' (ncb s1) (cbsum s1) (nrd s1 + 1)
                      (Z.max (maxsp s1) (space (buf s1))) (log s1)) in *.
      change (jf s2) with (jf s1); change (fc s2) with (fc s1); change (tg s2) with (tg s1);
      change (total s2) with (total s1); change (ps s2) with (ps s1).
      assert (A2 : avail (buf s2) = avail (buf s1)) by (subst s2; cbn [buf]; lia).
      assert (Phi2 : phi s2 = phi s1).
      { unfold phi. subst s2. cbn [buf unread pr jf]. rewrite A, C. lia. }
      destruct (jf s1 && negb (avail (fill (buf s1) 0) =? 0)) eqn:Ea.
      + (* just finished recovering and there is data: parse it *)
        apply andb_true_iff in Ea. destruct Ea as [Ej Ea]. apply negb_true_iff in Ea. apply Z.eqb_neq in Ea.
        assert (Hp2 : pr s2 = false).
        { subst s2. cbn [pr]. destruct (pr s1) eqn:Ep; [|reflexivity].
          specialize (Hfc (Hprfc eq_refl)). lia. }
        pose proof (parse_phase_wf s2 W2 Hp2) as PP.
        destruct (parse_phase s2) as [s'|r s'|t]; [| |exact PP].
        * destruct PP as [PW [PPhi _]]. split; [exact PW|].
          replace (jf s2) with true in PPhi by (subst s2; cbn [jf]; congruence). cbn [b2z] in PPhi. lia.
        * destruct PP as [Hs' [c [ln [Hr Hf]]]]. subst s' r. split; [exact W2|]. left. split; assumption.
      + destruct (fc s1) eqn:Efc.
        * (* proper EOF *)
          split; [exact W2|]. cbn [ps]. split; [reflexivity|].
          specialize (Hfc eq_refl). split; [lia|].
          subst s2. cbn [unread fc]. split; [|reflexivity].
          assert (space (buf s1) <> 0).
          { unfold space, avail in *. destruct Wg as [? [? ?]]. lia. }
          lia.
        * assert (Hp1 : pr s1 = false) by (destruct (pr s1); [specialize (Hprfc eq_refl); congruence|reflexivity]).
          assert (Hj1 : jf s1 = false).
          { destruct (jf s1) eqn:Ej; [|reflexivity]. cbn [andb] in Ea. apply negb_false_iff in Ea.
            apply Z.eqb_eq in Ea. rewrite A in Ea. specialize (Hjfc Hp1 eq_refl ltac:(lia)). congruence. }
          specialize (Hpart Hp1 Hj1).
          destruct ((space (buf s1) =? 0) && negb (tg s1)) eqn:Eb.
          -- apply andb_true_iff in Eb. destruct Eb as [Eb1 Eb2]. apply Z.eqb_eq in Eb1.
             apply negb_true_iff in Eb2.
             destruct (MAX_CAP <? Z.min (b_cap (fill (buf s1) 0) * 2) U64MAX) eqn:Em.
             ++ (* enter recovery *)
                apply Z.ltb_lt in Em. rewrite C in Em. unfold MAX_CAP, U64MAX in Em.
                assert (Hc : b_cap (buf s1) = 163840) by (unfold caps in Wc; lia).
                split.
                ** constructor; [|cbn [set_pr pr]; discriminate..].
                   subst s2. destruct W2. unfold set_pr. constructor.
                   all: cbn [buf fc tg pr jf total ps rest off unread sched ncb cbsum nrd maxsp log] in *.
                   all: try assumption; try discriminate.
                   { intros _. rewrite C. exact Hc. }
                   { intros _. unfold partial in Hpart. destruct (rest s1) as [|l t]; [exact I|].
                     unfold space, avail in *. destruct Wg as [? [? ?]]. unfold HALF_CAP. lia. }
                ** unfold phi, set_pr. unfold phi in Phi2.
                   subst s2. cbn [buf unread pr jf] in *. rewrite Hp1 in *. cbn [negb b2z] in *. lia.
             ++ (* grow *)
                apply Z.ltb_ge in Em. rewrite C in Em. unfold MAX_CAP, U64MAX in Em.
                assert (Hc : b_cap (buf s1) <= 81920) by lia.
                subst s2. unfold grow. rewrite C.
                replace (Z.min (b_cap (buf s1) * 2) U64MAX) with (b_cap (buf s1) * 2) by (unfold U64MAX; lia).
                replace (b_cap (buf s1) * 2 <=? b_cap (buf s1)) with false by (symmetry; apply Z.leb_gt; lia).
                split.
                ** destruct W2. unfold set_buf_tg. constructor; [constructor|..].
                   all: cbn [buf fc tg pr jf total ps rest off unread sched ncb cbsum nrd maxsp log b_pos b_end b_cap avail] in *.
                   all: try assumption; try congruence.
                   { destruct wf_geom0 as [? [? ?]]. unfold geom. cbn [b_pos b_end b_cap]. rewrite C in *. lia. }
                   { unfold caps in *. lia. }
                   { rewrite C in *. lia. }
                   { intros _. destruct wf_geom0 as [? [? ?]]. rewrite C in *. lia. }
                   { intros _. unfold partial in *. cbn [rest buf avail b_pos b_end]. unfold avail in *. destruct (rest s1); [exact I|]. cbn [b_pos b_end]. lia. }
                ** unfold phi, set_buf_tg. cbn [buf unread pr jf b_cap avail b_pos b_end]. unfold phi in Phi2.
                   cbn [buf unread pr jf] in Phi2. rewrite C in Phi2. unfold avail in *.
                   assert (gsteps (b_cap (buf s1) * 2) = gsteps (b_cap (buf s1)) - 1).
                   { unfold caps in Wc. destruct Wc as [K|[K|[K|[K|K]]]]; rewrite K in *; try reflexivity; lia. }
                   cbn [b_pos b_end]. lia.
          -- (* EOF with unparsed bytes left *)
             assert (Hu : unread s1 = 0).
             { apply andb_false_iff in Eb. destruct Eb as [Eb|Eb].
               - apply Z.eqb_neq in Eb. lia.
               - apply negb_false_iff in Eb. specialize (Wtg Eb). unfold space in *. lia. }
             destruct (total s1 =? 0) eqn:Et.
             ++ apply Z.eqb_eq in Et. split; [exact W2|]. right. subst s2. cbn [unread fc pr jf rest buf total ps].
                repeat split; try lia; try assumption.
                intros _ _. unfold partial in *. cbn [rest buf]. rewrite A. destruct (rest s1); [exact I|]. lia.
             ++ apply Z.eqb_neq in Et. split; [exact W2|]. right. subst s2. cbn [unread fc pr jf rest buf total ps].
                repeat split; try lia; try assumption.
                intros _ _. unfold partial in *. cbn [rest buf]. rewrite A. destruct (rest s1); [exact I|]. lia.
    - (* the reader delivered n > 0 bytes *)
      apply Z.eqb_neq in En.
      specialize (W2 false ltac:(discriminate)).
      unfold set_tg. cbn [buf fc tg pr jf total ps rest off unread sched ncb cbsum nrd maxsp log].
      set (s2 := mkst (fill (buf s1) n) (fc s1) false (pr s1) (jf s1) (total s1) (ps s1) (rest s1) (off s1)
                      (unread s1 - n) sch' (ncb s1) (cbsum s1) (nrd s1 + 1)
                      (Z.max (maxsp s1) (space (buf s1))) (log s1)) in *.
      assert (Phi2 : phi s2 = phi s1 - 3 * n).
      { unfold phi. subst s2. cbn [buf unread pr jf]. rewrite A, C. lia. }
      destruct (pr s1) eqn:Ep.
      + (* still discarding *)
        unfold Model.parse_phase. replace (pr s2) with true by (subst s2; cbn [pr]; congruence).
        split; [|lia]. constructor; [exact W2| | |].
        all: subst s2; cbn [pr]; discriminate.
      + assert (Hp2 : pr s2 = false) by (subst s2; cbn [pr]; reflexivity).
        pose proof (parse_phase_wf s2 W2 Hp2) as PP.
        destruct (parse_phase s2) as [s'|r s'|t]; [| |exact PP].
        * destruct PP as [PW [PPhi _]]. split; [exact PW|].
          assert (0 <= b2z (jf s2)) by (destruct (jf s2); cbn; lia). lia.
        * destruct PP as [Hs' [c [ln [Hr Hf]]]]. subst s' r. split; [exact W2|]. left. split; assumption.
  Qed.

  Lemma step_wf : forall s, WF s ->
    match step s with
    | Next s' => WF s' /\ phi s' < phi s
    | Done r s' => Fin r s'
    | StPanic _ => False
    end.
  Proof.
    intros s [W Hp Hf Hj]. unfold Model.step.
    rewrite (geom_ok_true _ (wf_geom _ W)). cbn [negb]. rewrite andb_false_r.
    destruct (pr s) eqn:Ep.
    - destruct (recovery_wfm s W Ep) as [W1 [F1 D]]. cbn zeta in *.
      assert (HP : Pre (recovery s) /\ phi (recovery s) <= phi s).
      { destruct D as [[P1 [P2 [P3 [P4 P5]]]]|[P1 [P2 [P3 P4]]]].
        - split; [|exact P4]. split; [exact W1|]. split; [exact F1|]. split; [intros _; exact P2|].
          split; intros Q; congruence.
        - split; [|lia]. split; [exact W1|]. split; [exact F1|]. split; [intros Q; congruence|].
          split; [intros _ Q; congruence|]. intros _ _ Ha. exact (P4 Ha). }
      destruct HP as [HP Hphi]. pose proof (step_rest_wf _ HP) as SR.
      destruct (step_rest L llen PS recog lineno (recovery s)); [|exact SR|exact SR].
      destruct SR as [SW SP]. split; [exact SW|lia].
    - assert (HP : Pre s).
      { split; [exact W|]. split; [exact (Hf eq_refl)|]. split; [intros Q; congruence|].
        split; [intros _ _; exact (Hp eq_refl)|]. intros _ Q. rewrite (Hj eq_refl) in Q. discriminate. }
      exact (step_rest_wf _ HP).
  Qed.

  Lemma run_wf : forall n s, WF s -> phi s < Z.of_nat n ->
    exists r s', iter_nat n s = Done r s' /\ Fin r s'.
  Proof.
    induction n as [|n IH]; intros s W Hphi.
    - pose proof (phi_nonneg s (wf_m _ W)). cbn in Hphi. lia.
    - cbn [iter_nat]. pose proof (step_wf s W) as SW.
      destruct (step s) as [s1|r s1|t].
      + destruct SW as [W1 P1]. apply IH; [exact W1|lia].
      + exists r, s1. split; [reflexivity|exact SW].
      + contradiction.
  Qed.

  Lemma reach_wf : forall n s0 s, WF s0 -> iter_nat n s0 = Next s -> WF s.
  Proof.
    induction n as [|n IH]; intros s0 s W H; cbn [iter_nat] in H.
    - inversion H; subst; exact W.
    - pose proof (step_wf s0 W) as SW. destruct (step s0) as [s1|r s1|t]; try discriminate.
      destruct SW as [W1 _]. eapply IH; eauto.
  Qed.

  Lemma init_wf : forall t0 sch, Z.max 0 t0 = tail -> ilen = size lines + tail ->
    WF (init_st L llen PS init_ps lines t0 sch).
  Proof.
    intros t0 sch Ht Hi. unfold init_st, input_len. rewrite Ht.
    constructor; [constructor|..].
    all: cbn [buf fc tg pr jf total ps rest off unread sched ncb cbsum nrd maxsp log b_pos b_end b_cap avail rev map app Model.size Model.replay].
    all: try discriminate; try reflexivity.
    all: unfold avail; cbn [b_pos b_end b_cap].
    - unfold geom, INITIAL_CAP. cbn [b_pos b_end b_cap]. lia.
    - unfold caps, INITIAL_CAP. lia.
    - split; [lia|]. destruct lines as [|l t]; [lia|]. pose proof (llen_pos l). lia.
    - lia.
    - lia.
    - pose proof (size_nonneg lines). lia.
    - unfold MAX_CAP. lia.
    - constructor.
    - intros _. unfold partial. cbn [rest buf]. unfold avail. cbn [b_pos b_end]. destruct lines as [|l t]; [exact I|].
      pose proof (llen_pos l). lia.
  Qed.

  Lemma init_phi : forall t0 sch, Z.max 0 t0 = tail -> ilen = size lines + tail ->
    phi (init_st L llen PS init_ps lines t0 sch) = 6 * ilen + 17.
  Proof.
    intros t0 sch Ht Hi. unfold init_st, input_len, phi. rewrite Ht.
    cbn [buf unread pr jf negb b2z]. unfold avail, INITIAL_CAP, gsteps. cbn [b_cap b_pos b_end].
    change (10240 <=? 10240) with true. cbn iota. lia.
  Qed.
End Driver.

(* ==================================================================== top-level lemmas *)
Section Top.
  Variable L : Type.
  Variable llen : L -> Z.
  Variable PS : Type.
  Variable init_ps : PS.
  Variable recog : PS -> L -> PS + Z.
  Variable bump : PS -> PS.
  Variable lineno : PS -> Z.
  Hypothesis llen_pos : forall l, 1 <= llen l.

  Local Notation drive := (drive L llen PS init_ps recog bump lineno).
  Local Notation init_st := (init_st L llen PS init_ps).
  Local Notation iter_pos := (iter_pos L llen PS recog bump lineno).
  Local Notation input_len := (input_len L llen).
  Local Notation WF' lines t0 := (WF L llen PS init_ps recog bump lineno (Z.max 0 t0) (input_len lines t0) lines).
  Local Notation WFm' lines t0 := (WFm L llen PS init_ps recog bump lineno (Z.max 0 t0) (input_len lines t0) lines).
  Local Notation Fin' lines t0 := (Fin L llen PS init_ps recog bump lineno (Z.max 0 t0) (input_len lines t0) lines).

  Lemma init_wf' : forall lines t0 sch, WF' lines t0 (init_st lines t0 sch).
  Proof.
    intros. apply init_wf; try assumption; try reflexivity. lia.
  Qed.

  Lemma input_len_nonneg : forall lines t0, 0 <= input_len lines t0.
  Proof. intros. unfold Model.input_len. pose proof (size_nonneg L llen PS init_ps recog bump lineno llen_pos lines). lia. Qed.

  Lemma drive_fin : forall lines t0 sch,
    exists r s', drive lines t0 sch = Ret (r, s') /\ Fin' lines t0 r s'.
  Proof.
    intros lines t0 sch. unfold Model.drive. rewrite iter_pos_nat.
    destruct (run_wf L llen PS init_ps recog bump lineno llen_pos (Z.max 0 t0) ltac:(lia)
                     (input_len lines t0) lines
                     (Pos.to_nat (fuel_for L llen lines t0)) (init_st lines t0 sch)) as [r [s' [H1 H2]]].
    - apply init_wf'.
    - rewrite (init_phi L llen PS init_ps recog bump lineno (Z.max 0 t0) (input_len lines t0) lines t0 sch eq_refl eq_refl).
      rewrite positive_nat_Z. unfold fuel_for. pose proof (input_len_nonneg lines t0).
      rewrite Z2Pos.id; lia.
    - rewrite H1. exists r, s'. split; [reflexivity|exact H2].
  Qed.

  Lemma reach_wf' : forall lines t0 sch p s,
    iter_pos p (init_st lines t0 sch) = Next s -> WF' lines t0 s.
  Proof.
    intros lines t0 sch p s H. rewrite iter_pos_nat in H.
    eapply reach_wf; [exact llen_pos|lia|apply init_wf'|exact H].
  Qed.

  Lemma wfm_window : forall lines t0 s, WFm' lines t0 s ->
    caps (b_cap (buf s)) /\ 0 <= avail (buf s) <= b_cap (buf s) /\ b_cap (buf s) <= MAX_CAP /\
    0 <= maxsp s <= MAX_CAP.
  Proof.
    intros lines t0 s W. destruct W. pose proof (caps_bounds L PS init_ps recog bump lineno _ wf_cap0).
    destruct wf_geom0 as [? [? ?]]. unfold avail, MAX_CAP in *. repeat split; try assumption; lia.
  Qed.

  Lemma fin_rest_nil : forall lines t0 s,
    WFm' lines t0 s -> avail (buf s) = 0 -> unread s = 0 -> rest s = [] /\ total s = input_len lines t0.
  Proof.
    intros lines t0 s W Ha Hu. destruct W. split; [|lia].
    destruct (rest s) as [|l t]; [reflexivity|]. cbn [Model.size] in wf_acct0.
    pose proof (size_nonneg L llen PS init_ps recog bump lineno llen_pos t). destruct wf_off0. lia.
  Qed.

  Lemma replay_fed : forall taken p, Model.replay L PS recog bump lineno p (map (pair false) taken) = Model.fold_recog L PS recog lineno p taken.
  Proof.
    induction taken as [|l t IH]; intros p; cbn [map Model.replay Model.fold_recog]; [reflexivity|].
    destruct (recog p l); [apply IH|reflexivity].
  Qed.

  (* what a finished run looks like, whatever the input and the schedule *)
  Definition outcome_shape (lines : list L) (r : result PS) (s : st L PS) : Prop :=
    exists ds : list (bool * L),
      Forall (dec_ok L llen) ds /\ lines = map snd ds ++ rest s /\
      Model.replay L PS recog bump lineno init_ps ds = inl (ps s) /\
      match r with
      | ROk p => p = ps s /\ rest s = []
      | RErr c ln =>
          (exists taken l r' p1,
              rest s = taken ++ l :: r' /\ Model.fold_recog L PS recog lineno (ps s) taken = inl p1 /\
              recog p1 l = inr c /\ ln = lineno p1 /\ llen l <= MAX_CAP)
          \/ (c = 3 /\ ln = 0) \/ (c = 4 /\ ln = lineno (ps s))
      end.

  Lemma drive_shape : forall lines t0 sch r s,
    drive lines t0 sch = Ret (r, s) -> outcome_shape lines r s.
  Proof.
    intros lines t0 sch r s H. destruct (drive_fin lines t0 sch) as [r' [s' [H1 [W F]]]].
    rewrite H in H1. inversion H1; subst r' s'. clear H1.
    exists (rev (log s)). pose proof W as W0. destruct W.
    split; [apply Forall_rev; exact wf_decs0|]. split; [exact wf_lines0|]. split; [exact wf_replay0|].
    destruct r as [p|c ln].
    - destruct F as [F1 [F2 [F3 _]]]. split; [exact F1|]. exact (proj1 (fin_rest_nil lines t0 s W0 F2 F3)).
    - destruct F as [[_ F]|[_ [_ [_ [F|F]]]]].
      + left. exact F.
      + right. left. destruct F as [? [? ?]]. split; assumption.
      + right. right. destruct F as [? [? ?]]. split; assumption.
  Qed.

  Lemma drive_callback : forall lines t0 sch r s,
    drive lines t0 sch = Ret (r, s) ->
    cbsum s = total s /\ 0 <= total s <= input_len lines t0 /\
    (forall p, r = ROk p -> cbsum s = input_len lines t0).
  Proof.
    intros lines t0 sch r s H. destruct (drive_fin lines t0 sch) as [r' [s' [H1 [W F]]]].
    rewrite H in H1. inversion H1; subst r' s'. clear H1.
    pose proof W as W0. destruct W.
    pose proof (size_nonneg L llen PS init_ps recog bump lineno llen_pos (map snd (rev (log s)))).
    destruct wf_geom0 as [? [? ?]]. destruct wf_off0 as [? ?]. unfold avail in *.
    split; [exact wf_cb0|]. split; [lia|].
    intros p Hp. subst r. destruct F as [_ [F2 [F3 _]]].
    rewrite wf_cb0. exact (proj2 (fin_rest_nil lines t0 s W0 F2 F3)).
  Qed.
  Lemma total_thm : forall (lines : list L) (tail : Z) (sch : list Z),
    exists r s, drive lines tail sch = Ret (r, s).
  Proof.
    intros lines tail sch. destruct (drive_fin lines tail sch) as [r [s [H _]]]. exists r, s. exact H.
  Qed.

  Lemma bounded_window_thm : forall (lines : list L) (tail : Z) (sch : list Z) (p : positive) (s : st L PS),
    iter_pos p (init_st lines tail sch) = Next s ->
    In (b_cap (buf s)) [10240; 20480; 40960; 81920; 163840] /\
    0 <= avail (buf s) <= b_cap (buf s) /\ b_cap (buf s) <= MAX_CAP /\ 0 <= maxsp s <= MAX_CAP.
  Proof.
    intros lines tail sch p s H. pose proof (reach_wf' lines tail sch p s H) as W.
    destruct (wfm_window lines tail s (wf_m _ _ _ _ _ _ _ _ _ _ _ W)) as [C R].
    split; [|exact R]. unfold caps in C. cbn [In]. intuition.
  Qed.

  Lemma bounded_window_final_thm : forall (lines : list L) (tail : Z) (sch : list Z) r s,
    drive lines tail sch = Ret (r, s) ->
    In (b_cap (buf s)) [10240; 20480; 40960; 81920; 163840] /\ 0 <= maxsp s <= MAX_CAP.
  Proof.
    intros lines tail sch r s H. destruct (drive_fin lines tail sch) as [r' [s' [H1 [W _]]]].
    rewrite H in H1. inversion H1; subst.
    destruct (wfm_window lines tail s' W) as [C [_ [_ R]]].
    split; [|exact R]. unfold caps in C. cbn [In]. intuition.
  Qed.
  Lemma replay_all_fed : forall (ds : list (bool * L)) p,
    Forall (fun d => fst d = false) ds ->
    Model.replay L PS recog bump lineno p ds = Model.fold_recog L PS recog lineno p (map snd ds).
  Proof.
    induction ds as [|[d l] t IH]; intros p H; cbn [map snd Model.replay Model.fold_recog]; [reflexivity|].
    inversion H as [|x y Hd Ht]; subst. cbn [fst] in Hd. subst d.
    destruct (recog p l); [apply IH; exact Ht|reflexivity].
  Qed.

  (* no complete line longer than 80 KiB: an Ok result is the fold of the recogniser over all lines *)
  Lemma ok_is_fold : forall lines t0 sch p s,
    Forall (fun l => llen l <= HALF_CAP) lines ->
    drive lines t0 sch = Ret (ROk p, s) ->
    Model.fold_recog L PS recog lineno init_ps lines = inl p.
  Proof.
    intros lines t0 sch p s Hs H.
    destruct (drive_shape lines t0 sch (ROk p) s H) as [ds [Hd [Hl [Hr [Hp Hn]]]]].
    rewrite Hn, app_nil_r in Hl. subst p.
    rewrite <- Hr, Hl. symmetry. apply replay_all_fed.
    rewrite Hl in Hs. clear - Hd Hs. induction ds as [|[d l] t IH]; [constructor|].
    inversion Hd as [|x y Hd1 Hd2]; subst. cbn [map snd] in Hs. inversion Hs as [|x y Hs1 Hs2]; subst.
    constructor; [|apply IH; assumption].
    unfold dec_ok in Hd1. cbn [fst snd] in *. destruct d; [lia|reflexivity].
  Qed.
End Top.
