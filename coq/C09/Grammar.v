(* C09/Grammar.v — what SymbolParser::parse_more (breakpad-symbols/src/sym_file/parser.rs) does
   with ONE line, byte for byte: the nom line parsers (tag / space1 / cut / alt / opt /
   separated_list1), hex_str and decimal_u32 with their digit limits, `\r*\n`, UTF-8
   validity of the string fields, the sub-line logic of FUNC and STACK CFI INIT items and
   the "MODULE must be the first line" rule.  Definitions only: this file is extracted.

   A line is given WITHOUT its final '\n' and run-length encoded (byte, count), so that a
   1 MiB line of one repeated byte is a single pair.  The parsers only ever look at the next
   byte ([uncons]) or skip a class of bytes ([skip_while], [span_not]).

   Every parser returns the parsed record; SymbolParser's state holds the records in file
   order and [finish] (finish_item + SymbolParser::finish) builds the canonical symbol table:
   line tables and FUNC / STACK CFI / STACK WIN tables with C08's range-map builder, the
   publics / inlinee / CFI-delta sorts, the zero-size filters, insert_win_stack_info.
   Record types for line records and inlinees are C11's. Strings are kept run-length encoded
   in normal form ([rle_norm]) so that == and the derived Ord on String are [rle_eqb]/[rle_lt]. *)
From RM Require Import Base.Word C08.Model C11.Model.
Open Scope Z_scope.

Definition rle := list (Z * Z).

Fixpoint rle_len (s : rle) : Z :=
  match s with [] => 0 | (_, c) :: t => Z.max 1 c + rle_len t end.

Definition uncons (s : rle) : option (Z * rle) :=
  match s with
  | [] => None
  | (b, c) :: t => if c <=? 1 then Some (b, t) else Some (b, (b, c - 1) :: t)
  end.

Fixpoint skip_while (p : Z -> bool) (s : rle) : rle :=
  match s with
  | (b, c) :: t => if p b then skip_while p t else s
  | [] => []
  end.

Fixpoint span_acc (stop : Z -> bool) (s : rle) (acc : rle) : rle * rle :=
  match s with
  | (b, c) :: t => if stop b then (rev_append acc [], s) else span_acc stop t ((b, c) :: acc)
  | [] => (rev_append acc [], [])
  end.
Definition span_not (stop : Z -> bool) (s : rle) : rle * rle := span_acc stop s [].

Definition is_sp (b : Z) : bool := (b =? 32) || (b =? 9).      (* nom space1: ' ' and '\t' *)
Definition is_cr (b : Z) : bool := b =? 13.

Definition space1 (s : rle) : option rle :=
  match s with
  | (b, _) :: _ => if is_sp b then Some (skip_while is_sp s) else None
  | [] => None
  end.

Fixpoint tag (bs : list Z) (s : rle) : option rle :=
  match bs with
  | [] => Some s
  | x :: bs' => match uncons s with
                | Some (b, s') => if b =? x then tag bs' s' else None
                | None => None
                end
  end.

Definition T_MODULE : list Z := [77; 79; 68; 85; 76; 69].
Definition T_INFO_URL : list Z := [73; 78; 70; 79; 32; 85; 82; 76].
Definition T_INFO : list Z := [73; 78; 70; 79].
Definition T_FILE : list Z := [70; 73; 76; 69].
Definition T_INLINE_ORIGIN : list Z := [73; 78; 76; 73; 78; 69; 95; 79; 82; 73; 71; 73; 78].
Definition T_PUBLIC : list Z := [80; 85; 66; 76; 73; 67].
Definition T_FUNC : list Z := [70; 85; 78; 67].
Definition T_INLINE : list Z := [73; 78; 76; 73; 78; 69].
Definition T_STACK_WIN : list Z := [83; 84; 65; 67; 75; 32; 87; 73; 78].
Definition T_STACK_CFI : list Z := [83; 84; 65; 67; 75; 32; 67; 70; 73].
Definition T_STACK_CFI_INIT : list Z := [83; 84; 65; 67; 75; 32; 67; 70; 73; 32; 73; 78; 73; 84].
Definition T_INLINE_ORIGIN_SP : list Z := [73; 78; 76; 73; 78; 69; 95; 79; 82; 73; 71; 73; 78; 32].
Definition T_INLINE_SP : list Z := [73; 78; 76; 73; 78; 69; 32].

(* ------------------------------------------------------------------ numbers *)
Definition hexval (b : Z) : option Z :=
  if (48 <=? b) && (b <=? 57) then Some (b - 48)
  else if (97 <=? b) && (b <=? 102) then Some (b - 87)
  else if (65 <=? b) && (b <=? 70) then Some (b - 55)
  else None.
Definition decval (b : Z) : option Z :=
  if (48 <=? b) && (b <=? 57) then Some (b - 48) else None.
Definition is_hex (b : Z) : bool := match hexval b with Some _ => true | None => false end.
Definition is_dec (b : Z) : bool := match decval b with Some _ => true | None => false end.

(* `for v in input.iter().take(max_len)`: at most [n] digits, stops at the first non-digit *)
Fixpoint digits (val : Z -> option Z) (base : Z) (n : nat) (s : rle) (acc k : Z) : Z * Z * rle :=
  match n with
  | O => (acc, k, s)
  | S n' => match uncons s with
            | Some (b, s') => match val b with
                              | Some d => digits val base n' s' (acc * base + d) (k + 1)
                              | None => (acc, k, s)
                              end
            | None => (acc, k, s)
            end
  end.

Definition hex_str (max_len : nat) (s : rle) : option (Z * rle) :=
  let '(v, k, s') := digits hexval 16 max_len s 0 0 in
  if k =? 0 then None else Some (v, s').

Definition decimal_u32 (s : rle) : option (Z * rle) :=
  let '(v, k, s') := digits decval 10 10%nat s 0 0 in
  if k =? 0 then None else if U32MAX <? v then None else Some (v, s').

Definition osp {A} (o : option (A * rle)) : option (A * rle) :=     (* terminated(_, space1) *)
  match o with
  | Some (v, s1) => match space1 s1 with Some s2 => Some (v, s2) | None => None end
  | None => None
  end.
Definition hex64sp (s : rle) := osp (hex_str 16%nat s).
Definition hex32sp (s : rle) := osp (hex_str 8%nat s).
Definition decsp (s : rle) := osp (decimal_u32 s).

(* ------------------------------------------------------------------ str::from_utf8 *)
(* state: continuation bytes still needed, and the range allowed for the next one *)
Definition u8_step (st : Z * Z * Z) (b : Z) : option (Z * Z * Z) :=
  let '(need, lo, hi) := st in
  if need =? 0 then
    if b <? 128 then Some (0, 128, 191)
    else if (194 <=? b) && (b <=? 223) then Some (1, 128, 191)
    else if b =? 224 then Some (2, 160, 191)
    else if b =? 237 then Some (2, 128, 159)
    else if (225 <=? b) && (b <=? 239) then Some (2, 128, 191)
    else if b =? 240 then Some (3, 144, 191)
    else if (241 <=? b) && (b <=? 243) then Some (3, 128, 191)
    else if b =? 244 then Some (3, 128, 143)
    else None
  else if (lo <=? b) && (b <=? hi) then Some (need - 1, 128, 191) else None.

Fixpoint u8_rep (n : nat) (st : Z * Z * Z) (b : Z) : option (Z * Z * Z) :=
  match n with
  | O => Some st
  | S n' => match u8_step st b with Some st' => u8_rep n' st' b | None => None end
  end.

(* five equal non-ASCII bytes in a row are never valid (a lead byte cannot follow itself,
   at most three continuation bytes follow a lead), so long runs need no iteration *)
Fixpoint utf8_from (st : Z * Z * Z) (s : rle) : bool :=
  match s with
  | [] => let '(need, _, _) := st in need =? 0
  | (b, c) :: t =>
      if b <? 128 then (let '(need, _, _) := st in if need =? 0 then utf8_from st t else false)
      else if 4 <? c then false
      else match u8_rep (Z.to_nat (Z.max 1 c)) st b with
           | Some st' => utf8_from st' t
           | None => false
           end
  end.
Definition utf8_ok (s : rle) : bool := utf8_from (0, 128, 191) s.

(* ------------------------------------------------------------------ strings (String ==, Ord) *)
(* normal form: positive counts, adjacent runs have different bytes *)
Fixpoint rle_norm_acc (s : rle) (acc : rle) : rle :=
  match s with
  | [] => rev_append acc []
  | (b, c) :: t =>
      let c := Z.max 1 c in
      match acc with
      | (b0, c0) :: acc' => if b0 =? b then rle_norm_acc t ((b0, c0 + c) :: acc')
                            else rle_norm_acc t ((b, c) :: acc)
      | [] => rle_norm_acc t [(b, c)]
      end
  end.
Definition rle_norm (s : rle) : rle := rle_norm_acc s [].

Fixpoint rle_eqb (a b : rle) : bool :=
  match a, b with
  | [], [] => true
  | (x, c) :: a', (y, d) :: b' => (x =? y) && (c =? d) && rle_eqb a' b'
  | _, _ => false
  end.

(* byte-wise lexicographic comparison of two strings in normal form *)
Fixpoint rle_cmp (fuel : nat) (a b : rle) : comparison :=
  match fuel with
  | O => Eq
  | S f =>
      match a, b with
      | [], [] => Eq
      | [], _ :: _ => Lt
      | _ :: _, [] => Gt
      | (x, c) :: a', (y, d) :: b' =>
          if x <? y then Lt else if y <? x then Gt
          else if c =? d then rle_cmp f a' b'
          else if c <? d then rle_cmp f a' ((y, d - c) :: b')
          else rle_cmp f ((x, c - d) :: a') b'
      end
  end.
Definition rle_compare (a b : rle) : comparison := rle_cmp (S (length a + length b)) a b.

(* ------------------------------------------------------------------ line endings, strings *)
(* my_eol = `\r*` then '\n'; the '\n' is the (implicit) end of the line *)
Definition eol (s : rle) : bool :=
  match skip_while is_cr s with [] => true | _ => false end.

(* terminated(map_res(not_my_eol, str::from_utf8), my_eol) *)
Definition name_eol (s : rle) : option rle :=
  let (name, r) := span_not is_cr s in
  if utf8_ok name && eol r then Some (rle_norm name) else None.
(* terminated(not_my_eol, my_eol) *)
Definition raw_eol (s : rle) : bool :=
  let (_, r) := span_not is_cr s in eol r.

(* nom results: Error (alt tries the next parser) / Failure (after `cut`) / Ok *)
Inductive pres (A : Type) : Type := PErr | PFail | POk (a : A).
Arguments PErr {A}.
Arguments PFail {A}.
Arguments POk {A} a.

Definition cutp {A} (o : option A) : pres A :=
  match o with Some a => POk a | None => PFail end.
Definition guard {A} (b : bool) (a : A) : option A := if b then Some a else None.

(* terminated(tag(t), space1) *)
Definition hdr (t : list Z) (s : rle) : option rle :=
  match tag t s with Some s1 => space1 s1 | None => None end.

Notation "'let?' x := e 'in' k" := (match e with Some x => k | None => None end)
  (at level 200, x pattern, e at level 100, k at level 200).

(* ------------------------------------------------------------------ records *)
Record pub_sym := mk_pubs { pb_addr : Z; pb_name : rle; pb_psize : Z }.
(* Function while its sub-lines are collected (lines / inlinees latest first) *)
Record func_raw := mk_fr { fr_addr : Z; fr_size : Z; fr_psize : Z; fr_name : rle;
                           fr_lines : list line_rec; fr_inls : list inl_rec }.
Record cfi_rule := mk_rule { cr_addr : Z; cr_rules : rle }.
Record cfi_raw := mk_cfi { ci_init : cfi_rule; ci_size : Z; ci_add : list cfi_rule }.   (* add_rules latest first *)
Inductive win_thing := ProgramString (s : rle) | AllocatesBasePointer (b : bool).
Record win_info := mk_wi { wi_addr : Z; wi_size : Z; wi_prolog : Z; wi_epilog : Z; wi_params : Z;
                           wi_saved : Z; wi_locals : Z; wi_maxstack : Z; wi_thing : win_thing }.
Inductive win_frame_type := FrameData (i : win_info) | Fpo (i : win_info) | Unhandled.

Inductive item :=
| IModule (id file : rle) | IUrl (u : rle) | IInfo | IFile (id : Z) (name : rle)
| IOrigin (id : Z) (name : rle) | IPublic (p : pub_sym) | IFunc (f : func_raw)
| IWin (w : win_frame_type) | ICfiInit (c : cfi_raw).

(* opt(terminated(tag("m"), space1)) *)
Definition opt_m (s : rle) : rle :=
  match tag [109] s with
  | Some s1 => match space1 s1 with Some s2 => s2 | None => s end
  | None => s
  end.

Definition p_info_url (s : rle) : pres item :=
  match hdr T_INFO_URL s with
  | None => PErr
  | Some s1 => cutp (let? u := name_eol s1 in Some (IUrl u))
  end.

Definition p_info (s : rle) : pres item :=
  match hdr T_INFO s with
  | None => PErr
  | Some s1 => cutp (guard (raw_eol s1) IInfo)
  end.

Definition id_name (s : rle) : option (Z * rle) :=
  let? (id, s1) := decsp s in let? n := name_eol s1 in Some (id, n).

Definition p_file (s : rle) : pres item :=
  match hdr T_FILE s with
  | None => PErr
  | Some s1 => cutp (let? (id, n) := id_name s1 in Some (IFile id n))
  end.

Definition p_inline_origin (s : rle) : pres item :=
  match hdr T_INLINE_ORIGIN s with
  | None => PErr
  | Some s1 => cutp (let? (id, n) := id_name s1 in Some (IOrigin id n))
  end.

Definition p_public (s : rle) : pres item :=
  match hdr T_PUBLIC s with
  | None => PErr
  | Some s1 =>
      cutp (let s2 := opt_m s1 in
            let? (a, s3) := hex64sp s2 in
            let? (ps, s4) := hex32sp s3 in
            let? n := name_eol s4 in
            Some (IPublic (mk_pubs a n ps)))
  end.

Definition p_func (s : rle) : pres item :=
  match hdr T_FUNC s with
  | None => PErr
  | Some s1 =>
      cutp (let s2 := opt_m s1 in
            let? (a, s3) := hex64sp s2 in
            let? (sz, s4) := hex32sp s3 in
            let? (ps, s5) := hex32sp s4 in
            let? n := name_eol s5 in
            Some (IFunc (mk_fr a sz ps n [] [])))
  end.

(* terminated(single(pred), space1) *)
Definition single_sp (pred : Z -> bool) (s : rle) : option (Z * rle) :=
  match uncons s with
  | Some (b, s1) => if pred b then (let? s2 := space1 s1 in Some (b, s2)) else None
  | None => None
  end.

(* the tail of stack_win_line, on the parsed fields *)
Definition win_of_fields (ty : Z) (a sz pro epi par sav loc mx : Z) (hp : Z) (rest : rle) : win_frame_type :=
  let really := ty =? 52 in            (* ty == b'4' *)
  let has := hp =? 49 in               (* has_program_string: digit == b'1' *)
  if negb (Bool.eqb really has) then Unhandled
  else
    let thing := if really then ProgramString rest
                 else AllocatesBasePointer (rle_eqb rest [(49, 1)]) in
    let i := mk_wi a sz pro epi par sav loc mx thing in
    if ty =? 52 then FrameData i else if ty =? 48 then Fpo i else Unhandled.

Definition p_stack_win (s : rle) : pres item :=
  match hdr T_STACK_WIN s with
  | None => PErr
  | Some s0 =>
      cutp (let? (ty, s1) := single_sp is_hex s0 in
            let? (a, s2) := hex64sp s1 in
            let? (sz, s3) := hex32sp s2 in
            let? (pro, s4) := hex32sp s3 in
            let? (epi, s5) := hex32sp s4 in
            let? (par, s6) := hex32sp s5 in
            let? (sav, s7) := hex32sp s6 in
            let? (loc, s8) := hex32sp s7 in
            let? (mx, s9) := hex32sp s8 in
            let? (hp, s10) := single_sp is_dec s9 in
            let? rest := name_eol s10 in
            Some (IWin (win_of_fields ty a sz pro epi par sav loc mx hp rest)))
  end.

Definition p_stack_cfi_init (s : rle) : pres item :=
  match hdr T_STACK_CFI_INIT s with
  | None => PErr
  | Some s1 =>
      cutp (let? (a, s2) := hex64sp s1 in
            let? (sz, s3) := hex32sp s2 in
            let? r := name_eol s3 in
            Some (ICfiInit (mk_cfi (mk_rule a r) sz [])))
  end.

(* non_space (stops at ' ', '\r', '\n') + from_utf8, then space1 *)
Definition nonspace_sp (s : rle) : option rle :=
  let (f, r) := span_not (fun b => (b =? 32) || (b =? 13) || (b =? 10)) s in
  if utf8_ok f then space1 r else None.

(* hex_digit1 + from_utf8 (always valid), then space1 *)
Definition hexdigit1_sp (s : rle) : option (rle * rle) :=
  match s with
  | (b, _) :: _ =>
      if is_hex b then
        let (d, r) := span_not (fun b => negb (is_hex b)) s in
        let? r' := space1 r in Some (rle_norm d, r')
      else None
  | [] => None
  end.

Definition p_module (s : rle) : pres item :=
  match hdr T_MODULE s with
  | None => PErr
  | Some s1 =>
      cutp (let? s2 := nonspace_sp s1 in
            let? s3 := nonspace_sp s2 in
            let? (id, s4) := hexdigit1_sp s3 in
            let? f := name_eol s4 in
            Some (IModule id f))
  end.

(* alt((...)): first Ok or first Failure wins *)
Fixpoint alt (ps : list (rle -> pres item)) (s : rle) : option item :=
  match ps with
  | [] => None
  | p :: t => match p s with
              | POk i => Some i
              | PFail => None
              | PErr => alt t s
              end
  end.

Definition line_top (s : rle) : option item :=
  alt [p_info_url; p_info; p_file; p_inline_origin; p_public; p_func; p_stack_win;
       p_stack_cfi_init; p_module] s.

(* ------------------------------------------------------------------ sub-lines *)
(* STACK CFI <addr> <rules> while a STACK CFI INIT item is open *)
Definition sub_cfi (s : rle) : option cfi_rule :=
  let? s1 := hdr T_STACK_CFI s in
  let? (a, s2) := hex64sp s1 in
  let? r := name_eol s2 in
  Some (mk_rule a r).

(* <address> <size> <line> <file> *)
Definition sub_line_data (s : rle) : option line_rec :=
  let? (a, s1) := hex64sp s in
  let? (sz, s2) := hex32sp s1 in
  let? (ln, s3) := decsp s2 in
  let? (fl, s4) := decimal_u32 s3 in
  guard (eol s4) (mk_line a sz fl ln).

Definition addr_range (s : rle) : option (Z * Z * rle) :=
  let? (a, s1) := hex64sp s in
  let? (sz, s2) := hex_str 8%nat s1 in
  Some (a, sz, s2).

(* separated_list1(space1, inline_address_range) after the first element: the ranges (latest
   first) and the input in front of the separator that was not followed by an element *)
Fixpoint more_ranges (fuel : nat) (s : rle) (acc : list (Z * Z)) : list (Z * Z) * rle :=
  match fuel with
  | O => (acc, s)
  | S f => match space1 s with
           | None => (acc, s)
           | Some s1 => match addr_range s1 with
                        | None => (acc, s)
                        | Some (a, sz, s2) => more_ranges f s2 ((a, sz) :: acc)
                        end
           end
  end.

(* INLINE <depth> <call_line> <call_file> <origin> [<addr> <size>]+ : the Inlinees in line order *)
Definition sub_inline (s : rle) : option (list inl_rec) :=
  let? s0 := hdr T_INLINE s in
  let? (depth, s1) := decsp s0 in
  let? (cline, s2) := decsp s1 in
  let? (cfile, s3) := decsp s2 in
  let? (origin, s4) := decsp s3 in
  let? (a, sz, s5) := addr_range s4 in
  let (racc, s6) := more_ranges (S (length s5)) s5 [(a, sz)] in
  guard (eol s6) (map (fun r => mk_inl depth (fst r) (snd r) cfile cline origin) (rev racc)).

Inductive subline := SOrigin (id : Z) (name : rle) | SInline (l : list inl_rec) | SLine (l : line_rec).

(* parse_func_subline *)
Definition sub_func (s : rle) : option subline :=
  match tag T_INLINE_ORIGIN_SP s with
  | Some _ => match p_inline_origin s with
              | POk (IOrigin id n) => Some (SOrigin id n)
              | _ => None
              end
  | None =>
      match tag T_INLINE_SP s with
      | Some _ => let? l := sub_inline s in Some (SInline l)
      | None => let? l := sub_line_data s in Some (SLine l)
      end
  end.

(* ------------------------------------------------------------------ SymbolParser *)
Inductive cur_item := CNone | CFunc (f : func_raw) | CCfi (c : cfi_raw).

(* every list is latest first *)
Record pst := mkp {
  p_lines : Z;                          (* lines *)
  p_cur : cur_item;                     (* cur_item *)
  p_modinfo : rle * rle;                 (* module_id, debug_file *)
  p_files : list (Z * rle);             (* files: insertion log *)
  p_origins : list (Z * rle);           (* inline_origins: insertion log *)
  p_publics : list pub_sym;
  p_funcs : list func_raw;              (* items handed to finish_item *)
  p_cfis : list cfi_raw;
  p_win_fd : list win_info;             (* STACK WIN frame data records handed to insert_win_stack_info *)
  p_win_fpo : list win_info;
  p_url : option rle
}.

Definition init_pst : pst := mkp 0 CNone ([], []) [] [] [] [] [] [] [] None.

Definition set_lines_cur (p : pst) (n : Z) (c : cur_item) : pst :=
  mkp n c (p_modinfo p) (p_files p) (p_origins p) (p_publics p) (p_funcs p) (p_cfis p)
      (p_win_fd p) (p_win_fpo p) (p_url p).

Definition bump_pst (p : pst) : pst := set_lines_cur p (p_lines p + 1) (p_cur p).
Definition lineno_pst (p : pst) : Z := p_lines p.

(* finish_item(cur_item.take()): the open item joins the finished ones (what finish_item computes
   from it depends on the item only: it is applied in [finish]) *)
Definition close_cur (p : pst) : pst :=
  match p_cur p with
  | CNone => p
  | CFunc f => mkp (p_lines p) CNone (p_modinfo p) (p_files p) (p_origins p) (p_publics p)
                   (f :: p_funcs p) (p_cfis p) (p_win_fd p) (p_win_fpo p) (p_url p)
  | CCfi c => mkp (p_lines p) CNone (p_modinfo p) (p_files p) (p_origins p) (p_publics p)
                  (p_funcs p) (c :: p_cfis p) (p_win_fd p) (p_win_fpo p) (p_url p)
  end.

(* the top-level part of the loop body of parse_more; cur_item is None *)
Definition top (p : pst) (s : rle) : pst + Z :=
  let n := p_lines p + 1 in
  if eol s then inl (set_lines_cur p n CNone)
  else match line_top s with
       | None => inr 1
       | Some (IModule id f) =>
           if p_lines p =? 0 then
             inl (mkp n CNone (id, f) (p_files p) (p_origins p) (p_publics p) (p_funcs p) (p_cfis p)
                      (p_win_fd p) (p_win_fpo p) (p_url p))
           else inr 2
       | Some (IUrl u) =>
           inl (mkp n CNone (p_modinfo p) (p_files p) (p_origins p) (p_publics p) (p_funcs p) (p_cfis p)
                    (p_win_fd p) (p_win_fpo p) (Some u))
       | Some IInfo => inl (set_lines_cur p n CNone)
       | Some (IFile id nm) =>
           inl (mkp n CNone (p_modinfo p) ((id, nm) :: p_files p) (p_origins p) (p_publics p) (p_funcs p)
                    (p_cfis p) (p_win_fd p) (p_win_fpo p) (p_url p))
       | Some (IOrigin id nm) =>
           inl (mkp n CNone (p_modinfo p) (p_files p) ((id, nm) :: p_origins p) (p_publics p) (p_funcs p)
                    (p_cfis p) (p_win_fd p) (p_win_fpo p) (p_url p))
       | Some (IPublic pb) =>
           inl (mkp n CNone (p_modinfo p) (p_files p) (p_origins p) (pb :: p_publics p) (p_funcs p)
                    (p_cfis p) (p_win_fd p) (p_win_fpo p) (p_url p))
       | Some (IFunc f) => inl (set_lines_cur p n (CFunc f))
       | Some (IWin (FrameData i)) =>
           inl (mkp n CNone (p_modinfo p) (p_files p) (p_origins p) (p_publics p) (p_funcs p) (p_cfis p)
                    (i :: p_win_fd p) (p_win_fpo p) (p_url p))
       | Some (IWin (Fpo i)) =>
           inl (mkp n CNone (p_modinfo p) (p_files p) (p_origins p) (p_publics p) (p_funcs p) (p_cfis p)
                    (p_win_fd p) (i :: p_win_fpo p) (p_url p))
       | Some (IWin Unhandled) => inl (set_lines_cur p n CNone)
       | Some (ICfiInit c) => inl (set_lines_cur p n (CCfi c))
       end.

(* one line of parse_more *)
Definition recog_pst (p : pst) (s : rle) : pst + Z :=
  match p_cur p with
  | CFunc f =>
      match sub_func s with
      | Some (SOrigin id nm) =>
          inl (mkp (p_lines p + 1) (CFunc f) (p_modinfo p) (p_files p) ((id, nm) :: p_origins p) (p_publics p)
                   (p_funcs p) (p_cfis p) (p_win_fd p) (p_win_fpo p) (p_url p))
      | Some (SInline l) =>
          inl (set_lines_cur p (p_lines p + 1)
                 (CFunc (mk_fr (fr_addr f) (fr_size f) (fr_psize f) (fr_name f) (fr_lines f)
                               (rev_append l (fr_inls f)))))
      | Some (SLine l) =>
          inl (set_lines_cur p (p_lines p + 1)
                 (CFunc (mk_fr (fr_addr f) (fr_size f) (fr_psize f) (fr_name f) (l :: fr_lines f) (fr_inls f))))
      | None => top (close_cur p) s     (* finish_item, then the top-level parser sees the same line *)
      end
  | CCfi c =>
      match sub_cfi s with
      | Some r => inl (set_lines_cur p (p_lines p + 1) (CCfi (mk_cfi (ci_init c) (ci_size c) (r :: ci_add c))))
      | None => top (close_cur p) s
      end
  | CNone => top p s
  end.

Definition cllen (l : rle) : Z := rle_len l + 1.

(* ------------------------------------------------------------------ finish_item / finish *)
Definition str_lt (a b : rle) : bool := match rle_compare a b with Lt => true | _ => false end.
Definition cmp_lt (c : comparison) (k : bool) : bool := match c with Lt => true | Eq => k | Gt => false end.
(* derived Ord: PublicSymbol (address, name, parameter_size), CfiRules (address, rules) *)
Definition pub_lt (a b : pub_sym) : bool :=
  cmp_lt (pb_addr a ?= pb_addr b) (cmp_lt (rle_compare (pb_name a) (pb_name b)) (pb_psize a <? pb_psize b)).
Definition rule_lt (a b : cfi_rule) : bool :=
  cmp_lt (cr_addr a ?= cr_addr b) (str_lt (cr_rules a) (cr_rules b)).

(* finished records *)
Record sfunc := mk_sf { sf_addr : Z; sf_size : Z; sf_psize : Z; sf_name : rle;
                        sf_lines : list (range * line_rec); sf_inls : list inl_rec }.
Record scfi := mk_sc { sc_init : cfi_rule; sc_size : Z; sc_add : list cfi_rule }.

Definition rule_eqb (a b : cfi_rule) : bool := (cr_addr a =? cr_addr b) && rle_eqb (cr_rules a) (cr_rules b).
Definition scfi_eqb (a b : scfi) : bool :=
  rule_eqb (sc_init a) (sc_init b) && (sc_size a =? sc_size b) && list_eqb rule_eqb (sc_add a) (sc_add b).
Definition sfunc_eqb (a b : sfunc) : bool :=
  (sf_addr a =? sf_addr b) && (sf_size a =? sf_size b) && (sf_psize a =? sf_psize b) &&
  rle_eqb (sf_name a) (sf_name b) && list_eqb rline_eqb (sf_lines a) (sf_lines b) &&
  list_eqb inl_eqb (sf_inls a) (sf_inls b).
Definition thing_eqb (a b : win_thing) : bool :=
  match a, b with
  | ProgramString x, ProgramString y => rle_eqb x y
  | AllocatesBasePointer x, AllocatesBasePointer y => Bool.eqb x y
  | _, _ => false
  end.
Definition wi_eqb (a b : win_info) : bool :=
  (wi_addr a =? wi_addr b) && (wi_size a =? wi_size b) && (wi_prolog a =? wi_prolog b) &&
  (wi_epilog a =? wi_epilog b) && (wi_params a =? wi_params b) && (wi_saved a =? wi_saved b) &&
  (wi_locals a =? wi_locals b) && (wi_maxstack a =? wi_maxstack b) && thing_eqb (wi_thing a) (wi_thing b).

(* finish_item(Line::Function): line table (zero sizes dropped, trait into_rangemap_safe + RangeMap),
   inlinees.retain(size > 0) + sort(), kept when memory_range() is Some *)
Definition finish_func (fr : func_raw) : outcome (option (range * sfunc)) :=
  do lines <- build line_eqb (line_entries (rev (fr_lines fr)));
  let f := mk_sf (fr_addr fr) (fr_size fr) (fr_psize fr) (fr_name fr) lines
                 (sort_by inl_lt (keep_inls true (rev (fr_inls fr)))) in
  Ret (match mk_range (fr_addr fr) (fr_size fr) with Some r => Some (r, f) | None => None end).

(* finish_item(Line::StackCfi): add_rules.sort() *)
Definition finish_cfi (c : cfi_raw) : option (range * scfi) :=
  match mk_range (cr_addr (ci_init c)) (ci_size c) with
  | Some r => Some (r, mk_sc (ci_init c) (ci_size c) (sort_by rule_lt (rev (ci_add c))))
  | None => None
  end.

Fixpoint finish_funcs (l : list func_raw) : outcome (list (range * sfunc)) :=
  match l with
  | [] => Ret []
  | fr :: t => do x <- finish_func fr; do rest <- finish_funcs t;
               Ret (match x with Some e => e :: rest | None => rest end)
  end.
Fixpoint keep_somes {A} (l : list (option A)) : list A :=
  match l with [] => [] | Some a :: t => a :: keep_somes t | None :: t => keep_somes t end.

(* insert_win_stack_info; [acc] is the vector reversed (head = last_mut()) *)
Definition PANIC_WIN_UNWRAP : Z := 902.
Definition wi_range (w : win_info) : option range := mk_range (wi_addr w) (wi_size w).
Definition wi_set_size (i : win_info) (sz : Z) : win_info :=
  mk_wi (wi_addr i) sz (wi_prolog i) (wi_epilog i) (wi_params i) (wi_saved i) (wi_locals i) (wi_maxstack i) (wi_thing i).
Definition win_insert (acc : list (range * win_info)) (w : win_info) : outcome (list (range * win_info)) :=
  match wi_range w with
  | None => Ret acc
  | Some mr =>
      match acc with
      | [] => Ret [(mr, w)]
      | (lr, lw) :: acc' =>
          if intersects lr mr then
            if wi_addr w >? wi_addr lw then
              let lw' := wi_set_size lw (wrap32 (wi_addr w - wi_addr lw)) in
              match wi_range lw' with
              | Some lr' => Ret ((mr, w) :: (lr', lw') :: acc')
              | None => Panic PANIC_WIN_UNWRAP
              end
            else if negb (range_eqb lr mr) then Ret acc
            else Ret ((mr, w) :: acc)
          else Ret ((mr, w) :: acc)
      end
  end.
Fixpoint win_collect (acc : list (range * win_info)) (ws : list win_info) : outcome (list (range * win_info)) :=
  match ws with
  | [] => Ret (rev acc)
  | w :: t => do acc' <- win_insert acc w; win_collect acc' t
  end.

(* HashMap<u32, String> rendered canonically: ascending ids, the last insert of an id wins *)
Fixpoint map_insert (k : Z) (v : rle) (m : list (Z * rle)) : list (Z * rle) :=
  match m with
  | [] => [(k, v)]
  | (k0, v0) :: t => if k <? k0 then (k, v) :: m else if k =? k0 then (k, v) :: t else (k0, v0) :: map_insert k v t
  end.
Definition map_of_log (log : list (Z * rle)) : list (Z * rle) :=      (* log: latest first *)
  fold_right (fun kv m => map_insert (fst kv) (snd kv) m) [] log.

Record table := mk_table {
  t_module_id : rle; t_debug_file : rle;
  t_files : list (Z * rle); t_origins : list (Z * rle);
  t_publics : list pub_sym;
  t_funcs : list (range * sfunc);
  t_cfi : list (range * scfi);
  t_win_fd : list (range * win_info); t_win_fpo : list (range * win_info);
  t_url : option rle
}.

(* SymbolParser::finish *)
Definition finish (p0 : pst) : outcome table :=
  let p := close_cur p0 in
  do fl <- finish_funcs (rev (p_funcs p));
  do funcs <- build_p sfunc_eqb fl;
  do cfis <- build_p scfi_eqb (keep_somes (map finish_cfi (rev (p_cfis p))));
  do wfd <- win_collect [] (rev (p_win_fd p));
  do tfd <- build_p wi_eqb wfd;
  do wfpo <- win_collect [] (rev (p_win_fpo p));
  do tfpo <- build_p wi_eqb wfpo;
  Ret (mk_table (fst (p_modinfo p)) (snd (p_modinfo p)) (map_of_log (p_files p)) (map_of_log (p_origins p))
                (sort_by pub_lt (rev (p_publics p))) funcs cfis tfd tfpo (p_url p)).

(* ------------------------------------------------------------------ bytes <-> lines *)
(* every byte string is (uniquely) a list of '\n'-terminated lines plus a rest without '\n' *)
Fixpoint split_bytes (bs : list Z) (cur : list Z) : list (list Z) * list Z :=
  match bs with
  | [] => ([], rev cur)
  | b :: t => if b =? 10 then let (ls, tl) := split_bytes t [] in (rev cur :: ls, tl)
              else split_bytes t (b :: cur)
  end.
Definition join_bytes (ls : list (list Z)) (tl : list Z) : list Z :=
  flat_map (fun l => l ++ [10]) ls ++ tl.
Definition to_rle (l : list Z) : rle := map (fun b => (b, 1)) l.
