(* C09/Grammar.v — what SymbolParser::parse_more (breakpad-symbols/src/sym_file/parser.rs) does
   with ONE line, byte for byte: the nom line parsers (tag / space1 / cut / alt / opt /
   separated_list1), hex_str and decimal_u32 with their digit limits, `\r*\n`, UTF-8
   validity of the string fields, the sub-line logic of FUNC and STACK CFI INIT items and
   the "MODULE must be the first line" rule.  Definitions only: this file is extracted.

   A line is given WITHOUT its final '\n' and run-length encoded (byte, count), so that a
   1 MiB line of one repeated byte is a single pair.  The parsers only ever look at the next
   byte ([uncons]) or skip a class of bytes ([skip_while], [span_not]).

   The symbol table is summarised by what the harness can observe without re-implementing
   range maps (that is C08): distinct FILE ids, distinct INLINE_ORIGIN ids, number of
   PUBLIC records, presence of INFO URL, and the line counter. *)
From RM Require Import Base.Word.
Open Scope Z_scope.

Definition rle := list (Z * Z).

Fixpoint rle_len (s : rle) : Z :=
  match s with [] => 0 | (_, c) :: t => Z.max 1 c + rle_len t end.

Definition uncons (s : rle) : option (Z * rle) :=
  match s with
  | [] => None
  | (b, c) :: t => if c <=? 1 then Some (b, t) else Some (b, (b, c - 1) :: t)
  end.

Fixpoint skip_while (p : Z -> bool) (s : rle) : rle :=
  match s with
  | (b, c) :: t => if p b then skip_while p t else s
  | [] => []
  end.

Fixpoint span_acc (stop : Z -> bool) (s : rle) (acc : rle) : rle * rle :=
  match s with
  | (b, c) :: t => if stop b then (rev_append acc [], s) else span_acc stop t ((b, c) :: acc)
  | [] => (rev_append acc [], [])
  end.
Definition span_not (stop : Z -> bool) (s : rle) : rle * rle := span_acc stop s [].

Definition is_sp (b : Z) : bool := (b =? 32) || (b =? 9).      (* nom space1: ' ' and '\t' *)
Definition is_cr (b : Z) : bool := b =? 13.

Definition space1 (s : rle) : option rle :=
  match s with
  | (b, _) :: _ => if is_sp b then Some (skip_while is_sp s) else None
  | [] => None
  end.

Fixpoint tag (bs : list Z) (s : rle) : option rle :=
  match bs with
  | [] => Some s
  | x :: bs' => match uncons s with
                | Some (b, s') => if b =? x then tag bs' s' else None
                | None => None
                end
  end.

Definition T_MODULE : list Z := [77; 79; 68; 85; 76; 69].
Definition T_INFO_URL : list Z := [73; 78; 70; 79; 32; 85; 82; 76].
Definition T_INFO : list Z := [73; 78; 70; 79].
Definition T_FILE : list Z := [70; 73; 76; 69].
Definition T_INLINE_ORIGIN : list Z := [73; 78; 76; 73; 78; 69; 95; 79; 82; 73; 71; 73; 78].
Definition T_PUBLIC : list Z := [80; 85; 66; 76; 73; 67].
Definition T_FUNC : list Z := [70; 85; 78; 67].
Definition T_INLINE : list Z := [73; 78; 76; 73; 78; 69].
Definition T_STACK_WIN : list Z := [83; 84; 65; 67; 75; 32; 87; 73; 78].
Definition T_STACK_CFI : list Z := [83; 84; 65; 67; 75; 32; 67; 70; 73].
Definition T_STACK_CFI_INIT : list Z := [83; 84; 65; 67; 75; 32; 67; 70; 73; 32; 73; 78; 73; 84].
Definition T_INLINE_ORIGIN_SP : list Z := [73; 78; 76; 73; 78; 69; 95; 79; 82; 73; 71; 73; 78; 32].
Definition T_INLINE_SP : list Z := [73; 78; 76; 73; 78; 69; 32].

(* ------------------------------------------------------------------ numbers *)
Definition hexval (b : Z) : option Z :=
  if (48 <=? b) && (b <=? 57) then Some (b - 48)
  else if (97 <=? b) && (b <=? 102) then Some (b - 87)
  else if (65 <=? b) && (b <=? 70) then Some (b - 55)
  else None.
Definition decval (b : Z) : option Z :=
  if (48 <=? b) && (b <=? 57) then Some (b - 48) else None.
Definition is_hex (b : Z) : bool := match hexval b with Some _ => true | None => false end.
Definition is_dec (b : Z) : bool := match decval b with Some _ => true | None => false end.

(* `for v in input.iter().take(max_len)`: at most [n] digits, stops at the first non-digit *)
Fixpoint digits (val : Z -> option Z) (base : Z) (n : nat) (s : rle) (acc k : Z) : Z * Z * rle :=
  match n with
  | O => (acc, k, s)
  | S n' => match uncons s with
            | Some (b, s') => match val b with
                              | Some d => digits val base n' s' (acc * base + d) (k + 1)
                              | None => (acc, k, s)
                              end
            | None => (acc, k, s)
            end
  end.

Definition hex_str (max_len : nat) (s : rle) : option (Z * rle) :=
  let '(v, k, s') := digits hexval 16 max_len s 0 0 in
  if k =? 0 then None else Some (v, s').

Definition decimal_u32 (s : rle) : option (Z * rle) :=
  let '(v, k, s') := digits decval 10 10%nat s 0 0 in
  if k =? 0 then None else if U32MAX <? v then None else Some (v, s').

Definition osp {A} (o : option (A * rle)) : option (A * rle) :=     (* terminated(_, space1) *)
  match o with
  | Some (v, s1) => match space1 s1 with Some s2 => Some (v, s2) | None => None end
  | None => None
  end.
Definition hex64sp (s : rle) := osp (hex_str 16%nat s).
Definition hex32sp (s : rle) := osp (hex_str 8%nat s).
Definition decsp (s : rle) := osp (decimal_u32 s).

(* ------------------------------------------------------------------ str::from_utf8 *)
(* state: continuation bytes still needed, and the range allowed for the next one *)
Definition u8_step (st : Z * Z * Z) (b : Z) : option (Z * Z * Z) :=
  let '(need, lo, hi) := st in
  if need =? 0 then
    if b <? 128 then Some (0, 128, 191)
    else if (194 <=? b) && (b <=? 223) then Some (1, 128, 191)
    else if b =? 224 then Some (2, 160, 191)
    else if b =? 237 then Some (2, 128, 159)
    else if (225 <=? b) && (b <=? 239) then Some (2, 128, 191)
    else if b =? 240 then Some (3, 144, 191)
    else if (241 <=? b) && (b <=? 243) then Some (3, 128, 191)
    else if b =? 244 then Some (3, 128, 143)
    else None
  else if (lo <=? b) && (b <=? hi) then Some (need - 1, 128, 191) else None.

Fixpoint u8_rep (n : nat) (st : Z * Z * Z) (b : Z) : option (Z * Z * Z) :=
  match n with
  | O => Some st
  | S n' => match u8_step st b with Some st' => u8_rep n' st' b | None => None end
  end.

(* five equal non-ASCII bytes in a row are never valid (a lead byte cannot follow itself,
   at most three continuation bytes follow a lead), so long runs need no iteration *)
Fixpoint utf8_from (st : Z * Z * Z) (s : rle) : bool :=
  match s with
  | [] => let '(need, _, _) := st in need =? 0
  | (b, c) :: t =>
      if b <? 128 then (let '(need, _, _) := st in if need =? 0 then utf8_from st t else false)
      else if 4 <? c then false
      else match u8_rep (Z.to_nat (Z.max 1 c)) st b with
           | Some st' => utf8_from st' t
           | None => false
           end
  end.
Definition utf8_ok (s : rle) : bool := utf8_from (0, 128, 191) s.

(* ------------------------------------------------------------------ line endings, strings *)
(* my_eol = `\r*` then '\n'; the '\n' is the (implicit) end of the line *)
Definition eol (s : rle) : bool :=
  match skip_while is_cr s with [] => true | _ => false end.

(* terminated(map_res(not_my_eol, str::from_utf8), my_eol) *)
Definition name_eol (s : rle) : bool :=
  let (name, r) := span_not is_cr s in utf8_ok name && eol r.
(* terminated(not_my_eol, my_eol) *)
Definition raw_eol (s : rle) : bool :=
  let (_, r) := span_not is_cr s in eol r.

(* nom results: Error (alt tries the next parser) / Failure (after `cut`) / Ok *)
Inductive pres (A : Type) : Type := PErr | PFail | POk (a : A).
Arguments PErr {A}.
Arguments PFail {A}.
Arguments POk {A} a.

Definition cutp {A} (o : option A) : pres A :=
  match o with Some a => POk a | None => PFail end.
Definition guard {A} (b : bool) (a : A) : option A := if b then Some a else None.

(* terminated(tag(t), space1) *)
Definition hdr (t : list Z) (s : rle) : option rle :=
  match tag t s with Some s1 => space1 s1 | None => None end.

Notation "'let?' x := e 'in' k" := (match e with Some x => k | None => None end)
  (at level 200, x pattern, e at level 100, k at level 200).

Inductive item :=
| IModule | IUrl | IInfo | IFile (id : Z) | IOrigin (id : Z) | IPublic | IFunc | IWin | ICfiInit.

(* opt(terminated(tag("m"), space1)) *)
Definition opt_m (s : rle) : rle :=
  match tag [109] s with
  | Some s1 => match space1 s1 with Some s2 => s2 | None => s end
  | None => s
  end.

Definition p_info_url (s : rle) : pres item :=
  match hdr T_INFO_URL s with
  | None => PErr
  | Some s1 => cutp (guard (name_eol s1) IUrl)
  end.

Definition p_info (s : rle) : pres item :=
  match hdr T_INFO s with
  | None => PErr
  | Some s1 => cutp (guard (raw_eol s1) IInfo)
  end.

Definition id_name (s : rle) : option Z :=
  let? (id, s1) := decsp s in guard (name_eol s1) id.

Definition p_file (s : rle) : pres item :=
  match hdr T_FILE s with
  | None => PErr
  | Some s1 => cutp (let? id := id_name s1 in Some (IFile id))
  end.

Definition p_inline_origin (s : rle) : pres item :=
  match hdr T_INLINE_ORIGIN s with
  | None => PErr
  | Some s1 => cutp (let? id := id_name s1 in Some (IOrigin id))
  end.

Definition p_public (s : rle) : pres item :=
  match hdr T_PUBLIC s with
  | None => PErr
  | Some s1 =>
      cutp (let s2 := opt_m s1 in
            let? (_, s3) := hex64sp s2 in
            let? (_, s4) := hex32sp s3 in
            guard (name_eol s4) IPublic)
  end.

Definition p_func (s : rle) : pres item :=
  match hdr T_FUNC s with
  | None => PErr
  | Some s1 =>
      cutp (let s2 := opt_m s1 in
            let? (_, s3) := hex64sp s2 in
            let? (_, s4) := hex32sp s3 in
            let? (_, s5) := hex32sp s4 in
            guard (name_eol s5) IFunc)
  end.

(* terminated(single(pred), space1) *)
Definition single_sp (pred : Z -> bool) (s : rle) : option rle :=
  match uncons s with
  | Some (b, s1) => if pred b then space1 s1 else None
  | None => None
  end.

Definition p_stack_win (s : rle) : pres item :=
  match hdr T_STACK_WIN s with
  | None => PErr
  | Some s0 =>
      cutp (let? s1 := single_sp is_hex s0 in
            let? (_, s2) := hex64sp s1 in
            let? (_, s3) := hex32sp s2 in
            let? (_, s4) := hex32sp s3 in
            let? (_, s5) := hex32sp s4 in
            let? (_, s6) := hex32sp s5 in
            let? (_, s7) := hex32sp s6 in
            let? (_, s8) := hex32sp s7 in
            let? (_, s9) := hex32sp s8 in
            let? s10 := single_sp is_dec s9 in
            guard (name_eol s10) IWin)
  end.

Definition p_stack_cfi_init (s : rle) : pres item :=
  match hdr T_STACK_CFI_INIT s with
  | None => PErr
  | Some s1 =>
      cutp (let? (_, s2) := hex64sp s1 in
            let? (_, s3) := hex32sp s2 in
            guard (name_eol s3) ICfiInit)
  end.

(* non_space (stops at ' ', '\r', '\n') + from_utf8, then space1 *)
Definition nonspace_sp (s : rle) : option rle :=
  let (f, r) := span_not (fun b => (b =? 32) || (b =? 13) || (b =? 10)) s in
  if utf8_ok f then space1 r else None.

Definition hexdigit1_sp (s : rle) : option rle :=
  match s with
  | (b, _) :: _ => if is_hex b then space1 (skip_while is_hex s) else None
  | [] => None
  end.

Definition p_module (s : rle) : pres item :=
  match hdr T_MODULE s with
  | None => PErr
  | Some s1 =>
      cutp (let? s2 := nonspace_sp s1 in
            let? s3 := nonspace_sp s2 in
            let? s4 := hexdigit1_sp s3 in
            guard (name_eol s4) IModule)
  end.

(* alt((...)): first Ok or first Failure wins *)
Fixpoint alt (ps : list (rle -> pres item)) (s : rle) : option item :=
  match ps with
  | [] => None
  | p :: t => match p s with
              | POk i => Some i
              | PFail => None
              | PErr => alt t s
              end
  end.

Definition line_top (s : rle) : option item :=
  alt [p_info_url; p_info; p_file; p_inline_origin; p_public; p_func; p_stack_win;
       p_stack_cfi_init; p_module] s.

(* ------------------------------------------------------------------ sub-lines *)
(* STACK CFI <addr> <rules> while a STACK CFI INIT item is open *)
Definition sub_cfi (s : rle) : bool :=
  match hdr T_STACK_CFI s with
  | None => false
  | Some s1 => match hex64sp s1 with
               | Some (_, s2) => name_eol s2
               | None => false
               end
  end.

(* <address> <size> <line> <file> *)
Definition sub_line_data (s : rle) : bool :=
  match (let? (_, s1) := hex64sp s in
         let? (_, s2) := hex32sp s1 in
         let? (_, s3) := decsp s2 in
         let? (_, s4) := decimal_u32 s3 in
         guard (eol s4) tt) with
  | Some _ => true
  | None => false
  end.

Definition addr_range (s : rle) : option rle :=
  let? (_, s1) := hex64sp s in
  let? (_, s2) := hex_str 8%nat s1 in
  Some s2.

(* separated_list1(space1, inline_address_range) after the first element: returns the input
   in front of the separator that was not followed by an element *)
Fixpoint more_ranges (fuel : nat) (s : rle) : rle :=
  match fuel with
  | O => s
  | S f => match space1 s with
           | None => s
           | Some s1 => match addr_range s1 with
                        | None => s
                        | Some s2 => more_ranges f s2
                        end
           end
  end.

Definition sub_inline (s : rle) : bool :=
  match (let? s0 := hdr T_INLINE s in
         let? (_, s1) := decsp s0 in
         let? (_, s2) := decsp s1 in
         let? (_, s3) := decsp s2 in
         let? (_, s4) := decsp s3 in
         let? s5 := addr_range s4 in
         guard (eol (more_ranges (S (length s5)) s5)) tt) with
  | Some _ => true
  | None => false
  end.

(* parse_func_subline: Some (Some id) = INLINE_ORIGIN id, Some None = INLINE / line record *)
Definition sub_func (s : rle) : option (option Z) :=
  match tag T_INLINE_ORIGIN_SP s with
  | Some _ => match p_inline_origin s with
              | POk (IOrigin id) => Some (Some id)
              | _ => None
              end
  | None =>
      match tag T_INLINE_SP s with
      | Some _ => if sub_inline s then Some None else None
      | None => if sub_line_data s then Some None else None
      end
  end.

(* ------------------------------------------------------------------ SymbolParser *)
Record pst := mkp {
  p_lines : Z;            (* lines *)
  p_cur : Z;              (* cur_item: 0 none, 1 FUNC, 2 STACK CFI INIT *)
  p_files : list Z;       (* keys of files *)
  p_origins : list Z;     (* keys of inline_origins *)
  p_publics : Z;          (* publics.len() *)
  p_url : bool            (* url.is_some() *)
}.

Definition init_pst : pst := mkp 0 0 [] [] 0 false.

Definition ins (id : Z) (l : list Z) : list Z :=
  if existsb (Z.eqb id) l then l else id :: l.

Definition bump_pst (p : pst) : pst :=
  mkp (p_lines p + 1) (p_cur p) (p_files p) (p_origins p) (p_publics p) (p_url p).
Definition lineno_pst (p : pst) : Z := p_lines p.

(* the top-level part of the loop body of parse_more, cur_item being None *)
Definition top (p : pst) (s : rle) : pst + Z :=
  let n := p_lines p + 1 in
  if eol s then inl (mkp n 0 (p_files p) (p_origins p) (p_publics p) (p_url p))
  else match line_top s with
       | None => inr 1
       | Some IModule =>
           if p_lines p =? 0 then inl (mkp n 0 (p_files p) (p_origins p) (p_publics p) (p_url p))
           else inr 2
       | Some IUrl => inl (mkp n 0 (p_files p) (p_origins p) (p_publics p) true)
       | Some IInfo => inl (mkp n 0 (p_files p) (p_origins p) (p_publics p) (p_url p))
       | Some (IFile id) => inl (mkp n 0 (ins id (p_files p)) (p_origins p) (p_publics p) (p_url p))
       | Some (IOrigin id) => inl (mkp n 0 (p_files p) (ins id (p_origins p)) (p_publics p) (p_url p))
       | Some IPublic => inl (mkp n 0 (p_files p) (p_origins p) (p_publics p + 1) (p_url p))
       | Some IFunc => inl (mkp n 1 (p_files p) (p_origins p) (p_publics p) (p_url p))
       | Some IWin => inl (mkp n 0 (p_files p) (p_origins p) (p_publics p) (p_url p))
       | Some ICfiInit => inl (mkp n 2 (p_files p) (p_origins p) (p_publics p) (p_url p))
       end.

(* one line of parse_more *)
Definition recog_pst (p : pst) (s : rle) : pst + Z :=
  if p_cur p =? 1 then
    match sub_func s with
    | Some (Some id) => inl (mkp (p_lines p + 1) 1 (p_files p) (ins id (p_origins p)) (p_publics p) (p_url p))
    | Some None => inl (bump_pst p)
    | None => top p s        (* finish_item, then the top-level parser sees the same line *)
    end
  else if p_cur p =? 2 then
    if sub_cfi s then inl (bump_pst p) else top p s
  else top p s.

Definition cllen (l : rle) : Z := rle_len l + 1.

(* ------------------------------------------------------------------ bytes <-> lines *)
(* every byte string is (uniquely) a list of '\n'-terminated lines plus a rest without '\n' *)
Fixpoint split_bytes (bs : list Z) (cur : list Z) : list (list Z) * list Z :=
  match bs with
  | [] => ([], rev cur)
  | b :: t => if b =? 10 then let (ls, tl) := split_bytes t [] in (rev cur :: ls, tl)
              else split_bytes t (b :: cur)
  end.
Definition join_bytes (ls : list (list Z)) (tl : list Z) : list Z :=
  flat_map (fun l => l ++ [10]) ls ++ tl.
Definition to_rle (l : list Z) : rle := map (fun b => (b, 1)) l.
