(* C09/ProofsBytes.v — byte strings versus the (lines, rest) form of the model's input. *)
From Coq Require Import Lia ZArith List Bool.
From RM Require Import Base.Word C09.Model C09.Grammar C09.Driver C09.Proofs.
Import ListNotations.
Open Scope Z_scope.


Lemma split_join_acc : forall bs cur ls tl,
  split_bytes bs cur = (ls, tl) ->
  match ls with
  | [] => tl = rev cur ++ bs
  | l :: ls' => exists l0, l = rev cur ++ l0 /\ join_bytes (l0 :: ls') tl = bs
  end.
Proof.
  induction bs as [|b t IH]; intros cur ls tl H; cbn [split_bytes] in H.
  - inversion H; subst. rewrite app_nil_r. reflexivity.
  - destruct (b =? 10) eqn:E.
    + apply Z.eqb_eq in E. subst b.
      destruct (split_bytes t []) as [ls' tl'] eqn:S. inversion H; subst.
      exists []. rewrite app_nil_r. split; [reflexivity|].
      specialize (IH [] ls' tl S). unfold join_bytes in *. cbn [flat_map app].
      destruct ls' as [|l1 ls1].
      * cbn [flat_map app]. subst tl. reflexivity.
      * destruct IH as [l0 [Hl Hj]]. cbn [rev app] in Hl. subst l1. rewrite Hj. reflexivity.
    + specialize (IH (b :: cur) ls tl H). destruct ls as [|l ls'].
      * rewrite IH. cbn [rev]. rewrite <- app_assoc. reflexivity.
      * destruct IH as [l0 [Hl Hj]]. exists (b :: l0). cbn [rev] in Hl. rewrite <- app_assoc in Hl.
        split; [exact Hl|]. unfold join_bytes in *. cbn [flat_map app] in *. rewrite <- Hj. reflexivity.
Qed.

Lemma split_join_id : forall bs,
  join_bytes (fst (split_bytes bs [])) (snd (split_bytes bs [])) = bs.
Proof.
  intros bs. destruct (split_bytes bs []) as [ls tl] eqn:S. cbn [fst snd].
  pose proof (split_join_acc bs [] ls tl S) as H. destruct ls as [|l ls'].
  - cbn [rev app] in H. subst tl. reflexivity.
  - destruct H as [l0 [Hl Hj]]. cbn [rev app] in Hl. subst l0. exact Hj.
Qed.

Lemma rle_len_nonneg : forall s, 0 <= rle_len s.
Proof. induction s as [|[b c] t IH]; cbn [rle_len]; lia. Qed.

Lemma cllen_pos : forall l, 1 <= cllen l.
Proof. intros l. unfold cllen. pose proof (rle_len_nonneg l). lia. Qed.

Lemma total_bytes : forall (bytes : list Z) (sch : list Z),
  join_bytes (fst (split_bytes bytes [])) (snd (split_bytes bytes [])) = bytes /\
  exists r s, drive_c (map to_rle (fst (split_bytes bytes [])))
                      (Z.of_nat (length (snd (split_bytes bytes [])))) sch = Ret (r, s).
Proof.
  intros bytes sch. split; [apply split_join_id|].
  unfold drive_c.
  destruct (drive_fin rle cllen pst init_pst recog_pst bump_pst lineno_pst cllen_pos
                      (map to_rle (fst (split_bytes bytes [])))
                      (Z.of_nat (length (snd (split_bytes bytes [])))) sch) as [r [s [H _]]].
  exists r, s. exact H.
Qed.

(* the table of an Ok result is finish of the fold of the recogniser over the lines *)
Lemma table_spec : forall (lines : list rle) (tail : Z) (sch : list Z) p s,
  Forall (fun l => cllen l <= HALF_CAP) lines ->
  drive_c lines tail sch = Ret (ROk p, s) ->
  fold_recog rle pst recog_pst lineno_pst init_pst lines = inl p /\
  table_of (ROk p) =
  match fold_recog rle pst recog_pst lineno_pst init_pst lines with
  | inl q => obind (finish q) (fun t => Ret (Some t))
  | inr _ => Ret None
  end.
Proof.
  intros lines tail sch p s Hs H.
  pose proof (ok_is_fold rle cllen pst init_pst recog_pst bump_pst lineno_pst cllen_pos lines tail sch p s Hs H) as F.
  split; [exact F|]. rewrite F. reflexivity.
Qed.
