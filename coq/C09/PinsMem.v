(* C09/PinsMem.v — round 5: the byte-level Buffer operations of C09/Circular.v against the operands that
   translate/c09_circular_mem.py extracts from the source of the pinned circular crate (coq/Gen/C09CircMem.v,
   regenerated on every run) and the conditions translate/symfile_loop.py extracts (coq/Gen/SymFileLoop.v).
   The operations are rebuilt from generic memory primitives (Vec of a repeated value, slice, ptr::copy = memmove,
   Vec::resize) applied to the extracted operands, and proved equal to the hand-written ones.  A changed operand in
   the source changes the generated file and breaks these lemmas; a changed statement makes the translator abort. *)
From Coq Require Import ZArith List Bool Lia.
From RM Require Import Base.Word C09.Model C09.Circular.
From RM Require Gen.C09CircMem Gen.SymFileLoop.
Import ListNotations.
Open Scope Z_scope.
Module M := RM.Gen.C09CircMem.
Module G := RM.Gen.SymFileLoop.

(* the value of an operand in a buffer state; [arg] is the function's parameter (capacity / new_size) *)
Definition fieldv (b : bbuf) (arg : Z) (o : M.operand) : Z :=
  match o with
  | M.OpPosition => m_pos b
  | M.OpEnd => m_end b
  | M.OpCapacity => m_cap b
  | M.OpArg => arg
  | M.OpLit z => z
  | M.OpLength => 0
  end.
(* shift(): `let length = <a> - <b>` *)
Definition opv (b : bbuf) (arg : Z) (o : M.operand) : Z :=
  match o with
  | M.OpLength => fieldv b arg M.sh_length_a - fieldv b arg M.sh_length_b
  | _ => fieldv b arg o
  end.

(* generic memory primitives *)
Definition vec_repeat (v n : Z) : list Z := repeat v (Z.to_nat n).
(* ptr::copy(&m[src_lo..], &mut m[dst_lo..], count): memmove *)
Definition copy_within (m : list Z) (src_lo dst_lo count : Z) : list Z :=
  zfirstn dst_lo m ++ zslice m src_lo (src_lo + count) ++ zskipn (dst_lo + count) m.
(* Vec::resize(len, v) *)
Definition vec_resize (m : list Z) (len v : Z) : list Z :=
  if len <=? zlength m then zfirstn len m else m ++ vec_repeat v (len - zlength m).

Definition with_capacity_src (c : Z) : bbuf :=
  let z := mkbb [] 0 0 0 in
  mkbb (vec_repeat (opv z c M.init_fill) (opv z c M.init_len)) (opv z c M.init_pos) (opv z c M.init_end) (opv z c M.init_cap).
Definition bdata_src (b : bbuf) : list Z := zslice (m_mem b) (opv b 0 M.data_lo) (opv b 0 M.data_hi).
Definition bspace_slice_src (b : bbuf) : list Z := zslice (m_mem b) (opv b 0 M.space_lo) (opv b 0 M.space_hi).
Definition bshift_src (b : bbuf) : bbuf :=
  if G.circ_shift_cond (m_pos b) then
    mkbb (copy_within (m_mem b) (opv b 0 M.sh_src_lo) 0 (opv b 0 M.sh_count)) (opv b 0 M.sh_new_pos) (opv b 0 M.sh_new_end) (m_cap b)
  else b.
Definition bconsume_src (b : bbuf) (count : Z) : bbuf :=
  let cnt := G.circ_consume_cnt count (bavail b) in
  let b1 := mkbb (m_mem b) (m_pos b + cnt) (m_end b) (m_cap b) in
  if G.circ_consume_shift (m_pos b1) (m_cap b1) then bshift_src b1 else b1.
Definition bfill_src (b : bbuf) (count : Z) : bbuf :=
  let cnt := G.circ_fill_cnt count (bspace b) in
  let b1 := mkbb (m_mem b) (m_pos b) (m_end b + cnt) (m_cap b) in
  if G.circ_fill_shift (bspace b1) (bavail b1) cnt then bshift_src b1 else b1.
Definition bgrow_src (b : bbuf) (n : Z) : bbuf :=
  if G.circ_grow_noop (m_cap b) n then b
  else mkbb (vec_resize (m_mem b) (opv b n M.gr_len) (opv b n M.gr_fill)) (m_pos b) (m_end b) (opv b n M.gr_cap).

Lemma pin_with_capacity : forall c, with_capacity_src c = with_capacity c.
Proof. reflexivity. Qed.

Lemma pin_slices : forall b, bdata_src b = bdata b /\ bspace_slice_src b = bspace_slice b.
Proof. intros. split; reflexivity. Qed.

(* the two slices handed to ptr::copy have exactly [count] elements: source memory[position..end], destination memory[..length] *)
Lemma pin_shift_slices : forall b,
  opv b 0 M.sh_src_hi - opv b 0 M.sh_src_lo = opv b 0 M.sh_count /\ opv b 0 M.sh_dst_hi = opv b 0 M.sh_count.
Proof. intros. cbn. split; reflexivity. Qed.

Lemma pin_shift : forall b, bshift_src b = bshift b.
Proof.
  intros [m p e c]. unfold bshift_src, bshift, G.circ_shift_cond. cbn [m_mem m_pos m_end m_cap].
  destruct (0 <? p); [|reflexivity].
  unfold copy_within, bdata, zslice. cbn [opv fieldv M.sh_src_lo M.sh_count M.sh_new_pos M.sh_new_end M.sh_length_a M.sh_length_b
                                          m_mem m_pos m_end m_cap].
  replace (p + (e - p) - p) with (e - p) by lia. replace (0 + (e - p)) with (e - p) by lia. reflexivity.
Qed.

Lemma pin_consume : forall b k, bconsume_src b k = bconsume b k.
Proof.
  intros. unfold bconsume_src, bconsume, G.circ_consume_cnt, G.circ_consume_shift. cbv zeta. rewrite pin_shift. reflexivity.
Qed.

Lemma pin_fill : forall b k, bfill_src b k = bfill b k.
Proof.
  intros. unfold bfill_src, bfill, G.circ_fill_cnt, G.circ_fill_shift. cbv zeta. rewrite pin_shift. reflexivity.
Qed.

Lemma pin_grow : forall b n, zlength (m_mem b) = m_cap b -> bgrow_src b n = bgrow b n.
Proof.
  intros [m p e c] n H. cbn [m_mem m_cap] in H. unfold bgrow_src, bgrow, G.circ_grow_noop. cbn [m_mem m_pos m_end m_cap].
  destruct (n <=? c) eqn:E; [reflexivity|].
  unfold vec_resize. cbn [opv fieldv M.gr_len M.gr_fill M.gr_cap]. rewrite H, E. reflexivity.
Qed.

(* ---------------------------------------------------------------- parse_more: what it keeps of data() *)
(* input.iter().rposition(|&x| x == b'\n'), counting from [i] *)
Fixpoint rposition_nl (d : list Z) (i : Z) : option Z :=
  match d with
  | [] => None
  | c :: t => match rposition_nl t (i + 1) with
              | Some j => Some j
              | None => if c =? 10 then Some i else None
              end
  end.

Definition search_nl (k : M.nl_search) (d : list Z) : option Z :=
  match k with M.FirstNewline => position_nl d 0 | M.LastNewline => rposition_nl d 0 end.

(* `if let Some(idx) = <search> { &input[..idx + <add>] } else { return Ok(<none>) }`: the slice parse_more goes on with, and
   (all its lines parsed) the number it returns *)
Definition trim_src (d : list Z) : list Z :=
  match search_nl M.pm_trim_search d with
  | Some idx => zfirstn (idx + M.pm_trim_add) d
  | None => zfirstn M.pm_no_newline_result d
  end.

Lemma rposition_trim : forall d i,
  match rposition_nl d i with
  | Some j => i <= j /\ trim_nl d = zfirstn (j - i + 1) d
  | None => trim_nl d = []
  end.
Proof.
  induction d as [|c t IH]; intros i; cbn [rposition_nl trim_nl]; [reflexivity|].
  specialize (IH (i + 1)). destruct (rposition_nl t (i + 1)) as [j|] eqn:E.
  - destruct IH as [Hj Ht]. split; [lia|].
    destruct t as [|y t']; [cbn [rposition_nl] in E; discriminate E|].
    rewrite Ht. unfold zfirstn.
    replace (Z.to_nat (j - i + 1)) with (S (Z.to_nat (j - (i + 1) + 1))) by lia.
    replace (Z.to_nat (j - (i + 1) + 1)) with (S (Z.to_nat (j - (i + 1)))) by lia.
    reflexivity.
  - rewrite IH. destruct (c =? 10).
    + split; [lia|]. replace (i - i + 1) with 1 by lia. reflexivity.
    + reflexivity.
Qed.

Lemma pin_trim : forall d, trim_src d = trim_nl d.
Proof.
  intros d. unfold trim_src, search_nl, M.pm_trim_search, M.pm_trim_add, M.pm_no_newline_result.
  pose proof (rposition_trim d 0) as H. destruct (rposition_nl d 0) as [j|].
  - destruct H as [_ H]. rewrite H. f_equal. lia.
  - rewrite H. reflexivity.
Qed.

Lemma pin_memory_ops :
  (forall c, with_capacity_src c = with_capacity c) /\
  (forall b, bdata_src b = bdata b /\ bspace_slice_src b = bspace_slice b) /\
  (forall b, bshift_src b = bshift b) /\
  (forall b k, bconsume_src b k = bconsume b k) /\
  (forall b k, bfill_src b k = bfill b k) /\
  (forall b n, zlength (m_mem b) = m_cap b -> bgrow_src b n = bgrow b n).
Proof.
  split; [exact pin_with_capacity|]. split; [exact pin_slices|]. split; [exact pin_shift|].
  split; [exact pin_consume|]. split; [exact pin_fill|exact pin_grow].
Qed.
