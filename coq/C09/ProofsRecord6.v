(* C09/ProofsRecord6.v — round 5, second pass: INLINE sub-lines (separated_list1 of address ranges) as a declarative grammar
   over BYTES, both directions.
       inline ::= "INLINE" sp+ dec sp+ dec sp+ dec sp+ dec sp+ range (sp+ range)* cr*        range ::= hex{1,16} sp+ hex{1,8}
   (depth, call line, call file, origin; one Inlinee per range, in line order).  separated_list1 "gives back" a separator
   that is not followed by a range, so trailing spaces make the line invalid (my_eol does not accept them). *)
From Coq Require Import Lia ZArith List Bool.
From RM Require Import Base.Word C08.Model C11.Model C09.Grammar C09.PinsNum C09.ProofsText C09.ProofsRecord C09.ProofsRecord2.
Import ListNotations.
Open Scope Z_scope.

(* ------------------------------------------------------------------ the parsers never lengthen the list of runs *)
Lemma uncons_length s b s' : uncons s = Some (b, s') -> (length s' <= length s)%nat.
Proof.
  destruct s as [|[x c] t]; cbn [uncons]; [discriminate|]. destruct (c <=? 1); intros H; inversion H; subst; cbn [length]; lia.
Qed.
Lemma digits_length val base n : forall s acc k v k' s', digits val base n s acc k = (v, k', s') -> (length s' <= length s)%nat.
Proof.
  induction n as [|n IH]; intros s acc k v k' s' H; cbn [digits] in H; [inversion H; subst; lia|].
  destruct (uncons s) as [[b s1]|] eqn:U; [|inversion H; subst; lia].
  destruct (val b); [|inversion H; subst; lia]. apply IH in H. apply uncons_length in U. lia.
Qed.
Lemma hex_str_length n s v s' : hex_str n s = Some (v, s') -> (length s' <= length s)%nat.
Proof.
  unfold hex_str. destruct (digits hexval 16 n s 0 0) as [[v0 k] s0] eqn:E. destruct (k =? 0); [discriminate|].
  intros H; inversion H; subst. eapply digits_length; eassumption.
Qed.
Lemma space1_length s s' : space1 s = Some s' -> (length s' < length s)%nat.
Proof.
  unfold space1. destruct s as [|[b c] t]; [discriminate|]. destruct (is_sp b) eqn:E; [|discriminate].
  intros H; inversion H. cbn [skip_while]. rewrite E. pose proof (skip_while_length is_sp t). cbn [length]. lia.
Qed.
Lemma osp_length {A} (o : option (A * rle)) (s : rle) (v : A) (s' : rle) : (forall v1 s1, o = Some (v1, s1) -> (length s1 <= length s)%nat) ->
  osp o = Some (v, s') -> (length s' < length s)%nat.
Proof.
  intros L. unfold osp. destruct o as [[v1 s1]|]; [|discriminate]. destruct (space1 s1) as [s2|] eqn:S; [|discriminate].
  intros H; inversion H; subst. apply space1_length in S. specialize (L _ _ eq_refl). lia.
Qed.
Lemma addr_range_length s a sz s' : addr_range s = Some (a, sz, s') -> (length s' < length s)%nat.
Proof.
  unfold addr_range. destruct (hex64sp s) as [[a0 s1]|] eqn:H1; [|discriminate].
  destruct (hex_str 8 s1) as [[z s2]|] eqn:H2; [|discriminate]. intros H; inversion H; subst.
  apply hex_str_length in H2. unfold hex64sp in H1. apply (osp_length _ s) in H1; [lia|]. intros; eapply hex_str_length; eassumption.
Qed.

(* ------------------------------------------------------------------ hex_str not followed by space1 *)
Lemma hex_sound n s v s' : hex_str n s = Some (v, s') ->
  exists ds, expand s = ds ++ expand s' /\ hex_field n ds v /\ (length ds = n \/ starts (fun b => hexval b = None) (expand s')).
Proof.
  unfold hex_str. destruct (digits hexval 16 n s 0 0) as [[v0 k] s0] eqn:E.
  destruct (Z.eqb_spec k 0); [discriminate|]. intros HH. inversion HH; subst. clear HH.
  destruct (digits_grammar hexval 16 n s 0 0 v k s' E) as (ds & A & B & C & D & V & F).
  exists ds. split; [exact A|]. split.
  { split; [intros ->; cbn [length] in B; lia|]. split; [exact C|]. split; [exact D|exact V]. }
  destruct F as [F|F]; [left; exact F|right]. unfold stops in F. destruct (expand s'); [exact I|exact F].
Qed.
Lemma hex_complete n s ds r v : expand s = ds ++ r -> hex_field n ds v -> starts (fun b => hexval b = None) r ->
  exists s', hex_str n s = Some (v, s') /\ expand s' = r.
Proof.
  intros E (N & L & D & ->) Sr. unfold hex_str.
  destruct (digits hexval 16 n s 0 0) as [[v0 k] s0] eqn:Ed.
  destruct (digits_grammar hexval 16 n s 0 0 v0 k s0 Ed) as (ds' & A & B & C & D' & V' & F).
  assert (Hstop : starts (fun b => ~ (hexval b <> None)) r).
  { destruct r as [|x t]; [exact I|]. cbn in *. intros Q. apply Q. exact Sr. }
  assert (X : ds' = ds /\ expand s0 = r).
  { rewrite A in E. destruct F as [F|F].
    - apply (prefix_unique (fun b => hexval b <> None)); try assumption. lia.
    - apply (split_unique (fun b => hexval b <> None)); try assumption.
      unfold stops in F. destruct (expand s0); [exact I|]. cbn. intros Q. apply Q. exact F. }
  destruct X as [-> X].
  assert (K : k <> 0). { destruct ds; [contradiction|]. cbn [length] in B. lia. }
  destruct (Z.eqb_spec k 0); [contradiction|]. fold (hex_value ds) in V'. subst v0. exists s0. split; [reflexivity|exact X].
Qed.

(* ------------------------------------------------------------------ (sp+ range)* *)
Inductive ranges_rel : list Z -> list (Z * Z) -> list Z -> Prop :=
| rr_nil r : ranges_rel r [] r
| rr_cons sp d1 sp1 d2 a sz l rs r :
    spaces sp -> hex_field 16 d1 a -> spaces sp1 -> hex_field 8 d2 sz -> starts (fun b => hexval b = None) l ->
    ranges_rel l rs r -> ranges_rel (sp ++ d1 ++ sp1 ++ d2 ++ l) ((a, sz) :: rs) r.

Lemma cr_starts_nonhex l : Forall (fun b => b = 13) l -> starts (fun b => hexval b = None) l.
Proof. intros H. destruct l as [|x t]; [exact I|]. inversion H; subst. reflexivity. Qed.
Lemma cr_starts_nonsp l : Forall (fun b => b = 13) l -> starts (fun b => ~ sp_byte b) l.
Proof. intros H. destruct l as [|x t]; [exact I|]. inversion H; subst. cbn. unfold sp_byte. lia. Qed.

Lemma more_ranges_sound : forall fuel s acc acc' s',
  more_ranges fuel s acc = (acc', s') -> eol s' = true -> (length s < fuel)%nat ->
  exists rs, acc' = rev rs ++ acc /\ ranges_rel (expand s) rs (expand s') /\ starts (fun b => hexval b = None) (expand s).
Proof.
  induction fuel as [|f IH]; intros s acc acc' s' H He Hl; [lia|]. cbn [more_ranges] in H.
  destruct (space1 s) as [s1|] eqn:S.
  - destruct (space1_sound s s1 S) as (sp & A & Nsp & Fsp & Dsp).
    assert (St : starts (fun b => hexval b = None) (expand s)).
    { rewrite A. destruct sp as [|x t]; [contradiction|]. cbn. inversion Fsp; subst. apply sp_not_hex. assumption. }
    destruct (addr_range s1) as [[[a sz] s2]|] eqn:R.
    + pose proof (space1_length _ _ S). pose proof (addr_range_length _ _ _ _ R).
      destruct (IH s2 ((a, sz) :: acc) acc' s' H He ltac:(lia)) as (rs & E1 & E2 & E3).
      unfold addr_range in R. destruct (hex64sp s1) as [[a0 s1']|] eqn:Hx1; [|discriminate].
      destruct (hex_str 8 s1') as [[z s2']|] eqn:Hx2; [|discriminate]. inversion R; subst a0 z s2'. clear R.
      destruct (hexsp_sound _ _ _ _ Hx1) as (d1 & sp1 & A1 & B1 & C1 & D1).
      destruct (hex_sound _ _ _ _ Hx2) as (d2 & A2 & B2 & _).
      exists ((a, sz) :: rs). split; [rewrite E1; cbn [rev]; rewrite <- app_assoc; reflexivity|]. split; [|exact St].
      rewrite A, A1, A2. apply rr_cons; try assumption. split; assumption.
    + inversion H; subst. exfalso. apply eol_bytes in He. rewrite A in He. destruct sp as [|x t]; [contradiction|].
      cbn [app] in He. inversion He as [|? ? Hx Hy]. inversion Fsp as [|? ? Hs Hs2]. unfold sp_byte in Hs. cbv beta in Hx. lia.
  - inversion H; subst. exists []. split; [reflexivity|]. split; [constructor|].
    apply cr_starts_nonhex. apply eol_bytes. exact He.
Qed.

Lemma more_ranges_complete : forall l rs r, ranges_rel l rs r -> Forall (fun b => b = 13) r ->
  forall fuel s acc, expand s = l -> (length s < fuel)%nat ->
  exists s', more_ranges fuel s acc = (rev rs ++ acc, s') /\ expand s' = r.
Proof.
  induction 1 as [r|sp d1 sp1 d2 a sz l rs r Ssp F1 S1 F2 Sl Hr IH]; intros Hc fuel s acc E Hl.
  - destruct fuel as [|f]; [lia|]. cbn [more_ranges].
    destruct (space1 s) as [s1|] eqn:S.
    + exfalso. destruct (space1_sound s s1 S) as (sp & A & Nsp & Fsp & _). subst r. rewrite A in Hc.
      destruct sp as [|x t]; [contradiction|]. cbn [app] in Hc. inversion Hc as [|? ? Hx Hy]. inversion Fsp as [|? ? Hs Hs2].
      unfold sp_byte in Hs. cbv beta in Hx. lia.
    + exists s. split; [reflexivity|exact E].
  - destruct fuel as [|f]; [lia|]. cbn [more_ranges]. destruct Ssp as (Nsp & Fsp).
    destruct (space1_complete s sp _ E Nsp Fsp (hex_starts_nonsp _ _ _ _ F1)) as (s1 & S & X1). rewrite S.
    destruct (hexsp_complete _ _ _ _ _ _ X1 F1 S1 (hex_starts_nonsp _ _ _ _ F2)) as (s2 & H1 & X2).
    destruct (hex_complete _ _ _ _ _ X2 F2 Sl) as (s3 & H2 & X3).
    assert (R : addr_range s1 = Some (a, sz, s3)) by (unfold addr_range, hex64sp; rewrite H1, H2; reflexivity).
    rewrite R. pose proof (space1_length _ _ S). pose proof (addr_range_length _ _ _ _ R).
    destruct (IH Hc f s3 ((a, sz) :: acc) X3 ltac:(lia)) as (s' & M & Y).
    exists s'. split; [|exact Y]. rewrite M. cbn [rev]. rewrite <- app_assoc. reflexivity.
Qed.

(* ------------------------------------------------------------------ INLINE <depth> <call line> <call file> <origin> <range>+ *)
Definition inline_line (l : list Z) (depth cline cfile origin : Z) (rs : list (Z * Z)) : Prop :=
  exists sp0 c1 p1 c2 p2 c3 p3 c4 p4 d1 sp1 d2 a sz tl rest crs,
    l = T_INLINE ++ sp0 ++ c1 ++ p1 ++ c2 ++ p2 ++ c3 ++ p3 ++ c4 ++ p4 ++ d1 ++ sp1 ++ d2 ++ tl /\
    spaces sp0 /\ dec_field c1 depth /\ spaces p1 /\ dec_field c2 cline /\ spaces p2 /\ dec_field c3 cfile /\ spaces p3 /\
    dec_field c4 origin /\ spaces p4 /\ hex_field 16 d1 a /\ spaces sp1 /\ hex_field 8 d2 sz /\
    starts (fun b => hexval b = None) tl /\ ranges_rel tl rest crs /\ Forall (fun b => b = 13) crs /\ rs = (a, sz) :: rest.

Definition inlinees (depth cline cfile origin : Z) (rs : list (Z * Z)) : list inl_rec :=
  map (fun r => mk_inl depth (fst r) (snd r) cfile cline origin) rs.

Lemma inline_sound s x : sub_inline s = Some x ->
  exists depth cline cfile origin rs, x = inlinees depth cline cfile origin rs /\ inline_line (expand s) depth cline cfile origin rs.
Proof.
  unfold sub_inline, guard. destruct (hdr T_INLINE s) as [s0|] eqn:Hh; [|discriminate].
  destruct (decsp s0) as [[depth s1]|] eqn:H1; [|discriminate].
  destruct (decsp s1) as [[cline s2]|] eqn:H2; [|discriminate].
  destruct (decsp s2) as [[cfile s3]|] eqn:H3; [|discriminate].
  destruct (decsp s3) as [[origin s4]|] eqn:H4; [|discriminate].
  destruct (addr_range s4) as [[[a sz] s5]|] eqn:R; [|discriminate].
  destruct (more_ranges (S (length s5)) s5 [(a, sz)]) as [racc s6] eqn:M.
  destruct (eol s6) eqn:He; [|discriminate]. intros HH. inversion HH; subst x. clear HH.
  destruct (hdr_sound _ _ _ Hh) as (sp0 & A0 & B0 & C0).
  destruct (decsp_sound' _ _ _ H1) as (c1 & p1 & A1 & B1 & C1 & D1).
  destruct (decsp_sound' _ _ _ H2) as (c2 & p2 & A2 & B2 & C2 & D2).
  destruct (decsp_sound' _ _ _ H3) as (c3 & p3 & A3 & B3 & C3 & D3).
  destruct (decsp_sound' _ _ _ H4) as (c4 & p4 & A4 & B4 & C4 & D4).
  unfold addr_range in R. destruct (hex64sp s4) as [[a0 s4']|] eqn:H5; [|discriminate].
  destruct (hex_str 8 s4') as [[z s5']|] eqn:H6; [|discriminate]. inversion R; subst a0 z s5'. clear R.
  destruct (hexsp_sound _ _ _ _ H5) as (d1 & sp1 & A5 & B5 & C5 & D5).
  destruct (hex_sound _ _ _ _ H6) as (d2 & A6 & B6 & _).
  destruct (more_ranges_sound _ _ _ _ _ M He ltac:(lia)) as (rest & E1 & E2 & E3).
  exists depth, cline, cfile, origin, ((a, sz) :: rest). split.
  { unfold inlinees. f_equal. rewrite E1, rev_app_distr, rev_involutive. reflexivity. }
  exists sp0, c1, p1, c2, p2, c3, p3, c4, p4, d1, sp1, d2, a, sz, (expand s5), rest, (expand s6).
  rewrite A0, A1, A2, A3, A4, A5, A6.
  split; [reflexivity|]. split; [exact B0|]. split; [exact B1|]. split; [exact C1|]. split; [exact B2|]. split; [exact C2|].
  split; [exact B3|]. split; [exact C3|]. split; [exact B4|]. split; [exact C4|]. split; [exact B5|]. split; [exact C5|].
  split; [exact B6|]. split; [exact E3|]. split; [exact E2|]. split; [apply eol_bytes; exact He|reflexivity].
Qed.

Lemma inline_complete s depth cline cfile origin rs : inline_line (expand s) depth cline cfile origin rs ->
  sub_inline s = Some (inlinees depth cline cfile origin rs).
Proof.
  intros (sp0 & c1 & p1 & c2 & p2 & c3 & p3 & c4 & p4 & d1 & sp1 & d2 & a & sz & tl & rest & crs &
          E & S0 & F1 & P1 & F2 & P2 & F3 & P3 & F4 & P4 & G1 & Q1 & G2 & St & Hr & Hc & ->).
  destruct (hdr_complete _ _ _ _ E S0 (dec_starts_nonsp _ _ _ F1)) as (s0 & H0 & X0).
  destruct (decsp_complete' _ _ _ _ _ X0 F1 P1 (dec_starts_nonsp _ _ _ F2)) as (s1 & H1 & X1).
  destruct (decsp_complete' _ _ _ _ _ X1 F2 P2 (dec_starts_nonsp _ _ _ F3)) as (s2 & H2 & X2).
  destruct (decsp_complete' _ _ _ _ _ X2 F3 P3 (dec_starts_nonsp _ _ _ F4)) as (s3 & H3 & X3).
  destruct (decsp_complete' _ _ _ _ _ X3 F4 P4 (hex_starts_nonsp _ _ _ _ G1)) as (s4 & H4 & X4).
  destruct (hexsp_complete _ _ _ _ _ _ X4 G1 Q1 (hex_starts_nonsp _ _ _ _ G2)) as (s4' & H5 & X5).
  destruct (hex_complete _ _ _ _ _ X5 G2 St) as (s5 & H6 & X6).
  destruct (more_ranges_complete _ _ _ Hr Hc (S (length s5)) s5 [(a, sz)] X6 ltac:(lia)) as (s6 & M & X7).
  assert (He : eol s6 = true) by (apply eol_bytes; rewrite X7; exact Hc).
  unfold sub_inline, addr_range, hex64sp, guard. rewrite H0, H1, H2, H3, H4, H5, H6, M, He.
  unfold inlinees. rewrite rev_app_distr, rev_involutive. reflexivity.
Qed.

(* "INLINE 0 3 1 2 1000 10 2000 4\r" has the shape: depth 0, call line 3, call file 1, origin 2, ranges (0x1000, 0x10) (0x2000, 4) *)
Lemma inline_line_example :
  inline_line (expand (to_rle [73; 78; 76; 73; 78; 69; 32; 48; 32; 51; 32; 49; 32; 50; 32; 49; 48; 48; 48; 32; 49; 48; 32; 50; 48; 48; 48; 32; 52; 13]))
              0 3 1 2 [(4096, 16); (8192, 4)].
Proof.
  destruct (inline_sound (to_rle [73; 78; 76; 73; 78; 69; 32; 48; 32; 51; 32; 49; 32; 50; 32; 49; 48; 48; 48; 32; 49; 48; 32; 50; 48; 48; 48; 32; 52; 13])
                         (inlinees 0 3 1 2 [(4096, 16); (8192, 4)]))
    as (depth & cline & cfile & origin & rs & E & Hl); [vm_compute; reflexivity|].
  destruct rs as [|[a1 z1] [|[a2 z2] [|? ?]]]; cbn in E; try discriminate. inversion E; subst. exact Hl.
Qed.
