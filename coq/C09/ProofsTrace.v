(* C09/ProofsTrace.v — the traced run is the run: [iter_tr] goes through exactly the states of [iter_pos]. *)
From Coq Require Import ZArith List Bool.
From RM Require Import Base.Word C08.Model C11.Model C09.Model C09.Grammar C09.Driver.
Import ListNotations.
Open Scope Z_scope.

Lemma iter_tr_run : forall p s a,
  fst (iter_tr p s a) = iter_pos rle cllen pst recog_pst bump_pst lineno_pst p s.
Proof.
  induction p as [q IH|q IH|]; intros s a; cbn [iter_tr iter_pos].
  - unfold cstep. destruct (step rle cllen pst recog_pst bump_pst lineno_pst s) as [s1|r s1|t] eqn:E; try reflexivity.
    pose proof (IH s1 (tr_step a s (Next s1))) as H1.
    destruct (iter_tr q s1 (tr_step a s (Next s1))) as [r1 a1] eqn:E1. cbn [fst] in H1. rewrite <- H1.
    destruct r1 as [s2|r2 s2|t2]; try reflexivity. apply IH.
  - pose proof (IH s a) as H1. destruct (iter_tr q s a) as [r1 a1] eqn:E1. cbn [fst] in H1. rewrite <- H1.
    destruct r1 as [s2|r2 s2|t2]; try reflexivity. apply IH.
  - reflexivity.
Qed.

(* the traced run ends where [drive_c] ends *)
Lemma run_trace_is_drive : forall lines tail sch,
  drive_c lines tail sch =
  match fst (iter_tr (fuel_for rle cllen lines tail) (init_st rle cllen pst init_pst lines tail sch) init_tr) with
  | Next _ => OutOfFuel
  | Done r s => Ret (r, s)
  | StPanic t => Panic t
  end.
Proof. intros. rewrite iter_tr_run. reflexivity. Qed.

Lemma iter_tr_async_run : forall p s a,
  fst (iter_tr_async p s a) = iter_pos_async rle cllen pst recog_pst bump_pst lineno_pst p s.
Proof.
  induction p as [q IH|q IH|]; intros s a; cbn [iter_tr_async iter_pos_async].
  - unfold cstep_async. destruct (step_async rle cllen pst recog_pst bump_pst lineno_pst s) as [s1|r s1|t] eqn:E; try reflexivity.
    pose proof (IH s1 (tr_step_cb a s (Next s1))) as H1.
    destruct (iter_tr_async q s1 (tr_step_cb a s (Next s1))) as [r1 a1] eqn:E1. cbn [fst] in H1. rewrite <- H1.
    destruct r1 as [s2|r2 s2|t2]; try reflexivity. apply IH.
  - pose proof (IH s a) as H1. destruct (iter_tr_async q s a) as [r1 a1] eqn:E1. cbn [fst] in H1. rewrite <- H1.
    destruct r1 as [s2|r2 s2|t2]; try reflexivity. apply IH.
  - reflexivity.
Qed.

(* [run_async] reports the result of [drive_async] *)
Lemma run_async_is_drive_async : forall lines tail chunks,
  drive_async rle cllen pst init_pst recog_pst bump_pst lineno_pst lines tail chunks =
  match fst (iter_tr_async (fuel_for rle cllen lines tail)
                           (init_st rle cllen pst init_pst lines tail (0 :: chunks)) init_tr) with
  | Next _ => OutOfFuel
  | Done r s => Ret (r, s)
  | StPanic t => Panic t
  end.
Proof. intros. rewrite iter_tr_async_run. reflexivity. Qed.

(* ------------------------------------------------------------------ round 5: the traced byte-level run is the byte-level run *)
From RM Require Import C09.Circular.
From Coq Require Import Lia.

Local Notation cbiter := (biter rle cllen pst recog_pst bump_pst lineno_pst).

Lemma biter_add : forall a b x,
  cbiter (a + b)%nat x = match cbiter a x with BNext x1 => cbiter b x1 | r => r end.
Proof.
  induction a as [|a IH]; intros b x; cbn [biter Nat.add]; [reflexivity|].
  destruct (bstep rle cllen pst recog_pst bump_pst lineno_pst x); try reflexivity. apply IH.
Qed.

Lemma biter_tr_run : forall p x h, fst (biter_tr p x h) = cbiter (Pos.to_nat p) x.
Proof.
  induction p as [q IH|q IH|]; intros x h; cbn [biter_tr].
  - rewrite Pos2Nat.inj_xI. replace (S (2 * Pos.to_nat q))%nat with (1 + (Pos.to_nat q + Pos.to_nat q))%nat by lia.
    rewrite biter_add. cbn [biter]. unfold cbstep.
    destruct (bstep rle cllen pst recog_pst bump_pst lineno_pst x) as [x1|r x1|t]; try reflexivity.
    rewrite biter_add. pose proof (IH x1 (spy_step h x)) as H1.
    destruct (biter_tr q x1 (spy_step h x)) as [r1 h1]. cbn [fst] in H1. rewrite <- H1.
    destruct r1 as [x2|r2 x2|t2]; try reflexivity. apply IH.
  - rewrite Pos2Nat.inj_xO. replace (2 * Pos.to_nat q)%nat with (Pos.to_nat q + Pos.to_nat q)%nat by lia.
    rewrite biter_add. pose proof (IH x h) as H1.
    destruct (biter_tr q x h) as [r1 h1]. cbn [fst] in H1. rewrite <- H1.
    destruct r1 as [x2|r2 x2|t2]; try reflexivity. apply IH.
  - rewrite Pos2Nat.inj_1. cbn [biter fst]. unfold cbstep.
    destruct (bstep rle cllen pst recog_pst bump_pst lineno_pst x); reflexivity.
Qed.

From RM Require Import C09.Proofs C09.ProofsBytes C09.ProofsCircular.

Lemma list_eqb_refl : forall l, list_eqb l l = true.
Proof. induction l as [|x t IH]; [reflexivity|]. cbn [list_eqb]. rewrite Z.eqb_refl. exact IH. Qed.

(* what the correspondence run prints for the byte-level run is the outcome of [drive_c]; the callback bytes are the
   input's prefix of that length; data() holds what the index model says is left *)
Lemma run_bytes_is_drive : forall lines tail sch inp,
  zlength inp = input_len rle cllen lines tail ->
  exists r s, drive_c lines tail sch = Ret (r, s) /\
    let bo := run_bytes lines tail sch inp in
    (bo_kind bo, bo_code bo, bo_line bo) = match r with ROk _ => (0, 0, 0) | RErr c l => (1, c, l) end /\
    bo_cb bo = cbsum s /\ bo_cbok bo = true /\ bo_left bo = avail (buf s).
Proof.
  intros lines tail sch inp H.
  destruct (drive_fin rle cllen pst init_pst recog_pst bump_pst lineno_pst cllen_pos lines tail sch) as [r [s [D _]]].
  exists r, s. split; [exact D|].
  unfold drive in D.
  pose proof (reach_inv rle cllen pst init_pst recog_pst bump_pst lineno_pst cllen_pos lines tail sch inp
                        (fuel_for rle cllen lines tail) H) as R. cbv zeta in R.
  destruct (iter_pos rle cllen pst recog_pst bump_pst lineno_pst (fuel_for rle cllen lines tail)
                     (init_st rle cllen pst init_pst lines tail sch)) as [s1|r1 s1|t1]; try discriminate.
  inversion D; subst r1 s1. clear D.
  destruct R as [x [B [E [I W]]]].
  unfold run_bytes. rewrite H, Z.eqb_refl. cbn [negb].
  pose proof (biter_tr_run (fuel_for rle cllen lines tail)
                           (binit rle pst (init_st rle cllen pst init_pst lines tail sch) inp) MIX_INIT) as T.
  rewrite B in T.
  destruct (biter_tr (fuel_for rle cllen lines tail)
                     (binit rle pst (init_st rle cllen pst init_pst lines tail sch) inp) MIX_INIT) as [res h].
  cbn [fst] in T. subst res. destruct I as [I1 I2 I3 I4 I5].
  destruct (app3_slices _ _ _ _ _ I3) as [A _].
  assert (K : list_eqb (x_cb x) (zfirstn (zlength (x_cb x)) inp) = true) by (rewrite <- A; apply list_eqb_refl).
  pose proof (bdata_length _ I2) as HL. rewrite <- avail_idx, I1, E in HL. rewrite E in I5.
  destruct r as [p|c l]; cbv zeta; cbn [bo_kind bo_code bo_line bo_cb bo_cbok bo_left];
    (split; [reflexivity|split; [exact I5|split; [exact K|exact HL]]]).
Qed.
