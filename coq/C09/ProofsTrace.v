(* C09/ProofsTrace.v — the traced run is the run: [iter_tr] goes through exactly the states of [iter_pos]. *)
From Coq Require Import ZArith List Bool.
From RM Require Import Base.Word C08.Model C11.Model C09.Model C09.Grammar C09.Driver.
Import ListNotations.
Open Scope Z_scope.

Lemma iter_tr_run : forall p s a,
  fst (iter_tr p s a) = iter_pos rle cllen pst recog_pst bump_pst lineno_pst p s.
Proof.
  induction p as [q IH|q IH|]; intros s a; cbn [iter_tr iter_pos].
  - unfold cstep. destruct (step rle cllen pst recog_pst bump_pst lineno_pst s) as [s1|r s1|t] eqn:E; try reflexivity.
    pose proof (IH s1 (tr_step a s (Next s1))) as H1.
    destruct (iter_tr q s1 (tr_step a s (Next s1))) as [r1 a1] eqn:E1. cbn [fst] in H1. rewrite <- H1.
    destruct r1 as [s2|r2 s2|t2]; try reflexivity. apply IH.
  - pose proof (IH s a) as H1. destruct (iter_tr q s a) as [r1 a1] eqn:E1. cbn [fst] in H1. rewrite <- H1.
    destruct r1 as [s2|r2 s2|t2]; try reflexivity. apply IH.
  - reflexivity.
Qed.

(* the traced run ends where [drive_c] ends *)
Lemma run_trace_is_drive : forall lines tail sch,
  drive_c lines tail sch =
  match fst (iter_tr (fuel_for rle cllen lines tail) (init_st rle cllen pst init_pst lines tail sch) init_tr) with
  | Next _ => OutOfFuel
  | Done r s => Ret (r, s)
  | StPanic t => Panic t
  end.
Proof. intros. rewrite iter_tr_run. reflexivity. Qed.

Lemma iter_tr_async_run : forall p s a,
  fst (iter_tr_async p s a) = iter_pos_async rle cllen pst recog_pst bump_pst lineno_pst p s.
Proof.
  induction p as [q IH|q IH|]; intros s a; cbn [iter_tr_async iter_pos_async].
  - unfold cstep_async. destruct (step_async rle cllen pst recog_pst bump_pst lineno_pst s) as [s1|r s1|t] eqn:E; try reflexivity.
    pose proof (IH s1 (tr_step_cb a s (Next s1))) as H1.
    destruct (iter_tr_async q s1 (tr_step_cb a s (Next s1))) as [r1 a1] eqn:E1. cbn [fst] in H1. rewrite <- H1.
    destruct r1 as [s2|r2 s2|t2]; try reflexivity. apply IH.
  - pose proof (IH s a) as H1. destruct (iter_tr_async q s a) as [r1 a1] eqn:E1. cbn [fst] in H1. rewrite <- H1.
    destruct r1 as [s2|r2 s2|t2]; try reflexivity. apply IH.
  - reflexivity.
Qed.

(* [run_async] reports the result of [drive_async] *)
Lemma run_async_is_drive_async : forall lines tail chunks,
  drive_async rle cllen pst init_pst recog_pst bump_pst lineno_pst lines tail chunks =
  match fst (iter_tr_async (fuel_for rle cllen lines tail)
                           (init_st rle cllen pst init_pst lines tail (0 :: chunks)) init_tr) with
  | Next _ => OutOfFuel
  | Done r s => Ret (r, s)
  | StPanic t => Panic t
  end.
Proof. intros. rewrite iter_tr_async_run. reflexivity. Qed.
