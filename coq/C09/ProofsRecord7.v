(* C09/ProofsRecord7.v — round 5, second pass: the dispatch between record kinds (`alt` with `cut` after the keyword).
   Every top-level line parser answers PErr (alt tries the next kind) iff the line does not start with its KEYWORD followed by
   a space or tab; once the keyword has matched, the answer is POk or PFail (the whole parse fails).  `alt` returns the record of
   the first parser that does not answer PErr.  The only overlapping headers are "INFO URL " and "INFO " (INFO URL is tried first). *)
From Coq Require Import Lia ZArith List Bool.
From RM Require Import Base.Word C08.Model C11.Model C09.Grammar C09.PinsNum C09.ProofsText C09.ProofsRecord.
Import ListNotations.
Open Scope Z_scope.

Lemma cutp_not_err {A} (o : option A) : cutp o <> PErr.
Proof. destruct o; discriminate. Qed.

Ltac err_iff kw :=
  intros s; match goal with |- ?p s = PErr <-> _ => unfold p end;
  destruct (hdr kw s) as [s1|] eqn:H;
  [split; [intros E; exfalso; exact (cutp_not_err _ E)|intros N; exfalso; apply N; eapply hdr_some; eassumption]
  |split; [intros _; apply hdr_none; exact H|reflexivity]].

Lemma p_info_url_err : forall s, p_info_url s = PErr <-> ~ has_header T_INFO_URL (expand s). Proof. err_iff T_INFO_URL. Qed.
Lemma p_info_err : forall s, p_info s = PErr <-> ~ has_header T_INFO (expand s). Proof. err_iff T_INFO. Qed.
Lemma p_file_err : forall s, p_file s = PErr <-> ~ has_header T_FILE (expand s). Proof. err_iff T_FILE. Qed.
Lemma p_inline_origin_err : forall s, p_inline_origin s = PErr <-> ~ has_header T_INLINE_ORIGIN (expand s). Proof. err_iff T_INLINE_ORIGIN. Qed.
Lemma p_public_err : forall s, p_public s = PErr <-> ~ has_header T_PUBLIC (expand s). Proof. err_iff T_PUBLIC. Qed.
Lemma p_func_err : forall s, p_func s = PErr <-> ~ has_header T_FUNC (expand s). Proof. err_iff T_FUNC. Qed.
Lemma p_stack_win_err : forall s, p_stack_win s = PErr <-> ~ has_header T_STACK_WIN (expand s). Proof. err_iff T_STACK_WIN. Qed.
Lemma p_stack_cfi_init_err : forall s, p_stack_cfi_init s = PErr <-> ~ has_header T_STACK_CFI_INIT (expand s). Proof. err_iff T_STACK_CFI_INIT. Qed.
Lemma p_module_err : forall s, p_module s = PErr <-> ~ has_header T_MODULE (expand s). Proof. err_iff T_MODULE. Qed.

(* alt: the first parser that does not answer PErr decides *)
Lemma alt_some ps s it : alt ps s = Some it <->
  exists pre p post, ps = pre ++ p :: post /\ Forall (fun q => q s = PErr) pre /\ p s = POk it.
Proof.
  induction ps as [|p t IH]; cbn [alt].
  - split; [discriminate|]. intros (pre & q & post & E & _). destruct pre; discriminate.
  - destruct (p s) as [| |i] eqn:E.
    + rewrite IH. split.
      * intros (pre & q & post & -> & F & Q). exists (p :: pre), q, post. repeat split; [constructor; assumption|exact Q].
      * intros (pre & q & post & E1 & F & Q). destruct pre as [|x pre'].
        -- cbn [app] in E1. inversion E1; subst. congruence.
        -- cbn [app] in E1. inversion E1; subst. inversion F; subst. exists pre', q, post. repeat split; assumption.
    + split; [discriminate|]. intros (pre & q & post & E1 & F & Q). destruct pre as [|x pre'].
      * cbn [app] in E1. inversion E1; subst. congruence.
      * cbn [app] in E1. inversion E1; subst. inversion F; subst. congruence.
    + split.
      * intros H. inversion H; subst. exists [], p, t. repeat split; [constructor|exact E].
      * intros (pre & q & post & E1 & F & Q). destruct pre as [|x pre'].
        -- cbn [app] in E1. inversion E1; subst. congruence.
        -- cbn [app] in E1. inversion E1; subst. inversion F; subst. congruence.
Qed.

Lemma alt_none ps s : alt ps s = None <->
  Forall (fun q => q s = PErr) ps \/ exists pre p post, ps = pre ++ p :: post /\ Forall (fun q => q s = PErr) pre /\ p s = PFail.
Proof.
  induction ps as [|p t IH]; cbn [alt].
  - split; [left; constructor|reflexivity].
  - destruct (p s) as [| |i] eqn:E.
    + rewrite IH. split.
      * intros [F|(pre & q & post & -> & F & Q)]; [left; constructor; assumption|].
        right. exists (p :: pre), q, post. repeat split; [constructor; assumption|exact Q].
      * intros [F|(pre & q & post & E1 & F & Q)]; [inversion F; subst; left; assumption|].
        destruct pre as [|x pre']; cbn [app] in E1; inversion E1; subst; [congruence|].
        inversion F; subst. right. exists pre', q, post. repeat split; assumption.
    + split; [|reflexivity]. intros _. right. exists [], p, t. repeat split; [constructor|exact E].
    + split; [discriminate|]. intros [F|(pre & q & post & E1 & F & Q)]; [inversion F; subst; congruence|].
      destruct pre as [|x pre']; cbn [app] in E1; inversion E1; subst; [congruence|]. inversion F; subst. congruence.
Qed.
