(* C09/Driver.v — entry point of the correspondence run: the generic driver of C09/Model.v
   instantiated with the byte-level line recogniser of C09/Grammar.v. *)
From RM Require Import Base.Word C08.Model C11.Model C09.Model C09.Grammar.
Open Scope Z_scope.

Definition cstate := st rle pst.

Definition drive_c (lines : list rle) (tail : Z) (sch : list Z) : outcome (result pst * cstate) :=
  drive rle cllen pst init_pst recog_pst bump_pst lineno_pst lines tail sch.

Definition spec_c (lines : list rle) (tail : Z) : result pst :=
  spec rle pst init_pst recog_pst lineno_pst lines tail.

(* the symbol table of a result: SymbolParser::finish on Ok *)
Definition table_of (r : result pst) : outcome (option table) :=
  match r with
  | ROk p => do t <- finish p; Ret (Some t)
  | RErr _ _ => Ret None
  end.

Record sym_out := {
  o_kind : Z;                  (* 0 Ok, 1 Err, 2 Panic, 3 OutOfFuel *)
  o_code : Z; o_line : Z;      (* Err: code and line; Panic: tag *)
  o_cb : Z; o_ncb : Z;         (* bytes given to the callback, number of calls *)
  o_nrd : Z; o_maxsp : Z;      (* read() calls, largest space offered *)
  o_cap : Z;                   (* final capacity *)
  o_table : option table;      (* Ok: the finished symbol table *)
  o_dropped : Z;               (* lines discarded by recovery *)
  o_skind : Z; o_scode : Z; o_sline : Z;     (* spec_c: same encoding *)
  o_stable : option table      (* finish of spec_c's state *)
}.

Definition zlen {A} (l : list A) : Z := Z.of_nat (length l).
Definition count_dropped {A} (lg : list (bool * A)) : Z :=
  fold_left (fun (acc : Z) (e : bool * A) => if fst e then acc + 1 else acc) lg 0.

Definition o_files (o : sym_out) : Z := match o_table o with Some t => zlen (t_files t) | None => 0 end.
Definition o_publics (o : sym_out) : Z := match o_table o with Some t => zlen (t_publics t) | None => 0 end.
Definition o_funcs (o : sym_out) : Z := match o_table o with Some t => zlen (t_funcs t) | None => 0 end.

Definition run_case (lines : list rle) (tail : Z) (sch : list Z) : sym_out :=
  let sr := spec_c lines tail in
  let '(sk, sc, sl) := match sr with
                       | ROk _ => (0, 0, 0)
                       | RErr c l => (1, c, l)
                       end in
  let stab := match table_of sr with Ret t => t | _ => None end in
  match drive_c lines tail sch with
  | Ret (r, s) =>
      let mk k c l t :=
        Build_sym_out k c l (cbsum s) (ncb s) (nrd s) (maxsp s) (b_cap (buf s)) t
                      (count_dropped (log s)) sk sc sl stab in
      match r, table_of r with
      | ROk _, Ret t => mk 0 0 0 t
      | ROk _, Panic tag => mk 2 tag 0 None
      | ROk _, _ => mk 2 (-2) 0 None
      | RErr c l, _ => mk 1 c l None
      end
  | Panic t => Build_sym_out 2 t 0 0 0 0 0 0 None 0 sk sc sl stab
  | OutOfFuel => Build_sym_out 3 0 0 0 0 0 0 0 None 0 sk sc sl stab
  | Fail => Build_sym_out 2 (-1) 0 0 0 0 0 0 None 0 sk sc sl stab
  end.
