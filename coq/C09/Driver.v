(* C09/Driver.v — entry point of the correspondence run: the generic driver of C09/Model.v
   instantiated with the byte-level line recogniser of C09/Grammar.v. *)
From RM Require Import Base.Word C08.Model C11.Model C09.Model C09.Grammar C09.Circular.
Open Scope Z_scope.

Definition cstate := st rle pst.

Definition drive_c (lines : list rle) (tail : Z) (sch : list Z) : outcome (result pst * cstate) :=
  drive rle cllen pst init_pst recog_pst bump_pst lineno_pst lines tail sch.

Definition spec_c (lines : list rle) (tail : Z) : result pst :=
  spec rle pst init_pst recog_pst lineno_pst lines tail.

(* the symbol table of a result: SymbolParser::finish on Ok *)
Definition table_of (r : result pst) : outcome (option table) :=
  match r with
  | ROk p => do t <- finish p; Ret (Some t)
  | RErr _ _ => Ret None
  end.

Record sym_out := {
  o_kind : Z;                  (* 0 Ok, 1 Err, 2 Panic, 3 OutOfFuel *)
  o_code : Z; o_line : Z;      (* Err: code and line; Panic: tag *)
  o_cb : Z; o_ncb : Z;         (* bytes given to the callback, number of calls *)
  o_nrd : Z; o_maxsp : Z;      (* read() calls, largest space offered *)
  o_cap : Z;                   (* final capacity *)
  o_table : option table;      (* Ok: the finished symbol table *)
  o_dropped : Z;               (* lines discarded by recovery *)
  o_skind : Z; o_scode : Z; o_sline : Z;     (* spec_c: same encoding *)
  o_stable : option table      (* finish of spec_c's state *)
}.

Definition zlen {A} (l : list A) : Z := Z.of_nat (length l).
Definition count_dropped {A} (lg : list (bool * A)) : Z :=
  fold_left (fun (acc : Z) (e : bool * A) => if fst e then acc + 1 else acc) lg 0.

Definition o_files (o : sym_out) : Z := match o_table o with Some t => zlen (t_files t) | None => 0 end.
Definition o_publics (o : sym_out) : Z := match o_table o with Some t => zlen (t_publics t) | None => 0 end.
Definition o_funcs (o : sym_out) : Z := match o_table o with Some t => zlen (t_funcs t) | None => 0 end.

Definition run_case (lines : list rle) (tail : Z) (sch : list Z) : sym_out :=
  let sr := spec_c lines tail in
  let '(sk, sc, sl) := match sr with
                       | ROk _ => (0, 0, 0)
                       | RErr c l => (1, c, l)
                       end in
  let stab := match table_of sr with Ret t => t | _ => None end in
  match drive_c lines tail sch with
  | Ret (r, s) =>
      let mk k c l t :=
        Build_sym_out k c l (cbsum s) (ncb s) (nrd s) (maxsp s) (b_cap (buf s)) t
                      (count_dropped (log s)) sk sc sl stab in
      match r, table_of r with
      | ROk _, Ret t => mk 0 0 0 t
      | ROk _, Panic tag => mk 2 tag 0 None
      | ROk _, _ => mk 2 (-2) 0 None
      | RErr c l, _ => mk 1 c l None
      end
  | Panic t => Build_sym_out 2 t 0 0 0 0 0 0 None 0 sk sc sl stab
  | OutOfFuel => Build_sym_out 3 0 0 0 0 0 0 0 None 0 sk sc sl stab
  | Fail => Build_sym_out 2 (-1) 0 0 0 0 0 0 None 0 sk sc sl stab
  end.

(* ------------------------------------------------------------------ round 4: the trajectory of a run.
   Everything the reader and the callback of the real code can see, in order: every read() as
   (bytes of space offered, bytes returned) and every callback as (slice length).  space() = capacity - end,
   so this sequence pins the capacity / position / end trajectory of circular::Buffer (grow, shift) and
   the order and sizes of the callback slices.  The events are folded into an FNV-style 64-bit hash
   (one multiplication per number); the harness (ChunkReader + callback) computes the same hash.
   [iter_tr] runs the SAME [step] function as [iter_pos] and only looks at the states it goes through
   ([iter_tr_run] in ProofsTrace.v), so the model itself is unchanged. *)
Definition MIX_INIT : Z := 14695981039346656037.
Definition MIX_PRIME : Z := 1099511628211.
Definition mix (h v : Z) : Z := (Z.lxor h v * MIX_PRIME) mod two64.

Record tracc := mk_tr {
  tr_hash : Z;          (* hash of the event sequence *)
  tr_events : Z;        (* number of events *)
  tr_grows : Z;         (* buf.grow() that changed the capacity *)
  tr_shifts : Z;        (* iterations in which the buffer shifted (position back to 0) *)
  tr_discards : Z;      (* recovery iterations without a newline (discard everything) *)
  tr_recovered : Z;     (* recoveries completed *)
  tr_zero_reads : Z;    (* read() calls that returned 0 *)
  tr_full_reads : Z     (* read() calls offered an empty slice (buffer full) *)
}.
Definition init_tr : tracc := mk_tr MIX_INIT 0 0 0 0 0 0 0.

Definition cstep : cstate -> stepres rle pst := step rle cllen pst recog_pst bump_pst lineno_pst.
Definition crecovery : cstate -> cstate := recovery rle cllen pst bump_pst.

Definition b2z (b : bool) : Z := if b then 1 else 0.

(* what one iteration s --> r adds to the trace *)
Definition tr_step (a : tracc) (s : cstate) (r : stepres rle pst) : tracc :=
  let s1 := if pr s then crecovery s else s in
  match (match r with Next s' => Some s' | Done _ s' => Some s' | StPanic _ => None end) with
  | None => a
  | Some s' =>
      let h0 := tr_hash a in
      let h1 := if pr s then mix (mix h0 2) (cbsum s1 - cbsum s) else h0 in       (* callback in recovery *)
      let sp := space (buf s1) in
      let n := unread s1 - unread s' in
      let h2 := mix (mix (mix h1 1) sp) n in                                        (* read(space) = n *)
      let cb2 := ncb s1 <? ncb s' in
      let h3 := if cb2 then mix (mix h2 2) (cbsum s' - cbsum s1) else h2 in         (* callback after parse_more *)
      mk_tr h3 (tr_events a + b2z (pr s) + 1 + b2z cb2)
            (tr_grows a + b2z (b_cap (buf s) <? b_cap (buf s')))
            (tr_shifts a + b2z ((0 <? b_pos (buf s)) && (b_pos (buf s') =? 0)
                                || (0 <? b_pos (buf s1)) && (b_pos (buf s') =? 0)))
            (tr_discards a + b2z (pr s && pr s1))
            (tr_recovered a + b2z (pr s && negb (pr s1)))
            (tr_zero_reads a + b2z (n =? 0))
            (tr_full_reads a + b2z (sp =? 0))
  end.

Fixpoint iter_tr (p : positive) (s : cstate) (a : tracc) : stepres rle pst * tracc :=
  match p with
  | xH => let r := cstep s in (r, tr_step a s r)
  | xO q => match iter_tr q s a with
            | (Next s1, a1) => iter_tr q s1 a1
            | ra => ra
            end
  | xI q => let r := cstep s in
            let a0 := tr_step a s r in
            match r with
            | Next s1 => match iter_tr q s1 a0 with
                         | (Next s2, a2) => iter_tr q s2 a2
                         | ra => ra
                         end
            | _ => (r, a0)
            end
  end.

Definition run_trace (lines : list rle) (tail : Z) (sch : list Z) : tracc :=
  snd (iter_tr (fuel_for rle cllen lines tail) (init_st rle cllen pst init_pst lines tail sch) init_tr).

(* features of a case for the input distribution of the evidence: which kind of line the parser
   rejected (first bytes of the line it stopped at) *)
Definition first_rest (lines : list rle) (tail : Z) (sch : list Z) : option rle :=
  match drive_c lines tail sch with
  | Ret (RErr c ln, s) =>
      if (c =? 1) || (c =? 2) then nth_error (rest s) (Z.to_nat (ln - lineno_pst (ps s))) else None
  | _ => None
  end.

(* ------------------------------------------------------------------ round 4: parse_async, run for the correspondence.
   The harness drives the real SymbolFile::parse_async with a reqwest::Response whose body yields exactly the given
   chunks; only the callback is observable there (the reads are internal), so the trace keeps the callback lengths. *)
Definition cstep_async : cstate -> stepres rle pst := step_async rle cllen pst recog_pst bump_pst lineno_pst.

Definition tr_step_cb (a : tracc) (s : cstate) (r : stepres rle pst) : tracc :=
  let s1 := if pr s then crecovery s else s in
  match (match r with Next s' => Some s' | Done _ s' => Some s' | StPanic _ => None end) with
  | None => a
  | Some s' =>
      let h0 := tr_hash a in
      let h1 := if pr s then mix (mix h0 2) (cbsum s1 - cbsum s) else h0 in
      let cb2 := ncb s1 <? ncb s' in
      let h3 := if cb2 then mix (mix h1 2) (cbsum s' - cbsum s1) else h1 in
      mk_tr h3 (tr_events a + b2z (pr s) + b2z cb2)
            (tr_grows a + b2z (b_cap (buf s) <? b_cap (buf s')))
            (tr_shifts a) (tr_discards a + b2z (pr s && pr s1)) (tr_recovered a + b2z (pr s && negb (pr s1)))
            (tr_zero_reads a) (tr_full_reads a)
  end.

Fixpoint iter_tr_async (p : positive) (s : cstate) (a : tracc) : stepres rle pst * tracc :=
  match p with
  | xH => let r := cstep_async s in (r, tr_step_cb a s r)
  | xO q => match iter_tr_async q s a with
            | (Next s1, a1) => iter_tr_async q s1 a1
            | ra => ra
            end
  | xI q => let r := cstep_async s in
            let a0 := tr_step_cb a s r in
            match r with
            | Next s1 => match iter_tr_async q s1 a0 with
                         | (Next s2, a2) => iter_tr_async q s2 a2
                         | ra => ra
                         end
            | _ => (r, a0)
            end
  end.

(* the async run: outcome (same record as run_case; the reader fields are those of the internal slice reader) + trace *)
Definition run_async (lines : list rle) (tail : Z) (chunks : list Z) : sym_out * tracc :=
  let '(res, tr) := iter_tr_async (fuel_for rle cllen lines tail)
                                  (init_st rle cllen pst init_pst lines tail (0 :: chunks)) init_tr in
  let none k c l := Build_sym_out k c l 0 0 0 0 0 None 0 0 0 0 None in
  (match res with
   | Done r s =>
       let mk k c l t :=
         Build_sym_out k c l (cbsum s) (ncb s) (nrd s) (maxsp s) (b_cap (buf s)) t (count_dropped (log s)) 0 0 0 None in
       match r, table_of r with
       | ROk _, Ret t => mk 0 0 0 t
       | ROk _, Panic tag => mk 2 tag 0 None
       | ROk _, _ => mk 2 (-2) 0 None
       | RErr c l, _ => mk 1 c l None
       end
   | Next _ => none 3 0 0
   | StPanic t => none 2 t 0
   end, tr).

(* ------------------------------------------------------------------ round 5: the run on real bytes (C09/Circular.v).
   The byte-level loop [bstep] with the concrete recogniser; [inp] are the bytes of the input (the OCaml glue expands the
   run-length encoded case).  What only this run can predict is the CONTENT of the memory outside data(): the slice
   `buf.space()` the reader is handed still holds whatever earlier reads, shifts (memmove) and grows (zero fill) left there.
   The harness reader looks at the slice before it writes into it; both sides fold (3, length, first 32 bytes, last 32 bytes)
   of every offered slice into a hash. *)
Definition cbst := bst rle pst.
Definition cbstep : cbst -> bres rle pst := bstep rle cllen pst recog_pst bump_pst lineno_pst.
Definition SPY_K : Z := 32.

Definition spy (h : Z) (sl : list Z) : Z :=
  let n := zlength sl in
  let h1 := mix (mix h 3) n in
  let h2 := fold_left mix (zfirstn SPY_K sl) h1 in
  fold_left mix (zskipn (n - SPY_K) sl) h2.

(* the slice offered by the read() of this iteration: space() after the recovery block *)
Definition spy_step (h : Z) (x : cbst) : Z :=
  let x1 := if pr (x_s x) then b_recovery rle cllen pst bump_pst x else x in
  spy h (bspace_slice (x_b x1)).

Fixpoint biter_tr (p : positive) (x : cbst) (h : Z) : bres rle pst * Z :=
  match p with
  | xH => (cbstep x, spy_step h x)
  | xO q => match biter_tr q x h with
            | (BNext x1, h1) => biter_tr q x1 h1
            | rh => rh
            end
  | xI q => let h0 := spy_step h x in
            match cbstep x with
            | BNext x1 => match biter_tr q x1 h0 with
                          | (BNext x2, h2) => biter_tr q x2 h2
                          | rh => rh
                          end
            | r => (r, h0)
            end
  end.

Record bytes_out := {
  bo_kind : Z; bo_code : Z; bo_line : Z;     (* as in sym_out *)
  bo_cb : Z;                                 (* bytes the callback was given *)
  bo_cbok : bool;                            (* ... and they are the first bo_cb bytes of the input *)
  bo_left : Z;                               (* bytes still in data() *)
  bo_spy : Z                                 (* hash of the space() slices offered to the reader *)
}.

Fixpoint list_eqb (a b : list Z) : bool :=
  match a, b with
  | [], [] => true
  | x :: a', y :: b' => (x =? y) && list_eqb a' b'
  | _, _ => false
  end.

Definition run_bytes (lines : list rle) (tail : Z) (sch : list Z) (inp : list Z) : bytes_out :=
  let s0 := init_st rle cllen pst init_pst lines tail sch in
  if negb (zlength inp =? input_len rle cllen lines tail) then Build_bytes_out 2 (-3) 0 0 false 0 0 else
  match biter_tr (fuel_for rle cllen lines tail) (binit rle pst s0 inp) MIX_INIT with
  | (BDone r x, h) =>
      let ok := list_eqb (x_cb x) (zfirstn (zlength (x_cb x)) inp) in
      let mk k c l := Build_bytes_out k c l (zlength (x_cb x)) ok (zlength (bdata (x_b x))) h in
      match r with
      | ROk _ => mk 0 0 0
      | RErr c l => mk 1 c l
      end
  | (BNext _, h) => Build_bytes_out 3 0 0 0 false 0 h
  | (BPanic t, h) => Build_bytes_out 2 t 0 0 false 0 h
  end.
