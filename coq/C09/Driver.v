(* C09/Driver.v — entry point of the correspondence run: the generic driver of C09/Model.v
   instantiated with the byte-level line recogniser of C09/Grammar.v. *)
From RM Require Import Base.Word C09.Model C09.Grammar.
Open Scope Z_scope.

Definition cstate := st rle pst.

Definition drive_c (lines : list rle) (tail : Z) (sch : list Z) : outcome (result pst * cstate) :=
  drive rle cllen pst init_pst recog_pst bump_pst lineno_pst lines tail sch.

Definition spec_c (lines : list rle) (tail : Z) : result pst :=
  spec rle pst init_pst recog_pst lineno_pst lines tail.

Record sym_out := {
  o_kind : Z;                  (* 0 Ok, 1 Err, 2 Panic, 3 OutOfFuel *)
  o_code : Z; o_line : Z;      (* Err: code and line; Panic: tag *)
  o_cb : Z; o_ncb : Z;         (* bytes given to the callback, number of calls *)
  o_nrd : Z; o_maxsp : Z;      (* read() calls, largest space offered *)
  o_cap : Z;                   (* final capacity *)
  o_files : Z; o_origins : Z; o_publics : Z; o_url : bool;
  o_dropped : Z;               (* lines discarded by recovery *)
  o_skind : Z; o_scode : Z; o_sline : Z     (* spec_c: same encoding *)
}.

Definition zlen {A} (l : list A) : Z := Z.of_nat (length l).
Definition count_dropped {A} (lg : list (bool * A)) : Z :=
  fold_left (fun (acc : Z) (e : bool * A) => if fst e then acc + 1 else acc) lg 0.

Definition run_case (lines : list rle) (tail : Z) (sch : list Z) : sym_out :=
  let '(sk, sc, sl) := match spec_c lines tail with
                       | ROk _ => (0, 0, 0)
                       | RErr c l => (1, c, l)
                       end in
  match drive_c lines tail sch with
  | Ret (r, s) =>
      let mk k c l p :=
        Build_sym_out k c l (cbsum s) (ncb s) (nrd s) (maxsp s) (b_cap (buf s))
                      (zlen (p_files p)) (zlen (p_origins p)) (p_publics p) (p_url p)
                      (count_dropped (log s)) sk sc sl in
      match r with
      | ROk p => mk 0 0 0 p
      | RErr c l => mk 1 c l init_pst
      end
  | Panic t => Build_sym_out 2 t 0 0 0 0 0 0 0 0 0 false 0 sk sc sl
  | OutOfFuel => Build_sym_out 3 0 0 0 0 0 0 0 0 0 0 false 0 sk sc sl
  | Fail => Build_sym_out 2 (-1) 0 0 0 0 0 0 0 0 0 false 0 sk sc sl
  end.
