(* C09/ProofsRecord3.v — round 5, second pass: PUBLIC and FUNC records as declarative grammars over BYTES, both directions.
       public ::= "PUBLIC" sp+ [ "m" sp+ ] hex{1,16} sp+ hex{1,8} sp+ name cr*
       func   ::= "FUNC"   sp+ [ "m" sp+ ] hex{1,16} sp+ hex{1,8} sp+ hex{1,8} sp+ name cr* *)
From Coq Require Import Lia ZArith List Bool.
From RM Require Import Base.Word C08.Model C11.Model C09.Grammar C09.PinsNum C09.ProofsText C09.ProofsRecord C09.ProofsRecord2.
Import ListNotations.
Open Scope Z_scope.

(* opt(terminated(tag("m"), space1)) *)
Definition opt_m_bytes (m : list Z) : Prop := m = [] \/ exists spm, m = 109 :: spm /\ spaces spm.

Lemma opt_m_sound s : exists m, expand s = m ++ expand (opt_m s) /\ opt_m_bytes m.
Proof.
  unfold opt_m. destruct (tag [109] s) as [s0|] eqn:T; [|exists []; split; [reflexivity|left; reflexivity]].
  destruct (space1 s0) as [s1|] eqn:S; [|exists []; split; [reflexivity|left; reflexivity]].
  apply tag_sound in T. destruct (space1_sound s0 s1 S) as (sp & A & B & C & D).
  exists (109 :: sp). split; [rewrite T, A; reflexivity|]. right. exists sp. split; [reflexivity|split; assumption].
Qed.

Lemma opt_m_complete s m r n ds v : expand s = m ++ ds ++ r -> opt_m_bytes m -> hex_field n ds v ->
  expand (opt_m s) = ds ++ r.
Proof.
  intros E M F. pose proof (hex_starts_nonsp n ds v r F) as Hns.
  destruct F as (N & _ & D & _). destruct ds as [|d t]; [contradiction|]. inversion D as [|? ? Hd _]; subst.
  unfold opt_m. destruct M as [->|(spm & -> & Ns & Fs)].
  - cbn [app] in E. destruct (tag [109] s) as [s0|] eqn:T; [|exact E].
    apply tag_sound in T. rewrite E in T. cbn [app] in T. inversion T; subst d. cbn in Hd. contradiction.
  - destruct (tag_complete [109] s (spm ++ (d :: t) ++ r) E) as (s0 & T & X). rewrite T.
    destruct (space1_complete s0 spm _ X Ns Fs Hns) as (s1 & S & Y). rewrite S. exact Y.
Qed.

(* ------------------------------------------------------------------ PUBLIC [m] <addr> <param size> <name> *)
Definition public_line (l : list Z) (a ps : Z) (name : list Z) : Prop :=
  exists sp0 m d1 sp1 d2 sp2 crs,
    l = T_PUBLIC ++ sp0 ++ m ++ d1 ++ sp1 ++ d2 ++ sp2 ++ name ++ crs /\
    spaces sp0 /\ opt_m_bytes m /\ hex_field 16 d1 a /\ spaces sp1 /\ hex_field 8 d2 ps /\ spaces sp2 /\ text_tail name crs.

Lemma public_sound s it : p_public s = POk it ->
  exists a ps n name, it = IPublic (mk_pubs a n ps) /\ public_line (expand s) a ps name /\ expand n = name.
Proof.
  unfold p_public. destruct (hdr T_PUBLIC s) as [s1|] eqn:Hh; [|discriminate].
  unfold cutp. cbv zeta. destruct (hex64sp (opt_m s1)) as [[a s3]|] eqn:H1; [|discriminate].
  destruct (hex32sp s3) as [[ps s4]|] eqn:H2; [|discriminate].
  destruct (name_eol s4) as [n|] eqn:H3; [|discriminate]. intros HH. inversion HH; subst it. clear HH.
  destruct (hdr_sound _ _ _ Hh) as (sp0 & A0 & B0 & C0).
  destruct (opt_m_sound s1) as (m & Am & Bm).
  destruct (hexsp_sound _ _ _ _ H1) as (d1 & sp1 & A1 & B1 & C1 & D1).
  destruct (hexsp_sound _ _ _ _ H2) as (d2 & sp2 & A2 & B2 & C2 & D2).
  destruct (name_tail_sound _ _ H3 D2) as (name & crs & A3 & B3 & C3).
  exists a, ps, n, name. split; [reflexivity|]. split; [|exact C3].
  exists sp0, m, d1, sp1, d2, sp2, crs. rewrite A0, Am, A1, A2, A3.
  split; [reflexivity|]. split; [exact B0|]. split; [exact Bm|]. split; [exact B1|]. split; [exact C1|].
  split; [exact B2|]. split; [exact C2|exact B3].
Qed.

Lemma opt_m_starts_nonsp m n ds v rest : opt_m_bytes m -> hex_field n ds v -> starts (fun b => ~ sp_byte b) (m ++ ds ++ rest).
Proof.
  intros [->|(spm & -> & _)] F; [exact (hex_starts_nonsp n ds v rest F)|]. cbn. unfold sp_byte. lia.
Qed.

Lemma public_complete s a ps name : public_line (expand s) a ps name ->
  exists n, p_public s = POk (IPublic (mk_pubs a n ps)) /\ expand n = name.
Proof.
  intros (sp0 & m & d1 & sp1 & d2 & sp2 & crs & E & S0 & M & F1 & S1 & F2 & S2 & T).
  destruct (hdr_complete _ _ _ _ E S0 (opt_m_starts_nonsp _ _ _ _ _ M F1)) as (s1 & H0 & X0).
  pose proof (opt_m_complete s1 m _ _ _ _ X0 M F1) as Xm.
  destruct (hexsp_complete _ _ _ _ _ _ Xm F1 S1 (hex_starts_nonsp _ _ _ _ F2)) as (s3 & H1 & X1).
  destruct (hexsp_complete _ _ _ _ _ _ X1 F2 S2 (proj1 T)) as (s4 & H2 & X2).
  destruct (name_tail_complete _ _ _ X2 T) as (n & H3 & X3).
  exists n. split; [|exact X3]. unfold p_public, hex64sp, hex32sp. rewrite H0. cbv zeta. rewrite H1, H2, H3. reflexivity.
Qed.

(* ------------------------------------------------------------------ FUNC [m] <addr> <size> <param size> <name> *)
Definition func_line (l : list Z) (a sz ps : Z) (name : list Z) : Prop :=
  exists sp0 m d1 sp1 d2 sp2 d3 sp3 crs,
    l = T_FUNC ++ sp0 ++ m ++ d1 ++ sp1 ++ d2 ++ sp2 ++ d3 ++ sp3 ++ name ++ crs /\
    spaces sp0 /\ opt_m_bytes m /\ hex_field 16 d1 a /\ spaces sp1 /\ hex_field 8 d2 sz /\ spaces sp2 /\
    hex_field 8 d3 ps /\ spaces sp3 /\ text_tail name crs.

Lemma func_sound s it : p_func s = POk it ->
  exists a sz ps n name, it = IFunc (mk_fr a sz ps n [] []) /\ func_line (expand s) a sz ps name /\ expand n = name.
Proof.
  unfold p_func. destruct (hdr T_FUNC s) as [s1|] eqn:Hh; [|discriminate].
  unfold cutp. cbv zeta. destruct (hex64sp (opt_m s1)) as [[a s3]|] eqn:H1; [|discriminate].
  destruct (hex32sp s3) as [[sz s4]|] eqn:H2; [|discriminate].
  destruct (hex32sp s4) as [[ps s5]|] eqn:H2b; [|discriminate].
  destruct (name_eol s5) as [n|] eqn:H3; [|discriminate]. intros HH. inversion HH; subst it. clear HH.
  destruct (hdr_sound _ _ _ Hh) as (sp0 & A0 & B0 & C0).
  destruct (opt_m_sound s1) as (m & Am & Bm).
  destruct (hexsp_sound _ _ _ _ H1) as (d1 & sp1 & A1 & B1 & C1 & D1).
  destruct (hexsp_sound _ _ _ _ H2) as (d2 & sp2 & A2 & B2 & C2 & D2).
  destruct (hexsp_sound _ _ _ _ H2b) as (d3 & sp3 & A2b & B2b & C2b & D2b).
  destruct (name_tail_sound _ _ H3 D2b) as (name & crs & A3 & B3 & C3).
  exists a, sz, ps, n, name. split; [reflexivity|]. split; [|exact C3].
  exists sp0, m, d1, sp1, d2, sp2, d3, sp3, crs. rewrite A0, Am, A1, A2, A2b, A3.
  split; [reflexivity|]. split; [exact B0|]. split; [exact Bm|]. split; [exact B1|]. split; [exact C1|].
  split; [exact B2|]. split; [exact C2|]. split; [exact B2b|]. split; [exact C2b|exact B3].
Qed.

Lemma func_complete s a sz ps name : func_line (expand s) a sz ps name ->
  exists n, p_func s = POk (IFunc (mk_fr a sz ps n [] [])) /\ expand n = name.
Proof.
  intros (sp0 & m & d1 & sp1 & d2 & sp2 & d3 & sp3 & crs & E & S0 & M & F1 & S1 & F2 & S2 & F3 & S3 & T).
  destruct (hdr_complete _ _ _ _ E S0 (opt_m_starts_nonsp _ _ _ _ _ M F1)) as (s1 & H0 & X0).
  pose proof (opt_m_complete s1 m _ _ _ _ X0 M F1) as Xm.
  destruct (hexsp_complete _ _ _ _ _ _ Xm F1 S1 (hex_starts_nonsp _ _ _ _ F2)) as (s3 & H1 & X1).
  destruct (hexsp_complete _ _ _ _ _ _ X1 F2 S2 (hex_starts_nonsp _ _ _ _ F3)) as (s4 & H2 & X2).
  destruct (hexsp_complete _ _ _ _ _ _ X2 F3 S3 (proj1 T)) as (s5 & H2b & X2b).
  destruct (name_tail_complete _ _ _ X2b T) as (n & H3 & X3).
  exists n. split; [|exact X3]. unfold p_func, hex64sp, hex32sp. rewrite H0. cbv zeta. rewrite H1, H2, H2b, H3. reflexivity.
Qed.

(* "FUNC m 1000 10 4 f" has the shape of a FUNC record: address 0x1000, size 0x10, parameter size 4, name "f" *)
Lemma func_line_example :
  func_line (expand (to_rle [70; 85; 78; 67; 32; 109; 32; 49; 48; 48; 48; 32; 49; 48; 32; 52; 32; 102])) 4096 16 4 [102].
Proof.
  destruct (func_sound (to_rle [70; 85; 78; 67; 32; 109; 32; 49; 48; 48; 48; 32; 49; 48; 32; 52; 32; 102])
                       (IFunc (mk_fr 4096 16 4 [(102, 1)] [] []))) as (a & sz & ps & n & name & E & Hl & X);
    [vm_compute; reflexivity|].
  inversion E; subst. exact Hl.
Qed.
